import TsV.Model.Visitor
import TsV.Lemmas.Outcome
/-!
# C08 — unsupported constructs are rejected with an error, never silently mis-generated

Parse-level statements.  "Rejected" = the item parser does not return `ok` (it returns an error,
or — for the C07 panic classes — panics); by `Visitor.collectResult` an error becomes an entry of
`ParsedData.errors`, and the CLI aborts before writing when that list is non-empty.
-/
namespace TsV.C08
open TsV TsV.Syn TsV.Parser TsV.RustTypes

mutual
  /-- a type expression containing something typeshare documents as unsupported: a 64-bit integer
  type or a non-empty tuple, at any depth under references, arrays, slices and the type arguments
  of the last path segment -/
  inductive Unsupported : SynType → Prop
    | int64 (quals last args) : unsupported64.contains last = true → Unsupported (.path quals last args)
    | tuple (e es) : Unsupported (.tuple (e :: es))
    | ref (e) : Unsupported e → Unsupported (.reference e)
    | array (e n) : Unsupported e → Unsupported (.array e n)
    | slice (e) : Unsupported e → Unsupported (.slice e)
    | arg (quals last args) : UnsupportedIn args → Unsupported (.path quals last args)
  inductive UnsupportedIn : List SynType → Prop
    | head (t ts) : Unsupported t → UnsupportedIn (t :: ts)
    | tail (t ts) : UnsupportedIn ts → UnsupportedIn (t :: ts)
end

theorem fromPath_unsupported (id : Str) (params : List RustType)
    (h : unsupported64.contains id = true) : (fromPath id params).isOk = false := by
  have hmem : id ∈ unsupported64 := by simpa using h
  simp only [unsupported64, List.mem_cons, List.not_mem_nil, or_false] at hmem
  rcases hmem with rfl | rfl | rfl | rfl <;> simp [fromPath, smartPointers, unsupported64, Outcome.isOk] <;> decide

mutual
  /-- **the recursive type parser rejects unsupported types at any nesting depth** -/
  theorem tryFrom_rejects : ∀ (t : SynType), Unsupported t → (tryFrom t).isOk = false
    | _, .int64 quals last args h => by
      simp only [tryFrom]
      cases tryFromList args with
      | ok ps => simpa using fromPath_unsupported last ps h
      | err e => simp [Outcome.isOk]
      | panic s => simp [Outcome.isOk]
    | _, .tuple e es => by simp [tryFrom, Outcome.isOk]
    | _, .ref e h => by simpa [tryFrom] using tryFrom_rejects e h
    | _, .array e n h => by
      have := tryFrom_rejects e h
      simp only [tryFrom]
      cases hte : tryFrom e with
      | ok t => rw [hte] at this; simp [Outcome.isOk] at this
      | err er => cases n <;> simp [Outcome.isOk]
      | panic s => cases n <;> simp [Outcome.isOk]
    | _, .slice e h => by
      have := tryFrom_rejects e h
      simp only [tryFrom]
      cases hte : tryFrom e with
      | ok t => rw [hte] at this; simp [Outcome.isOk] at this
      | err er => simp [Outcome.isOk]
      | panic s => simp [Outcome.isOk]
    | _, .arg quals last args h => by
      have := tryFromList_rejects args h
      simp only [tryFrom]
      cases hl : tryFromList args with
      | ok ps => rw [hl] at this; simp [Outcome.isOk] at this
      | err e => simp [Outcome.isOk]
      | panic s => simp [Outcome.isOk]
  theorem tryFromList_rejects : ∀ (ts : List SynType), UnsupportedIn ts → (tryFromList ts).isOk = false
    | _, .head t ts h => by
      have := tryFrom_rejects t h
      simp only [tryFromList]
      cases ht : tryFrom t with
      | ok r => rw [ht] at this; simp [Outcome.isOk] at this
      | err e => simp [Outcome.isOk]
      | panic s => simp [Outcome.isOk]
    | _, .tail t ts h => by
      have := tryFromList_rejects ts h
      simp only [tryFromList]
      cases tryFrom t with
      | ok r =>
        cases hl : tryFromList ts with
        | ok rs => rw [hl] at this; simp [Outcome.isOk] at this
        | err e => simp [Outcome.isOk]
        | panic s => simp [Outcome.isOk]
      | err e => simp [Outcome.isOk]
      | panic s => simp [Outcome.isOk]
end

/-- the type a field / payload / alias / const is generated from: the `serialized_as` string if
present (as `syn` parses it), else the written type -/
def effectiveType (E : Ext) (attrs : List Attr) (ty : SynType) : Option SynType :=
  match getSerializedAsType E attrs with
  | some s => E.parseType s
  | none => some ty

/-- unsupported in the effective type — written directly or via `serialized_as` — or a
`serialized_as` string that is not a type at all -/
def BadType (E : Ext) (attrs : List Attr) (ty : SynType) : Prop :=
  match effectiveType E attrs ty with
  | some t => Unsupported t
  | none => True

theorem fieldType_rejects (E : Ext) (attrs : List Attr) (ty : SynType) (h : BadType E attrs ty) :
    (fieldType E attrs ty).isOk = false := by
  unfold BadType effectiveType at h
  unfold fieldType
  cases hs : getSerializedAsType E attrs with
  | none => simp only [hs] at h; exact tryFrom_rejects ty h
  | some s =>
    simp only [hs] at h ⊢
    unfold fromStr
    cases hp : E.parseType s with
    | none => simp [Outcome.isOk]
    | some t => simp only [hp] at h ⊢; exact tryFrom_rejects t h

theorem parseField_rejects (E : Ext) (cf : Bool) (ra : Option Str) (f : Field)
    (h : BadType E f.attrs f.ty ∨ (cf = true ∧ serdeFlatten f.attrs = true)) :
    (parseField E cf ra f).isOk = false := by
  unfold parseField
  rcases h with h | ⟨h1, h2⟩
  · exact Outcome.bind_isOk_false' _ _ (fieldType_rejects E f.attrs f.ty h)
  · apply Outcome.bind_isOk_false_right
    intro ty
    simp [h1, h2, Outcome.isOk]

theorem not_ok_of_mapM' {α β} (f : α → Outcome β) (l : List α) (x : α) (hx : x ∈ l)
    (h : (f x).isOk = false) : (Outcome.mapM' f l).isOk = false := by
  cases hm : Outcome.mapM' f l with
  | ok r =>
    have := Outcome.mapM'_ok_all f l r hm x hx
    rw [h] at this; simp at this
  | err e => simp [Outcome.isOk]
  | panic s => simp [Outcome.isOk]

/-- **structs**: a non-skipped field with an unsupported type (written or via `serialized_as`) or
with `serde(flatten)`, or more than one unnamed field, makes `parse_struct` fail -/
theorem parseStruct_rejects_field (E : Ext) (T : List Str) (attrs : List Attr) (ident : Str)
    (gens : List GenericParam) (fs : List Field) (hsa : getSerializedAsType E attrs = none)
    (f : Field) (hf : f ∈ fs) (hskip : isSkipped f.attrs T = false)
    (hbad : BadType E f.attrs f.ty ∨ serdeFlatten f.attrs = true) :
    (parseStruct E T attrs ident gens (.named fs)).isOk = false := by
  unfold parseStruct
  simp only [hsa]
  have hmem : f ∈ fs.filter (fun f => !isSkipped f.attrs T) := by simp [hf, hskip]
  have hrej : (parseField E true (serdeRenameAll E attrs) f).isOk = false :=
    parseField_rejects E true _ f (hbad.imp (fun x => x) fun h => ⟨rfl, h⟩)
  exact Outcome.bind_isOk_false' _ _ (not_ok_of_mapM' _ _ f hmem hrej)

theorem parseStruct_rejects_tuple (E : Ext) (T : List Str) (attrs : List Attr) (ident : Str)
    (gens : List GenericParam) (fs : List Field) (hsa : getSerializedAsType E attrs = none)
    (h : fs.length > 1 ∨ ∃ f rest, fs = f :: rest ∧ BadType E f.attrs f.ty) :
    (parseStruct E T attrs ident gens (.unnamed fs)).isOk = false := by
  unfold parseStruct
  simp only [hsa]
  by_cases hl : fs.length > 1
  · simp [hl, Outcome.isOk]
  · rcases h with h | ⟨f, rest, rfl, hb⟩
    · exact absurd h hl
    · simp only [hl, if_false]
      exact Outcome.bind_isOk_false' _ _ (fieldType_rejects E f.attrs f.ty hb)

/-- moving the construct under `serde(skip)` / `typeshare(skip)`: a skipped field is never looked at -/
theorem parseStruct_skipped_irrelevant (E : Ext) (T : List Str) (attrs : List Attr) (ident : Str)
    (gens : List GenericParam) (fs : List Field) :
    parseStruct E T attrs ident gens (.named fs) =
      parseStruct E T attrs ident gens (.named (fs.filter fun f => !isSkipped f.attrs T)) := by
  unfold parseStruct
  simp [List.filter_filter]

theorem parseVariant_rejects (E : Ext) (T : List Str) (ra : Option Str) (v : Variant)
    (h : (∃ fs, v.fields = .unnamed fs ∧ (fs.length > 1 ∨ ∃ f rest, fs = f :: rest ∧ BadType E f.attrs f.ty)) ∨
         (∃ fs f, v.fields = .named fs ∧ f ∈ fs ∧ isSkipped f.attrs T = false ∧
            (BadType E f.attrs f.ty ∨ serdeFlatten f.attrs = true))) :
    (parseEnumVariant E T ra v).isOk = false := by
  unfold parseEnumVariant
  apply Outcome.bind_isOk_false_right
  intro id
  rcases h with ⟨fs, hfs, h⟩ | ⟨fs, f, hfs, hf, hskip, hbad⟩
  · simp only [hfs]
    by_cases hl : fs.length > 1
    · simp [hl, Outcome.isOk]
    · rcases h with h | ⟨f, rest, rfl, hb⟩
      · exact absurd h hl
      · simp only [hl, if_false]
        exact Outcome.bind_isOk_false' _ _ (fieldType_rejects E f.attrs f.ty hb)
  · simp only [hfs]
    have hmem : f ∈ fs.filter (fun f => !isSkipped f.attrs T) := by simp [hf, hskip]
    have hrej := parseField_rejects E true (serdeRenameAll E v.attrs) f
      (hbad.imp (fun x => x) fun h => ⟨rfl, h⟩)
    exact Outcome.bind_isOk_false' _ _ (not_ok_of_mapM' _ _ f hmem hrej)

/-- **enums**: an unsupported payload, an unsupported or flattened struct-variant field, or several
payloads in a non-skipped variant make `parse_enum` fail -/
theorem parseEnum_rejects_variant (E : Ext) (T : List Str) (attrs : List Attr) (ident : Str)
    (gens : List GenericParam) (vs : List Variant) (hsa : getSerializedAsType E attrs = none)
    (v : Variant) (hv : v ∈ vs) (hskip : isSkipped v.attrs T = false)
    (h : (∃ fs, v.fields = .unnamed fs ∧ (fs.length > 1 ∨ ∃ f rest, fs = f :: rest ∧ BadType E f.attrs f.ty)) ∨
         (∃ fs f, v.fields = .named fs ∧ f ∈ fs ∧ isSkipped f.attrs T = false ∧
            (BadType E f.attrs f.ty ∨ serdeFlatten f.attrs = true))) :
    (parseEnum E T attrs ident gens vs).isOk = false := by
  unfold parseEnum
  simp only [hsa]
  have hmem : v ∈ vs.filter (fun v => !isSkipped v.attrs T) := by simp [hv, hskip]
  exact Outcome.bind_isOk_false' _ _
    (not_ok_of_mapM' _ _ v hmem (parseVariant_rejects E T (serdeRenameAll E attrs) v h))

/-- **enum shape**: whenever the shape check succeeds, a unit enum carries neither `tag` nor
`content`, and a data-carrying enum carries both -/
theorem enumShape_keys (E : Ext) (attrs : List Attr) (sh e : RustEnum)
    (h : enumShape E attrs sh = .ok (.enum e)) :
    e.variants = sh.variants ∧
    (sh.variants.all variantIsUnit = true → getTagKey E attrs = none ∧ getContentKey E attrs = none ∧ e.keys = sh.keys) ∧
    (sh.variants.all variantIsUnit = false →
      ∃ t c, getTagKey E attrs = some t ∧ getContentKey E attrs = some c ∧ e.keys = some (t, c)) := by
  unfold enumShape at h
  by_cases hall : sh.variants.all variantIsUnit = true
  · simp only [hall, if_true] at h
    cases ht : getTagKey E attrs with
    | some t => simp [ht] at h
    | none =>
      cases hc : getContentKey E attrs with
      | some c => simp [ht, hc] at h
      | none =>
        simp [ht, hc] at h
        subst h
        exact ⟨rfl, fun _ => ⟨rfl, rfl, rfl⟩, fun hf => by simp [hall] at hf⟩
  · simp only [hall, if_false] at h
    cases ht : getTagKey E attrs with
    | none => simp [ht] at h
    | some t =>
      cases hc : getContentKey E attrs with
      | none => simp [ht, hc] at h
      | some c =>
        simp [ht, hc] at h
        subst h
        exact ⟨rfl, fun hf => absurd hf hall, fun _ => ⟨t, c, rfl, rfl, rfl⟩⟩

/-- lifted to `parse_enum`: a data-carrying enum is generated only with both keys, a unit enum
only with neither -/
theorem parseEnum_keys (E : Ext) (T : List Str) (attrs : List Attr) (ident : Str)
    (gens : List GenericParam) (vs : List Variant) (hsa : getSerializedAsType E attrs = none)
    (e : RustEnum) (h : parseEnum E T attrs ident gens vs = .ok (.enum e)) :
    (e.variants.all variantIsUnit = true → getTagKey E attrs = none ∧ getContentKey E attrs = none ∧ e.keys = none) ∧
    (e.variants.all variantIsUnit = false →
      ∃ t c, getTagKey E attrs = some t ∧ getContentKey E attrs = some c ∧ e.keys = some (t, c)) := by
  unfold parseEnum at h
  simp only [hsa] at h
  obtain ⟨rvs, _, h⟩ := (Outcome.bind_eq_ok _ _ _).1 h
  obtain ⟨id, _, h⟩ := (Outcome.bind_eq_ok _ _ _).1 h
  obtain ⟨hv, h1, h2⟩ := enumShape_keys E attrs _ e h
  simp only at hv h1 h2
  rw [hv]
  exact ⟨h1, h2⟩

/-- **consts**: only an initialiser that is exactly an integer literal is accepted — negations,
arithmetic, calls and paths are rejected, not reduced to a literal found inside them -/
theorem parseConst_needs_int (E : Ext) (attrs : List Attr) (ident : Str) (ty : SynType) (init : Option Lit)
    (h : (parseConst E attrs ident ty init).isOk = true) : ∃ v suf, init = some (.int v suf) := by
  unfold parseConst at h
  cases init with
  | none => simp [parseConstExpr, Outcome.isOk] at h
  | some l =>
    cases l with
    | int v suf => exact ⟨v, suf, rfl⟩
    | str s => simp [parseConstExpr, Outcome.isOk] at h
    | other => simp [parseConstExpr, Outcome.isOk] at h

/-- and the value generated is the value written -/
theorem parseConst_value (E : Ext) (attrs : List Attr) (ident : Str) (ty : SynType) (v : Nat) (suf : Str)
    (c : RustConst) (h : parseConst E attrs ident ty (some (.int v suf)) = .ok (.const c)) : c.expr = v := by
  unfold parseConst at h
  obtain ⟨expr, he, h⟩ := (Outcome.bind_eq_ok _ _ _).1 h
  obtain ⟨t, _, h⟩ := (Outcome.bind_eq_ok _ _ _).1 h
  have hv : expr = v := by
    simp only [parseConstExpr] at he
    split at he
    · simpa using he.symm
    · simp at he
  split at h
  · obtain ⟨id, _, h⟩ := (Outcome.bind_eq_ok _ _ _).1 h
    simp at h
    subst h; exact hv
  · simp at h

/-- **aliases and consts** with an unsupported (effective) type are rejected -/
theorem parseTypeAlias_rejects (E : Ext) (attrs : List Attr) (ident : Str) (gens : List GenericParam)
    (ty : SynType) (h : BadType E attrs ty) : (parseTypeAlias E attrs ident gens ty).isOk = false := by
  unfold parseTypeAlias
  exact Outcome.bind_isOk_false' _ _ (fieldType_rejects E attrs ty h)

theorem parseConst_rejects (E : Ext) (attrs : List Attr) (ident : Str) (ty : SynType) (init : Option Lit)
    (h : BadType E attrs ty) : (parseConst E attrs ident ty init).isOk = false := by
  unfold parseConst
  apply Outcome.bind_isOk_false_right
  intro v
  exact Outcome.bind_isOk_false' _ _ (fieldType_rejects E attrs ty h)

/-- **an item that is not `ok` is never silently dropped**: the visitor records exactly one error
for it (or the whole parse panics, see C07) and never adds it to the item lists -/
theorem collectResult_keeps_error (d : ParsedData) (path : Str) (e : ErrKind) :
    Visitor.collectResult d path (.err e) = .ok { d with errors := d.errors ++ [(e, path)] } := rfl

/-! ### the two former exceptions (repaired by `fix:` commits) as kernel-checked regressions -/

def exE : Ext := { U := .ascii, parseType := fun _ => none }

/-- `const X: i32 = -5;` (initialiser is not a literal) is rejected -/
theorem const_negative_rejected :
    (parseConst exE [] s%"X" (.path [] s%"i32" []) none).errKind? = some .rustConstExprInvalid := by decide +kernel

/-- `serde(flatten)` on a struct-variant field is rejected -/
theorem flatten_on_variant_field_rejected :
    (parseEnumVariant exE [] none
      ⟨[], s%"V", .named [⟨[⟨.list [s%"serde"] true [.path [s%"flatten"]]⟩], some s%"f", .path [] s%"u8" []⟩]⟩).isOk = false := by
  decide +kernel

/-! ### non-vacuity -/
example : Unsupported (.path [] s%"Vec" [.path [] s%"Option" [.reference (.path [s%"std"] s%"u64" [])]]) :=
  .arg _ _ _ (.head _ _ (.arg _ _ _ (.head _ _ (.ref _ (.int64 _ _ _ (by decide))))))
example : (tryFrom (.path [] s%"Vec" [.path [] s%"Option" [.reference (.path [s%"std"] s%"u64" [])]])).isErr =
    true := by decide +kernel

end TsV.C08
