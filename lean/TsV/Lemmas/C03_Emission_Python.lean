import TsV.Lemmas.C03_Emission_Common
/-!
# C03, emission clause — Python
-/
namespace TsV.C03E.Py
open TsV TsV.Lang TsV.Lang.Python TsV.C03E

theorem writeItems_threaded (E : Ext) (cfg : Cfg) : ∀ (its : List RustItem) (st : St) (body : Str) (st' : St),
    writeItems E cfg its st = .ok (body, st') →
    ∃ blocks, Threaded (writeItem E cfg) its st blocks st' ∧ body = blocks.flatten
  | [], st, body, st', h => by
    simp [writeItems] at h
    obtain ⟨rfl, rfl⟩ := h
    exact ⟨[], .nil _, rfl⟩
  | it :: its, st, body, st', h => by
    simp only [writeItems] at h
    obtain ⟨⟨a, st1⟩, ha, h⟩ := bindOk h
    obtain ⟨⟨b, st2⟩, hb, h⟩ := bindOk h
    cases h
    obtain ⟨bs, hbs, rfl⟩ := writeItems_threaded E cfg its st1 b st2 hb
    exact ⟨a :: bs, .cons ha hbs, by simp⟩

/-- the blocks come after the doc-string header, the imports / `TypeVar` declarations and the
custom JSON helper functions (all three computed from the final printer state: the state `st1` the
items leave, plus the `datetime` import when the datetime functions are written) -/
theorem generate_blocks (E : Ext) (cfg : Cfg) (d : ParsedData) (st0 : St) (text : Str) (st : St)
    (h : generate E cfg d st0 = .ok (text, st)) :
    ∃ items blocks st1, Pipeline.generateOrder d = some items ∧ Threaded (writeItem E cfg) items st0 blocks st1 ∧
      st = addDatetimeImport st1 ∧
      text = beginFile cfg ++ writeAllImports st ++ writeCustomFns st ++ blocks.flatten := by
  unfold generate at h
  cases ho : Pipeline.generateOrder d with
  | none => simp [ho] at h
  | some items =>
    simp only [ho] at h
    obtain ⟨⟨body, st1⟩, hb, h⟩ := bindOk h
    cases h
    obtain ⟨blocks, hth, rfl⟩ := writeItems_threaded E cfg items st0 body st1 hb
    exact ⟨items, blocks, st1, rfl, hth, rfl, rfl⟩

theorem hashComments_lineStart (n : Nat) (cs : List Str) : LineStart (hashComments n cs) := by
  unfold hashComments
  split
  · exact lineStart_nil
  · exact lineStart_append_right _ (by simp [nl])

theorem nameEnd_bracketSuffix (gs : List Str) {q : Str} (h : NameEnd q) : NameEnd (bracketSuffix gs ++ q) := by
  unfold bracketSuffix
  split
  · simpa using h
  · exact nameEnd_append _ (nameEnd_cons _ (by simp [delims]))

theorem renderClass_defines (c : PyClass) : DefinesHead s%"class " c.name (renderClass c) := by
  unfold renderClass
  simp only [List.append_assoc]
  exact definesHead_r0 _ (nameEnd_cons _ (by simp [delims]))

theorem renderEnumClass_defines (c : PyEnumClass) : DefinesHead s%"class " c.name (renderEnumClass c) := by
  unfold renderEnumClass
  simp only [List.append_assoc]
  exact definesHead_r0 _ (nameEnd_cons _ (by simp [delims]))

theorem renderVariant_defines (v : PyVariant) : DefinesHead s%"class " v.className (renderVariant v) := by
  unfold renderVariant
  simp only [List.append_assoc]
  exact definesHead_r0 _ (nameEnd_cons _ (by simp [delims]))

theorem definesHead_plain {n : Str} (pre post : Str) (h1 : LineStart pre) (h2 : NameEnd post) :
    DefinesHead [] n (pre ++ (n ++ post)) := ⟨pre, post, by simp, h1, h2⟩

theorem renderUnion_aux (u : PyUnion) (tail : Str) (hl : DefinesHead [] u.name (hashComments 0 u.comments ++ tail)) :
    SplitsInto ((u.inner.map fun c => (s%"class ", c.name)) ++ [(s%"class ", u.typesName)] ++
      (u.variants.map fun v => (s%"class ", v.className)) ++ [([], u.name)])
      ((u.inner.flatMap renderClass) ++ s%"class " ++ u.typesName ++ s%"(str, Enum):\n" ++
        Str.intercalate nl (u.tags.map fun m => s%"    " ++ m.name ++ s%" = \"" ++ m.wire ++ s%"\"") ++ nl ++ nl ++
        (u.variants.flatMap renderVariant) ++ hashComments 0 u.comments ++ tail) := by
  have hi : Paired (fun (d : Str × Str) (c : Str) => DefinesHead d.1 d.2 c)
      (u.inner.map fun c => (s%"class ", c.name)) (u.inner.map renderClass) :=
    paired_map (fun (d : Str × Str) (c : Str) => DefinesHead d.1 d.2 c) _ _ u.inner fun c _ => renderClass_defines c
  have hv : Paired (fun (d : Str × Str) (c : Str) => DefinesHead d.1 d.2 c)
      (u.variants.map fun v => (s%"class ", v.className)) (u.variants.map renderVariant) :=
    paired_map (fun (d : Str × Str) (c : Str) => DefinesHead d.1 d.2 c) _ _ u.variants fun v _ => renderVariant_defines v
  let t : Str := s%"class " ++ u.typesName ++ s%"(str, Enum):\n" ++
    Str.intercalate nl (u.tags.map fun m => s%"    " ++ m.name ++ s%" = \"" ++ m.wire ++ s%"\"") ++ nl ++ nl
  have ht : DefinesHead s%"class " u.typesName t := by
    simp only [t, List.append_assoc]
    exact definesHead_r0 _ (nameEnd_cons _ (by simp [delims]))
  have heq : ((u.inner.flatMap renderClass) ++ s%"class " ++ u.typesName ++ s%"(str, Enum):\n" ++
        Str.intercalate nl (u.tags.map fun m => s%"    " ++ m.name ++ s%" = \"" ++ m.wire ++ s%"\"") ++ nl ++ nl ++
        (u.variants.flatMap renderVariant) ++ hashComments 0 u.comments ++ tail) =
      (u.inner.map renderClass).flatten ++ [t].flatten ++ (u.variants.map renderVariant).flatten ++
        (hashComments 0 u.comments ++ tail) := by
    simp only [List.flatMap_def, t, List.flatten_cons, List.flatten_nil, List.append_nil, List.append_assoc]
  rw [heq]
  exact splitsInto_snoc (splitsInto_append (splitsInto_append (splitsInto_chunks hi) ⟨[t], rfl, .cons ht .nil⟩)
    ⟨_, rfl, hv⟩) hl

/-- an algebraic enum: helper classes, the `Types` enumeration, one class per variant, the union -/
theorem renderUnion_splits (u : PyUnion) :
    SplitsInto ((u.inner.map fun c => (s%"class ", c.name)) ++ [(s%"class ", u.typesName)] ++
      (u.variants.map fun v => (s%"class ", v.className)) ++ [([], u.name)]) (renderUnion u) := by
  unfold renderUnion
  split
  · refine renderUnion_aux u _ ?_
    simp only [List.append_assoc]
    exact definesHead_plain _ _ (hashComments_lineStart _ _) (nameEnd_cons _ (by simp [delims]))
  · refine renderUnion_aux u _ ?_
    simp only [List.append_assoc]
    exact definesHead_plain _ _ (hashComments_lineStart _ _) (nameEnd_cons _ (by simp [delims]))

theorem structFacts_name (E : Ext) (cfg : Cfg) (rs : RustStruct) (st st' : St) (d : PyClass)
    (h : structFacts E cfg rs st = .ok (d, st')) : d.name = rs.id.renamed :=
  C09.tie_python_struct E cfg rs st st' d h

theorem innerFacts_names (E : Ext) (cfg : Cfg) (e : RustEnum) :
    ∀ (vs : List (Id × List RustField)) (st st' : St) (cs : List PyClass),
      innerFacts E cfg e vs st = .ok (cs, st') →
      cs.map (·.name) = vs.map fun p => e.id.renamed ++ p.1.original ++ s%"Inner"
  | [], st, st', cs, h => by simp [innerFacts] at h; obtain ⟨rfl, _⟩ := h; rfl
  | (id, fs) :: vs, st, st', cs, h => by
    simp only [innerFacts] at h
    obtain ⟨⟨c, st1⟩, hc, h⟩ := bindOk h
    obtain ⟨⟨cs', st2⟩, hcs, h⟩ := bindOk h
    cases h
    have h1 := structFacts_name E cfg _ _ _ c hc
    simp [innerFacts_names E cfg e vs st1 st2 cs' hcs, h1, anonymousStruct, innerName]

theorem variantFacts_className (E : Ext) (cfg : Cfg) (e : RustEnum) (tag content : Str) (v : RustEnumVariant)
    (st st' : St) (pv : PyVariant) (h : variantFacts E cfg e tag content v st = .ok (pv, st')) :
    pv.className = e.id.renamed ++ v.id.original := by
  unfold variantFacts at h
  cases v with
  | unit i c => cases h; rfl
  | tuple i c ty =>
    obtain ⟨⟨t, st1⟩, _, h⟩ := bindOk h
    cases h; rfl
  | anonymousStruct i c fs => cases h; rfl

theorem variantsFacts_classNames (E : Ext) (cfg : Cfg) (e : RustEnum) (tag content : Str) :
    ∀ (vs : List RustEnumVariant) (st st' : St) (pvs : List PyVariant),
      variantsFacts E cfg e tag content vs st = .ok (pvs, st') →
      pvs.map (·.className) = vs.map fun v => e.id.renamed ++ v.id.original
  | [], st, st', pvs, h => by simp [variantsFacts] at h; obtain ⟨rfl, _⟩ := h; rfl
  | v :: vs, st, st', pvs, h => by
    simp only [variantsFacts] at h
    obtain ⟨⟨pv, st1⟩, hpv, h⟩ := bindOk h
    obtain ⟨⟨rest, st2⟩, hrest, h⟩ := bindOk h
    cases h
    simp [variantFacts_className E cfg e tag content v st st1 pv hpv,
      variantsFacts_classNames E cfg e tag content vs st1 st2 rest hrest]

/-- **the block of an item splits into exactly the definitions `pyDefs` lists** -/
theorem block_defines (E : Ext) (cfg : Cfg) (it : RustItem) (st : St) (b : Str) (st' : St)
    (h : writeItem E cfg it st = .ok (b, st')) : SplitsInto (pyDefs E it) b := by
  cases it with
  | struct s =>
    simp only [writeItem, writeStruct] at h
    obtain ⟨⟨c, st1⟩, hc, h⟩ := bindOk h
    cases h
    have hn := structFacts_name E cfg s st st1 c hc
    simp only [pyDefs, ← hn]
    exact splitsInto_single (renderClass_defines c)
  | alias a =>
    simp only [writeItem, aliasFacts] at h
    obtain ⟨⟨pa, st1⟩, hpa, h⟩ := bindOk h
    cases h
    obtain ⟨⟨ty, st2⟩, _, hpa⟩ := bindOk hpa
    cases hpa
    simp only [pyDefs, renderAlias, List.append_assoc]
    have := definesHead_plain (n := a.id.renamed) [] (s%" = " ++ (ty ++ (s%"\n\n" ++ docstring 0 a.comments)))
      lineStart_nil (nameEnd_cons _ (by simp [delims]))
    rw [List.nil_append] at this
    exact splitsInto_single this
  | const c =>
    simp only [writeItem, constFacts] at h
    obtain ⟨⟨pc, st1⟩, hpc, h⟩ := bindOk h
    cases h
    obtain ⟨⟨ty, st2⟩, _, hpc⟩ := bindOk hpc
    cases hpc
    simp only [pyDefs, renderConst, List.append_assoc]
    have := definesHead_plain (n := E.U.upperStr (Rename.toSnake E.U c.id.renamed)) []
      (s%": " ++ (ty ++ (s%" = " ++ (Str.natToStr c.expr ++ nl)))) lineStart_nil (nameEnd_cons _ (by simp [delims]))
    rw [List.nil_append] at this
    exact splitsInto_single this
  | «enum» e =>
    simp only [writeItem, writeEnum] at h
    cases hk : e.keys with
    | none =>
      simp only [hk] at h
      obtain ⟨⟨inner, st1⟩, hi, h⟩ := bindOk h
      obtain ⟨members, _, h⟩ := bindOk h
      simp only [Outcome.ok.injEq, Prod.mk.injEq] at h
      obtain ⟨rfl, rfl⟩ := h
      have hnames := innerFacts_names E cfg e _ _ _ _ hi
      have hp : Paired (fun (d : Str × Str) (c : Str) => DefinesHead d.1 d.2 c)
          (inner.map fun c => (s%"class ", c.name)) (inner.map renderClass) :=
        paired_map (fun (d : Str × Str) (c : Str) => DefinesHead d.1 d.2 c) _ _ inner fun c _ => renderClass_defines c
      have hdefs : pyDefs E (.enum e) = (inner.map fun c => (s%"class ", c.name)) ++ [(s%"class ", e.id.renamed)] := by
        have : (inner.map fun c => (s%"class ", c.name)) = (inner.map (·.name)).map fun n => (s%"class ", n) := by simp
        rw [this, hnames]
        simp [pyDefs, hk, structVariantsOf_eq]
      rw [hdefs, List.flatMap_def]
      exact splitsInto_snoc (splitsInto_chunks hp)
        (renderEnumClass_defines ⟨e.id.renamed, e.comments, members⟩)
    | some kc =>
      obtain ⟨tag, content⟩ := kc
      simp only [hk] at h
      obtain ⟨⟨u, st1⟩, hu, h⟩ := bindOk h
      simp only [Outcome.ok.injEq, Prod.mk.injEq] at h
      obtain ⟨rfl, rfl⟩ := h
      unfold unionFacts at hu
      obtain ⟨⟨inner, st2⟩, hi, hu⟩ := bindOk hu
      obtain ⟨⟨variants, st3⟩, hv, hu⟩ := bindOk hu
      injection hu with hu
      injection hu with hU hst
      have hnames := innerFacts_names E cfg e _ _ _ _ hi
      have hcn := variantsFacts_classNames E cfg e tag content _ _ _ _ hv
      have h1 : u.inner = inner := by rw [← hU]
      have h2 : u.typesName = e.id.renamed ++ s%"Types" := by rw [← hU]
      have h3 : u.variants = variants := by rw [← hU]
      have h4 : u.name = e.id.renamed := by rw [← hU]
      have hdefs : pyDefs E (.enum e) = (u.inner.map fun c => (s%"class ", c.name)) ++ [(s%"class ", u.typesName)] ++
          (u.variants.map fun v => (s%"class ", v.className)) ++ [([], u.name)] := by
        have e1 : (u.inner.map fun c => (s%"class ", c.name)) = (inner.map (·.name)).map fun n => (s%"class ", n) := by
          simp [h1]
        have e2 : (u.variants.map fun v => (s%"class ", v.className)) =
            (variants.map (·.className)).map fun n => (s%"class ", n) := by simp [h3]
        rw [e1, e2, hnames, hcn, h2, h4]
        simp [pyDefs, hk, structVariantsOf_eq, Function.comp_def]
      rw [hdefs]
      exact renderUnion_splits u

theorem generateAll_single (E : Ext) (cfg : Cfg) (mf : Bool) (c : Str) (d : ParsedData)
    (imps : Option Pipeline.ScopedCrateTypes) :
    generateAll E cfg mf [(c, d, imps)] = (generate E cfg d {}).bind fun r => .ok [(c, r.1)] := by
  simp only [generateAll, generateFrom]
  generalize generate E cfg d {} = g
  cases g <;> rfl

theorem generateAll_nil (E : Ext) (cfg : Cfg) (mf : Bool) : generateAll E cfg mf [] = .ok [] := rfl

end TsV.C03E.Py
