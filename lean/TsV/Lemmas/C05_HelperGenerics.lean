import TsV.Lemmas.C09_HelperParams_Tie
import TsV.Lemmas.C03_Emission_Kotlin
import TsV.Lemmas.C03_Emission_Swift
import TsV.Lemmas.C03_Emission_Scala
namespace TsV.C05_HelperGenerics
open TsV TsV.Lang TsV.C09 TsV.C09_HelperParams

theorem idxOf_cons_ne {α} [BEq α] [LawfulBEq α] {x b : α} (h : x ≠ b) (t : List α) :
    (x :: t).idxOf b = t.idxOf b + 1 := by
  rw [List.idxOf_cons, beq_eq_false_iff_ne.2 h]; rfl

theorem idxOf_cons_self' {α} [BEq α] [LawfulBEq α] (x : α) (t : List α) : (x :: t).idxOf x = 0 := by
  rw [List.idxOf_cons, beq_self_eq_true]; rfl

theorem idxOf_filter_lt {α} [BEq α] [LawfulBEq α] (p : α → Bool) {b c : α} (hb : p b = true) (hc : p c = true) :
    ∀ l : List α, (l.filter p).idxOf b < (l.filter p).idxOf c ↔ l.idxOf b < l.idxOf c
  | [] => by simp
  | x :: t => by
    have ih := idxOf_filter_lt p hb hc t
    by_cases hx : p x = true
    · rw [List.filter_cons_of_pos hx]
      by_cases h1 : x = b <;> by_cases h2 : x = c
      · subst h1; subst h2; simp
      · subst h1; simp [idxOf_cons_ne h2]
      · subst h2; simp [idxOf_cons_ne h1]
      · simp [idxOf_cons_ne h1, idxOf_cons_ne h2, ih]
    · rw [List.filter_cons_of_neg hx]
      have h1 : x ≠ b := fun h => hx (h ▸ hb)
      have h2 : x ≠ c := fun h => hx (h ▸ hc)
      simp [idxOf_cons_ne h1, idxOf_cons_ne h2, ih]

theorem eraseDups_pairwise_aux {α} [BEq α] [LawfulBEq α] : ∀ (n : Nat) (l : List α), l.length ≤ n →
    l.eraseDups.Pairwise (fun a b => l.idxOf a < l.idxOf b)
  | _, [], _ => by simp
  | 0, a :: as, h => by simp at h
  | n+1, a :: as, h => by
    rw [List.eraseDups_cons, List.pairwise_cons]
    have hlen : (as.filter fun b => !b == a).length ≤ n :=
      Nat.le_trans (List.length_filter_le _ _) (by simpa using h)
    constructor
    · intro b hb
      rw [List.mem_eraseDups, List.mem_filter] at hb
      have : a ≠ b := fun h => by simp [h] at hb
      simp [idxOf_cons_ne this]
    · refine (eraseDups_pairwise_aux n _ hlen).imp_of_mem ?_
      intro b c hb hc hlt
      rw [List.mem_eraseDups, List.mem_filter] at hb hc
      have hb' : a ≠ b := fun h => by simp [h] at hb
      have hc' : a ≠ c := fun h => by simp [h] at hc
      rw [idxOf_filter_lt (fun b => !b == a) hb.2 hc.2] at hlt
      simp [idxOf_cons_ne hb', idxOf_cons_ne hc', hlt]

theorem eraseDups_pairwise {α} [BEq α] [LawfulBEq α] (l : List α) :
    l.eraseDups.Pairwise (fun a b => l.idxOf a < l.idxOf b) := eraseDups_pairwise_aux _ l (Nat.le_refl _)

/-- two lists sorted strictly by the same asymmetric relation and with the same members are equal -/
theorem pairwise_unique {α} {r : α → α → Prop} (hirr : ∀ a, ¬ r a a) (hasym : ∀ a b, r a b → ¬ r b a) :
    ∀ (l1 l2 : List α), l1.Pairwise r → l2.Pairwise r → (∀ x, x ∈ l1 ↔ x ∈ l2) → l1 = l2
  | [], [], _, _, _ => rfl
  | [], b :: _, _, _, h => by have := (h b).2 (by simp); simp at this
  | a :: _, [], _, _, h => by have := (h a).1 (by simp); simp at this
  | a :: t1, b :: t2, h1, h2, h => by
    rw [List.pairwise_cons] at h1 h2
    have hab : a = b := by
      by_cases hab : a = b
      · exact hab
      · exfalso
        have ha : a ∈ t2 := by
          have := (h a).1 (by simp)
          rcases List.mem_cons.1 this with e | e
          · exact absurd e hab
          · exact e
        have hb : b ∈ t1 := by
          have := (h b).2 (by simp)
          rcases List.mem_cons.1 this with e | e
          · exact absurd e.symm hab
          · exact e
        exact hasym _ _ (h1.1 b hb) (h2.1 a ha)
    subst hab
    congr 1
    apply pairwise_unique hirr hasym t1 t2 h1.2 h2.2
    intro x
    have hx := h x
    simp only [List.mem_cons] at hx
    constructor
    · intro hx1
      rcases hx.1 (.inr hx1) with e | e
      · subst e; exact absurd (h1.1 x hx1) (hirr x)
      · exact e
    · intro hx2
      rcases hx.2 (.inr hx2) with e | e
      · subst e; exact absurd (h2.1 x hx2) (hirr x)
      · exact e


/-! ## the order of the helper's parameter list -/

/-- the index of the first field whose type mentions `g` (`fs.length` if none does) -/
def firstMention (fs : List RustField) (g : Str) : Nat := fs.findIdx fun f => f.ty.containsType g

/-- `g` comes before `g'`: it is first mentioned by an earlier field, or by the same field and it
stands earlier in the enum's own parameter list -/
def Before (e : RustEnum) (fs : List RustField) (g g' : Str) : Prop :=
  firstMention fs g < firstMention fs g' ∨
    (firstMention fs g = firstMention fs g' ∧ e.genericTypes.idxOf g < e.genericTypes.idxOf g')

instance (e : RustEnum) (fs : List RustField) (g g' : Str) : Decidable (Before e fs g g') := by
  unfold Before; infer_instance

theorem before_irrefl (e : RustEnum) (fs : List RustField) (g : Str) : ¬ Before e fs g g := by
  unfold Before; omega

theorem before_asymm (e : RustEnum) (fs : List RustField) (g g' : Str) : Before e fs g g' → ¬ Before e fs g' g := by
  unfold Before; omega

theorem firstMention_cons_pos {f : RustField} {g : Str} (h : f.ty.containsType g = true) (fs : List RustField) :
    firstMention (f :: fs) g = 0 := by
  simp [firstMention, List.findIdx_cons, h]

theorem firstMention_cons_neg {f : RustField} {g : Str} (h : f.ty.containsType g = false) (fs : List RustField) :
    firstMention (f :: fs) g = firstMention fs g + 1 := by
  simp [firstMention, List.findIdx_cons, h]

/-- **the helper's list is sorted by (first mentioning field, position in the enum's list)** -/
theorem helperGens_sorted (e : RustEnum) : ∀ fs : List RustField, (helperGens e fs).Pairwise (Before e fs)
  | [] => by simp [helperGens_nil]
  | f :: fs => by
    rw [helperGens_cons, List.pairwise_append]
    refine ⟨?_, ?_, ?_⟩
    · rw [eraseDups_filter]
      refine ((eraseDups_pairwise e.genericTypes).filter _).imp_of_mem ?_
      intro a b ha hb hlt
      rw [List.mem_filter] at ha hb
      exact .inr ⟨by rw [firstMention_cons_pos ha.2, firstMention_cons_pos hb.2], hlt⟩
    · refine ((helperGens_sorted e fs).filter _).imp_of_mem ?_
      intro a b ha hb hlt
      rw [List.mem_filter] at ha hb
      have ha' : f.ty.containsType a = false := by simpa using ha.2
      have hb' : f.ty.containsType b = false := by simpa using hb.2
      unfold Before at hlt ⊢
      rw [firstMention_cons_neg ha', firstMention_cons_neg hb']
      omega
    · intro a ha b hb
      rw [List.mem_eraseDups, List.mem_filter] at ha
      rw [List.mem_filter] at hb
      have hb' : f.ty.containsType b = false := by simpa using hb.2
      left
      rw [firstMention_cons_pos ha.2, firstMention_cons_neg hb']
      omega

/-- … and it is the only such list with these members -/
theorem helperGens_unique (e : RustEnum) (fs : List RustField) (L : List Str) (hs : L.Pairwise (Before e fs))
    (hm : ∀ g, g ∈ L ↔ g ∈ helperGens e fs) : L = helperGens e fs :=
  pairwise_unique (before_irrefl e fs) (before_asymm e fs) L _ hs (helperGens_sorted e fs) hm

/-! ## the two sites: what a declaration declares, what a reference applies -/

/-- the struct variants among a list of variants, in order -/
def svOf (vs : List RustEnumVariant) : List (Id × List RustField) :=
  vs.filterMap fun v => match v with
    | .anonymousStruct id _ fs => some (id, fs)
    | _ => none

theorem structVariants_eq (e : RustEnum) : structVariants e = svOf e.variants := rfl

theorem infix_of_eq {s t : Str} (pre post : Str) (h : t = pre ++ s ++ post) : s <:+: t := ⟨pre, post, h.symm⟩

theorem infix_flatMap {α} (f : α → Str) {l : List α} {x : α} (hx : x ∈ l) {s : Str} (h : s <:+: f x) :
    s <:+: l.flatMap f := by
  obtain ⟨l1, l2, rfl⟩ := List.append_of_mem hx
  obtain ⟨p, q, hpq⟩ := h
  refine ⟨l1.flatMap f ++ p, q ++ l2.flatMap f, ?_⟩
  simp [List.flatMap_append, ← hpq]

theorem map_pair_of_maps {α β γ δ} {f : α → γ} {g : α → δ} {f' : β → γ} {g' : β → δ} :
    ∀ {l : List α} {l' : List β}, l.map f = l'.map f' → l.map g = l'.map g' →
      l.map (fun x => (f x, g x)) = l'.map (fun x => (f' x, g' x))
  | [], [], _, _ => rfl
  | [], _ :: _, h, _ => by simp at h
  | _ :: _, [], h, _ => by simp at h
  | a :: l, b :: l', h1, h2 => by
    simp only [List.map_cons, List.cons.injEq] at h1 h2 ⊢
    exact ⟨by rw [h1.1, h2.1], map_pair_of_maps h1.2 h2.2⟩

namespace Kt
open Kotlin

/-- **binding semantics (trusted)**: the type name and the generic parameter clause a Kotlin
declaration declares -/
def declares (d : KtDecl) : Str × Str := (ktName d, ktGenerics d)

/-- **binding semantics (trusted)**: the helper type and the type-argument clause the case of a sealed
class applies it to (`val <key>: <name><args>`) -/
def applies (k : KtCase) : Option (Str × Str) :=
  match k.payload with
  | .inner _ n g => some (n, g)
  | _ => none

theorem structFacts_declares (c : Cfg) (e : RustEnum) (n v : Str) (fs : List RustField) (d : KtDecl)
    (h : structFacts c (anonymousStruct e n v fs) = .ok d) :
    declares d = (c.pfx ++ n, genericSuffix (helperGens e fs)) := by
  rw [kotlin_helper_facts] at h
  split at h
  · rename_i hfs
    cases h
    have : fs = [] := by simpa using hfs
    subst this
    rfl
  · obtain ⟨ps, _, h⟩ := bindOk h
    cases h; rfl

theorem structsFacts_declares (c : Cfg) (e : RustEnum) :
    ∀ (vs : List (Id × List RustField)) (ds : List KtDecl),
      structsFacts c (vs.map fun p => anonymousStruct e (e.id.renamed ++ p.1.original ++ s%"Inner") p.1.original p.2)
        = .ok ds →
      ds.map declares = vs.map fun p =>
        (c.pfx ++ (e.id.renamed ++ p.1.original ++ s%"Inner"), genericSuffix (helperGens e p.2))
  | [], ds, h => by simp [structsFacts] at h; subst h; rfl
  | p :: vs, ds, h => by
    simp only [List.map_cons, structsFacts] at h
    obtain ⟨d, hd, h⟩ := bindOk h
    obtain ⟨ds', hds, h⟩ := bindOk h
    cases h
    simp [structFacts_declares c e _ _ _ d hd, structsFacts_declares c e vs ds' hds]

theorem casesFacts_applies (c : Cfg) (e : RustEnum) (key : Str) :
    ∀ (vs : List RustEnumVariant) (ks : List KtCase), casesFacts c e key vs = .ok ks →
      ks.filterMap applies = (svOf vs).map fun p =>
        (c.pfx ++ e.id.renamed ++ p.1.original ++ s%"Inner", genericSuffix (helperGens e p.2))
  | [], ks, h => by simp [casesFacts] at h; subst h; rfl
  | v :: vs, ks, h => by
    simp only [casesFacts] at h
    obtain ⟨k, hk, h⟩ := bindOk h
    obtain ⟨ks', hks, h⟩ := bindOk h
    cases h
    have ih := casesFacts_applies c e key vs ks' hks
    cases v with
    | unit id cs =>
      simp only [caseFacts] at hk; cases hk
      simp only [svOf, applies, List.filterMap_cons] at ih ⊢
      exact ih
    | tuple id cs ty =>
      simp only [caseFacts] at hk
      obtain ⟨t, _, hk⟩ := bindOk hk
      cases hk
      simp only [svOf, applies, List.filterMap_cons] at ih ⊢
      exact ih
    | anonymousStruct id cs fs =>
      simp only [caseFacts] at hk; cases hk
      simp only [svOf, applies, List.filterMap_cons, List.map_cons] at ih ⊢
      rw [ih]; rfl

/-- what both sites of the helper of each struct variant have to carry: the helper's name and the
generic clause of `helperGens`, one entry per struct variant, in order -/
def sites (pfx : Str) (e : RustEnum) : List (Str × Str) :=
  (structVariants e).map fun p =>
    (pfx ++ e.id.renamed ++ p.1.original ++ s%"Inner", genericSuffix (helperGens e p.2))

theorem enumFacts_sites (c : Cfg) (e : RustEnum) (kc : Str × Str) (hk : e.keys = some kc) (ds : List KtDecl)
    (h : enumFacts c e = .ok ds) :
    ∃ inners cases, ds = inners ++ [.sealedClass e.comments (c.pfx ++ e.id.renamed) (genericSuffix e.genericTypes) cases] ∧
      inners.map declares = sites c.pfx e ∧ cases.filterMap applies = sites c.pfx e ∧
      inners.map C03E.Kt.ktKw = (structVariants e).map fun p => C03E.ktStructKw p.2 := by
  unfold enumFacts at h
  obtain ⟨inners, hi, h⟩ := bindOk h
  simp only [hk] at h
  obtain ⟨cases', hc, h⟩ := bindOk h
  cases h
  refine ⟨inners, cases', rfl, ?_, ?_, ?_⟩
  · have := structsFacts_declares c e (structVariants e) inners (by simpa [innerStructs] using hi)
    simpa [sites, List.append_assoc] using this
  · simpa [sites, structVariants_eq] using casesFacts_applies c e kc.2 e.variants cases' hc
  · have := (C03E.Kt.structsFacts_heads c _ _ hi).1
    have h2 := congrArg (List.map Prod.fst) this
    simpa [C03E.Kt.headOf, innerStructs, anonymousStruct, Function.comp_def] using h2

/-- the text of a declaration carries keyword, name and generic clause, adjacent, in this order -/
theorem renderDecl_declares (d : KtDecl) :
    (C03E.Kt.ktKw d ++ (declares d).1 ++ (declares d).2) <:+: renderDecl d := by
  cases d with
  | typeAlias cs name gens ty =>
    exact infix_of_eq (comments 0 cs) (s%" = " ++ ty ++ s%"\n\n")
      (by simp [renderDecl, C03E.Kt.ktKw, declares, ktName, ktGenerics, List.append_assoc])
  | valueClass cs name p red =>
    exact infix_of_eq (comments 0 cs ++ s%"@Serializable\n@JvmInline\n")
      (s%"(\n" ++ (renderParam p ++ nl ++ (if red then
        s%") {\n\tfun unwrap() = value\n\n\toverride fun toString(): String = \"***\"\n}\n" else s%")\n") ++ nl))
      (by simp [renderDecl, C03E.Kt.ktKw, declares, ktName, ktGenerics, List.append_assoc])
  | object cs name =>
    exact infix_of_eq (comments 0 cs ++ s%"@Serializable\n") s%"\n\n"
      (by simp [renderDecl, C03E.Kt.ktKw, declares, ktName, ktGenerics, List.append_assoc])
  | dataClass cs name gens ps red =>
    exact infix_of_eq (comments 0 cs ++ s%"@Serializable\n")
      (s%" (\n" ++ (renderParams ps ++ ((match red with
        | some s => s%") {\n\toverride fun toString(): String = " ++ debugStr s ++ s%"\n}\n"
        | none => s%")\n") ++ nl)))
      (by cases red <;> simp [renderDecl, C03E.Kt.ktKw, declares, ktName, ktGenerics, List.append_assoc])
  | enumClass cs name gens entries =>
    exact infix_of_eq (comments 0 cs ++ s%"@Serializable\n")
      (s%"(val string: String) " ++ (s%"{\n" ++ (entries.flatMap renderEntry ++ s%"}\n\n")))
      (by simp [renderDecl, C03E.Kt.ktKw, declares, ktName, ktGenerics, List.append_assoc])
  | sealedClass cs name gens cases =>
    exact infix_of_eq (comments 0 cs ++ s%"@Serializable\n")
      (s%" " ++ (s%"{\n" ++ (cases.flatMap renderCase ++ s%"}\n\n")))
      (by simp [renderDecl, C03E.Kt.ktKw, declares, ktName, ktGenerics, List.append_assoc])

/-- the text of a case carries `: <helper><args>)` — the type of its one constructor parameter -/
theorem renderCase_applies (k : KtCase) (n g : Str) (h : applies k = some (n, g)) :
    (s%": " ++ n ++ g ++ s%")") <:+: renderCase k := by
  unfold applies at h
  cases hp : k.payload with
  | object => simp [hp] at h
  | content key ty => simp [hp] at h
  | inner key n' g' =>
    simp only [hp, Option.some.injEq, Prod.mk.injEq] at h
    obtain ⟨rfl, rfl⟩ := h
    exact infix_of_eq (comments 1 k.comments ++ s%"\t@Serializable\n" ++ s%"\t@SerialName(\"" ++ k.serialName ++ s%"\")\n" ++
        s%"\tdata class " ++ k.name ++ k.generics ++ s%"(" ++ s%"val " ++ key)
      (s%": " ++ k.parent ++ k.parentGenerics ++ s%"()\n")
      (by simp [renderCase, hp, List.append_assoc])

/-- **both sites in the text of the enum's block**: for every struct variant the block contains the
helper's declaration head `<keyword><name><params>` and the use `: <name><args>)` with the same
`<name>` and the same clause -/
theorem block_sites (c : Cfg) (e : RustEnum) (kc : Str × Str) (hk : e.keys = some kc) (b : Str)
    (h : C03E.Kt.writeItem c (.enum e) = .ok b) :
    ∀ p ∈ structVariants e,
      (C03E.ktStructKw p.2 ++ (c.pfx ++ e.id.renamed ++ p.1.original ++ s%"Inner") ++
          genericSuffix (helperGens e p.2)) <:+: b ∧
      (s%": " ++ (c.pfx ++ e.id.renamed ++ p.1.original ++ s%"Inner") ++ genericSuffix (helperGens e p.2) ++ s%")") <:+: b := by
  intro p hp
  unfold C03E.Kt.writeItem at h
  obtain ⟨ds, hd, h⟩ := bindOk h
  cases h
  obtain ⟨inners, cases', rfl, h1, h2, h3⟩ := enumFacts_sites c e kc hk ds hd
  constructor
  · have hz := map_pair_of_maps h3 h1
    have hm : (C03E.ktStructKw p.2, (c.pfx ++ e.id.renamed ++ p.1.original ++ s%"Inner", genericSuffix (helperGens e p.2))) ∈
        inners.map (fun d => (C03E.Kt.ktKw d, declares d)) := by
      rw [hz]; exact List.mem_map.2 ⟨p, hp, rfl⟩
    obtain ⟨d, hdm, hde⟩ := List.mem_map.1 hm
    simp only [Prod.mk.injEq] at hde
    have := renderDecl_declares d
    rw [hde.1, hde.2] at this
    exact infix_flatMap _ (List.mem_append_left _ hdm) this
  · have hm : (c.pfx ++ e.id.renamed ++ p.1.original ++ s%"Inner", genericSuffix (helperGens e p.2)) ∈
        cases'.filterMap applies := by
      rw [h2]; exact List.mem_map.2 ⟨p, hp, rfl⟩
    obtain ⟨k, hkm, hka⟩ := List.mem_filterMap.1 hm
    have h1 := infix_flatMap renderCase hkm (renderCase_applies k _ _ hka)
    refine infix_flatMap renderDecl (x := .sealedClass e.comments (c.pfx ++ e.id.renamed) (genericSuffix e.genericTypes) cases')
      (by simp) (h1.trans ?_)
    exact infix_of_eq (comments 0 e.comments ++ s%"@Serializable\n" ++ s%"sealed class " ++ (c.pfx ++ e.id.renamed) ++
      genericSuffix e.genericTypes ++ s%" " ++ s%"{\n") s%"}\n\n" (by simp [renderDecl, List.append_assoc])

end Kt

namespace Sw
open Swift

/-- **binding semantics (trusted)**: the type name and the generic parameters (each with its
constraints) a Swift struct declares -/
def declares (s : SwiftStruct) : Str × List Str := (s.name, s.generics.map (·.name))

/-- **binding semantics (trusted)**: the associated-value type of the case generated for a *struct*
variant (the reference to the helper with its type arguments); `none` for the other variants -/
def applies (v : RustEnumVariant) (k : EnumCase) : Option Str :=
  match v with
  | .anonymousStruct _ _ _ => k.payload.map (·.ty)
  | _ => none

/-- no Swift keyword ends in `Inner`: the helper's name is never put between back-ticks -/
theorem kw_inner (x : Str) : kw (x ++ s%"Inner") = x ++ s%"Inner" := by
  unfold kw
  split
  · rename_i h
    exfalso
    have hall : keywords.all (fun k => k.reverse.take 5 != s%"rennI") = true := by decide
    rw [List.all_eq_true] at hall
    have := hall _ (List.contains_iff_mem.1 h)
    simp at this
  · rfl

theorem structFacts_declares (U : UnicodeOps) (c : Cfg) (e : RustEnum) (n v : Str) (fs : List RustField)
    (st st' : St) (d : SwiftStruct) (h : structFacts U c (anonymousStruct e n v fs) st = .ok (d, st')) :
    d.name = kw (c.pfx ++ n) ∧ d.generics = genericParams U c e.decorators (helperGens e fs) := by
  rw [swift_helper_facts] at h
  obtain ⟨⟨props, st1⟩, _, h⟩ := bindOk h
  obtain ⟨⟨params, st2⟩, _, h⟩ := bindOk h
  cases h
  exact ⟨rfl, rfl⟩

theorem anonymousStructs_declares (U : UnicodeOps) (c : Cfg) (e : RustEnum) :
    ∀ (vs : List (Id × List RustField)) (st st' : St) (ds : List SwiftStruct),
      anonymousStructs U c e vs st = .ok (ds, st') →
      ds.map (fun d => (d.name, d.generics)) = vs.map fun p =>
        (c.pfx ++ anonymousStructName e p.1.original, genericParams U c e.decorators (helperGens e p.2))
  | [], st, st', ds, h => by simp [anonymousStructs] at h; obtain ⟨rfl, _⟩ := h; rfl
  | (id, fs) :: vs, st, st', ds, h => by
    simp only [anonymousStructs] at h
    obtain ⟨⟨d, st1⟩, hd, h⟩ := bindOk h
    obtain ⟨⟨ds', st2⟩, hds, h⟩ := bindOk h
    cases h
    obtain ⟨h1, h2⟩ := structFacts_declares U c e _ _ _ _ _ d hd
    have h3 : d.name = c.pfx ++ anonymousStructName e id.original := by
      rw [h1, anonymousStructName, ← List.append_assoc, ← List.append_assoc, kw_inner]
    simp [h3, h2, anonymousStructs_declares U c e vs st1 st2 ds' hds]

theorem algebraicCases_applies {U : UnicodeOps} (c : Cfg) (e : RustEnum) :
    ∀ (vs : List RustEnumVariant) (st st' : St) (ks : List EnumCase), algebraicCases U c e vs st = .ok (ks, st') →
      (vs.zip ks).filterMap (fun q => applies q.1 q.2) = (svOf vs).map fun p =>
        c.pfx ++ anonymousStructName e p.1.original ++ genericSuffix (helperGens e p.2)
  | [], st, st', ks, h => by simp [algebraicCases] at h; obtain ⟨rfl, _⟩ := h; rfl
  | v :: vs, st, st', ks, h => by
    simp only [algebraicCases] at h
    obtain ⟨⟨k, st1⟩, hk, h⟩ := bindOk h
    obtain ⟨⟨ks', st2⟩, hks, h⟩ := bindOk h
    cases h
    have ih := algebraicCases_applies c e vs st1 st2 ks' hks
    cases v with
    | unit id cs =>
      simp only [svOf, applies, List.zip_cons_cons, List.filterMap_cons] at ih ⊢
      exact ih
    | tuple id cs ty =>
      simp only [svOf, applies, List.zip_cons_cons, List.filterMap_cons] at ih ⊢
      exact ih
    | anonymousStruct id cs fs =>
      simp only [algebraicCase] at hk; cases hk
      simp only [svOf, applies, List.zip_cons_cons, List.filterMap_cons, List.map_cons, Option.map_some] at ih ⊢
      rw [ih]; rfl

theorem enumFacts_sites (U : UnicodeOps) (c : Cfg) (e : RustEnum) (kc : Str × Str) (hk : e.keys = some kc)
    (st st' : St) (ss : List SwiftStruct) (d : SwiftEnum) (h : enumFacts U c e st = .ok (ss, d, st')) :
    ss.map (fun s => (s.name, s.generics)) = (structVariants e).map (fun p =>
      (c.pfx ++ anonymousStructName e p.1.original, genericParams U c e.decorators (helperGens e p.2))) ∧
    (e.variants.zip d.cases).filterMap (fun q => applies q.1 q.2) = (structVariants e).map (fun p =>
      c.pfx ++ anonymousStructName e p.1.original ++ genericSuffix (helperGens e p.2)) ∧
    ∃ a, d.codable = some a := by
  unfold enumFacts at h
  obtain ⟨⟨structs, st1⟩, hs, h⟩ := bindOk h
  simp only [hk] at h
  obtain ⟨⟨cases', st2⟩, hc, h⟩ := bindOk h
  cases h
  exact ⟨anonymousStructs_declares U c e _ _ _ _ hs, algebraicCases_applies c e _ _ _ _ hc, _, rfl⟩

/-- the text of a struct declaration: `public struct <name><clause>: ` -/
theorem renderStruct_declares (U : UnicodeOps) (s : SwiftStruct) :
    (s%"public struct " ++ s.name ++ renderGenericClause s.generics ++ s%": ") <:+: renderStruct U s :=
  infix_of_eq (nl ++ comments U 0 s.comments)
    (Str.intercalate s%", " s.conformances ++ s%" {\n" ++
      s.props.flatMap (renderProp U) ++
      (if s.explicitCodingKeys then renderCodingKeys s.codingKeys else []) ++
      (if s.props.isEmpty then [] else nl) ++
      s%"\tpublic init(" ++ Str.intercalate s%", " (s.initParams.map renderInitParam) ++ s%") {" ++
      s.initAssigns.flatMap renderInitAssign ++
      (if s.props.isEmpty then [] else s%"\n\t") ++ s%"}\n" ++ s%"}\n")
    (by simp [renderStruct, List.append_assoc])

/-- the text of a case with an associated value: `(<type>)` ends the line -/
theorem renderAlgebraicCase_applies (U : UnicodeOps) (k : EnumCase) (p : Payload) (h : k.payload = some p) :
    (s%"(" ++ p.ty ++ s%")\n") <:+: renderAlgebraicCase U k :=
  infix_of_eq (comments U 1 k.comments ++ s%"\tcase " ++ k.printedName) []
    (by simp [renderAlgebraicCase, h, nl, List.append_assoc])

/-- **both sites in the text of the enum's block** -/
theorem block_sites (U : UnicodeOps) (c : Cfg) (e : RustEnum) (kc : Str × Str) (hk : e.keys = some kc) (st st' : St)
    (b : Str) (h : writeItem U c (.enum e) st = .ok (b, st')) :
    ∀ p ∈ structVariants e,
      (s%"public struct " ++ (c.pfx ++ anonymousStructName e p.1.original) ++
          renderGenericClause (genericParams U c e.decorators (helperGens e p.2)) ++ s%": ") <:+: b ∧
      (s%"(" ++ (c.pfx ++ anonymousStructName e p.1.original ++ genericSuffix (helperGens e p.2)) ++ s%")\n") <:+: b := by
  intro p hp
  simp only [writeItem, writeEnum] at h
  obtain ⟨⟨ss, d, st1⟩, hf, h⟩ := bindOk h
  cases h
  obtain ⟨h1, h2, a, ha⟩ := enumFacts_sites U c e kc hk st st1 ss d hf
  constructor
  · have hm : (c.pfx ++ anonymousStructName e p.1.original, genericParams U c e.decorators (helperGens e p.2)) ∈
        ss.map (fun s => (s.name, s.generics)) := by
      rw [h1]; exact List.mem_map.2 ⟨p, hp, rfl⟩
    obtain ⟨s, hsm, hse⟩ := List.mem_map.1 hm
    simp only [Prod.mk.injEq] at hse
    have := renderStruct_declares U s
    rw [hse.1, hse.2] at this
    exact (infix_flatMap (renderStruct U) hsm this).trans (infix_of_eq nl (renderEnum U d) (by simp [List.append_assoc]))
  · have hm : (c.pfx ++ anonymousStructName e p.1.original ++ genericSuffix (helperGens e p.2)) ∈
        (e.variants.zip d.cases).filterMap (fun q => applies q.1 q.2) := by
      rw [h2]; exact List.mem_map.2 ⟨p, hp, rfl⟩
    obtain ⟨⟨v, k⟩, hzm, hka⟩ := List.mem_filterMap.1 hm
    have hkm : k ∈ d.cases := (List.of_mem_zip hzm).2
    have hpl : ∃ pl, k.payload = some pl ∧ pl.ty = c.pfx ++ anonymousStructName e p.1.original ++ genericSuffix (helperGens e p.2) := by
      unfold applies at hka
      cases v <;> simp at hka
      obtain ⟨pl, h1, h2⟩ := hka
      exact ⟨pl, h1, by rw [h2, List.append_assoc]⟩
    obtain ⟨pl, hpl, hty⟩ := hpl
    have h3 := renderAlgebraicCase_applies U k pl hpl
    rw [hty] at h3
    have h4 := infix_flatMap (renderAlgebraicCase U) hkm h3
    refine h4.trans ?_
    refine infix_of_eq (nl ++ ss.flatMap (renderStruct U) ++ (comments U 0 d.comments ++
        s%"public " ++ (if d.indirect then s%"indirect " else []) ++ s%"enum " ++ d.name ++
        renderGenericClause d.generics ++ s%": " ++ Str.intercalate s%", " d.conformances ++ s%" {\n"))
      ((if d.codingKeys.isEmpty then [] else renderCodingKeys d.codingKeys) ++ renderCodable a ++ s%"}\n") ?_
    simp [renderEnum, ha, List.append_assoc]

end Sw

theorem paired_zip_filterMap {α β γ} {R : α → β → Prop} {g : α → β → Option γ} {h : α → Option γ}
    (hg : ∀ a b, R a b → g a b = h a) : ∀ {l : List α} {r : List β}, C03E.Paired R l r →
      (l.zip r).filterMap (fun q => g q.1 q.2) = l.filterMap h
  | _, _, .nil => rfl
  | _, _, .cons hr ht => by
    simp only [List.zip_cons_cons, List.filterMap_cons, hg _ _ hr, paired_zip_filterMap hg ht]

namespace Sc
open Scala

/-- **binding semantics (trusted)**: the class name and the generic parameters a Scala class declares -/
def declares (c : ScClass) : Str × List Str := (c.name, c.generics)

/-- **binding semantics (trusted)**: the parameter type of the case class generated for a *struct*
variant (the reference to the helper with its type arguments); `none` for the other variants -/
def applies (v : RustEnumVariant) (k : ScCase) : Option Str :=
  match v with
  | .anonymousStruct _ _ _ => k.content.map (·.2.2)
  | _ => none

theorem classFacts_declares (c : Cfg) (e : RustEnum) (n v : Str) (fs : List RustField) (d : ScClass)
    (h : classFacts c (anonymousStruct e n v fs) = .ok d) :
    declares d = (n, helperGens e fs) ∧ d.params.length = fs.length := by
  rw [scala_helper_facts] at h
  obtain ⟨ps, hps, h⟩ := bindOk h
  cases h
  refine ⟨rfl, ?_⟩
  have := Outcome.mapM'_map (Scala.paramFacts c (helperGens e fs)) (fun _ => ()) (fun _ => ()) (fun _ _ _ => rfl) fs ps hps
  simpa using congrArg List.length this

/-- the reference the case of a struct variant has to carry -/
def expected (e : RustEnum) : RustEnumVariant → Option Str
  | .anonymousStruct id _ fs => some (e.id.renamed ++ id.original ++ s%"Inner" ++ genericSq (helperGens e fs))
  | _ => none

theorem caseFacts_applies (c : Cfg) (e : RustEnum) (kc : Str × Str) (hk : e.keys = some kc) (v : RustEnumVariant)
    (k : ScCase) (h : caseFacts c e v = .ok k) : applies v k = expected e v := by
  cases v with
  | unit id cs => rfl
  | tuple id cs ty => rfl
  | anonymousStruct id cs fs =>
    unfold caseFacts at h
    simp only [hk] at h
    cases h; rfl

theorem enumFacts_sites (c : Cfg) (e : RustEnum) (kc : Str × Str) (hk : e.keys = some kc) (d : ScEnum)
    (h : enumFacts c e = .ok d) :
    d.inner.map declares = (structVariants e).map (fun p =>
      (e.id.renamed ++ p.1.original ++ s%"Inner", helperGens e p.2)) ∧
    (e.variants.zip d.cases).filterMap (fun q => applies q.1 q.2) = (structVariants e).map (fun p =>
      e.id.renamed ++ p.1.original ++ s%"Inner" ++ genericSq (helperGens e p.2)) ∧
    (∀ x ∈ d.inner, x.params = [] → x.generics = []) := by
  unfold enumFacts at h
  obtain ⟨inner, hi, h⟩ := bindOk h
  obtain ⟨cases', hc, h⟩ := bindOk h
  cases h
  refine ⟨?_, ?_, ?_⟩
  · exact Outcome.mapM'_map (fun (p : Id × List RustField) =>
        classFacts c (anonymousStruct e (e.id.renamed ++ p.1.original ++ s%"Inner") p.1.original p.2))
      declares (fun p => (e.id.renamed ++ p.1.original ++ s%"Inner", helperGens e p.2))
      (fun p b hb => (classFacts_declares c e _ _ _ b hb).1) (structVariants e) inner hi
  · rw [paired_zip_filterMap (fun v k hvk => caseFacts_applies c e kc hk v k hvk) (C03E.Sc.mapM'_paired _ _ _ hc)]
    simp only [structVariants, List.map_filterMap]
    congr 1
    funext v
    cases v <;> rfl
  · intro x hx hp
    have hpair := C03E.Sc.mapM'_paired _ _ _ hi
    obtain ⟨k, hk'⟩ := List.getElem?_of_mem hx
    have hlen := hpair.length_eq
    have hk2 : k < (structVariants e).length := by
      rw [hlen]; exact (List.getElem?_eq_some_iff.1 hk').1
    obtain ⟨b, hb, hr⟩ := hpair.nth k _ (List.getElem?_eq_getElem hk2)
    rw [hk'] at hb
    cases hb
    obtain ⟨h1, h2⟩ := classFacts_declares c e _ _ _ _ hr
    have hfs : ((structVariants e)[k]).2 = [] := by
      rw [hp] at h2
      exact List.eq_nil_of_length_eq_zero h2.symm
    have : x.generics = helperGens e ((structVariants e)[k]).2 := (congrArg Prod.snd h1)
    rw [this, hfs]; rfl

/-- the text of a class declaration: `<keyword><name><[params]>` (a class without parameters is
printed without the list; its list is empty whenever it is the helper of a struct variant) -/
theorem renderClass_declares (d : ScClass) (h : d.params = [] → d.generics = []) :
    ((if d.params.isEmpty then s%"class " else s%"case class ") ++ d.name ++ genericSq d.generics) <:+: renderClass d := by
  unfold renderClass
  cases hp : d.params with
  | nil =>
    have := h hp
    exact infix_of_eq (comments 0 d.comments) s%" extends Serializable\n\n"
      (by simp [this, genericSq, List.append_assoc])
  | cons q qs =>
    exact infix_of_eq (comments 0 d.comments)
      (s%" (\n" ++ Str.intercalate s%",\n" ((q :: qs).map renderParam) ++ s%"\n)\n\n")
      (by simp [List.append_assoc])

/-- the text of a case class: `: <type>)` closes its parameter list -/
theorem renderCase_applies (k : ScCase) (gs : List Str) (pn ty : Str) (h : k.content = some (gs, pn, ty)) :
    (s%": " ++ ty ++ s%")") <:+: renderCase k :=
  infix_of_eq (comments 1 k.comments ++ s%"\tcase class " ++ k.name ++ genericSq gs ++ s%"(" ++ pn)
    (s%" extends " ++ k.parent ++ genericSq k.parentGenerics ++ s%" {\n" ++
      s%"\t\tval serialName: String = " ++ debugStr k.serialName ++ s%"\n\t}\n")
    (by simp [renderCase, h, List.append_assoc])

/-- **both sites in the text of the enum's block** -/
theorem block_sites (c : Cfg) (e : RustEnum) (kc : Str × Str) (hk : e.keys = some kc) (b : Str)
    (h : C03E.Sc.writeItem c (.enum e) = .ok b) :
    ∀ p ∈ structVariants e,
      (C03E.scStructKw p.2 ++ (e.id.renamed ++ p.1.original ++ s%"Inner") ++ genericSq (helperGens e p.2)) <:+: b ∧
      (s%": " ++ (e.id.renamed ++ p.1.original ++ s%"Inner" ++ genericSq (helperGens e p.2)) ++ s%")") <:+: b := by
  intro p hp
  simp only [C03E.Sc.writeItem, writeEnum] at h
  obtain ⟨d, hf, h⟩ := bindOk h
  cases h
  obtain ⟨h1, h2, h3⟩ := enumFacts_sites c e kc hk d hf
  constructor
  · -- the helper class of `p`, with its parameter count
    unfold enumFacts at hf
    obtain ⟨inner, hi, hf⟩ := bindOk hf
    obtain ⟨cases', _, hf⟩ := bindOk hf
    cases hf
    have hpair := C03E.Sc.mapM'_paired _ _ _ hi
    obtain ⟨k, hk'⟩ := List.getElem?_of_mem hp
    obtain ⟨x, hx, hr⟩ := hpair.nth k _ hk'
    obtain ⟨hd1, hd2⟩ := classFacts_declares c e _ _ _ _ hr
    have hxm : x ∈ inner := List.mem_of_getElem? hx
    have := renderClass_declares x (h3 x hxm)
    have hname : x.name = e.id.renamed ++ p.1.original ++ s%"Inner" := congrArg Prod.fst hd1
    have hgen : x.generics = helperGens e p.2 := congrArg Prod.snd hd1
    have hkw : (if x.params.isEmpty then s%"class " else s%"case class ") = C03E.scStructKw p.2 := by
      unfold C03E.scStructKw
      cases hfs : p.2 with
      | nil =>
        have : x.params = [] := List.eq_nil_of_length_eq_zero (by rw [hd2, hfs]; rfl)
        simp [this]
      | cons f fs =>
        have : x.params ≠ [] := fun hn => by rw [hn, hfs] at hd2; simp at hd2
        cases hxp : x.params with
        | nil => exact absurd hxp this
        | cons _ _ => simp
    rw [hkw, hname, hgen] at this
    exact (infix_flatMap renderClass hxm this).trans (infix_of_eq [] _ (by simp [renderEnum, List.append_assoc]; rfl))
  · have hm : (e.id.renamed ++ p.1.original ++ s%"Inner" ++ genericSq (helperGens e p.2)) ∈
        (e.variants.zip d.cases).filterMap (fun q => applies q.1 q.2) := by
      rw [h2]; exact List.mem_map.2 ⟨p, hp, rfl⟩
    obtain ⟨⟨v, k⟩, hzm, hka⟩ := List.mem_filterMap.1 hm
    have hkm : k ∈ d.cases := (List.of_mem_zip hzm).2
    have hpl : ∃ gs pn, k.content = some (gs, pn, e.id.renamed ++ p.1.original ++ s%"Inner" ++ genericSq (helperGens e p.2)) := by
      unfold applies at hka
      cases v <;> simp at hka
      obtain ⟨gs, pn, h1⟩ := hka
      exact ⟨gs, pn, by rw [h1]; simp [List.append_assoc]⟩
    obtain ⟨gs, pn, hpl⟩ := hpl
    have h4 := infix_flatMap renderCase hkm (renderCase_applies k gs pn _ hpl)
    refine h4.trans ?_
    exact infix_of_eq (d.inner.flatMap renderClass ++ comments 0 d.comments ++
        s%"sealed trait " ++ d.name ++ genericSq d.generics ++ s%" {\n" ++ s%"\tdef serialName: String\n" ++ s%"}\n" ++
        s%"object " ++ d.name ++ s%" {\n") s%"}\n\n" (by simp [renderEnum, List.append_assoc])

end Sc

end TsV.C05_HelperGenerics
