import TsV.Lemmas.C09_Defs
import TsV.Lemmas.Outcome
/-!
# C09 — lemmas

1. `Pipeline.checkType` characterised on the leaves of a type (`simple` leaves and generic heads are renamed);
2. what `resolveRenamed` answers in single-file mode for a program with distinct item names;
3. the leaf printers under an empty type-mapping table;
4. the shape of every element of `refs`;
5. the per-reference exact characterisation `ref_exact`.
-/
namespace TsV.C09
open TsV TsV.Pipeline TsV.Generate

/-- what is printed for one element is in what is printed for the list (used for Kotlin's import lines) -/
theorem infix_flatMap_of_mem {α β} (f : α → List β) : ∀ (l : List α) (x : α), x ∈ l → f x <:+: l.flatMap f
  | [], _, h => by simp at h
  | y :: t, x, h => by
    simp only [List.mem_cons] at h
    simp only [List.flatMap_cons]
    rcases h with rfl | h
    · exact (List.prefix_append _ _).isInfix
    · exact (infix_flatMap_of_mem f t x h).trans (List.suffix_append _ _).isInfix

/-! ## 1. `check_type` on leaves -/

/-- an identifier position of a type expression that names a user type or a generic parameter -/
structure Leaf where
  id : Str
  head : Bool
deriving DecidableEq, Repr

mutual
  def leaves : RustType → List Leaf
    | .simple id => [⟨id, false⟩]
    | .generic id ps => ⟨id, true⟩ :: leavesList ps
    | .vec t => leaves t
    | .array t _ => leaves t
    | .slice t => leaves t
    | .option t => leaves t
    | .hashMap k v => leaves k ++ leaves v
    | .prim _ => []
  def leavesList : List RustType → List Leaf
    | [] => []
    | t :: ts => leaves t ++ leavesList ts
end

/-- what `check_type` does to one leaf -/
def recLeaf (crate : Str) (r : Renames) (imports : List ImportedType) (l : Leaf) : Leaf :=
  ⟨(resolveRenamed crate r imports l.id).getD l.id, l.head⟩

mutual
  /-- **`check_type` keeps the shape of a type and rewrites every name in it — the `simple` leaves
  and (since the `fix:` commit 944b749) the heads of generic applications — by `resolve_renamed`** -/
  theorem leaves_checkType (c : Str) (r : Renames) (i : List ImportedType) :
      ∀ t : RustType, leaves (checkType c r i t) = (leaves t).map (recLeaf c r i)
    | .simple id => by
      simp only [checkType, leaves, List.map, recLeaf]
      cases resolveRenamed c r i id <;> simp [leaves]
    | .generic id ps => by
      simp only [checkType, leaves, List.map_cons, recLeaf]
      cases resolveRenamed c r i id <;> simp [leaves, leavesList_checkTypes c r i ps]
    | .vec t => by simp only [checkType, leaves, leaves_checkType c r i t]
    | .array t _ => by simp only [checkType, leaves, leaves_checkType c r i t]
    | .slice t => by simp only [checkType, leaves, leaves_checkType c r i t]
    | .option t => by simp only [checkType, leaves, leaves_checkType c r i t]
    | .hashMap k v => by
      simp only [checkType, leaves, leaves_checkType c r i k, leaves_checkType c r i v, List.map_append]
    | .prim _ => by simp [checkType, leaves]
  theorem leavesList_checkTypes (c : Str) (r : Renames) (i : List ImportedType) :
      ∀ ts : List RustType, leavesList (checkTypes c r i ts) = (leavesList ts).map (recLeaf c r i)
    | [] => by simp [checkTypes, leavesList]
    | t :: ts => by
      simp only [checkTypes, leavesList, leaves_checkType c r i t, leavesList_checkTypes c r i ts, List.map_append]
end

mutual
  /-- **the spellings in `typeRefs` are the back end's spellings of the leaves of the reconciled
  type** -/
  theorem typeRefs_spelling (lc : LangCfg) (r : Renames) (scope gens : List Str) :
      ∀ t : RustType, (typeRefs lc r scope gens t).map (·.spelling) =
        (leaves (checkType [] r [] t)).map fun l => spell lc gens l.id
    | .simple id => by
      simp only [typeRefs, List.map, checkType, recName]
      cases resolveRenamed [] r [] id <;> simp [leaves]
    | .generic id ps => by
      simp only [typeRefs, checkType, recName, List.map_cons]
      cases resolveRenamed [] r [] id <;> simp [leaves, typeRefsList_spelling lc r scope gens ps]
    | .vec t => by simp only [typeRefs, checkType, leaves, typeRefs_spelling lc r scope gens t]
    | .array t _ => by simp only [typeRefs, checkType, leaves, typeRefs_spelling lc r scope gens t]
    | .slice t => by simp only [typeRefs, checkType, leaves, typeRefs_spelling lc r scope gens t]
    | .option t => by simp only [typeRefs, checkType, leaves, typeRefs_spelling lc r scope gens t]
    | .hashMap k v => by
      simp only [typeRefs, checkType, leaves, List.map_append, typeRefs_spelling lc r scope gens k,
        typeRefs_spelling lc r scope gens v]
    | .prim _ => by simp [typeRefs, checkType, leaves]
  theorem typeRefsList_spelling (lc : LangCfg) (r : Renames) (scope gens : List Str) :
      ∀ ts : List RustType, (typeRefsList lc r scope gens ts).map (·.spelling) =
        (leavesList (checkTypes [] r [] ts)).map fun l => spell lc gens l.id
    | [] => by simp [typeRefsList, checkTypes, leavesList]
    | t :: ts => by
      simp only [typeRefsList, checkTypes, leavesList, List.map_append, typeRefs_spelling lc r scope gens t,
        typeRefsList_spelling lc r scope gens ts]
end

mutual
  /-- **the targets in `typeRefs` are read off the leaves of the type as written in the source** -/
  theorem typeRefs_target (lc : LangCfg) (r : Renames) (scope gens : List Str) :
      ∀ t : RustType, (typeRefs lc r scope gens t).map (fun x => (x.target, x.head)) =
        (leaves t).map fun l => (tgt scope l.id, l.head)
    | .simple id => by simp [typeRefs, leaves]
    | .generic id ps => by
      simp only [typeRefs, leaves, List.map_cons, typeRefsList_target lc r scope gens ps]
    | .vec t => by simp only [typeRefs, leaves, typeRefs_target lc r scope gens t]
    | .array t _ => by simp only [typeRefs, leaves, typeRefs_target lc r scope gens t]
    | .slice t => by simp only [typeRefs, leaves, typeRefs_target lc r scope gens t]
    | .option t => by simp only [typeRefs, leaves, typeRefs_target lc r scope gens t]
    | .hashMap k v => by
      simp only [typeRefs, leaves, List.map_append, typeRefs_target lc r scope gens k,
        typeRefs_target lc r scope gens v]
    | .prim _ => by simp [typeRefs, leaves]
  theorem typeRefsList_target (lc : LangCfg) (r : Renames) (scope gens : List Str) :
      ∀ ts : List RustType, (typeRefsList lc r scope gens ts).map (fun x => (x.target, x.head)) =
        (leavesList ts).map fun l => (tgt scope l.id, l.head)
    | [] => by simp [typeRefsList, leavesList]
    | t :: ts => by
      simp only [typeRefsList, leavesList, List.map_append, typeRefs_target lc r scope gens t,
        typeRefsList_target lc r scope gens ts]
end

/-- `reconcile_aliases` on the three item lists: a stable sort of the item-wise rewritten lists -/
theorem reconcileOne_structs (r : Renames) (c : Str) (d : ParsedData) :
    (reconcileOne r c d).structs.Perm
      (d.structs.map fun s => { s with fields := s.fields.map (checkField c r d.importTypes) }) :=
  List.mergeSort_perm _ _

theorem reconcileOne_enums (r : Renames) (c : Str) (d : ParsedData) :
    (reconcileOne r c d).enums.Perm
      (d.enums.map fun e => { e with variants := e.variants.map (checkVariant c r d.importTypes) }) :=
  List.mergeSort_perm _ _

theorem reconcileOne_aliases (r : Renames) (c : Str) (d : ParsedData) :
    (reconcileOne r c d).aliases.Perm
      (d.aliases.map fun a => { a with ty := checkType c r d.importTypes a.ty }) :=
  List.mergeSort_perm _ _

/-- and the map it uses for a single-file run is `renamesOf` -/
theorem reconcile_single (P : ParsedData) :
    reconcile [([], P)] = [([], reconcileOne (renamesOf P) [] P)] := rfl

/-! ## 2. `resolve_renamed` in single-file mode -/

/-- the `RenamedTypes` entry an item contributes -/
def entryOf (it : RustItem) : Option (Str × Str × Str) :=
  if (itemId it).serdeRename then some ((itemId it).original, [], (itemId it).renamed) else none

theorem renamesOf_eq (P : ParsedData) : renamesOf P = (typeItems P).filterMap entryOf := by
  simp only [renamesOf, collectSerdeRenames, typeItems, List.flatMap_cons, List.flatMap_nil, List.append_nil,
    List.filterMap_append, List.filterMap_map, List.append_assoc]
  rfl

theorem find?_unique {α} (p : α → Bool) : ∀ (l : List α) (x : α), x ∈ l → p x = true →
    (∀ y ∈ l, p y = true → y = x) → l.find? p = some x
  | [], _, hx, _, _ => by cases hx
  | a :: l, x, hx, hp, hu => by
    by_cases hpa : p a = true
    · have : a = x := hu a (List.mem_cons_self) hpa
      subst this
      simp [List.find?, hpa]
    · have hne : x ≠ a := fun h => hpa (h ▸ hp)
      have hxl : x ∈ l := by
        rcases List.mem_cons.1 hx with h | h
        · exact absurd h hne
        · exact h
      have := find?_unique p l x hxl hp (fun y hy => hu y (List.mem_cons_of_mem _ hy))
      simp [List.find?, hpa, this]

theorem nodup_map_inj {α β} (f : α → β) : ∀ (l : List α), (l.map f).Nodup →
    ∀ a ∈ l, ∀ b ∈ l, f a = f b → a = b
  | [], _, _, ha, _, _, _ => by cases ha
  | x :: l, hn, a, ha, b, hb, hab => by
    simp only [List.map_cons, List.nodup_cons, List.mem_map, not_exists, not_and] at hn
    rcases List.mem_cons.1 ha with rfl | ha' <;> rcases List.mem_cons.1 hb with rfl | hb'
    · rfl
    · exact absurd hab.symm (hn.1 b hb')
    · exact absurd hab (hn.1 a ha')
    · exact nodup_map_inj f l hn.2 a ha' b hb' hab

/-- `recName` only consults the last matching entry of the map -/
theorem recName_eq (r : Renames) (id : Str) : recName r id = (renameOf r id []).getD id := by
  unfold recName resolveRenamed
  by_cases h : hasRename r id = true
  · simp [h, minByKey]
  · have h' : hasRename r id = false := by simpa using h
    have hnone : renameOf r id [] = none := by
      unfold renameOf
      have : r.reverse.find? (fun e => e.1 == id && e.2.1 == ([] : Str)) = none := by
        apply List.find?_eq_none.2
        intro e he
        have he' : e ∈ r := List.mem_reverse.1 he
        unfold hasRename at h'
        have := (List.any_eq_false.1 h') e he'
        simp [this]
      rw [this]; rfl
    simp [h', hnone]

/-- items of the program have pairwise different Rust names -/
def DistinctNames (P : ParsedData) : Prop := ((typeItems P).map fun it => (itemId it).original).Nodup

instance (P : ParsedData) : Decidable (DistinctNames P) := by unfold DistinctNames; infer_instance

theorem item_unique {P : ParsedData} (hn : DistinctNames P) {a b : RustItem} (ha : a ∈ typeItems P)
    (hb : b ∈ typeItems P) (h : (itemId a).original = (itemId b).original) : a = b :=
  nodup_map_inj (fun it => (itemId it).original) _ hn a ha b hb h

/-- **a reference to a `serde(rename)`d item of the same file is rewritten to the new name, a
reference to any other item is left alone** -/
theorem recName_item {P : ParsedData} (hn : DistinctNames P) {t : RustItem} (ht : t ∈ typeItems P) :
    recName (renamesOf P) (itemId t).original =
      if (itemId t).serdeRename then (itemId t).renamed else (itemId t).original := by
  rw [recName_eq, renamesOf_eq]
  unfold renameOf
  by_cases hs : (itemId t).serdeRename = true
  · have hmem : ((itemId t).original, ([] : Str), (itemId t).renamed) ∈ ((typeItems P).filterMap entryOf).reverse := by
      apply List.mem_reverse.2
      apply List.mem_filterMap.2
      exact ⟨t, ht, by simp [entryOf, hs]⟩
    have huniq : ∀ y ∈ ((typeItems P).filterMap entryOf).reverse,
        (y.1 == (itemId t).original && y.2.1 == ([] : Str)) = true →
        y = ((itemId t).original, ([] : Str), (itemId t).renamed) := by
      intro y hy hp
      obtain ⟨b, hb, hbe⟩ := List.mem_filterMap.1 (List.mem_reverse.1 hy)
      unfold entryOf at hbe
      split at hbe
      · cases hbe
        have h1 : (itemId b).original = (itemId t).original := by simp at hp; exact hp
        have : b = t := item_unique hn hb ht h1
        subst this; rfl
      · cases hbe
    rw [find?_unique _ _ _ hmem (by simp) huniq]
    simp [hs]
  · have hs' : (itemId t).serdeRename = false := by simpa using hs
    have : ((typeItems P).filterMap entryOf).reverse.find?
        (fun e => e.1 == (itemId t).original && e.2.1 == ([] : Str)) = none := by
      apply List.find?_eq_none.2
      intro y hy hp
      obtain ⟨b, hb, hbe⟩ := List.mem_filterMap.1 (List.mem_reverse.1 hy)
      unfold entryOf at hbe
      split at hbe
      · rename_i hbs
        cases hbe
        have h1 : (itemId b).original = (itemId t).original := by simp at hp; exact hp
        have : b = t := item_unique hn hb ht h1
        subst this
        rw [hs'] at hbs; cases hbs
      · cases hbe
    rw [this]; simp [hs']

theorem recName_other {P : ParsedData} {id : Str}
    (h : ∀ t ∈ typeItems P, (itemId t).serdeRename = true → (itemId t).original ≠ id) :
    recName (renamesOf P) id = id := by
  rw [recName_eq, renamesOf_eq]
  unfold renameOf
  have : ((typeItems P).filterMap entryOf).reverse.find?
      (fun e => e.1 == id && e.2.1 == ([] : Str)) = none := by
    apply List.find?_eq_none.2
    intro y hy hp
    obtain ⟨b, hb, hbe⟩ := List.mem_filterMap.1 (List.mem_reverse.1 hy)
    unfold entryOf at hbe
    split at hbe
    · rename_i hbs
      cases hbe
      have h1 : (itemId b).original = id := by simp at hp; exact hp
      exact h b hb hbs h1
    · cases hbe
  rw [this]; rfl

/-! ## 3. leaf printers and definition names without type mappings -/

theorem mapGet_nil (k : Str) : Lang.mapGet [] k = none := rfl

/-- **every back end prints a leaf named `n` as `n` if it is one of the generic parameters it was
told about, else as `prefix ++ n`** (the prefix being empty outside Swift / Kotlin) -/
theorem spell_eq {lc : LangCfg} (h : typeMappingsOf lc = []) (gens : List Str) (n : Str) :
    spell lc gens n = if n ∈ gens then n else pfxOf lc ++ n := by
  cases lc <;> simp only [typeMappingsOf] at h <;>
    simp [spell, pfxOf, h, mapGet_nil, Lang.Kotlin.formatSimple, Lang.Swift.formatSimple]

theorem tgt_eq (scope : List Str) (id : Str) :
    tgt scope id = if id ∈ scope then .param id else .type id := by
  simp [tgt]

theorem typeItems_cases {P : ParsedData} {it : RustItem} (h : it ∈ typeItems P) :
    (∃ s ∈ P.structs, it = .struct s) ∨ (∃ e ∈ P.enums, it = .enum e) ∨ (∃ a ∈ P.aliases, it = .alias a) := by
  simp only [typeItems, List.mem_append, List.mem_map] at h
  rcases h with (⟨s, hs, rfl⟩ | ⟨e, he, rfl⟩) | ⟨a, ha, rfl⟩
  · exact .inl ⟨s, hs, rfl⟩
  · exact .inr (.inl ⟨e, he, rfl⟩)
  · exact .inr (.inr ⟨a, ha, rfl⟩)

theorem enum_mem_typeItems {P : ParsedData} {e : RustEnum} (h : e ∈ P.enums) : RustItem.enum e ∈ typeItems P := by
  simp only [typeItems, List.mem_append, List.mem_map]
  exact .inl (.inr ⟨e, h, rfl⟩)

/-- the part of a definition name that follows the prefix -/
def baseName (lc : LangCfg) (it : RustItem) : Str :=
  if defUsesOriginal lc it then (itemId it).original else (itemId it).renamed

theorem defName_eq (lc : LangCfg) {P : ParsedData} {it : RustItem} (h : it ∈ typeItems P) :
    defName lc it = pfxOf lc ++ baseName lc it := by
  rcases typeItems_cases h with ⟨s, _, rfl⟩ | ⟨e, _, rfl⟩ | ⟨a, ha, rfl⟩
  · cases lc <;> simp [defName, pfxOf, baseName, defUsesOriginal, itemId]
  · cases lc <;> simp [defName, pfxOf, baseName, defUsesOriginal, itemId]
  · cases lc <;> simp [defName, pfxOf, baseName, defUsesOriginal, itemId]

/-! ## 4. the shape of the elements of `refs` -/

mutual
  theorem mem_typeRefs (lc : LangCfg) (r : Renames) (scope gens : List Str) (ref : Ref) :
      ∀ t : RustType, ref ∈ typeRefs lc r scope gens t →
        ∃ id, t.containsType id = true ∧
          (ref = ⟨spell lc gens (recName r id), tgt scope id, false⟩ ∨
            ref = ⟨spell lc gens (recName r id), tgt scope id, true⟩)
    | .simple id, h => by
      simp only [typeRefs, List.mem_singleton] at h
      exact ⟨id, by simp [RustType.containsType], .inl h⟩
    | .generic id ps, h => by
      simp only [typeRefs, List.mem_cons] at h
      rcases h with h | h
      · exact ⟨id, by simp [RustType.containsType], .inr h⟩
      · obtain ⟨j, hj, hr⟩ := mem_typeRefsList lc r scope gens ref ps h
        exact ⟨j, by simp [RustType.containsType, hj], hr⟩
    | .vec t, h => by
      obtain ⟨j, hj, hr⟩ := mem_typeRefs lc r scope gens ref t (by simpa [typeRefs] using h)
      exact ⟨j, by simpa [RustType.containsType] using hj, hr⟩
    | .array t _, h => by
      obtain ⟨j, hj, hr⟩ := mem_typeRefs lc r scope gens ref t (by simpa [typeRefs] using h)
      exact ⟨j, by simpa [RustType.containsType] using hj, hr⟩
    | .slice t, h => by
      obtain ⟨j, hj, hr⟩ := mem_typeRefs lc r scope gens ref t (by simpa [typeRefs] using h)
      exact ⟨j, by simpa [RustType.containsType] using hj, hr⟩
    | .option t, h => by
      obtain ⟨j, hj, hr⟩ := mem_typeRefs lc r scope gens ref t (by simpa [typeRefs] using h)
      exact ⟨j, by simpa [RustType.containsType] using hj, hr⟩
    | .hashMap k v, h => by
      simp only [typeRefs, List.mem_append] at h
      rcases h with h | h
      · obtain ⟨j, hj, hr⟩ := mem_typeRefs lc r scope gens ref k h
        exact ⟨j, by simp [RustType.containsType, hj], hr⟩
      · obtain ⟨j, hj, hr⟩ := mem_typeRefs lc r scope gens ref v h
        exact ⟨j, by simp [RustType.containsType, hj], hr⟩
    | .prim _, h => by simp [typeRefs] at h
  theorem mem_typeRefsList (lc : LangCfg) (r : Renames) (scope gens : List Str) (ref : Ref) :
      ∀ ts : List RustType, ref ∈ typeRefsList lc r scope gens ts →
        ∃ id, RustType.containsTypeList id ts = true ∧
          (ref = ⟨spell lc gens (recName r id), tgt scope id, false⟩ ∨
            ref = ⟨spell lc gens (recName r id), tgt scope id, true⟩)
    | [], h => by simp [typeRefsList] at h
    | t :: ts, h => by
      simp only [typeRefsList, List.mem_append] at h
      rcases h with h | h
      · obtain ⟨j, hj, hr⟩ := mem_typeRefs lc r scope gens ref t h
        exact ⟨j, by simp [RustType.containsTypeList, hj], hr⟩
      · obtain ⟨j, hj, hr⟩ := mem_typeRefsList lc r scope gens ref ts h
        exact ⟨j, by simp [RustType.containsTypeList, hj], hr⟩
end

/-- a reference printed from a leaf of a type expression: the generic parameters the back end knows
(`gens`) are among those in scope, and contain the leaf's name if that is a parameter -/
def IsLeafRef (lc : LangCfg) (r : Renames) (scope : List Str) (ref : Ref) : Prop :=
  ∃ gens id, (∀ x, x ∈ gens → x ∈ scope) ∧ (id ∈ scope → id ∈ gens) ∧
    (ref = ⟨spell lc gens (recName r id), tgt scope id, false⟩ ∨
            ref = ⟨spell lc gens (recName r id), tgt scope id, true⟩)

theorem innerGens_sub (lc : LangCfg) (e : RustEnum) (fs : List RustField) :
    ∀ x, x ∈ innerGens lc e fs → x ∈ e.genericTypes := by
  intro x hx
  cases lc <;> simp only [innerGens] at hx <;> try exact hx
  all_goals
    simp only [Lang.anonymousStruct, List.mem_eraseDups, List.mem_flatMap, List.mem_filter] at hx
    obtain ⟨_, _, h, _⟩ := hx
    exact h

theorem innerGens_complete (lc : LangCfg) (e : RustEnum) (fs : List RustField) (f : RustField) (hf : f ∈ fs)
    (id : Str) (hc : f.ty.containsType id = true) (hid : id ∈ e.genericTypes) : id ∈ innerGens lc e fs := by
  cases lc <;> simp only [innerGens] <;> try exact hid
  all_goals
    simp only [Lang.anonymousStruct, List.mem_eraseDups, List.mem_flatMap, List.mem_filter]
    exact ⟨f, hf, hid, hc⟩

/-- **every reference of an item is a leaf reference, a parent reference or a helper-struct
reference** -/
theorem refs_cases (lc : LangCfg) (r : Renames) (it : RustItem) (ref : Ref) (h : ref ∈ refs lc r it) :
    IsLeafRef lc r (generics it) ref ∨
    ∃ e, it = .enum e ∧ (ref ∈ parentRefs lc e ∨ ∃ v, ref ∈ innerRefs lc e v) := by
  cases it with
  | struct s =>
    simp only [refs, List.mem_flatMap] at h
    obtain ⟨f, _, hf⟩ := h
    obtain ⟨id, _, hr⟩ := mem_typeRefs lc r _ _ ref f.ty hf
    exact .inl ⟨s.genericTypes, id, fun _ hx => hx, fun hx => hx, hr⟩
  | alias a =>
    simp only [refs] at h
    obtain ⟨id, _, hr⟩ := mem_typeRefs lc r _ _ ref a.ty h
    exact .inl ⟨a.genericTypes, id, fun _ hx => hx, fun hx => hx, hr⟩
  | const c => simp [refs] at h
  | enum e =>
    simp only [refs, List.mem_flatMap] at h
    obtain ⟨v, _, hv⟩ := h
    simp only [variantRefs, List.mem_append] at hv
    rcases hv with hp | hv
    · exact .inr ⟨e, rfl, .inl hp⟩
    · cases hk : e.keys with
      | none => simp [hk] at hv
      | some kc =>
        simp only [hk] at hv
        cases v with
        | unit i c => simp at hv
        | tuple i c ty =>
          obtain ⟨id, _, hr⟩ := mem_typeRefs lc r _ _ ref ty hv
          exact .inl ⟨e.genericTypes, id, fun _ hx => hx, fun hx => hx, hr⟩
        | anonymousStruct i c fs =>
          simp only [List.mem_append, List.mem_flatMap] at hv
          rcases hv with hi | ⟨f, hf, hfr⟩
          · exact .inr ⟨e, rfl, .inr ⟨i.original, hi⟩⟩
          · obtain ⟨id, hc, hr⟩ := mem_typeRefs lc r _ _ ref f.ty hfr
            exact .inl ⟨innerGens lc e fs, id, innerGens_sub lc e fs,
              fun hx => innerGens_complete lc e fs f hf id hc hx, hr⟩

/-! ## 5. scope, `Defines`, and the exact characterisation per reference -/

/-- the fields whose types a back end prints for an item -/
def allFields (P : ParsedData) : List RustField :=
  P.structs.flatMap (·.fields) ++
  P.enums.flatMap fun e => e.variants.flatMap fun v => match v with
    | .anonymousStruct _ _ fs => fs
    | _ => []

/-- **the programs the theorems speak about**: what `parser::parse` produces for one file in
single-file mode (no imports), with pairwise different item names, without `typeshare(<lang>(type =
…))` overrides, Kotlin `JvmInline` aliases and consts (none of which the property text mentions).
`ids` is an invariant of `Parser.getIdent` (see `getIdent_invariant`). -/
structure InScope (P : ParsedData) : Prop where
  distinct : DistinctNames P
  ids : ∀ it ∈ typeItems P, (itemId it).serdeRename = false → (itemId it).renamed = (itemId it).original
  notInline : ∀ a ∈ P.aliases, Lang.Kotlin.isInline a.decorators = false
  noOverrides : ∀ f ∈ allFields P, f.decorators = []
  single : P.importTypes = []
  noConsts : P.consts = []

/-- `name` is what the generated code defines for the thing a reference points at -/
def Defines (lc : LangCfg) (P : ParsedData) : Target → Str → Prop
  | .type o, n => ∃ t ∈ typeItems P, (itemId t).original = o ∧ n = defName lc t
  | .param g, n => n = g
  | .parent o, n => ∃ e ∈ P.enums, e.id.original = o ∧ n = defName lc (.enum e)
  | .inner o v, n => ∃ e ∈ P.enums, e.id.original = o ∧ innerDefName lc e v = some n

theorem enum_of_mem_typeItems {P : ParsedData} {e : RustEnum} (h : RustItem.enum e ∈ typeItems P) : e ∈ P.enums := by
  rcases typeItems_cases h with ⟨s, _, hh⟩ | ⟨e', he', hh⟩ | ⟨a, _, hh⟩
  · cases hh
  · cases hh; exact he'
  · cases hh

theorem enum_unique {P : ParsedData} (hn : DistinctNames P) {a b : RustEnum} (ha : a ∈ P.enums) (hb : b ∈ P.enums)
    (h : a.id.original = b.id.original) : a = b :=
  RustItem.enum.inj (item_unique hn (enum_mem_typeItems ha) (enum_mem_typeItems hb) h)

theorem any_item {P : ParsedData} (hn : DistinctNames P) {t : RustItem} (ht : t ∈ typeItems P) (q : RustItem → Bool) :
    ((typeItems P).any fun t' => (itemId t').original == (itemId t).original && q t') = q t := by
  cases hq : q t with
  | true => exact List.any_eq_true.2 ⟨t, ht, by simp [hq]⟩
  | false =>
    apply List.any_eq_false.2
    intro t' ht' hp
    simp only [Bool.and_eq_true, beq_iff_eq] at hp
    have := item_unique hn ht' ht hp.1
    subst this
    rw [hq] at hp; exact absurd hp.2 (by simp)

theorem any_enum {P : ParsedData} (hn : DistinctNames P) {e : RustEnum} (he : e ∈ P.enums) (q : RustEnum → Bool) :
    (P.enums.any fun e' => e'.id.original == e.id.original && q e') = q e := by
  cases hq : q e with
  | true => exact List.any_eq_true.2 ⟨e, he, by simp [hq]⟩
  | false =>
    apply List.any_eq_false.2
    intro e' he' hp
    simp only [Bool.and_eq_true, beq_iff_eq] at hp
    have := enum_unique hn he' he hp.1
    subst this
    rw [hq] at hp; exact absurd hp.2 (by simp)

/-- `Known_shadow P = false`, unpacked -/
theorem noShadow {P : ParsedData} (h : Known_shadow P = false) {it : RustItem} (hit : it ∈ typeItems P)
    {g : Str} (hg : g ∈ generics it) {t : RustItem} (ht : t ∈ typeItems P) (hs : (itemId t).serdeRename = true) :
    (itemId t).original ≠ g ∧ (itemId t).renamed ≠ g := by
  unfold Known_shadow at h
  have h1 := List.any_eq_false.1 h it hit
  simp only [List.any_eq_true, Bool.and_eq_true, Bool.or_eq_true, beq_iff_eq, not_exists, not_and, not_or] at h1
  exact h1 g hg t ht hs

theorem knownRef_param (lc : LangCfg) (P : ParsedData) (sp : Str) (g : Str) (hd : Bool) :
    KnownRef lc P ⟨sp, .param g, hd⟩ = false := by
  simp [KnownRef, Known_def_original]

/-- a reference to an item — plain or generic head alike — is in the known class exactly when the
item is renamed and the back end defines it under its Rust name (a Go enum) -/
theorem knownRef_type {P : ParsedData} (hn : DistinctNames P) (lc : LangCfg) {t : RustItem} (ht : t ∈ typeItems P)
    (sp : Str) (hd : Bool) :
    KnownRef lc P ⟨sp, .type (itemId t).original, hd⟩ = (Renamed t && defUsesOriginal lc t) := by
  simp only [KnownRef, Known_def_original, Bool.and_assoc]
  exact any_item hn ht fun t' => Renamed t' && defUsesOriginal lc t'

theorem knownRef_parent (lc : LangCfg) (P : ParsedData) (sp o : Str) (hd : Bool) :
    KnownRef lc P ⟨sp, .parent o, hd⟩ = false := by
  simp [KnownRef, Known_def_original]

theorem knownRef_inner (lc : LangCfg) (P : ParsedData) (sp o v : Str) (hd : Bool) :
    KnownRef lc P ⟨sp, .inner o v, hd⟩ = false := by
  simp [KnownRef, Known_def_original]

theorem renamed_of_scope {P : ParsedData} (hs : InScope P) {t : RustItem} (ht : t ∈ typeItems P) :
    recName (renamesOf P) (itemId t).original = (itemId t).renamed := by
  rw [recName_item hs.distinct ht]
  by_cases h : (itemId t).serdeRename = true
  · simp [h]
  · have h' : (itemId t).serdeRename = false := by simpa using h
    simp [h', hs.ids t ht h']

/-- a leaf that names a generic parameter in scope -/
theorem leaf_param {P : ParsedData} {lc : LangCfg} (hc : typeMappingsOf lc = [])
    (hsh : Known_shadow P = false) {it : RustItem} (hit : it ∈ typeItems P) {gens : List Str} {id : Str}
    (hcompl : id ∈ generics it → id ∈ gens) (hid : id ∈ generics it) :
    spell lc gens (recName (renamesOf P) id) = id ∧ spell lc gens id = id := by
  have hrec : recName (renamesOf P) id = id :=
    recName_other fun t ht hs => (noShadow hsh hit hid ht hs).1
  rw [hrec, spell_eq hc]
  simp [hcompl hid]

/-- a plain leaf that names an item of the program -/
theorem leaf_plain {P : ParsedData} (hs : InScope P) {lc : LangCfg} (hc : typeMappingsOf lc = [])
    (hsh : Known_shadow P = false) {it : RustItem} (hit : it ∈ typeItems P) {gens : List Str}
    (hsub : ∀ x, x ∈ gens → x ∈ generics it) {t : RustItem} (ht : t ∈ typeItems P)
    (hid : (itemId t).original ∉ generics it) :
    spell lc gens (recName (renamesOf P) (itemId t).original) = pfxOf lc ++ (itemId t).renamed := by
  rw [renamed_of_scope hs ht, spell_eq hc]
  have : (itemId t).renamed ∉ gens := by
    intro hmem
    have hg := hsub _ hmem
    by_cases h : (itemId t).serdeRename = true
    · exact (noShadow hsh hit hg ht h).2 rfl
    · have h' : (itemId t).serdeRename = false := by simpa using h
      rw [hs.ids t ht h'] at hg
      exact hid hg
  simp [this]

theorem bne_false_iff {a b : Str} : ((a != b) = false) ↔ a = b := by simp

/-- **the exact characterisation, per reference**: in a program in scope, without shadowing, a
reference is spelled with the name its target is defined under if and only if it is not in the
`Known_def_original` class (a reference to a renamed Go enum) -/
theorem ref_exact {P : ParsedData} (hs : InScope P) {lc : LangCfg} (hc : typeMappingsOf lc = [])
    (hsh : Known_shadow P = false) {it : RustItem} (hit : it ∈ typeItems P) {ref : Ref}
    (href : ref ∈ refs lc (renamesOf P) it) {n : Str} (hd : Defines lc P ref.target n) :
    ref.spelling = n ↔ KnownRef lc P ref = false := by
  rcases refs_cases lc _ it ref href with ⟨gens, id, hsub, hcompl, hform⟩ | ⟨e, rfl, hpi⟩
  · -- leaf references (plain leaves and generic heads alike)
    by_cases hid : id ∈ generics it
    · have htg : tgt (generics it) id = .param id := by simp [tgt_eq, hid]
      obtain ⟨h1, _⟩ := leaf_param hc hsh hit hcompl hid
      rcases hform with rfl | rfl
      all_goals
        simp only [htg, Defines] at hd
        subst hd
        simp [htg, knownRef_param, h1]
    · have htg : tgt (generics it) id = .type id := by simp [tgt_eq, hid]
      rcases hform with rfl | rfl
      all_goals
        simp only [htg, Defines] at hd
        obtain ⟨t, ht, hto, rfl⟩ := hd
        subst hto
        rw [htg, knownRef_type hs.distinct lc ht]
        simp only [leaf_plain hs hc hsh hit hsub ht hid, defName_eq lc ht, baseName,
          List.append_cancel_left_eq]
        cases hdu : defUsesOriginal lc t <;> simp [Renamed]
  · have he : e ∈ P.enums := enum_of_mem_typeItems hit
    rcases hpi with hp | ⟨v, hi⟩
    · -- parent references: always consistent (since 3d3e1e7)
      have hfin : ∀ sp : Str, ref = ⟨sp, .parent e.id.original, false⟩ → sp = defName lc (.enum e) →
          (ref.spelling = n ↔ KnownRef lc P ref = false) := by
        intro sp hr hsp
        subst hr
        simp only [Defines] at hd
        obtain ⟨e', he', heq, rfl⟩ := hd
        have := enum_unique hs.distinct he' he heq
        subst this
        simp [knownRef_parent, hsp]
      cases lc with
      | kotlin c =>
        cases hk : e.keys with
        | none => simp [parentRefs, hk] at hp
        | some kc =>
          simp only [parentRefs, hk, List.mem_singleton] at hp
          exact hfin _ hp rfl
      | scala c =>
        cases hk : e.keys with
        | none =>
          simp only [parentRefs, hk, List.mem_singleton] at hp
          exact hfin _ hp rfl
        | some kc =>
          simp only [parentRefs, hk, List.mem_singleton] at hp
          exact hfin _ hp rfl
      | typescript c => simp [parentRefs] at hp
      | swift c => simp [parentRefs] at hp
      | go c => simp [parentRefs] at hp
      | python c => simp [parentRefs] at hp
    · -- helper-struct references: always consistent (since 3d3e1e7)
      have hfin : ∀ sp : Str, ref = ⟨sp, .inner e.id.original v, false⟩ → innerDefName lc e v = some sp →
          (ref.spelling = n ↔ KnownRef lc P ref = false) := by
        intro sp hr hsp
        subst hr
        simp only [Defines] at hd
        obtain ⟨e', he', heq, hn⟩ := hd
        have := enum_unique hs.distinct he' he heq
        subst this
        rw [hsp, Option.some.injEq] at hn
        simp [knownRef_inner, hn]
      cases lc with
      | typescript c => simp [innerRefs] at hi
      | kotlin c =>
        simp only [innerRefs, List.mem_singleton] at hi
        exact hfin _ hi (by simp [innerDefName, List.append_assoc])
      | scala c =>
        simp only [innerRefs, List.mem_singleton] at hi
        exact hfin _ hi rfl
      | swift c =>
        simp only [innerRefs, List.mem_singleton] at hi
        exact hfin _ hi rfl
      | go c =>
        simp only [innerRefs, List.mem_singleton] at hi
        exact hfin _ hi rfl
      | python c =>
        simp only [innerRefs, List.mem_singleton] at hi
        exact hfin _ hi rfl

/-! ## 6. helpers of the corollaries -/

/-- `InScope` from decidable checks (for concrete programs) -/
theorem inScope_of (P : ParsedData) (h1 : DistinctNames P)
    (h2 : (typeItems P).all (fun it => (itemId it).serdeRename || (itemId it).renamed == (itemId it).original) = true)
    (h3 : P.aliases.all (fun a => !Lang.Kotlin.isInline a.decorators) = true)
    (h4 : (allFields P).all (fun f => f.decorators.isEmpty) = true)
    (h5 : P.importTypes.isEmpty = true) (h6 : P.consts.isEmpty = true) : InScope P where
  distinct := h1
  ids := by
    intro it hit hs
    have := List.all_eq_true.1 h2 it hit
    simpa [hs] using this
  notInline := by
    intro a ha
    have := List.all_eq_true.1 h3 a ha
    simpa using this
  noOverrides := by
    intro f hf
    have := List.all_eq_true.1 h4 f hf
    simpa using this
  single := by simpa using h5
  noConsts := by simpa using h6


/-- a reference in the known class refers to something that *is* defined … -/
theorem defines_of_known (lc : LangCfg) (P : ParsedData) (ref : Ref) (h : KnownRef lc P ref = true) :
    ∃ n, Defines lc P ref.target n := by
  obtain ⟨sp, tg, hd⟩ := ref
  cases tg with
  | type o =>
    simp only [KnownRef, Known_def_original, Bool.and_eq_true, List.any_eq_true, beq_iff_eq] at h
    obtain ⟨t, ht, ⟨ho, _⟩, _⟩ := h
    exact ⟨_, t, ht, ho, rfl⟩
  | param g => exact ⟨g, rfl⟩
  | parent o => simp [KnownRef, Known_def_original] at h
  | inner o v => simp [KnownRef, Known_def_original] at h

/-- … and it is a reference to a renamed enum, printed by the Go back end -/
theorem known_is_go_enum (lc : LangCfg) (P : ParsedData) (ref : Ref) (h : KnownRef lc P ref = true) :
    (∃ c, lc = .go c) ∧ ∃ o, ref.target = .type o ∧ ∃ e ∈ P.enums, e.id.original = o ∧ e.id.renamed ≠ e.id.original := by
  obtain ⟨sp, tg, hd⟩ := ref
  cases tg with
  | type o =>
    simp only [KnownRef, Known_def_original, Bool.and_eq_true, List.any_eq_true, beq_iff_eq] at h
    obtain ⟨t, ht, ⟨ho, hr⟩, hdu⟩ := h
    cases lc <;> cases t <;> simp [defUsesOriginal] at hdu
    rename_i c e
    refine ⟨⟨c, rfl⟩, o, rfl, e, enum_of_mem_typeItems ht, ho, ?_⟩
    simpa [Renamed, itemId] using hr
  | param g => simp [KnownRef, Known_def_original] at h
  | parent o => simp [KnownRef, Known_def_original] at h
  | inner o v => simp [KnownRef, Known_def_original] at h

/-- without renamed items no reference is in a known class -/
theorem knownRef_false_of_not_renamed (lc : LangCfg) (P : ParsedData)
    (h : ∀ t ∈ typeItems P, Renamed t = false) (ref : Ref) : KnownRef lc P ref = false := by
  obtain ⟨sp, tg, hd⟩ := ref
  cases tg with
  | type o =>
    simp only [KnownRef, Known_def_original]
    apply List.any_eq_false.2
    intro t ht
    simp [h t ht]
  | param g => exact knownRef_param lc P sp g hd
  | parent o => exact knownRef_parent lc P sp o hd
  | inner o v => exact knownRef_inner lc P sp o v hd

/-- outside Go no reference is in a known class -/
theorem knownRef_false_of_not_go (lc : LangCfg) (hl : ∀ c, lc ≠ .go c) (P : ParsedData) (ref : Ref) :
    KnownRef lc P ref = false := by
  cases hk : KnownRef lc P ref with
  | false => rfl
  | true =>
    obtain ⟨⟨c, hc⟩, _⟩ := known_is_go_enum lc P ref hk
    exact absurd hc (hl c)

/-- in Go, a program without renamed enums has no reference in a known class -/
theorem knownRef_false_of_no_renamed_enum (lc : LangCfg) (P : ParsedData)
    (h : ∀ e ∈ P.enums, e.id.renamed = e.id.original) (ref : Ref) : KnownRef lc P ref = false := by
  cases hk : KnownRef lc P ref with
  | false => rfl
  | true =>
    obtain ⟨_, o, _, e, he, _, hne⟩ := known_is_go_enum lc P ref hk
    exact absurd (h e he) hne

end TsV.C09
