import TsV.Lemmas.Capstone_Items
import TsV.Lemmas.Capstone_Order
/-!
# Capstone — Swift: from `writeItem … = .ok (b, st')` to the fact records and the clauses
-/
namespace TsV.Cap.Sw
open TsV TsV.Syn TsV.Parser TsV.Pipeline TsV.Generate TsV.C03E TsV.Lang TsV.Lang.Swift TsV.Outcome

/-- C04's reading of one stored property (the initialiser parameter carries the same pair) -/
def Reads (p : StoredProp) (o : Bool) (core : Str) : Prop :=
  o = C04.Sw.isOptional p.ty p.optional ∧ core = C04.Sw.stripOptional p.ty p.optional

theorem writeItem_struct (U : UnicodeOps) (cfg : Cfg) (rs : RustStruct) (st st' : St) (b : Str)
    (h : writeItem U cfg (.struct rs) st = .ok (b, st')) :
    ∃ s, structFacts U cfg rs st = .ok (s, st') ∧ b = renderStruct U s := by
  simp only [writeItem, writeStruct] at h
  obtain ⟨⟨s, st1⟩, hs, h⟩ := bindOk h
  simp only [Outcome.ok.injEq, Prod.mk.injEq] at h
  obtain ⟨rfl, rfl⟩ := h
  exact ⟨s, hs, rfl⟩

theorem writeItem_enum (U : UnicodeOps) (cfg : Cfg) (e : RustEnum) (st st' : St) (b : Str)
    (h : writeItem U cfg (.enum e) st = .ok (b, st')) :
    ∃ ss se, enumFacts U cfg e st = .ok (ss, se, st') ∧ b = nl ++ ss.flatMap (renderStruct U) ++ renderEnum U se := by
  simp only [writeItem, writeEnum] at h
  obtain ⟨⟨ss, se, st1⟩, hs, h⟩ := bindOk h
  simp only [Outcome.ok.injEq, Prod.mk.injEq] at h
  obtain ⟨rfl, rfl⟩ := h
  exact ⟨ss, se, hs, rfl⟩

theorem structKeys_eq (E : Ext) (cfg : Cfg) (rs : RustStruct) (st st' : St) (s : SwiftStruct)
    (h : structFacts E.U cfg rs st = .ok (s, st')) :
    C01.structKeys E .swift (cfg, st) rs = .ok (C01.Swift.structKeys s) := by
  simp [C01.structKeys, h]

theorem struct_c04 (E : Ext) (cfg : Cfg) (rs : RustStruct) (st st' : St) (s : SwiftStruct)
    (h : structFacts E.U cfg rs st = .ok (s, st')) :
    C04.Pointwise (fun rf' p => C04.InScope rs.genericTypes rf' (.swift cfg) →
      C04.Known_scalaDefaultNonOption (.swift cfg) rf' = false →
      ∃ o core, Reads p o core ∧ o = C04.opt rf' ∧
        C04.Translates E rs.genericTypes (C04.stripOption rf'.ty) (.swift cfg) core) rs.fields s.props := by
  refine (C04.swift_struct h).1.imp ?_
  intro rf' p hp hs _
  obtain ⟨h1, h2⟩ := hp hs.1 hs.2.2
  exact ⟨_, _, ⟨rfl, rfl⟩, h1, h2⟩

/-- **clauses 2 + 3 for the struct of a source struct** -/
theorem struct_ok (E : Ext) (hU : E.U.AsciiCorrect) (cfg : Cfg) (targetOs : List Str) (c : Str) (r : Renames)
    (attrs : List Attr) (ident : Str) (gens : List Syn.GenericParam) (fs : List Field) (rs : RustStruct)
    (st st' : St) (s : SwiftStruct)
    (hparse : parseStruct E targetOs attrs ident gens (.named fs) = .ok (.struct rs))
    (hd : structFacts E.U cfg (recStruct c r rs) st = .ok (s, st')) :
    StructClauses E .swift (.swift cfg) targetOs c r attrs fs (recStruct c r rs)
      (C01.Swift.structKeys s) Reads s.props :=
  struct_clauses E hU .swift (.swift cfg) (cfg, st) targetOs c r attrs ident gens fs rs _ Reads _ hparse
    (structKeys_eq E cfg _ st st' s hd) (struct_c04 E cfg _ st st' s hd)

/-- **clauses 2 + 4 for the declarations of a source enum**: `ss` are the helper structs of the struct variants -/
theorem enum_ok (E : Ext) (hU : E.U.AsciiCorrect) (cfg : Cfg) (targetOs : List Str) (c : Str) (r : Renames)
    (attrs : List Attr) (ident : Str) (gens : List Syn.GenericParam) (vs : List Variant) (e : RustEnum)
    (st st' : St) (ss : List SwiftStruct) (se : SwiftEnum) (acronyms : List Str)
    (hparse : parseEnum E targetOs attrs ident gens vs = .ok (.enum e))
    (hd : enumFacts E.U cfg (recEnum c r e) st = .ok (ss, se, st')) :
    EnumClauses E .swift targetOs attrs vs (recEnum c r e) acronyms (ss.map C01.Swift.structKeys) (C02.Sw.wire se) := by
  obtain ⟨st1, hs⟩ := C01.C01_swift_enum_structs E.U cfg _ st st' ss se hd
  refine enum_clauses E hU .swift (cfg, st) targetOs c r attrs ident gens vs e acronyms _ _ hparse
    (by simp [C01.enumKeys, hs]) ?_
  intro hsc hk
  exact C02.C02_backend .swift E hU acronyms _ hsc hk cfg st ss se st' hd

theorem block_of (U : UnicodeOps) (cfg : Cfg) {items emitted : List RustItem} {blocks : List Str} {st0 stN : St}
    (hperm : items.Perm emitted) (ht : Threaded (writeItem U cfg) items st0 blocks stN) {x : RustItem}
    (hx : x ∈ emitted) :
    ∃ (k : Nat) (b : Str) (st st' : St), items[k]? = some x ∧ blocks[k]? = some b ∧
      writeItem U cfg x st = .ok (b, st') := by
  obtain ⟨k, hk⟩ := getElem?_of_perm_mem hperm hx
  obtain ⟨sts, _, _, _, hall⟩ := ht.nth
  obtain ⟨s, s', b, _, _, hb, hw⟩ := hall k x hk
  exact ⟨k, b, s, s', hk, hb, hw⟩

end TsV.Cap.Sw
