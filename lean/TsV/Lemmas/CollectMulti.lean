import TsV.Lemmas.Collect
/-! the collector fold for several crates: a sorted map whose entry for a crate is the fold of that crate's arrivals -/
namespace TsV.Collect
open TsV TsV.Pipeline

def lookup (m : List (Str × ParsedData)) (c : Str) : Option ParsedData := (m.find? (·.1 == c)).map (·.2)

/-- keys strictly increasing -/
def Sorted : List (Str × ParsedData) → Prop
  | [] => True
  | [_] => True
  | (k1, _) :: (k2, v2) :: rest => Str.lt k1 k2 = true ∧ Sorted ((k2, v2) :: rest)

theorem sorted_tail {x : Str × ParsedData} {m : List (Str × ParsedData)} (h : Sorted (x :: m)) : Sorted m := by
  cases m with
  | nil => trivial
  | cons y t => obtain ⟨k1, v1⟩ := x; obtain ⟨k2, v2⟩ := y; exact h.2

/-- in a sorted map every later key is larger than the head key -/
theorem sorted_head_lt : ∀ (k : Str) (v : ParsedData) (m : List (Str × ParsedData)), Sorted ((k, v) :: m) →
    ∀ p ∈ m, Str.lt k p.1 = true
  | _, _, [], _, p, hp => by simp at hp
  | k, v, (k2, v2) :: rest, h, p, hp => by
    simp only [List.mem_cons] at hp
    rcases hp with rfl | hp
    · exact h.1
    · exact Order.lt_trans _ _ _ h.1 (sorted_head_lt k2 v2 rest h.2 p hp)

theorem lookup_none_of_lt (k : Str) (m : List (Str × ParsedData)) (h : ∀ p ∈ m, Str.lt k p.1 = true) :
    lookup m k = none := by
  unfold lookup
  rw [List.find?_eq_none.2]
  · rfl
  · intro p hp heq
    have h1 := h p hp
    have h2 : p.1 = k := eq_of_beq heq
    rw [h2, Order.lt_irrefl] at h1
    exact absurd h1 (by simp)

theorem upsert_sorted : ∀ (m : List (Str × ParsedData)) (d : ParsedData), Sorted m → Sorted (upsert m d)
  | [], d, _ => trivial
  | [(k, v)], d, _ => by
    simp only [upsert]
    by_cases h1 : (k == d.crateName) = true
    · simp [h1, Sorted]
    · simp only [h1, Bool.false_eq_true, if_false]
      by_cases h2 : Str.lt d.crateName k = true
      · simp [h2, Sorted]
      · simp only [h2, Bool.false_eq_true, if_false, upsert, Sorted]
        -- ¬ k = c, ¬ c < k  ⇒ k < c
        cases h3 : Str.lt k d.crateName with
        | true => exact ⟨rfl, trivial⟩
        | false =>
          have : k = d.crateName := Order.eq_of_not_lt _ _ h3 (by simpa using h2)
          simp [this] at h1
  | (k, v) :: (k2, v2) :: rest, d, hs => by
    simp only [upsert]
    by_cases h1 : (k == d.crateName) = true
    · simp only [h1, if_true]; exact ⟨hs.1, hs.2⟩
    · simp only [h1, Bool.false_eq_true, if_false]
      by_cases h2 : Str.lt d.crateName k = true
      · simp only [h2, if_true]; exact ⟨h2, hs⟩
      · simp only [h2, Bool.false_eq_true, if_false]
        have hk : Str.lt k d.crateName = true := by
          cases h3 : Str.lt k d.crateName with
          | true => rfl
          | false =>
            have : k = d.crateName := Order.eq_of_not_lt _ _ h3 (by simpa using h2)
            simp [this] at h1
        have ih := upsert_sorted ((k2, v2) :: rest) d hs.2
        -- the head of `upsert ((k2,v2)::rest) d` is either (k2,_) or (c,_), both larger than k
        simp only [upsert] at ih ⊢
        by_cases h4 : (k2 == d.crateName) = true
        · simp only [h4, if_true] at ih ⊢; exact ⟨hs.1, ih⟩
        · simp only [h4, Bool.false_eq_true, if_false] at ih ⊢
          by_cases h5 : Str.lt d.crateName k2 = true
          · simp only [h5, if_true] at ih ⊢; exact ⟨hk, ih⟩
          · simp only [h5, Bool.false_eq_true, if_false] at ih ⊢; exact ⟨hs.1, ih⟩

theorem upsert_lookup : ∀ (m : List (Str × ParsedData)) (d : ParsedData) (c : Str), Sorted m →
    lookup (upsert m d) c =
      if c = d.crateName then some (addAssign ((lookup m c).getD {}) d) else lookup m c
  | [], d, c, _ => by
    simp only [upsert, lookup, List.find?_cons, List.find?_nil]
    by_cases h : c = d.crateName
    · subst h; simp
    · have : (d.crateName == c) = false := by simpa using fun e => h e.symm
      simp [h, this]
  | (k, v) :: rest, d, c, hs => by
    simp only [upsert]
    by_cases h1 : (k == d.crateName) = true
    · have hk : k = d.crateName := eq_of_beq h1
      simp only [h1, if_true, lookup, List.find?_cons]
      by_cases hc : c = d.crateName
      · subst hc; subst hk; simp
      · have : (k == c) = false := by rw [hk]; simpa using fun e => hc e.symm
        simp [hc, this]
    · simp only [h1, Bool.false_eq_true, if_false]
      by_cases h2 : Str.lt d.crateName k = true
      · simp only [h2, if_true, lookup, List.find?_cons]
        by_cases hc : c = d.crateName
        · subst hc
          -- c < k and the map is sorted: c does not occur in it
          have hnone : lookup ((k, v) :: rest) d.crateName = none := by
            apply lookup_none_of_lt
            intro p hp
            simp only [List.mem_cons] at hp
            rcases hp with rfl | hp
            · exact h2
            · exact Order.lt_trans _ _ _ h2 (sorted_head_lt k v rest hs p hp)
          simp only [lookup, List.find?_cons] at hnone
          simp [hnone]
        · have : (d.crateName == c) = false := by simpa using fun e => hc e.symm
          simp [hc, this]
      · simp only [h2, Bool.false_eq_true, if_false]
        have ih := upsert_lookup rest d c (sorted_tail hs)
        simp only [lookup, List.find?_cons] at ih ⊢
        by_cases hkc : (k == c) = true
        · have : k = c := eq_of_beq hkc
          subst this
          have hne : ¬ k = d.crateName := by simpa using h1
          simp [hne]
        · simp only [hkc]
          exact ih

theorem collect_sorted_aux : ∀ (a : List ParsedData) (m : List (Str × ParsedData)), Sorted m →
    Sorted (a.foldl upsert m)
  | [], m, h => h
  | d :: t, m, h => collect_sorted_aux t (upsert m d) (upsert_sorted m d h)

/-- the collector's map is sorted by crate name (it is a `BTreeMap`) -/
theorem collect_sorted (a : List ParsedData) : Sorted (collect a) := collect_sorted_aux a [] trivial

theorem collect_lookup_aux : ∀ (a : List ParsedData) (m : List (Str × ParsedData)) (c : Str), Sorted m →
    lookup (a.foldl upsert m) c =
      (match lookup m c, a.filter (fun d => d.crateName == c) with
       | none, [] => none
       | some v, l => some (merged v l)
       | none, l => some (merged {} l))
  | [], m, c, _ => by cases h : lookup m c <;> simp [merged, h]
  | d :: t, m, c, hs => by
    simp only [List.foldl_cons]
    rw [collect_lookup_aux t (upsert m d) c (upsert_sorted m d hs), upsert_lookup m d c hs]
    by_cases hc : c = d.crateName
    · subst hc
      simp only [if_true, List.filter_cons, beq_self_eq_true]
      cases h : lookup m d.crateName <;> simp [merged]
    · have : (d.crateName == c) = false := by simpa using fun e => hc e.symm
      simp only [hc, if_false, List.filter_cons, this]
      rfl

/-- **the collector partitions by crate**: the entry of crate `c` is the fold, in arrival order, of
exactly the arrivals whose crate is `c`; there is no entry for a crate without arrivals -/
theorem collect_lookup (a : List ParsedData) (c : Str) :
    lookup (collect a) c =
      (match a.filter (fun d => d.crateName == c) with
       | [] => none
       | l => some (merged {} l)) := by
  unfold collect
  rw [collect_lookup_aux a [] c trivial]
  simp only [lookup, List.find?_nil, Option.map_none]
  cases a.filter (fun d => d.crateName == c) <;> rfl

end TsV.Collect
