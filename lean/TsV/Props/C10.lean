import TsV.Lemmas.C10_Kotlin
import TsV.Lemmas.C10_TypeScript
import TsV.Lemmas.C10_Scala
import TsV.Lemmas.C10_Swift
import TsV.Lemmas.C10_Go
import TsV.Lemmas.C10_Keywords
import TsV.Lemmas.C10_Spec
import TsV.Lemmas.C10_PyDoc
import TsV.Model.Generate
/-!
# C10 — generated files are syntactically well-formed in their target language  (PARTIAL)

What is a theorem here, and what is only checked (tools/c10.py):

* **proved** (this file, on the model that is compared byte for byte with the real generators):
  - *lexical well-formedness*: for TypeScript, Kotlin, Swift and Scala (and Go structs, aliases,
    constants), every declaration the model renders for a
    struct, a unit enum, an algebraic enum, a type alias (and a constant, TypeScript) is
    `wellBracketed`: every comment, string literal, `( [ { <` opened in it is closed in it, in the
    right order — under explicit scope hypotheses (`ItemScope`, `CfgOk`); for Kotlin also the whole
    file (header, package line, imports, declarations).  `format!("{:?}")` output is a closed
    string literal for *every* string (`debugStr_closed`).
  - *declared names are identifiers* (Kotlin, through the binding semantics `declName`), and the
    converse for the dashed-name class.
  - *keyword escaping where the back end promises it*: `swift_keyword_aware_rename` and the printed
    Swift member name are never a bare keyword; `python_property_aware_rename` never returns a
    Python keyword.
  - *Python docstrings have no malformed escapes*: every written doc line contains backslashes only as
    `\\` and `\"` (`python_docstring_escapes_repaired`; the finding `python-docstring-escape` is repaired).
  - *leading digits*: Kotlin / Scala / Swift algebraic variant names never start with a digit.
  - the property at full strength is **false** (`C10_not_full`), with kernel-checked witnesses on
    the model for every known class.
* **only checked**: that each declaration matches the target's *declaration grammar* — by
  recursive-descent recognisers (CPython's parser for Python) on the implementation's output, for
  all six languages.  Lexical well-formedness is proved for TypeScript, Kotlin, Swift and Scala (every
  item kind) and for Go structs / aliases / constants (Go enums only from their fact records, and
  only without `uppercase_acronyms`); for Python it is only checked (the specification `lexOk`
  covers Python, no theorem does).
-/
namespace TsV.C10
open TsV TsV.Lang TsV.C10Lex TsV.Generate TsV.C10Spec

/-! ## the specification -/

def langOf : LangCfg → TsV.Lang
  | .typescript _ => .typescript | .kotlin _ => .kotlin | .swift _ => .swift
  | .scala _ => .scala | .go _ => .go | .python _ => .python

/-- all output files of one run -/
def generateAll (E : Ext) (multi : Bool) (jobs : List (Str × ParsedData × Option Pipeline.ScopedCrateTypes)) :
    LangCfg → Outcome (List (Str × Str))
  | .typescript cfg => TypeScript.generateAll E cfg multi jobs
  | .kotlin cfg => Kotlin.generateAll E cfg multi jobs
  | .swift cfg => Swift.generateAll E cfg multi jobs
  | .scala cfg => Scala.generateAll E cfg multi jobs
  | .go cfg => Go.generateAll E cfg multi jobs
  | .python cfg => Python.generateAll E cfg multi jobs

/-- **The property at full strength, lexical layer**: whatever the parsed program, the settings and
the language, every file that is written is lexically closed.  (The declaration grammar itself is
not formalised in Lean; see the header.) -/
def C10_full : Prop :=
  ∀ (E : Ext) (lang : LangCfg) (multi : Bool)
    (jobs : List (Str × ParsedData × Option Pipeline.ScopedCrateTypes)) (outs : List (Str × Str)),
    generateAll E multi jobs lang = .ok outs → ∀ o ∈ outs, lexOk (langOf lang) o.2 = true

/-! ## it does not hold: the `serde(rename)` of an item is printed raw, whatever it contains

(Until the `fix:` commit 653aee1 the witness was a Scala package name without a dot, which left an
unmatched `}`; that finding is repaired, see `scala_package_without_dot_repaired` below.  None of the
other open classes breaks the *lexical* layer on its own — they break the declaration grammar — but
the mechanism of `dashed-type-name` does: the new name of an item is copied into the declaration
unchecked, so a name with a dash *and a bracket* leaves the file unclosed.) -/

def witnessStruct : RustStruct :=
  { id := ⟨s%"S", s%"S", false⟩, genericTypes := [], fields := [], comments := [], decorators := {}, isRedacted := false }

def asciiExt : Ext := { U := UnicodeOps.ascii, parseType := fun _ => none }

/-- `#[typeshare] #[serde(rename = "New-Name{")] struct Foo;` -/
def bracedStruct : RustStruct := { witnessStruct with id := ⟨s%"Foo", s%"New-Name{", true⟩ }

/-- `typeshare --lang scala --scala-package com.example` on it writes `class New-Name{ extends Serializable` -/
theorem renamed_name_printed_raw :
    Scala.generate { package := s%"com.example" } { structs := [bracedStruct] } =
      .ok s%"package com\n\npackage example {\n\nclass New-Name{ extends Serializable\n\n}\n" := by decide

theorem C10_not_full : ¬ C10_full := by
  intro h
  have := h asciiExt (.scala { package := s%"com.example" }) false [(s%"", { structs := [bracedStruct] }, none)]
    [(s%"", s%"package com\n\npackage example {\n\nclass New-Name{ extends Serializable\n\n}\n")] (by decide)
    (s%"", s%"package com\n\npackage example {\n\nclass New-Name{ extends Serializable\n\n}\n")
    (List.Mem.head _)
  revert this
  decide

/-- the repaired finding **scala-package-without-dot** as a positive regression example:
`typeshare --lang scala --scala-package pkg` on `#[typeshare] struct S;` now opens the package block
it closes (before 653aee1 the whole output was `class S extends Serializable\n\n}\n`) -/
theorem scala_package_without_dot_repaired :
    Scala.generate { package := s%"pkg" } { structs := [witnessStruct] } =
      .ok s%"package pkg {\n\nclass S extends Serializable\n\n}\n" ∧
    lexOk .scala s%"package pkg {\n\nclass S extends Serializable\n\n}\n" = true := by decide

/-! ## known classes (decidable), each with a kernel-checked witness on the model -/

def hasDash (s : Str) : Bool := s.contains '-'

/-- every name an item prints in type-name position: what it declares and what it refers to -/
def printedTypeNames : RustItem → List Str
  | .struct s => s.id.original :: s.id.renamed :: s.fields.flatMap fun f => typeNames f.ty
  | .alias a => a.id.original :: a.id.renamed :: typeNames a.ty
  | .const c => typeNames c.ty
  | .enum e => e.id.original :: e.id.renamed :: e.variants.flatMap fun v =>
      match v with
      | .unit _ _ => []
      | .tuple _ _ ty => typeNames ty
      | .anonymousStruct _ _ fs => fs.flatMap fun f => typeNames f.ty

/-- **dashed-type-name** (all six back ends): `#[serde(rename = "New-Name")]` on an item; the name is
printed raw wherever the type is declared or (after `reconcile`) referred to -/
def Known_DashedTypeName (it : RustItem) : Bool := (printedTypeNames it).any hasDash

/-- C15's class for `///` and `//` comments (Kotlin, Swift, Scala, Go): a doc line with a line break -/
def Known_DocLineBreak (cs : List Str) : Bool := cs.any fun c => c.contains '\n'
/-- C15's class for TypeScript: a doc line with `*/` -/
def Known_DocTerminator (cs : List Str) : Bool := cs.any fun c => Str.containsSub c s%"*/"

/-- **typescript-generic-unit-enum**: `export enum E<T> {` -/
def Known_TsGenericUnitEnum : RustItem → Bool
  | .enum e => e.keys.isNone && !e.genericTypes.isEmpty
  | _ => false

def fieldsOf : RustItem → List RustField
  | .struct s => s.fields
  | .enum e => e.variants.flatMap fun v => match v with
    | .anonymousStruct _ _ fs => fs
    | _ => []
  | _ => []

/-- **scala-default-underscore**: `#[serde(default)]` on a non-`Option` field prints ` = _` -/
def Known_ScalaDefaultUnderscore (it : RustItem) : Bool :=
  (fieldsOf it).any fun f => f.hasDefault && !f.ty.isOptional

/-- **swift-keyword-not-escaped**: a tag / content key that is a Swift keyword (printed raw in
`ContainerCodingKeys`), a field called `var`, `let` or `inout` (the `init` label is not escaped) -/
def Known_SwiftKeywordNotEscaped (it : RustItem) : Bool :=
  (match it with
   | .enum e => (match e.keys with
     | some (t, c) => Swift.keywords.contains t || Swift.keywords.contains c
     | none => false)
   | _ => false) ||
  (fieldsOf it).any fun f => [s%"var", s%"let", s%"inout"].contains (Swift.removeDash f.id.renamed)

/-- **swift-case-name-not-identifier**: a variant whose camel-cased name is empty, or (unit enums,
where no `_` is put in front) starts with a digit (neither depends on the Unicode tables `U` that
`to_camel_case` consults since the `fix:` commit 8f4a2d5: they only decide the case of later letters) -/
def Known_SwiftCaseName (U : UnicodeOps) : RustItem → Bool
  | .enum e => e.variants.any fun v =>
      match Rename.toCamel U v.id.original with
      | [] => true
      | c :: _ => e.keys.isNone && Str.isAsciiDigit c
  | _ => false

/-- **python-tag-key-keyword**: tag / content keys are written raw as attribute names -/
def Known_PyTagKeyKeyword : RustItem → Bool
  | .enum e => (match e.keys with
    | some (t, c) => Python.keywords.contains t || Python.keywords.contains c
    | none => false)
  | _ => false

/-- **python-tag-member-not-identifier**: the member of the `…Types` enumeration is
`SNAKE_UPPER(renamed)`; snake-casing strips leading underscores -/
def Known_PyTagMember (E : Ext) : RustItem → Bool
  | .enum e => e.keys.isSome && e.variants.any fun v =>
      match Python.tagMemberName E v.id.renamed with
      | [] => true
      | c :: _ => Str.isAsciiDigit c
  | _ => false

/-- **kotlin-import-empty-package**: `import .crate.Type` -/
def Known_KotlinImportEmptyPackage (cfg : Kotlin.Cfg) (d : ParsedData) : Bool :=
  d.multiFile && cfg.package.isEmpty

/-! ### witnesses -/

def dashedStruct : RustStruct := { witnessStruct with id := ⟨s%"Foo", s%"New-Name", true⟩ }
def genericAlias : RustTypeAlias :=
  { id := ⟨s%"G", s%"G", false⟩, genericTypes := [s%"T"], ty := .vec (.simple s%"T"), comments := [],
    decorators := {}, isRedacted := false }
def keywordTagEnum : RustEnum :=
  { keys := some (s%"case", s%"content"), id := ⟨s%"E", s%"E", false⟩, genericTypes := [], comments := [],
    variants := [.tuple ⟨s%"A", s%"A", false⟩ [] (.prim .u8)], decorators := {}, isRecursive := false,
    isRedacted := false }
def digitUnitEnum : RustEnum :=
  { keys := none, id := ⟨s%"E", s%"E", false⟩, genericTypes := [s%"T"], comments := [],
    variants := [.unit ⟨s%"_1", s%"_1", false⟩ []], decorators := {}, isRecursive := false, isRedacted := false }
def defaultField : RustField :=
  { id := ⟨s%"a", s%"a", false⟩, ty := .prim .u8, comments := [], hasDefault := true, decorators := [] }

theorem dashed_typescript :
    (TypeScript.writeStruct {} dashedStruct []).bind (fun r => .ok r.1) = .ok s%"export interface New-Name {\n}\n\n" := by
  decide
theorem dashed_kotlin : (Kotlin.structFacts {} dashedStruct).bind (fun d => .ok (C10Kotlin.declName d)) = .ok s%"New-Name" := by
  decide
example : Known_DashedTypeName (.struct dashedStruct) = true := by decide
/-- the witness of `C10_not_full` is inside this class -/
example : Known_DashedTypeName (.struct bracedStruct) = true := by decide

/-- formerly a witness of **python-generic-alias** (`G[T] = List[T]`: a subscripted assignment target,
`T` undeclared); since the `fix:` commit f8d1040 the alias is an ordinary assignment and `T` is
registered as a `TypeVar` (written, with its import, in the file header) - kept as a regression -/
theorem python_generic_alias_repaired :
    (Python.aliasFacts {} genericAlias {}).bind (fun r => .ok (Python.renderAlias r.1, r.2.typeVars, r.2.imports)) =
      .ok (s%"G = List[T]\n\n", [s%"T"], [(s%"typing", [s%"List", s%"TypeVar"])]) := by
  decide

/-- formerly the class **python-docstring-escape** (`\x`, `\u`, `\U`, `\N` in doc text were malformed
escapes of the non-raw docstring); since the `fix:` commit af54d85 backslashes are doubled: reading a
written doc line left to right, every backslash is followed by a backslash or a `"`
(`C10PyDoc.pyEscapesOk`) — for every string -/
theorem python_docstring_escapes_repaired (c : Str) : C10PyDoc.pyEscapesOk (Python.escapeDoc c) = true :=
  C10PyDoc.escapeDoc_escapesOk c
/-- the old witness, `/// see C:\Users\x` -/
example : Python.docstring 0 [s%"see C:\\Users\\x"] = s%"\"\"\"\nsee C:\\\\Users\\\\x\n\"\"\"\n" := by decide
example : C10PyDoc.pyEscapesOk s%"see C:\\Users\\x" = false := by decide

theorem typescript_generic_unit_enum :
    (TypeScript.writeEnum {} digitUnitEnum []).bind (fun r => .ok r.1) = .ok s%"export enum E<T> {\n\t_1 = \"_1\",\n}\n\n" := by
  decide
example : Known_TsGenericUnitEnum (.enum digitUnitEnum) = true := by decide

theorem scala_default_underscore :
    (Scala.paramFacts {} [] defaultField).bind (fun p => .ok (Scala.renderParam p)) = .ok s%"\ta: UByte = _" := by decide
example : Known_ScalaDefaultUnderscore (.struct { witnessStruct with fields := [defaultField] }) = true := by decide

/-- the container keys are printed raw -/
theorem swift_container_keys_raw (a : Swift.AlgebraicCodable) :
    Str.startsWith (Swift.renderCodable a)
      (s%"\n\tprivate enum ContainerCodingKeys: String, CodingKey {\n\t\tcase " ++ a.tagKey ++ s%", " ++ a.contentKey ++ s%"\n") = true := by
  have : ∀ (p q : Str), Str.startsWith (p ++ q) p = true := by
    intro p q
    induction p with
    | nil => cases q <;> rfl
    | cons c t ih => simp [Str.startsWith, ih]
  unfold Swift.renderCodable
  simp only [List.append_assoc]
  have h := this (s%"\n\tprivate enum ContainerCodingKeys: String, CodingKey {\n\t\tcase " ++ (a.tagKey ++ (s%", " ++ (a.contentKey ++ s%"\n"))))
  simp only [List.append_assoc] at h
  exact h _
example : Known_SwiftKeywordNotEscaped (.enum keywordTagEnum) = true := by decide
/-- the memberwise `init` labels are not escaped: field `var` -/
theorem swift_init_label_raw :
    (Swift.initParams {} [] [{ defaultField with id := ⟨s%"var", s%"var", false⟩ }] false).bind
      (fun r => .ok (r.1.map Swift.renderInitParam)) = .ok [s%"var: UInt8?"] := by decide

/-- a unit enum's variant `_1` is declared as `case 1 = "_1"` -/
theorem swift_unit_case_digit :
    Swift.renderUnitCase UnicodeOps.ascii (Swift.unitCase .ascii (.unit ⟨s%"_1", s%"_1", false⟩ [])) = s%"\tcase 1 = \"_1\"\n" := by
  decide
example : Known_SwiftCaseName .ascii (.enum digitUnitEnum) = true := by decide

def keywordTagVariant : Python.PyVariant :=
  { className := s%"EA"
    comments := []
    tagKey := s%"class"
    tagLiteral := s%"ETypes.A"
    wire := s%"A"
    contentKey := s%"content"
    contentType := none }
theorem python_tag_key_raw :
    Python.renderVariant keywordTagVariant = s%"class EA(BaseModel):\n    class: Literal[ETypes.A] = ETypes.A\n\n" := by
  decide
example : Known_PyTagKeyKeyword (.enum keywordTagEnum) = false := by decide
example : Known_PyTagKeyKeyword (.enum { keywordTagEnum with keys := some (s%"class", s%"c") }) = true := by decide

theorem kotlin_import_empty_package :
    Kotlin.writeImports { package := [] } [(s%"alpha", [s%"A"])] = s%"import .alpha.A\n\n" := by decide

/-- a doc line with a line break leaves the `///` comment: the rest of it is code (C15) -/
theorem kotlin_doc_line_break :
    wellBracketed C10Kotlin.K (Kotlin.comments 0 [s%" a\n)"]) = false := by decide
example : Known_DocLineBreak [s%" a\n)"] = true := by decide
/-- formerly a witness (`*/` in doc text ended the TypeScript block comment); `write_comments` now
escapes it (C15 repair), so the block is closed - kept as a regression -/
theorem typescript_doc_terminator_repaired :
    wellBracketed C10TypeScript.T (TypeScript.comments 0 [s%" a */ }"]) = true := by decide
example : Known_DocTerminator [s%" a */ }"] = true := by decide

/-! ## the partial theorems -/

theorem docsOk_kotlin (cs : List Str) : C10Kotlin.DocsOk cs ↔ Known_DocLineBreak cs = false := by
  simp [C10Kotlin.DocsOk, Known_DocLineBreak]

theorem docsOk_typescript (cs : List Str) : C10TypeScript.DocsOk cs ↔ Known_DocTerminator cs = false := by
  simp [C10TypeScript.DocsOk, Known_DocTerminator]

/-- **`format!("{:?}", s)` is a closed string literal for every `s`** (serde keys, wire names,
redaction names — wherever a back end uses `{:?}`) -/
theorem debugStr_closed (cfg : LexCfg) (s : Str) : wellBracketed cfg (debugStr s) = true := (NB.debugStr s).wb

/-- **Kotlin, every item kind**: if the item is in scope — names over `[A-Za-z0-9_-]`, type trees over
such names, balanced type overrides and type mappings, identifier prefix — and its doc comments are
outside C15's class, every declaration generated for it (`typealias`, `value class`, `object`,
`data class`, `enum class`, `sealed class`, and the `…Inner` helper classes) is lexically closed. -/
theorem C10_kotlin_item (cfg : Kotlin.Cfg) (H : C10Kotlin.CfgOk cfg) (it : RustItem)
    (hs : ItemScope .kotlin C10Kotlin.K (fun cs => Known_DocLineBreak cs = false) it)
    (ds : List Kotlin.KtDecl) (h : Kotlin.itemFacts cfg it = .ok ds) :
    ∀ d ∈ ds, wellBracketed C10Kotlin.K (Kotlin.renderDecl d) = true := by
  have hs' : C10Kotlin.ItemOk it := by
    have e : (fun cs => Known_DocLineBreak cs = false) = C10Kotlin.DocsOk := by
      funext cs; exact propext (docsOk_kotlin cs).symm
    rw [e] at hs; exact hs
  intro d hd
  exact (C10Kotlin.renderDecl_nb d (C10Kotlin.itemFacts_ok H it hs' ds h d hd)).wb

/-- **Kotlin, the whole file**: header comment, package line, import lines and all declarations. -/
theorem C10_kotlin_file (cfg : Kotlin.Cfg) (H : C10Kotlin.CfgOk cfg) (d : ParsedData)
    (imports : Option Pipeline.ScopedCrateTypes) (hf : C10Kotlin.FileOk cfg d imports)
    (hitems : ∀ items, Pipeline.generateOrder d = some items → ∀ it ∈ items, C10Kotlin.ItemOk it)
    (text : Str) (h : Kotlin.generate cfg d imports = .ok text) :
    wellBracketed C10Kotlin.K text = true := by
  unfold Kotlin.generate at h
  split at h
  · cases h
  · rename_i items hitems'
    cases hd : Kotlin.itemsFacts cfg items with
    | ok decls =>
      rw [hd] at h; simp only [Outcome.bind] at h; cases h
      have hdecls := C10Kotlin.itemsFacts_ok H items decls (hitems items hitems') hd
      refine (NB.append (NB.append (C10Kotlin.beginFile_nb cfg d imports hf) ?_)
        (NB.flatMap _ _ fun x hx => C10Kotlin.renderDecl_nb x (hdecls x hx))).wb
      split
      · cases imports with
        | none => simpa [C10Kotlin.K] using C10Kotlin.writeImports_nb cfg [] hf.package H.pfx (by simp)
        | some i => exact C10Kotlin.writeImports_nb cfg i hf.package H.pfx (hf.imports i rfl)
      · exact NB.nil
    | err e => rw [hd] at h; cases h
    | panic s => rw [hd] at h; cases h

/-- **Kotlin, declared names**: with an identifier (or empty) prefix and identifier item names, every
name a declaration introduces is an identifier -/
theorem C10_kotlin_names (cfg : Kotlin.Cfg) (hp : IdentPrefix cfg.pfx) (it : RustItem) (hn : C10Kotlin.NamesIdent it)
    (ds : List Kotlin.KtDecl) (h : Kotlin.itemFacts cfg it = .ok ds) :
    ∀ d ∈ ds, isIdentifier (C10Kotlin.declName d) = true :=
  C10Kotlin.declName_identifier hp it hn ds h

/-- … and conversely: a dashed struct name is printed raw, so the declared name is not an identifier -/
theorem C10_kotlin_dashed (cfg : Kotlin.Cfg) (s : RustStruct) (hd : '-' ∈ s.id.renamed) (d : Kotlin.KtDecl)
    (h : Kotlin.structFacts cfg s = .ok d) : isIdentifier (C10Kotlin.declName d) = false := by
  rw [C10Kotlin.structFacts_name s d h]
  exact isIdentifier_dash (by simp [hd])

/-- **TypeScript, every item kind** (`export interface`, `export enum`, the tagged union
`export type … = | {…}`, `export type` aliases, `export const`): lexically closed under the same kind
of scope; doc comments may contain anything but `*/`.  The Unicode parameter is only assumed to be
ASCII-correct (it upper-cases the name of a constant). -/
theorem C10_typescript_item (U : UnicodeOps) (cfg : TypeScript.Cfg) (H : C10TypeScript.CfgOk cfg) (it : RustItem)
    (hs : ItemScope .typescript C10TypeScript.T (fun cs => Known_DocTerminator cs = false) it)
    (hU : U.AsciiCorrect)
    (st : TypeScript.CustomMap) (text : Str) (st' : TypeScript.CustomMap)
    (h : TypeScript.writeItem U cfg it st = .ok (text, st')) : wellBracketed C10TypeScript.T text = true := by
  have e : (fun cs => Known_DocTerminator cs = false) = C10TypeScript.DocsOk := by
    funext cs; exact propext (docsOk_typescript cs).symm
  rw [e] at hs
  cases it with
  | struct s => exact (C10TypeScript.writeStruct_nb H s st text st' hs h).wb
  | «enum» en => exact (C10TypeScript.writeEnum_nb H en st text st' hs h).wb
  | alias a => exact (C10TypeScript.writeAlias_nb H a st text st' hs h).wb
  | const c =>
    exact (C10TypeScript.writeConst_nb U H c st text st' hs.ty
      (IdentStr.key (upperStr_ident U hU (toSnake_ident U hs.name))) h).wb

/-- **Scala, every item kind** (`case class` / `class`, `type`, `sealed trait` with its companion
object and the `…Inner` helper classes): each declaration is lexically closed -/
theorem C10_scala_struct (cfg : Scala.Cfg) (H : C10Scala.CfgOk cfg) (rs : RustStruct)
    (hs : StructScope .scala C10Scala.S (fun cs => Known_DocLineBreak cs = false) rs) (text : Str)
    (h : Scala.writeStruct cfg rs = .ok text) : wellBracketed C10Scala.S text = true := by
  have e : (fun cs => Known_DocLineBreak cs = false) = C10Scala.DocsOk := by
    funext cs; exact propext (by simp [C10Scala.DocsOk, Known_DocLineBreak])
  rw [e] at hs
  unfold Scala.writeStruct at h
  obtain ⟨c, hc, h⟩ := obind_ok h
  cases h
  exact (C10Scala.renderClass_nb c (C10Scala.classFacts_ok H rs c hs hc)).wb

theorem C10_scala_alias (cfg : Scala.Cfg) (H : C10Scala.CfgOk cfg) (a : RustTypeAlias)
    (hs : AliasScope (fun cs => Known_DocLineBreak cs = false) a) (text : Str)
    (h : Scala.writeAlias cfg a = .ok text) : wellBracketed C10Scala.S text = true := by
  have e : (fun cs => Known_DocLineBreak cs = false) = C10Scala.DocsOk := by
    funext cs; exact propext (by simp [C10Scala.DocsOk, Known_DocLineBreak])
  rw [e] at hs
  unfold Scala.writeAlias at h
  obtain ⟨f, hf, h⟩ := obind_ok h
  cases h
  exact (C10Scala.aliasFacts_nb H a f hs hf).wb

theorem C10_scala_enum (cfg : Scala.Cfg) (H : C10Scala.CfgOk cfg) (e : RustEnum)
    (hs : EnumScope .scala C10Scala.S (fun cs => Known_DocLineBreak cs = false) e) (text : Str)
    (h : Scala.writeEnum cfg e = .ok text) : wellBracketed C10Scala.S text = true := by
  have eq : (fun cs => Known_DocLineBreak cs = false) = C10Scala.DocsOk := by
    funext cs; exact propext (by simp [C10Scala.DocsOk, Known_DocLineBreak])
  rw [eq] at hs
  unfold Scala.writeEnum at h
  obtain ⟨f, hf, h⟩ := obind_ok h
  cases h
  exact (C10Scala.enumFacts_nb H e hs f hf).wb

/-- **Scala, the whole file** — for every package name that is a dotted identifier fragment, with
or without a dot (the hypothesis "the package name splits at a dot" of the previous rounds is gone
with the `fix:` commit 653aee1: a name without a dot is its own innermost package) -/
theorem C10_scala_file (cfg : Scala.Cfg) (H : C10Scala.CfgOk cfg) (d : ParsedData) (hd : C10Scala.DataOk d)
    (hv : ∀ v, cfg.versionHeader = some v → Dotted v)
    (hpkg : Dotted cfg.package)
    (text : Str) (h : Scala.generate cfg d = .ok text) : wellBracketed C10Scala.S text = true := by
  unfold Scala.generate at h
  obtain ⟨f, hf, h⟩ := obind_ok h
  cases h
  exact (C10Scala.renderFile_nb f (C10Scala.fileFacts_ok H d hd f hv hpkg hf)).wb

/-- **Swift, every item kind** (`public struct` with `CodingKeys` and the memberwise `init`,
`public typealias`, raw-value and algebraic `public enum` with the helper structs, `CodingKeys`,
`ContainerCodingKeys`, `init(from:)` and `encode(to:)`).  Decorators and generic constraints are
user strings: that the lists computed from them consist of balanced strings is part of the scope
(`DecorOk`, `EnumDecorOk`). -/
theorem C10_swift_struct (U : UnicodeOps) (cfg : Swift.Cfg) (H : C10Swift.CfgOk cfg) (rs : RustStruct)
    (hs : StructScope .swift C10Swift.W (fun cs => Known_DocLineBreak cs = false) rs)
    (hd : C10Swift.DecorOk U cfg rs.decorators rs.genericTypes) (st : Swift.St) (text : Str) (st' : Swift.St)
    (h : Swift.writeStruct U cfg rs st = .ok (text, st')) : wellBracketed C10Swift.W text = true := by
  have e : (fun cs => Known_DocLineBreak cs = false) = C10Swift.DocsOk := by
    funext cs; exact propext (by simp [C10Swift.DocsOk, Known_DocLineBreak])
  rw [e] at hs
  exact (C10Swift.writeStruct_nb U H rs hs hd st text st' h).wb

theorem C10_swift_alias (U : UnicodeOps) (cfg : Swift.Cfg) (H : C10Swift.CfgOk cfg) (a : RustTypeAlias)
    (hs : AliasScope (fun cs => Known_DocLineBreak cs = false) a) (st : Swift.St) (text : Str) (st' : Swift.St)
    (h : Swift.writeAlias U cfg a st = .ok (text, st')) : wellBracketed C10Swift.W text = true := by
  have e : (fun cs => Known_DocLineBreak cs = false) = C10Swift.DocsOk := by
    funext cs; exact propext (by simp [C10Swift.DocsOk, Known_DocLineBreak])
  rw [e] at hs
  exact (C10Swift.writeAlias_nb U H a hs st text st' h).wb

theorem C10_swift_enum (U : UnicodeOps) (cfg : Swift.Cfg) (H : C10Swift.CfgOk cfg) (e : RustEnum)
    (hs : EnumScope .swift C10Swift.W (fun cs => Known_DocLineBreak cs = false) e)
    (hd : C10Swift.EnumDecorOk U cfg e) (st : Swift.St) (text : Str) (st' : Swift.St)
    (h : Swift.writeEnum U cfg e st = .ok (text, st')) : wellBracketed C10Swift.W text = true := by
  have eq : (fun cs => Known_DocLineBreak cs = false) = C10Swift.DocsOk := by
    funext cs; exact propext (by simp [C10Swift.DocsOk, Known_DocLineBreak])
  rw [eq] at hs
  exact (C10Swift.writeEnum_nb U H e hs hd st text st' h).wb

/-- **Go** (with `uppercase_acronyms = []`): `type … struct`, type aliases and constants are lexically
closed, struct tags (raw strings) included.  For enums the theorem is at the level of the fact
records (`C10_go_alg_enum_facts`, `C10_go_unit_enum_facts`): the step from the parsed enum to its
facts is not proved. -/
theorem C10_go_struct (U : UnicodeOps) (cfg : Go.Cfg) (H : C10Go.CfgOk cfg) (rs : RustStruct)
    (hs : StructScope .go C10Go.G (fun cs => Known_DocLineBreak cs = false) rs) (st : Go.Imports) (text : Str)
    (st' : Go.Imports) (h : Go.writeStruct U cfg rs st = .ok (text, st')) : wellBracketed C10Go.G text = true := by
  have e : (fun cs => Known_DocLineBreak cs = false) = C10Go.DocsOk := by
    funext cs; exact propext (by simp [C10Go.DocsOk, Known_DocLineBreak])
  rw [e] at hs
  exact (C10Go.writeStruct_nb U H rs hs st text st' h).wb

theorem C10_go_alias (U : UnicodeOps) (cfg : Go.Cfg) (H : C10Go.CfgOk cfg) (a : RustTypeAlias)
    (hs : AliasScope (fun cs => Known_DocLineBreak cs = false) a) (st : Go.Imports) (text : Str)
    (st' : Go.Imports) (h : Go.writeAlias U cfg a st = .ok (text, st')) : wellBracketed C10Go.G text = true := by
  have e : (fun cs => Known_DocLineBreak cs = false) = C10Go.DocsOk := by
    funext cs; exact propext (by simp [C10Go.DocsOk, Known_DocLineBreak])
  rw [e] at hs
  exact (C10Go.writeAlias_nb U H a hs st text st' h).wb

theorem C10_go_const (U : UnicodeOps) (cfg : Go.Cfg) (H : C10Go.CfgOk cfg) (c : RustConst) (hc : ConstScope c) (st : Go.Imports)
    (text : Str) (st' : Go.Imports) (h : Go.writeConst U cfg c st = .ok (text, st')) : wellBracketed C10Go.G text = true :=
  (C10Go.writeConst_nb H c hc st text st' h).wb

theorem C10_go_alg_enum_facts (e : Go.GoAlgEnum) (he : C10Go.AlgEnumOk e) :
    wellBracketed C10Go.G (Go.renderAlgEnum e) = true := (C10Go.renderAlgEnum_nb e he).wb

theorem C10_go_unit_enum_facts (e : Go.GoUnitEnum) (hd : Known_DocLineBreak e.comments = false) (hn : IdentStr e.name)
    (hc : ∀ c ∈ e.consts, Known_DocLineBreak c.comments = false ∧ IdentStr c.name ∧ IdentStr c.ty) :
    wellBracketed C10Go.G (Go.renderUnitEnum e) = true := by
  have d : ∀ cs, Known_DocLineBreak cs = false → C10Go.DocsOk cs := by
    intro cs h; simpa [C10Go.DocsOk, Known_DocLineBreak] using h
  exact (C10Go.renderUnitEnum_nb e (d _ hd) (IdentStr.nb hn)
    fun c hcm => ⟨d _ (hc c hcm).1, IdentStr.nb (hc c hcm).2.1, IdentStr.nb (hc c hcm).2.2⟩).wb

/-- **Swift**: `swift_keyword_aware_rename` never yields a bare keyword … -/
theorem C10_swift_kw (name : Str) : Swift.keywords.contains (Swift.kw name) = false := C10Kw.swift_kw_not_keyword name
/-- … and neither does the printed member name of a struct field (dashes removed afterwards) -/
theorem C10_swift_member (f : RustField) : Swift.keywords.contains (Swift.memberName f) = false :=
  C10Kw.swift_memberName_not_keyword f
/-- **Python**: `python_property_aware_rename` never yields a keyword, whatever `convert_case` does -/
theorem C10_python_rename (E : Ext) (name : Str) : Python.keywords.contains (Python.propertyAwareRename E name) = false :=
  C10Kw.python_rename_not_keyword E name

/-- **leading digits**: the variant names of algebraic enums in Kotlin, Scala and Swift -/
theorem C10_kotlin_digit (U : UnicodeOps) (s : Str) (c : Char) (r : Str) (h : Kotlin.variantName U s = c :: r) : Str.isAsciiDigit c = false :=
  C10Kw.kotlin_variantName_head U s c r h
theorem C10_scala_digit (s : Str) (c : Char) (r : Str) (h : Scala.variantName s = c :: r) : Str.isAsciiDigit c = false :=
  C10Kw.scala_variantName_head s c r h
theorem C10_swift_digit (U : UnicodeOps) (v : RustEnumVariant) (c : Char) (r : Str) (h : Swift.algebraicCaseName U v = c :: r) :
    Str.isAsciiDigit c = false := C10Kw.swift_algebraicCaseName_head U v c r h

/-! ## non-vacuity: concrete inputs that meet the hypotheses -/

def exField : RustField :=
  { id := ⟨s%"user_id", s%"user-id", true⟩, ty := .option (.hashMap (.prim .string) (.vec (.generic s%"Foo" [.simple s%"T"]))),
    comments := [s%" the \"id\" (raw) */ {"], hasDefault := false, decorators := [] }
def exStruct : RustStruct :=
  { id := ⟨s%"Item", s%"Item", false⟩, genericTypes := [s%"T"], fields := [exField], comments := [s%" an item /* ("],
    decorators := {}, isRedacted := true }
def exEnum : RustEnum :=
  { keys := some (s%"type", s%"content"), id := ⟨s%"Shape", s%"Shape", false⟩, genericTypes := [s%"T"],
    comments := [s%" shapes"],
    variants := [.unit ⟨s%"Empty", s%"empty", false⟩ [s%" nothing"],
                 .tuple ⟨s%"_1", s%"one", true⟩ [] (.array (.simple s%"T") 2),
                 .anonymousStruct ⟨s%"Full", s%"full-shape", true⟩ [] [{ exField with comments := [] }]],
    decorators := {}, isRecursive := false, isRedacted := false }
def exCfg : Kotlin.Cfg := { pfx := s%"OP", typeMappings := [(s%"Foo", s%"Map<String, List<Int>>")] }

example : C10Kotlin.CfgOk exCfg := ⟨by decide, by decide⟩
example : ItemScope .kotlin C10Kotlin.K (fun cs => Known_DocLineBreak cs = false) (.struct exStruct) :=
  ⟨by decide, by decide, by decide, fun f hf => by
    simp only [exStruct, List.mem_singleton] at hf; subst hf
    exact ⟨by decide, by decide, by decide, by decide, by decide⟩⟩
example : (Kotlin.itemFacts exCfg (.struct exStruct)).isOk = true := by decide
example : C10Kotlin.NamesIdent (.struct exStruct) := (by decide : isIdentifier exStruct.id.renamed = true)
example : IdentPrefix exCfg.pfx := .inr (by decide)

theorem exEnumScope (L : TsV.Lang) (lx : LexCfg) (D : List Str → Prop) (hD : ∀ cs ∈ [[s%" shapes"], [s%" nothing"], []], D cs) :
    ItemScope L lx D (.enum exEnum) :=
  ⟨hD _ (by decide), by decide, by decide, by decide, fun v hv => by
    simp only [exEnum, List.mem_cons, List.not_mem_nil, or_false] at hv
    rcases hv with rfl | rfl | rfl
    · exact ⟨hD _ (by decide), by decide, by decide⟩
    · exact ⟨hD _ (by decide), by decide, by decide, by decide⟩
    · refine ⟨hD _ (by decide), by decide, by decide, fun f hf => ?_⟩
      simp only [List.mem_singleton] at hf; subst hf
      exact ⟨hD _ (by decide), by decide, by decide, by decide, by intro t ht; cases L <;> simp [typeOverride, exField] at ht⟩,
   by intro k hk; cases hk; decide, by intro k hk; cases hk; decide⟩

example : ItemScope .kotlin C10Kotlin.K (fun cs => Known_DocLineBreak cs = false) (.enum exEnum) :=
  exEnumScope _ _ _ (by decide)
example : (Kotlin.itemFacts exCfg (.enum exEnum)).isOk = true := by decide

example : C10TypeScript.CfgOk { typeMappings := [(s%"Foo", s%"Record<string, [number, string]>")] } := by
  intro p hp; simp only [List.mem_singleton] at hp; subst hp; decide
example : ItemScope .typescript C10TypeScript.T (fun cs => Known_DocTerminator cs = false) (.enum exEnum) :=
  exEnumScope _ _ _ (by decide)
example : (TypeScript.writeItem UnicodeOps.ascii {} (.enum exEnum) []).isOk = true := by decide
example : ItemScope .typescript C10TypeScript.T (fun cs => Known_DocTerminator cs = false)
    (.const { id := ⟨s%"MAX_ITEMS", s%"MAX_ITEMS", false⟩, ty := .prim .u32, expr := 42 }) := ⟨by decide, by decide⟩
example : UnicodeOps.ascii.AsciiCorrect := UnicodeOps.ascii_correct


example : C10Scala.CfgOk { package := s%"com.example", typeMappings := [(s%"Foo", s%"Map[String, Vector[Int]]")] } := by
  intro p hp; simp only [List.mem_singleton] at hp; subst hp; decide
example : EnumScope .scala C10Scala.S (fun cs => Known_DocLineBreak cs = false) exEnum := exEnumScope _ _ _ (by decide)
example : (Scala.writeEnum { package := s%"com.example" } exEnum).isOk = true := by decide
example : Dotted (Scala.Cfg.package { package := s%"com.example" }) ∧ Dotted (Scala.Cfg.package { package := s%"pkg" }) := by
  decide

example : C10Swift.CfgOk { pfx := s%"OP" } := ⟨by decide, by simp⟩
example : EnumScope .swift C10Swift.W (fun cs => Known_DocLineBreak cs = false) exEnum := exEnumScope _ _ _ (by decide)
example : (Swift.writeEnum UnicodeOps.ascii { pfx := s%"OP" } exEnum false).isOk = true := by decide
example : C10Swift.EnumDecorOk UnicodeOps.ascii { pfx := s%"OP" } exEnum :=
  ⟨by
    intro p hp
    have : p = ⟨s%"T", [s%"Codable"]⟩ :=
      (by decide : ∀ p ∈ Swift.genericParams UnicodeOps.ascii { pfx := s%"OP" } exEnum.decorators exEnum.genericTypes,
        p = ⟨s%"T", [s%"Codable"]⟩) p hp
    subst this
    exact ⟨IdentStr.nb (by decide), fun c hc => by simp only [List.mem_singleton] at hc; subst hc; exact IdentStr.nb (by decide)⟩,
   by
    intro c hc
    have : c = s%"Codable" :=
      (by decide : ∀ c ∈ Swift.structConformances { pfx := s%"OP" } exEnum.decorators, c = s%"Codable") c hc
    subst this; exact IdentStr.nb (by decide),
   by
    intro c hc
    have : c = s%"Codable" :=
      (by decide : ∀ c ∈ Swift.enumConformances { pfx := s%"OP" } exEnum, c = s%"Codable") c hc
    subst this; exact IdentStr.nb (by decide)⟩


example : C10Go.CfgOk { package := s%"proto", typeMappings := [(s%"Foo", s%"map[string][]int")] } :=
  ⟨rfl, by intro p hp; simp only [List.mem_singleton] at hp; subst hp; decide⟩
example : StructScope .go C10Go.G (fun cs => Known_DocLineBreak cs = false) exStruct :=
  ⟨by decide, by decide, by decide, fun f hf => by
    simp only [exStruct, List.mem_singleton] at hf; subst hf
    exact ⟨by decide, by decide, by decide, by decide, by decide⟩⟩
example : (Go.writeStruct UnicodeOps.ascii { package := s%"proto" } exStruct []).isOk = true := by decide

end TsV.C10
