import TsV.Lemmas.C01_Main
/-!
# C01 — field wire names in generated types equal serde's JSON keys

Specification side (trusted, `TsV/Lemmas/C01_Spec.lean`): `fieldKey` — serde's key of a field,
built from the port of serde_derive's `case.rs` (`TsV.Serde.applyField`) — and, per language, the
binding semantics `boundKey` on the back-end model's fact record.

* parse half: the parser model computes exactly serde's key (`C01_parse_*`), for all eight rules on
  conventional identifiers (via `C16.C16_field`) and unconditionally with an explicit
  `serde(rename)`; struct-variant fields follow the *variant's* `rename_all`.
* back-end half: for each of the six languages the key bound to a field is `id.renamed`, for
  every field of every struct and of every helper struct of a struct variant (TypeScript: inline),
  for every configuration and printer state (`C01_typescript` … `C01_scala`, `C01_backend_*`).
* `C01`: the composition, from the `syn` AST of a struct / enum to the keys the generated
  declarations bind.

serde_derive itself panics on an empty Pascal form under `camelCase`; agreement is therefore "whenever
serde has a key, the generated declaration binds that key" (`C16.Agree`).
-/
namespace TsV.C01
open TsV TsV.Str TsV.Syn TsV.Parser TsV.Serde TsV.Lang TsV.Outcome

/-! ## parse half -/

/-- **one field**: the parser model's wire name is serde's key — for every rule string on
conventional identifiers, and unconditionally with an explicit `serde(rename)` -/
theorem C01_parse_field (E : Ext) (hU : E.U.AsciiCorrect) (cf : Bool) (ra : Option Str) (f : Field)
    (rf : RustField) (i : Str) (hi : f.ident = some i)
    (hs : IdentConv i ∨ (serdeRename E f.attrs).isSome = true)
    (h : parseField E cf ra f = .ok rf) : SerdeKey E ra f rf.id.renamed :=
  (parseField_key E hU cf ra f rf h).2 (by
    rcases hs with hs | hs
    · exact Or.inl ⟨i, hi, hs⟩
    · exact Or.inr ⟨⟨i, hi⟩, hs⟩)

/-- explicit rename, no hypothesis at all -/
theorem C01_parse_field_renamed (E : Ext) (cf : Bool) (ra : Option Str) (f : Field) (rf : RustField) (k : Str)
    (hk : serdeRename E f.attrs = some k) (h : parseField E cf ra f = .ok rf) : rf.id.renamed = k :=
  getIdent_explicit E _ _ _ _ k (parseField_ident E cf ra f rf h) hk

theorem parsedKey_serdeKey (E : Ext) (ra : Option Str) (f : Field) (id : Id)
    (hs : ∃ i, f.ident = some i ∧ IdentConv i) (h : ParsedKey E ra f id) : SerdeKey E ra f id.renamed :=
  h.2 (Or.inl hs)

/-- **structs**: the kept fields, in order, each with serde's key under the struct's `rename_all` -/
theorem C01_parse_struct (E : Ext) (hU : E.U.AsciiCorrect) (targetOs : List Str) (attrs : List Attr)
    (ident : Str) (gens : List GenericParam) (fs : List Field) (rs : RustStruct)
    (h : parseStruct E targetOs attrs ident gens (.named fs) = .ok (.struct rs))
    (hs : ∀ f ∈ kept targetOs fs, ∃ i, f.ident = some i ∧ IdentConv i) :
    Forall₂ (fun f rf => SerdeKey E (serdeRenameAll E attrs) f rf.id.renamed) (kept targetOs fs) rs.fields :=
  forall₂_imp (fun f rf ⟨hf, hp⟩ => parsedKey_serdeKey E _ f rf.id hf hp)
    (forall₂_mem_left (parseStruct_keys E hU targetOs attrs ident gens fs rs h) hs)

/-- **struct variants**: the variant's own `rename_all`, not the enum's (`enumRa` does not occur in
the conclusion) -/
theorem C01_parse_variant (E : Ext) (hU : E.U.AsciiCorrect) (targetOs : List Str) (enumRa : Option Str)
    (v : Variant) (id : Id) (cs : List Str) (rfs : List RustField)
    (h : parseEnumVariant E targetOs enumRa v = .ok (.anonymousStruct id cs rfs))
    (hs : ∀ fs, v.fields = .named fs → ∀ f ∈ kept targetOs fs, ∃ i, f.ident = some i ∧ IdentConv i) :
    ∃ fs, v.fields = .named fs ∧
      Forall₂ (fun f rf => SerdeKey E (serdeRenameAll E v.attrs) f rf.id.renamed) (kept targetOs fs) rfs := by
  obtain ⟨fs, hfs, hk⟩ := parseEnumVariant_keys E hU targetOs enumRa v id cs rfs h
  exact ⟨fs, hfs, forall₂_imp (fun f rf ⟨hf, hp⟩ => parsedKey_serdeKey E _ f rf.id hf hp)
    (forall₂_mem_left hk (hs fs hfs))⟩

/-- in-scope fields get keys over the key alphabet, so the back-end halves apply -/
theorem C01_key_alphabet (E : Ext) (ra : Option Str) (f : Field) (k : Str) (hf : FieldInScope E f)
    (h : fieldKeyOf E ra f = .ok k) : KeyStr k := fieldKeyOf_keyStr E ra f k hf h

/-! ## back-end half, one theorem per language -/

/-- **TypeScript**: the property name, un-quoted if it is a string literal -/
theorem C01_typescript (cfg : Lang.TypeScript.Cfg) (gens : List Str) (fs : List RustField)
    (st st' : Lang.TypeScript.CustomMap) (tfs : List Lang.TypeScript.TsField)
    (h : TypeScript.fieldsFacts cfg gens fs st = .ok (tfs, st')) :
    Forall₂ (Binds .typescript) fs (tfs.map TypeScript.boundKey) :=
  forall₂_map_right (R := Binds .typescript) _ (TypeScript.fieldsFacts_keys cfg gens fs st st' tfs h)

/-- the quoted spelling is inverted by the binding semantics on the key alphabet -/
theorem C01_typescript_unquote (k : Str) (hk : KeyStr k) (tf : Lang.TypeScript.TsField)
    (hn : tf.name = Lang.TypeScript.propertyName k) : TypeScript.boundKey tf = k :=
  TypeScript.boundKey_of_name tf k hn hk

/-- **Kotlin**: `@SerialName` is struct-wide; without it no key has a dash and `remove_dash` is the identity -/
theorem C01_kotlin (cfg : Lang.Kotlin.Cfg) (rs : RustStruct) (d : Lang.Kotlin.KtDecl)
    (h : Lang.Kotlin.structFacts cfg rs = .ok d) :
    (Kotlin.declParams d).map Kotlin.boundKey = rs.fields.map (·.id.renamed) :=
  forall₂_eq_map (fun f : RustField => f.id.renamed)
    (forall₂_map_right (R := fun (f : RustField) k => k = f.id.renamed) _ (Kotlin.structFacts_keys cfg rs d h))

/-- **Swift**: `CodingKeys` raw value of the property's case, or the property name without back-ticks -/
theorem C01_swift (U : UnicodeOps) (cfg : Lang.Swift.Cfg) (rs : RustStruct) (st st' : Lang.Swift.St)
    (s : Lang.Swift.SwiftStruct) (h : Lang.Swift.structFacts U cfg rs st = .ok (s, st'))
    (hd : Distinct .swift rs.fields) : Forall₂ (Binds .swift) rs.fields (Swift.structKeys s) :=
  Swift.structFacts_keys U cfg rs st st' s h hd

/-- **Go**: the name part of the json tag -/
theorem C01_go (U : UnicodeOps) (cfg : Lang.Go.Cfg) (rs : RustStruct) (st st' : Lang.Go.Imports)
    (d : Lang.Go.GoStruct) (h : Lang.Go.structFacts U cfg rs st = .ok (d, st')) :
    Forall₂ (Binds .go) rs.fields (d.fields.map Go.boundKey) :=
  forall₂_map_right (R := Binds .go) _ (Go.structFacts_keys U cfg rs st st' d h)

/-- **Python**: alias if present, else the attribute name — for *every* `E.snakeCase` -/
theorem C01_python (E : Ext) (cfg : Lang.Python.Cfg) (rs : RustStruct) (st st' : Lang.Python.St)
    (c : Lang.Python.PyClass) (h : Lang.Python.structFacts E cfg rs st = .ok (c, st')) :
    c.fields.map Python.boundKey = rs.fields.map (·.id.renamed) :=
  forall₂_eq_map (fun f : RustField => f.id.renamed)
    (forall₂_map_right (R := fun (f : RustField) k => k = f.id.renamed) _
      (Python.structFacts_keys E cfg rs st st' c h))

/-- **Scala**: the parameter name; dash-free keys only -/
theorem C01_scala (cfg : Lang.Scala.Cfg) (rs : RustStruct) (c : Lang.Scala.ScClass)
    (h : Lang.Scala.classFacts cfg rs = .ok c) :
    Forall₂ (Binds .scala) rs.fields (c.params.map Scala.boundKey) :=
  forall₂_map_right (R := Binds .scala) _ (Scala.classFacts_keys cfg rs c h)

/-! ### the facts the theorems speak about are the ones the models render -/

theorem C01_typescript_struct_text (cfg : Lang.TypeScript.Cfg) (rs : RustStruct)
    (st st' : Lang.TypeScript.CustomMap) (txt : Str) (h : Lang.TypeScript.writeStruct cfg rs st = .ok (txt, st')) :
    ∃ tfs, TypeScript.fieldsFacts cfg rs.genericTypes rs.fields st = .ok (tfs, st') ∧
      txt = Lang.TypeScript.comments 0 rs.comments ++ s%"export interface " ++ rs.id.renamed ++
        genericSuffix rs.genericTypes ++ s%" {\n" ++ tfs.flatMap Lang.TypeScript.renderField ++ s%"}\n\n" :=
  TypeScript.writeStruct_fields cfg rs st st' txt h

theorem C01_typescript_variants_text (cfg : Lang.TypeScript.Cfg) (e : RustEnum) (tag content : Str)
    (st st' : Lang.TypeScript.CustomMap) (txt : Str)
    (h : Lang.TypeScript.writeVariants cfg e tag content e.variants st = .ok (txt, st')) :
    ∃ tfss, TypeScript.variantsFacts cfg e e.variants st = .ok (tfss, st') :=
  TypeScript.writeVariants_facts cfg e tag content e.variants st st' txt h

theorem C01_kotlin_enum_decls (cfg : Lang.Kotlin.Cfg) (e : RustEnum) (ds : List Lang.Kotlin.KtDecl)
    (h : Lang.Kotlin.enumFacts cfg e = .ok ds) :
    ∃ inners rest, Lang.Kotlin.structsFacts cfg (Lang.Kotlin.innerStructs e) = .ok inners ∧ ds = inners ++ rest :=
  Kotlin.enumFacts_inners cfg e ds h

theorem C01_swift_enum_structs (U : UnicodeOps) (cfg : Lang.Swift.Cfg) (e : RustEnum) (st st' : Lang.Swift.St)
    (ss : List Lang.Swift.SwiftStruct) (se : Lang.Swift.SwiftEnum)
    (h : Lang.Swift.enumFacts U cfg e st = .ok (ss, se, st')) :
    ∃ st1, Lang.Swift.anonymousStructs U cfg e (structVariants e) st = .ok (ss, st1) :=
  Swift.enumFacts_structs U cfg e st st' ss se h

theorem C01_go_enum_structs (U : UnicodeOps) (cfg : Lang.Go.Cfg) (e : RustEnum) (tagKey contentKey : Str)
    (cs : List Str) (st st' : Lang.Go.Imports) (d : Lang.Go.GoAlgEnum)
    (h : Lang.Go.algEnumFacts U cfg e tagKey contentKey cs st = .ok (d, st')) :
    ∃ st1, Lang.Go.anonStructs U cfg e (structVariants e) st = .ok (d.anonymous, st1) :=
  Go.algEnumFacts_anonymous U cfg e tagKey contentKey cs st st' d h

theorem C01_python_enum_classes (E : Ext) (cfg : Lang.Python.Cfg) (e : RustEnum) (tag content : Str)
    (st st' : Lang.Python.St) (u : Lang.Python.PyUnion)
    (h : Lang.Python.unionFacts E cfg e tag content st = .ok (u, st')) :
    ∃ st1, Lang.Python.innerFacts E cfg e (structVariants e) st = .ok (u.inner, st1) :=
  Python.unionFacts_inner E cfg e tag content st st' u h

theorem C01_scala_enum_classes (cfg : Lang.Scala.Cfg) (e : RustEnum) (se : Lang.Scala.ScEnum)
    (h : Lang.Scala.enumFacts cfg e = .ok se) : Lang.Scala.innerClasses cfg e = .ok se.inner :=
  Scala.enumFacts_inner cfg e se h

/-! ### combined over the languages -/

/-- **every struct, every language, every configuration and printer state**: each field is bound to
its wire name -/
theorem C01_backend_struct (E : Ext) (L : TsV.Lang) (ctx : Ctx L) (rs : RustStruct) (ks : List Str)
    (h : structKeys E L ctx rs = .ok ks) (hd : Distinct L rs.fields) : Forall₂ (Binds L) rs.fields ks := by
  cases L with
  | typescript =>
    obtain ⟨cfg, st⟩ := ctx
    obtain ⟨⟨tfs, st'⟩, h1, h2⟩ := (bind_ok' _ _ _).1 h
    cases h2
    exact C01_typescript cfg _ _ st st' tfs h1
  | kotlin =>
    obtain ⟨d, h1, h2⟩ := (bind_ok' _ _ _).1 h
    cases h2
    rw [C01_kotlin ctx rs d h1]
    exact forall₂_map_self _ _ fun f _ _ => rfl
  | swift =>
    obtain ⟨cfg, st⟩ := ctx
    obtain ⟨⟨s, st'⟩, h1, h2⟩ := (bind_ok' _ _ _).1 h
    cases h2
    exact C01_swift E.U cfg rs st st' s h1 hd
  | scala =>
    obtain ⟨c, h1, h2⟩ := (bind_ok' _ _ _).1 h
    cases h2
    exact C01_scala ctx rs c h1
  | go =>
    obtain ⟨cfg, st⟩ := ctx
    obtain ⟨⟨d, st'⟩, h1, h2⟩ := (bind_ok' _ _ _).1 h
    cases h2
    exact C01_go E.U cfg rs st st' d h1
  | python =>
    obtain ⟨cfg, st⟩ := ctx
    obtain ⟨⟨c, st'⟩, h1, h2⟩ := (bind_ok' _ _ _).1 h
    cases h2
    rw [C01_python E cfg rs st st' c h1]
    exact forall₂_map_self _ _ fun f _ _ => rfl

/-- **every struct variant of every enum**: the helper struct (TypeScript: the inline object type)
binds each field to its wire name -/
theorem C01_backend_enum (E : Ext) (L : TsV.Lang) (ctx : Ctx L) (e : RustEnum) (kss : List (List Str))
    (h : enumKeys E L ctx e = .ok kss) (hd : ∀ p ∈ structVariants e, Distinct L p.2) :
    Forall₂ (fun (p : Id × List RustField) ks => Forall₂ (Binds L) p.2 ks) (structVariants e) kss := by
  cases L with
  | typescript =>
    obtain ⟨cfg, st⟩ := ctx
    obtain ⟨⟨tfss, st'⟩, h1, h2⟩ := (bind_ok' _ _ _).1 h
    cases h2
    have := TypeScript.variantsFacts_keys cfg e e.variants st st' tfss h1
    exact forall₂_map_right (R := fun (p : Id × List RustField) ks => Forall₂ (Binds .typescript) p.2 ks) _
      (forall₂_imp (fun p tfs hp => forall₂_map_right (R := Binds .typescript) _ hp) this)
  | kotlin =>
    obtain ⟨ds, h1, h2⟩ := (bind_ok' _ _ _).1 h
    cases h2
    exact forall₂_map_right (R := fun (p : Id × List RustField) ks => Forall₂ (Binds .kotlin) p.2 ks) _
      (forall₂_imp (fun p d hp => forall₂_map_right (R := Binds .kotlin) _
        (forall₂_imp (fun f q hq _ => hq) hp)) (Kotlin.innerStructs_keys ctx e ds h1))
  | swift =>
    obtain ⟨cfg, st⟩ := ctx
    obtain ⟨⟨ss, st'⟩, h1, h2⟩ := (bind_ok' _ _ _).1 h
    cases h2
    exact forall₂_map_right (R := fun (p : Id × List RustField) ks => Forall₂ (Binds .swift) p.2 ks) _
      (Swift.anonymousStructs_keys E.U cfg e _ st st' ss h1 hd)
  | scala =>
    obtain ⟨cs, h1, h2⟩ := (bind_ok' _ _ _).1 h
    cases h2
    exact forall₂_map_right (R := fun (p : Id × List RustField) ks => Forall₂ (Binds .scala) p.2 ks) _
      (forall₂_imp (fun p c hp => forall₂_map_right (R := Binds .scala) _ hp) (Scala.innerClasses_keys ctx e cs h1))
  | go =>
    obtain ⟨cfg, st⟩ := ctx
    obtain ⟨⟨ds, st'⟩, h1, h2⟩ := (bind_ok' _ _ _).1 h
    cases h2
    exact forall₂_map_right (R := fun (p : Id × List RustField) ks => Forall₂ (Binds .go) p.2 ks) _
      (forall₂_imp (fun p d hp => forall₂_map_right (R := Binds .go) _ hp)
        (Go.anonStructs_keys E.U cfg e _ st st' ds h1))
  | python =>
    obtain ⟨cfg, st⟩ := ctx
    obtain ⟨⟨cs, st'⟩, h1, h2⟩ := (bind_ok' _ _ _).1 h
    cases h2
    exact forall₂_map_right (R := fun (p : Id × List RustField) ks => Forall₂ (Binds .python) p.2 ks) _
      (forall₂_imp (fun p c hp => forall₂_map_right (R := Binds .python) _
        (forall₂_imp (fun f q hq _ => hq) hp)) (Python.innerFacts_keys E cfg e _ st st' cs h1))

/-! ## the property at full strength -/

/-- the struct clause: from the `syn` AST of an annotated struct with named fields to the keys the
generated declaration binds.  `rs'` is the struct the back end receives: the parsed one up to the
type rewriting of `reconcile_aliases`. -/
def StructClause (E : Ext) (L : TsV.Lang) (ctx : Ctx L) (targetOs : List Str) : Prop :=
  ∀ (attrs : List Attr) (ident : Str) (gens : List GenericParam) (fs : List Field) (rs rs' : RustStruct)
    (ks : List Str),
    parseStruct E targetOs attrs ident gens (.named fs) = .ok (.struct rs) →
    fieldIds rs'.fields = fieldIds rs.fields →
    (∀ f ∈ kept targetOs fs, InScope E L (serdeRenameAll E attrs) f) →
    Distinct L rs'.fields →
    structKeys E L ctx rs' = .ok ks →
    Forall₂ (SerdeKey E (serdeRenameAll E attrs)) (kept targetOs fs) ks

/-- the struct-variant clause: the kept struct variants of an annotated enum, in order, each with
the keys its helper declaration binds; the rule is the *variant's* `rename_all` -/
def EnumClause (E : Ext) (L : TsV.Lang) (ctx : Ctx L) (targetOs : List Str) : Prop :=
  ∀ (attrs : List Attr) (ident : Str) (gens : List GenericParam) (variants : List Variant) (e e' : RustEnum)
    (kss : List (List Str)),
    parseEnum E targetOs attrs ident gens variants = .ok (.enum e) →
    (structVariants e').map (fun p => fieldIds p.2) = (structVariants e).map (fun p => fieldIds p.2) →
    (∀ v ∈ variants.filter (fun v => !isSkipped v.attrs targetOs), ∀ fs, v.fields = .named fs →
      ∀ f ∈ kept targetOs fs, InScope E L (serdeRenameAll E v.attrs) f) →
    (∀ p ∈ structVariants e', Distinct L p.2) →
    enumKeys E L ctx e' = .ok kss →
    Forall₂ (fun v ks => ∃ fs, v.fields = .named fs ∧
        Forall₂ (SerdeKey E (serdeRenameAll E v.attrs)) (kept targetOs fs) ks)
      ((variants.filter fun v => !isSkipped v.attrs targetOs).filter namedFields) kss

/-- **C01 at full strength**: all six languages, every configuration / printer state, every
`target_os` list, every struct and every struct variant inside the quantifier -/
def C01_full : Prop :=
  ∀ (E : Ext), E.U.AsciiCorrect → ∀ (L : TsV.Lang) (ctx : Ctx L) (targetOs : List Str),
    StructClause E L ctx targetOs ∧ EnumClause E L ctx targetOs

/-! ### proof -/

theorem struct_clause (E : Ext) (hU : E.U.AsciiCorrect) (L : TsV.Lang) (ctx : Ctx L) (targetOs : List Str) :
    StructClause E L ctx targetOs := by
  intro attrs ident gens fs rs rs' ks hparse hids hscope hd hkeys
  have hp := parseStruct_keys E hU targetOs attrs ident gens fs rs hparse
  have hb := C01_backend_struct E L ctx rs' ks hkeys hd
  exact compose_fields E L _ _ (fieldIds rs.fields) rs'.fields ks
    (forall₂_map_right (R := fun f id => ParsedKey E (serdeRenameAll E attrs) f id) _ hp) hids hscope hb

theorem enum_clause (E : Ext) (hU : E.U.AsciiCorrect) (L : TsV.Lang) (ctx : Ctx L) (targetOs : List Str) :
    EnumClause E L ctx targetOs := by
  intro attrs ident gens variants e e' kss hparse hids hscope hd hkeys
  have hrel := parseEnum_rel E hU targetOs attrs ident gens variants e hparse
  have hal := struct_variants_aligned E targetOs hrel
  have hb := C01_backend_enum E L ctx e' kss hkeys hd
  -- transport along the identifier lists
  have hal' : Forall₂ (fun v ids => ∃ fs, v.fields = .named fs ∧
      Forall₂ (fun f id => ParsedKey E (serdeRenameAll E v.attrs) f id) (kept targetOs fs) ids)
      ((variants.filter fun v => !isSkipped v.attrs targetOs).filter namedFields)
      ((structVariants e).map fun p => fieldIds p.2) :=
    forall₂_map_right (R := fun (v : Variant) (ids : List Id) => ∃ fs, v.fields = .named fs ∧
        Forall₂ (fun f id => ParsedKey E (serdeRenameAll E v.attrs) f id) (kept targetOs fs) ids) _
      (forall₂_imp (fun (v : Variant) (p : Id × List RustField) ⟨fs, hfs, hk⟩ => ⟨fs, hfs,
        forall₂_map_right (R := fun f id => ParsedKey E (serdeRenameAll E v.attrs) f id) _ hk⟩) hal)
  rw [← hids] at hal'
  have hal'' := forall₂_of_map_right (R := fun (v : Variant) (ids : List Id) => ∃ fs, v.fields = .named fs ∧
      Forall₂ (fun f id => ParsedKey E (serdeRenameAll E v.attrs) f id) (kept targetOs fs) ids) _ hal'
  have hmem : ∀ v ∈ (variants.filter fun v => !isSkipped v.attrs targetOs).filter namedFields,
      v ∈ variants.filter (fun v => !isSkipped v.attrs targetOs) := by
    intro v hv
    exact (List.mem_filter.1 hv).1
  refine forall₂_imp ?_ (forall₂_comp (forall₂_mem_left hal'' hmem) hb)
  rintro v ks ⟨p, ⟨hv, fs, hfs, hk⟩, hbk⟩
  exact ⟨fs, hfs, compose_fields E L _ _ (fieldIds p.2) p.2 ks hk rfl (hscope v hv fs hfs) hbk⟩

/-- **C01.**  The model satisfies the property at full strength. -/
theorem C01 : C01_full :=
  fun E hU L ctx targetOs => ⟨struct_clause E hU L ctx targetOs, enum_clause E hU L ctx targetOs⟩

/-- `reconcile_aliases` keeps the field identifiers, so `C01` applies to what the back ends receive -/
theorem reconcile_keeps_ids (crate : Str) (r : Pipeline.Renames) (imports : List ImportedType)
    (fs : List RustField) : fieldIds (fs.map (Pipeline.checkField crate r imports)) = fieldIds fs := by
  simp [fieldIds, Pipeline.checkField]

theorem reconcile_keeps_variant_ids (crate : Str) (r : Pipeline.Renames) (imports : List ImportedType)
    (e : RustEnum) :
    (structVariants { e with variants := e.variants.map (Pipeline.checkVariant crate r imports) }).map
        (fun p => fieldIds p.2) = (structVariants e).map (fun p => fieldIds p.2) := by
  unfold structVariants
  simp only
  induction e.variants with
  | nil => rfl
  | cons v vs ih =>
    simp only [List.map_cons, List.filterMap_cons]
    cases v with
    | unit id cs => simpa [Pipeline.checkVariant] using ih
    | tuple id cs ty => simpa [Pipeline.checkVariant] using ih
    | anonymousStruct id cs fs =>
      simp only [Pipeline.checkVariant, List.map_cons, ih, reconcile_keeps_ids]

/-! ## corollaries -/

/-- list form of the conclusion: where serde has a key for every field, the bound keys are exactly serde's -/
theorem serdeKeys_eq (E : Ext) (ra : Option Str) : ∀ {fs : List Field} {ks : List Str},
    Forall₂ (SerdeKey E ra) fs ks → (∀ f ∈ fs, ∃ k, fieldKeyOf E ra f = .ok k) →
    ks.map Outcome.ok = fs.map (fieldKeyOf E ra)
  | _, _, .nil, _ => rfl
  | f :: fs, k :: ks, .cons hk t, h => by
    obtain ⟨v, hv⟩ := h f (by simp)
    have := hk v hv
    simp only [List.map_cons, serdeKeys_eq E ra t (fun x hx => h x (by simp [hx])), hv, this]

/-- typeshare reads `serde(rename = "…")` like serde does, except that it trims the value … -/
theorem serdeRename_eq_raw (E : Ext) (attrs : List Attr) :
    serdeRename E attrs = (serdeRenameRaw attrs).map E.U.trim := by
  unfold serdeRename getNameValueMetaItems serdeRenameRaw
  rw [← List.head?_map, List.map_flatMap]
  congr 1
  congr 1
  funext a
  rw [List.map_filterMap]
  congr 1
  funext m
  cases m with
  | path segs => rfl
  | list segs p args => rfl
  | nameValue segs v =>
    cases v with
    | none => simp [exprToString]
    | some l =>
      cases l with
      | str v => by_cases hs : (segs == [s%"rename"]) = true <;> simp [exprToString, hs]
      | int v sfx => simp [exprToString]
      | other => simp [exprToString]

/-- … which is invisible on keys without white space (all keys of the property's alphabet) -/
theorem serdeRename_raw (E : Ext) (attrs : List Attr) (k : Str) (h : serdeRenameRaw attrs = some k)
    (hw : ∀ c ∈ k, E.U.isWhite c = false) : serdeRename E attrs = some k := by
  rw [serdeRename_eq_raw, h, Option.map_some, trim_id E.U k hw]

/-! ## non-vacuity: concrete inputs that meet the hypotheses, kernel-checked -/

def E0 : Ext := { U := .ascii, parseType := fun _ => none }

/-- `#[typeshare] #[serde(rename_all = "camelCase")] struct Foo { r#type, #[serde(default, rename = "with-dash")] user_id,
#[serde(skip)] hidden, created_at }` -/
def exAttrs : List Attr :=
  [⟨.path [s%"typeshare"]⟩, ⟨.list [s%"serde"] true [.nameValue [s%"rename_all"] (some (.str s%"camelCase"))]⟩]
def exFields : List Field :=
  [ ⟨[], some s%"r#type", .path [] s%"String" []⟩,
    ⟨[⟨.list [s%"serde"] true [.path [s%"default"], .nameValue [s%"rename"] (some (.str s%"with-dash"))]⟩],
      some s%"user_id", .path [] s%"u32" []⟩,
    ⟨[⟨.list [s%"serde"] true [.path [s%"skip"]]⟩], some s%"hidden", .path [] s%"u32" []⟩,
    ⟨[], some s%"created_at", .path [] s%"bool" []⟩ ]
def exStruct : RustStruct :=
  match parseStruct E0 [] exAttrs s%"Foo" [] (.named exFields) with
  | .ok (.struct rs) => rs
  | _ => default

example : parseStruct E0 [] exAttrs s%"Foo" [] (.named exFields) = .ok (.struct exStruct) := by rfl
example : (kept [] exFields).map (fieldKeyOf E0 (serdeRenameAll E0 exAttrs)) =
    [.ok s%"type", .ok s%"with-dash", .ok s%"createdAt"] := by decide
example : exStruct.fields.map (·.id.renamed) = [s%"type", s%"with-dash", s%"createdAt"] := by decide
example : IdentConv s%"r#address_line1" := by decide
example : KeyStr s%"kebab-case-Name_1" := by decide
example : FieldInScope E0 exFields[1] := (inScopeB_sound E0 .swift none _ (by decide)).1
/-- the hypotheses of `C01_parse_field`, both disjuncts -/
example : ∃ rf, parseField E0 true (some s%"camelCase") exFields[0] = .ok rf ∧ rf.id.renamed = s%"type" :=
  ⟨_, rfl, by decide⟩
example : ∃ rf, parseField E0 true (some s%"camelCase") exFields[1] = .ok rf ∧ rf.id.renamed = s%"with-dash" :=
  ⟨_, rfl, by decide⟩
/-- what the six back ends bind for it (default configurations, initial printer states) -/
example : structKeys E0 .typescript ({}, []) exStruct = .ok [s%"type", s%"with-dash", s%"createdAt"] := by decide
example : structKeys E0 .kotlin {} exStruct = .ok [s%"type", s%"with-dash", s%"createdAt"] := by decide
example : structKeys E0 .swift ({}, false) exStruct = .ok [s%"type", s%"with-dash", s%"createdAt"] := by decide
example : structKeys E0 .go ({}, []) exStruct = .ok [s%"type", s%"with-dash", s%"createdAt"] := by decide
example : structKeys E0 .python ({}, {}) exStruct = .ok [s%"type", s%"with-dash", s%"createdAt"] := by decide
/-- Scala: the dashed key is outside the scope (and indeed lost: `with_dash`) -/
example : structKeys E0 .scala { package := s%"p" } exStruct = .ok [s%"type", s%"with_dash", s%"createdAt"] := by decide
example : ¬ InScope E0 .scala (serdeRenameAll E0 exAttrs) exFields[1] := by
  intro h; exact absurd (h.2 s%"with-dash" (by decide)) (by decide)

/-- every hypothesis of the struct clause of `C01` is met by the example, for Swift with a prefix -/
example : Forall₂ (SerdeKey E0 (serdeRenameAll E0 exAttrs)) (kept [] exFields)
    [s%"type", s%"with-dash", s%"createdAt"] :=
  (C01 E0 UnicodeOps.ascii_correct .swift ({ pfx := s%"OP" }, false) []).1 exAttrs s%"Foo" [] exFields exStruct exStruct _
    (by rfl) rfl (inScopeB_all _ _ _ _ (by decide)) (by decide) (by decide)

/-- `#[serde(tag = "t", content = "c", rename_all = "snake_case")] enum Ev { #[serde(rename_all = "SCREAMING-KEBAB-CASE")]
AddressLine { foo_bar, #[serde(rename = "x_y")] r#type }, Empty, Plain { user_id } }`: the variant's rule, not the enum's -/
def exEnumAttrs : List Attr :=
  [⟨.path [s%"typeshare"]⟩,
   ⟨.list [s%"serde"] true [.nameValue [s%"tag"] (some (.str s%"t")), .nameValue [s%"content"] (some (.str s%"c")),
     .nameValue [s%"rename_all"] (some (.str s%"snake_case"))]⟩]
def exVariants : List Variant :=
  [ ⟨[⟨.list [s%"serde"] true [.nameValue [s%"rename_all"] (some (.str s%"SCREAMING-KEBAB-CASE"))]⟩], s%"AddressLine",
      .named [⟨[], some s%"foo_bar", .path [] s%"u8" []⟩,
              ⟨[⟨.list [s%"serde"] true [.nameValue [s%"rename"] (some (.str s%"x_y"))]⟩], some s%"r#type", .path [] s%"String" []⟩]⟩,
    ⟨[], s%"Empty", .unit⟩,
    ⟨[], s%"Plain", .named [⟨[], some s%"user_id", .path [] s%"u8" []⟩]⟩ ]
def exEnum : RustEnum :=
  match parseEnum E0 [] exEnumAttrs s%"Ev" [] exVariants with
  | .ok (.enum e) => e
  | _ => default

example : parseEnum E0 [] exEnumAttrs s%"Ev" [] exVariants = .ok (.enum exEnum) := by rfl
example : enumKeys E0 .kotlin { pfx := s%"P" } exEnum = .ok [[s%"FOO-BAR", s%"x_y"], [s%"user_id"]] := by decide
example : enumKeys E0 .typescript ({}, []) exEnum = .ok [[s%"FOO-BAR", s%"x_y"], [s%"user_id"]] := by decide
example : enumKeys E0 .swift ({}, false) exEnum = .ok [[s%"FOO-BAR", s%"x_y"], [s%"user_id"]] := by decide
example : enumKeys E0 .go ({}, []) exEnum = .ok [[s%"FOO-BAR", s%"x_y"], [s%"user_id"]] := by decide
example : enumKeys E0 .python ({}, {}) exEnum = .ok [[s%"FOO-BAR", s%"x_y"], [s%"user_id"]] := by decide
example : (structVariants exEnum).map (fun p => p.2.map (·.id.renamed)) = [[s%"FOO-BAR", s%"x_y"], [s%"user_id"]] := by
  decide

/-- every hypothesis of the enum clause of `C01` is met by the example, for Kotlin with a prefix: the first
variant's keys follow *its* `SCREAMING-KEBAB-CASE`, the second's are untouched by the enum's `snake_case` -/
example : Forall₂ (fun v ks => ∃ fs, v.fields = .named fs ∧
      Forall₂ (SerdeKey E0 (serdeRenameAll E0 v.attrs)) (kept [] fs) ks)
    ((exVariants.filter fun v => !isSkipped v.attrs []).filter namedFields)
    [[s%"FOO-BAR", s%"x_y"], [s%"user_id"]] :=
  (C01 E0 UnicodeOps.ascii_correct .kotlin { pfx := s%"P" } []).2 exEnumAttrs s%"Ev" [] exVariants exEnum exEnum _
    (by rfl) rfl (variantsInScopeB_sound _ _ _ _ (by decide)) (by decide) (by decide)

/-- why `Distinct` is a hypothesis for Swift: `a-b` and `a_b` collide after `-` ↦ `_`; the second
property is then looked up under the first one's `CodingKeys` case (the generated Swift does not
compile — C10's business) -/
def collide : RustStruct :=
  { id := ⟨s%"S", s%"S", false⟩, genericTypes := [], comments := [], decorators := {}, isRedacted := false,
    fields := [ { id := ⟨s%"x", s%"a-b", true⟩, ty := .prim .u8, comments := [], hasDefault := false, decorators := [] },
                { id := ⟨s%"a_b", s%"a_b", false⟩, ty := .prim .u8, comments := [], hasDefault := false, decorators := [] } ] }
example : ¬ Distinct .swift collide.fields := by decide
example : structKeys E0 .swift ({}, false) collide = .ok [s%"a-b", s%"a-b"] := by decide

end TsV.C01
