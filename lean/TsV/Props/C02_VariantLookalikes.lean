import TsV.Props.C08_Lookalikes
import TsV.Lemmas.C02_Parse
/-!
# C02, skip look-alikes at variant level — only a `skip` *path* takes a variant out of an enum

Corollary of `C08_Lookalikes` (what `is_skipped` is) and of C02's parse half (`parseEnum_names`).  A variant
whose `serde(..)` / `typeshare(..)` lists contain no bare path `skip` among their direct arguments — whatever
else they contain: `skip_serializing`, `skip_deserializing`, `skip_serializing_if = ".."`, `other`,
`alias = ".."`, `skip = ".."`, `rename(skip)` — and which `--target-os` does not exclude, is **kept** by
`parse_enum`.

* `Kept T v` (reading of "not skipped"): no attribute of `v` is a skip marker (`C08_Lookalikes.IsSkipMarker`)
  and `accept_target_os` does not reject `v` for the target list `T`; `keptB` is the decidable form,
  `keptB_iff`, and `keptB_eq : keptB T v = !isSkipped v.attrs T`.
* `C02_VariantLookalikes : C02_VariantLookalikes_full` — for every parsed enum (UpperCamelCase variant
  identifiers, the scope of C02): the wire names of the parsed variants are, in source order, serde's names
  (`variantName?`, C02's trusted specification) of the kept source variants; the same for the Rust
  identifiers; `variants.length` is the number of kept source variants; and every kept source variant's wire
  name occurs in the list (`kept_variant_present`).
* `no_targets`: without `--target-os`, `Kept` is "no skip path" alone.
* `noSkipArg`: a decidable sufficient test on one attribute — no direct argument is the bare path `skip` —
  `noSkipArg_not_marker`; `lookalike_variants_all_kept` is the kernel-checked list of look-alike variants.
* `lookalike_insert`: inserting an attribute that is not a marker (and not a `cfg` under `--target-os`) anywhere
  in a variant's attribute list does not change whether the variant is kept.
-/
namespace TsV.C02_VariantLookalikes
open TsV TsV.Syn TsV.Parser TsV.C08_Lookalikes

/-- no `serde(..)` / `typeshare(..)` list of the member has the bare path `skip` as a direct argument -/
def NoSkipPath (attrs : List Attr) : Prop := ∀ a ∈ attrs, ¬ IsSkipMarker a

/-- the variant is not skipped: no skip path, and the target list does not exclude it -/
def Kept (T : List Str) (v : Variant) : Prop :=
  NoSkipPath v.attrs ∧ TargetOs.accept v.attrs T ≠ some false

/-- decidable form -/
def keptB (T : List Str) (v : Variant) : Bool :=
  !skipMarked v.attrs && (TargetOs.accept v.attrs T).getD true

theorem keptB_eq (T : List Str) (v : Variant) : keptB T v = !isSkipped v.attrs T := by
  unfold keptB isSkipped
  cases skipMarked v.attrs <;> cases (TargetOs.accept v.attrs T).getD true <;> rfl

theorem keptB_iff (T : List Str) (v : Variant) : keptB T v = true ↔ Kept T v := by
  rw [keptB_eq, Bool.not_eq_true', ← Bool.not_eq_true, isSkipped_iff]
  unfold Kept NoSkipPath
  constructor
  · intro h
    exact ⟨fun a ha hm => h (.inl ⟨a, ha, hm⟩), fun hx => h (.inr hx)⟩
  · rintro ⟨h1, h2⟩ (⟨a, ha, hm⟩ | hx)
    · exact h1 a ha hm
    · exact h2 hx

theorem filter_kept (T : List Str) (vs : List Variant) :
    (vs.filter fun v => !isSkipped v.attrs T) = vs.filter (keptB T) := by
  congr 1; funext v; exact (keptB_eq T v).symm

/-- without `--target-os`: kept iff no skip path -/
theorem no_targets (v : Variant) : Kept [] v ↔ NoSkipPath v.attrs := by
  unfold Kept
  simp [TargetOs.accept]

/-- **the statement**: the parsed variant list is, name by name and in order, the list of kept source
variants -/
def C02_VariantLookalikes_full : Prop :=
  ∀ (E : Ext), E.U.AsciiCorrect →
  ∀ (T : List Str) (attrs : List Attr) (ident : Str) (gens : List GenericParam) (vs : List Variant) (e : RustEnum),
    (∀ v ∈ vs, C16.UpperCamel v.ident) →
    parseEnum E T attrs ident gens vs = .ok (.enum e) →
    (e.variants.map fun v => some v.id.renamed) =
        (vs.filter (keptB T)).map (C02.variantName? E (serdeRenameAll E attrs)) ∧
    e.variants.map (·.id.original) = (vs.filter (keptB T)).map (·.ident) ∧
    e.variants.length = (vs.filter (keptB T)).length ∧
    (∀ v ∈ vs, Kept T v →
      C02.variantName? E (serdeRenameAll E attrs) v ∈ e.variants.map fun rv => some rv.id.renamed)

/-- **C02_VariantLookalikes.** -/
theorem C02_VariantLookalikes : C02_VariantLookalikes_full := by
  intro E hU T attrs ident gens vs e hs h
  have hn := C02.parseEnum_names E hU T attrs ident gens vs e hs h
  have ho := C02.parseEnum_originals E hU T attrs ident gens vs e hs h
  rw [filter_kept] at hn ho
  refine ⟨hn, ho, ?_, ?_⟩
  · have := congrArg List.length ho
    simpa using this
  · intro v hv hk
    rw [hn]
    exact List.mem_map.2 ⟨v, List.mem_filter.2 ⟨hv, (keptB_iff T v).2 hk⟩, rfl⟩

/-- a kept variant is in the parsed list with serde's name -/
theorem kept_variant_present (E : Ext) (hU : E.U.AsciiCorrect) (T : List Str) (attrs : List Attr) (ident : Str)
    (gens : List GenericParam) (vs : List Variant) (e : RustEnum) (hs : ∀ v ∈ vs, C16.UpperCamel v.ident)
    (h : parseEnum E T attrs ident gens vs = .ok (.enum e)) (v : Variant) (hv : v ∈ vs) (hk : Kept T v) :
    ∃ rv ∈ e.variants, some rv.id.renamed = C02.variantName? E (serdeRenameAll E attrs) v := by
  have := (C02_VariantLookalikes E hU T attrs ident gens vs e hs h).2.2.2 v hv hk
  obtain ⟨rv, hrv, heq⟩ := List.mem_map.1 this
  exact ⟨rv, hrv, heq⟩

/-- when every variant is free of skip paths and no target list is given, no variant is lost -/
theorem all_kept (E : Ext) (hU : E.U.AsciiCorrect) (attrs : List Attr) (ident : Str)
    (gens : List GenericParam) (vs : List Variant) (e : RustEnum) (hs : ∀ v ∈ vs, C16.UpperCamel v.ident)
    (h : parseEnum E [] attrs ident gens vs = .ok (.enum e)) (hk : ∀ v ∈ vs, NoSkipPath v.attrs) :
    e.variants.length = vs.length ∧
    (e.variants.map fun v => some v.id.renamed) = vs.map (C02.variantName? E (serdeRenameAll E attrs)) := by
  have hf : vs.filter (keptB []) = vs :=
    List.filter_eq_self.2 fun v hv => (keptB_iff [] v).2 ((no_targets v).2 (hk v hv))
  have := C02_VariantLookalikes E hU [] attrs ident gens vs e hs h
  rw [hf] at this
  exact ⟨this.2.2.1, this.1⟩

/-! ## a decidable sufficient test, and the look-alikes -/

/-- no direct argument of the attribute is the bare path `skip` (attributes that are not lists pass) -/
def noSkipArg (a : Attr) : Bool :=
  match a.val with
  | .list _ _ args => args.all fun m => match m with
    | .path segs => segs != [kSkip]
    | _ => true
  | _ => true

theorem noSkipArg_not_marker (a : Attr) (h : noSkipArg a = true) : ¬ IsSkipMarker a := by
  rintro ⟨segs, args, he, _, hm⟩
  unfold noSkipArg at h
  rw [he] at h
  simp only [List.all_eq_true] at h
  have := h _ hm
  simp at this

theorem noSkipArg_noSkipPath (attrs : List Attr) (h : attrs.all noSkipArg = true) : NoSkipPath attrs := by
  intro a ha
  exact noSkipArg_not_marker a (List.all_eq_true.1 h a ha)

/-- inserting a neutral attribute anywhere in the variant's list does not change whether it is kept -/
theorem lookalike_insert (T : List Str) (va pre post : List Attr) (vi : Str) (fs : Fields) (a : Attr)
    (hva : va = pre ++ a :: post) (h : Neutral T a) :
    keptB T ⟨va, vi, fs⟩ = keptB T ⟨pre ++ post, vi, fs⟩ := by
  subst hva
  rw [keptB_eq, keptB_eq]
  simp only [isSkipped_insert pre post a T h]

def unitV (name : Str) (attrs : List Attr) : Variant := ⟨attrs, name, .unit⟩

/-- ```
#[serde(skip_serializing)] A, #[serde(skip_deserializing)] B, #[serde(skip_serializing_if = "f")] C,
#[serde(other)] D, #[serde(alias = "x")] E, #[serde(skip_serializing, skip_deserializing)] F,
#[typeshare(skipped)] G, #[serde(rename(skip))] H, #[serde(skip = "x")] I, #[other(skip)] J, #[skip] K
``` -/
def lookalikeVariants : List Variant :=
  [unitV s%"A" [serdeList [.path [s%"skip_serializing"]]],
   unitV s%"B" [serdeList [.path [s%"skip_deserializing"]]],
   unitV s%"C" [serdeList [.nameValue [s%"skip_serializing_if"] (some (.str s%"f"))]],
   unitV s%"D" [serdeList [.path [s%"other"]]],
   unitV s%"E" [serdeList [.nameValue [s%"alias"] (some (.str s%"x"))]],
   unitV s%"F" [serdeList [.path [s%"skip_serializing"], .path [s%"skip_deserializing"]]],
   unitV s%"G" [⟨.list [kTypeshare] true [.path [s%"skipped"]]⟩],
   unitV s%"H" [serdeList [.list [s%"rename"] true [.path [kSkip]]]],
   unitV s%"I" [serdeList [.nameValue [kSkip] (some (.str s%"x"))]],
   unitV s%"J" [⟨.list [s%"other"] true [.path [kSkip]]⟩],
   unitV s%"K" [⟨.path [kSkip]⟩]]

theorem lookalike_variants_all_kept : ∀ v ∈ lookalikeVariants, keptB [] v = true := by decide +kernel

/-- ten of them pass the syntactic test; `other(skip)` does not and does not need to: the marker must sit in
`serde(..)` / `typeshare(..)` itself -/
example : (lookalikeVariants.filter fun v => v.attrs.all noSkipArg).length = 10 := by decide +kernel

/-! ## non-vacuity -/

def wE : Ext := { U := .ascii, parseType := fun _ => none }
def tsAttr : Attr := ⟨.path [kTypeshare]⟩
def skippedV : Variant := unitV s%"Gone" [serdeList [.path [s%"default"], .path [kSkip]]]

/-- the look-alikes and one really skipped variant in the middle: eleven of twelve are parsed, in order -/
example : (match parseEnum wE [] [tsAttr] s%"En" [] (lookalikeVariants.take 5 ++ skippedV :: lookalikeVariants.drop 5) with
    | .ok (.enum e) => e.variants.map (·.id.renamed) | _ => []) =
    [s%"A", s%"B", s%"C", s%"D", s%"E", s%"F", s%"G", s%"H", s%"I", s%"J", s%"K"] := by decide +kernel
example : keptB [] skippedV = false := by decide +kernel
example : ∀ v ∈ lookalikeVariants, C16.UpperCamel v.ident := by
  intro v hv
  simp only [lookalikeVariants, List.mem_cons, List.mem_nil_iff, or_false] at hv
  repeat' (rcases hv with rfl | hv)
  all_goals (try subst hv)
  all_goals exact ⟨_, [], rfl, by decide, by simp, .inr (by simp)⟩

end TsV.C02_VariantLookalikes
