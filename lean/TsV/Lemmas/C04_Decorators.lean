import TsV.Props.C04
/-!
# C04, decorators — the field facts of every back end read a field's decorators only through the
per-language `type = "…"` override (and TypeScript's `readonly` flag)

`SameBut f g`: `g` is `f` with other decorators.  With the same type override for the language, the
facts record (hence the rendered line) of `g` is that of `f` — for TypeScript up to the `readonly`
flag, which only selects the prefix of the property line.
-/
namespace TsV.C04D
open TsV TsV.Lang TsV.Outcome

/-- `g` differs from `f` at most in its decorators -/
def SameBut (f g : RustField) : Prop :=
  g.id = f.id ∧ g.ty = f.ty ∧ g.comments = f.comments ∧ g.hasDefault = f.hasDefault

theorem SameBut.refl (f : RustField) : SameBut f f := ⟨rfl, rfl, rfl, rfl⟩
theorem SameBut.symm {f g : RustField} (h : SameBut f g) : SameBut g f := ⟨h.1.symm, h.2.1.symm, h.2.2.1.symm, h.2.2.2.symm⟩

/-- `f` with the decorator list `ds` -/
def withDecorators (f : RustField) (ds : List (Lang × List FieldDecorator)) : RustField := { f with decorators := ds }

theorem sameBut_with (f : RustField) (ds : List (Lang × List FieldDecorator)) : SameBut f (withDecorators f ds) :=
  ⟨rfl, rfl, rfl, rfl⟩

theorem sameBut_iff (f g : RustField) : SameBut f g ↔ g = withDecorators f g.decorators := by
  obtain ⟨i, t, c, h, d⟩ := f
  obtain ⟨i', t', c', h', d'⟩ := g
  simp [SameBut, withDecorators]

/-! ## TypeScript -/
namespace Ts
open TsV.Lang.TypeScript

/-- the property line after the `readonly` prefix -/
def lineCore (tf : TsField) : Str :=
  tf.name ++ (if tf.optional then s%"?" else []) ++ s%": " ++ tf.ty ++ (if tf.orNull then s%" | null" else []) ++ s%";\n"

theorem renderField_split (tf : TsField) :
    renderField tf = comments 1 tf.comments ++ s%"\t" ++ (if tf.readonly then s%"readonly " else []) ++ lineCore tf := by
  simp [renderField, lineCore, List.append_assoc]

theorem fieldFacts_congr (cfg : Cfg) (gens : List Str) {f g : RustField} (h : SameBut f g)
    (ho : typeOverride g .typescript = typeOverride f .typescript) (st : CustomMap) :
    fieldFacts cfg gens g st = (fieldFacts cfg gens f st).bind fun (tf, st') =>
      .ok ({ tf with readonly := hasDecoratorNamed g .typescript s%"readonly" }, st') := by
  obtain ⟨h1, h2, h3, h4⟩ := h
  unfold fieldFacts
  rw [ho, h1, h2, h3, h4]
  cases typeOverride f .typescript with
  | some t => rfl
  | none =>
    show (formatType cfg gens f.ty st).bind _ = ((formatType cfg gens f.ty st).bind _).bind _
    cases formatType cfg gens f.ty st with
    | ok p => rfl
    | err e => rfl
    | panic s => rfl

end Ts

/-! ## Kotlin, Scala, Swift, Go, Python -/

theorem kotlin_paramFacts_congr (cfg : Kotlin.Cfg) (gens : List Str) (rsn priv : Bool) {f g : RustField}
    (h : SameBut f g) (ho : typeOverride g .kotlin = typeOverride f .kotlin) :
    Kotlin.paramFacts cfg gens rsn priv g = Kotlin.paramFacts cfg gens rsn priv f := by
  obtain ⟨h1, h2, h3, h4⟩ := h
  unfold Kotlin.paramFacts Kotlin.defaultSuffix
  rw [ho, h1, h2, h3, h4]

theorem scala_paramFacts_congr (cfg : Scala.Cfg) (gens : List Str) {f g : RustField}
    (h : SameBut f g) (ho : typeOverride g .scala = typeOverride f .scala) :
    Scala.paramFacts cfg gens g = Scala.paramFacts cfg gens f := by
  obtain ⟨h1, h2, h3, h4⟩ := h
  unfold Scala.paramFacts
  rw [ho, h1, h2, h3, h4]

theorem swift_fieldType_congr (cfg : Swift.Cfg) (gens : List Str) {f g : RustField}
    (h : SameBut f g) (ho : typeOverride g .swift = typeOverride f .swift) (st : Swift.St) :
    Swift.fieldType cfg gens g st = Swift.fieldType cfg gens f st ∧ Swift.fieldOptional g = Swift.fieldOptional f ∧
      Swift.memberName g = Swift.memberName f ∧ Swift.fieldCodingKey g = Swift.fieldCodingKey f := by
  obtain ⟨h1, h2, h3, h4⟩ := h
  unfold Swift.fieldType Swift.fieldOptional Swift.fieldCodingKey Swift.memberName
  rw [ho, h1, h2, h4]
  exact ⟨rfl, rfl, rfl, rfl⟩

theorem go_fieldFacts_congr (U : UnicodeOps) (cfg : Go.Cfg) {f g : RustField}
    (h : SameBut f g) (ho : typeOverride g .go = typeOverride f .go) (st : Go.Imports) :
    Go.fieldFacts U cfg g st = Go.fieldFacts U cfg f st := by
  obtain ⟨h1, h2, h3, h4⟩ := h
  unfold Go.fieldFacts
  rw [ho, h1, h2, h3, h4]

/-- the Python back end reads no field decorator at all -/
theorem python_fieldFacts_congr (E : Ext) (cfg : Python.Cfg) (gens : List Str) {f g : RustField}
    (h : SameBut f g) (st : Python.St) :
    Python.fieldFacts E cfg gens g st = Python.fieldFacts E cfg gens f st := by
  obtain ⟨h1, h2, h3, h4⟩ := h
  unfold Python.fieldFacts
  rw [h1, h2, h3, h4]

end TsV.C04D
