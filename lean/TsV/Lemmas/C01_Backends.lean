import TsV.Lemmas.C01_Parse
/-!
# C01, back-end half: every back end binds each field to `id.renamed`
-/
namespace TsV.C01
open TsV TsV.Str TsV.Lang TsV.Outcome TsV.RenameLemmas

theorem bind_ok' {α β} (x : Outcome α) (f : α → Outcome β) (b : β) :
    x.bind f = .ok b ↔ ∃ a, x = .ok a ∧ f a = .ok b := bind_eq_ok x f b

/-! ## characters and strings -/

theorem keyChar_cases (c : Char) (h : keyChar c = true) :
    c ≠ '"' ∧ c ≠ '\\' ∧ c ≠ '\n' ∧ c ≠ '\r' ∧ c ≠ '\t' ∧ c ≠ ',' ∧ c ≠ '`' ∧ c.toNat ≠ 0 ∧
      ¬ (c.toNat < 32) ∧ c.toNat ≠ 127 := by
  simp only [keyChar, Bool.or_eq_true, beq_iff_eq] at h
  rcases h with (((h | h) | h) | h) | h
  · unfold isAsciiLower at h; split at h <;> first | decide | simp at h
  · unfold isAsciiUpper at h; split at h <;> first | decide | simp at h
  · unfold isAsciiDigit at h; split at h <;> first | decide | simp at h
  · subst h; decide
  · subst h; decide

/-- `{:?}` adds nothing but the quotes on the key alphabet -/
theorem debugStr_key (k : Str) (h : KeyStr k) : debugStr k = '"' :: k ++ ['"'] := by
  unfold debugStr
  have : ∀ (l : Str), KeyStr l → l.flatMap (fun c =>
      if c = '"' then ['\\', '"'] else if c = '\\' then ['\\', '\\']
      else if c = '\n' then ['\\', 'n'] else if c = '\r' then ['\\', 'r']
      else if c = '\t' then ['\\', 't'] else if c.toNat = 0 then ['\\', '0']
      else if c.toNat < 32 || c.toNat = 127 then s%"\\u{" ++ hexOf c.toNat ++ s%"}"
      else [c]) = l := by
    intro l hl
    induction l with
    | nil => rfl
    | cons a t ih =>
      obtain ⟨h1, h2, h3, h4, h5, _, _, h6, h7, h8⟩ := keyChar_cases a (hl a (by simp))
      simp only [List.flatMap_cons, h1, h2, h3, h4, h5, h6, h7, h8, if_false, decide_false, Bool.or_self,
        Bool.false_eq_true, List.singleton_append, List.cons.injEq, true_and]
      exact ih fun x hx => hl x (by simp [hx])
  rw [this k h]
  simp

theorem debugInner_key (k : Str) (h : KeyStr k) : Lang.Go.debugInner k = k := by
  unfold Lang.Go.debugInner
  rw [debugStr_key k h]
  simp

theorem unescape_cons (c : Char) (t : Str) (h1 : c ≠ '\\') (h2 : c ≠ '"') :
    unescape (c :: t) = c :: unescape t := by
  rw [unescape.eq_def]
  split
  · rename_i heq; cases heq
  · rename_i heq; cases heq; exact absurd rfl h1
  · rename_i heq; cases heq; exact absurd rfl h2
  · rename_i heq; cases heq; rfl

theorem unescape_key (k : Str) (h : KeyStr k) : unescape k = k := by
  induction k with
  | nil => rfl
  | cons a t ih =>
    obtain ⟨h1, h2, _⟩ := keyChar_cases a (h a (by simp))
    rw [unescape_cons a t h2 h1, ih fun x hx => h x (by simp [hx])]

theorem unescape_key_quote (k rest : Str) (h : KeyStr k) : unescape (k ++ '"' :: rest) = k := by
  induction k with
  | nil => rfl
  | cons a t ih =>
    obtain ⟨h1, h2, _⟩ := keyChar_cases a (h a (by simp))
    rw [List.cons_append, unescape_cons a _ h2 h1, ih fun x hx => h x (by simp [hx])]

theorem takeWhile_key (k : Str) (h : KeyStr k) : k.takeWhile (· != ',') = k := by
  induction k with
  | nil => rfl
  | cons a t ih =>
    obtain ⟨_, _, _, _, _, h6, _⟩ := keyChar_cases a (h a (by simp))
    have h6' : (a != ',') = true := by simpa using h6
    simp [List.takeWhile, h6', ih fun x hx => h x (by simp [hx])]

theorem replaceChar_absent (s : Str) (c : Char) (r : Str) (h : c ∉ s) : replaceChar s c r = s := by
  induction s with
  | nil => rfl
  | cons a t ih =>
    have ha : a ≠ c := fun e => h (by simp [e])
    have ht : c ∉ t := fun e => h (by simp [e])
    simp only [replaceChar, List.flatMap_cons, ha, if_false] at *
    rw [ih ht]; rfl

theorem contains_false_iff (s : Str) (c : Char) : s.contains c = false ↔ c ∉ s := by
  simp

/-! ## TypeScript -/
namespace TypeScript
open TsV.Lang.TypeScript

/-- the model's `writeFields` is `fieldsFacts` rendered -/
theorem writeFields_eq (cfg : Cfg) (gens : List Str) : ∀ (fs : List RustField) (st : CustomMap),
    writeFields cfg gens fs st =
      (fieldsFacts cfg gens fs st).bind fun (tfs, st) => .ok (tfs.flatMap renderField, st)
  | [], st => rfl
  | f :: fs, st => by
    simp only [writeFields, fieldsFacts]
    cases h : fieldFacts cfg gens f st with
    | ok p =>
      obtain ⟨tf, st1⟩ := p
      simp only [bind_ok]
      rw [writeFields_eq cfg gens fs st1]
      cases h2 : fieldsFacts cfg gens fs st1 with
      | ok q => obtain ⟨rest, st2⟩ := q; simp [List.flatMap_cons]
      | err e => rfl
      | panic s => rfl
    | err e => rfl
    | panic s => rfl

theorem fieldFacts_name (cfg : Cfg) (gens : List Str) (f : RustField) (st st' : CustomMap) (tf : TsField)
    (h : fieldFacts cfg gens f st = .ok (tf, st')) : tf.name = propertyName f.id.renamed := by
  unfold fieldFacts at h
  obtain ⟨⟨ty, st1⟩, _, h2⟩ := (bind_ok' _ _ _).1 h
  try simp only at h2
  cases h2
  rfl

theorem boundKey_of_name (tf : TsField) (k : Str) (hn : tf.name = propertyName k) (hk : KeyStr k) :
    boundKey tf = k := by
  unfold boundKey
  rw [hn]
  unfold propertyName
  by_cases hc : k.contains '-' = true
  · rw [if_pos hc, debugStr_key k hk]
    show unescape (k ++ ['"']) = k
    exact unescape_key_quote k [] hk
  · rw [if_neg hc]
    cases k with
    | nil => rfl
    | cons a t =>
      obtain ⟨h1, _⟩ := keyChar_cases a (hk a (by simp))
      split
      · rename_i heq; cases heq; exact absurd rfl h1
      · rfl

theorem fieldFacts_key (cfg : Cfg) (gens : List Str) (f : RustField) (st st' : CustomMap) (tf : TsField)
    (h : fieldFacts cfg gens f st = .ok (tf, st')) (hk : KeyStr f.id.renamed) : boundKey tf = f.id.renamed :=
  boundKey_of_name tf _ (fieldFacts_name cfg gens f st st' tf h) hk

theorem fieldsFacts_keys (cfg : Cfg) (gens : List Str) : ∀ (fs : List RustField) (st st' : CustomMap)
    (tfs : List TsField), fieldsFacts cfg gens fs st = .ok (tfs, st') →
    Forall₂ (fun f tf => KeyStr f.id.renamed → boundKey tf = f.id.renamed) fs tfs
  | [], st, st', tfs, h => by simp [fieldsFacts] at h; obtain ⟨rfl, _⟩ := h; exact .nil
  | f :: fs, st, st', tfs, h => by
    simp only [fieldsFacts] at h
    obtain ⟨⟨tf, st1⟩, h1, h2⟩ := (bind_ok' _ _ _).1 h
    obtain ⟨⟨rest, st2⟩, h3, h4⟩ := (bind_ok' _ _ _).1 h2
    try simp only at h4
    cases h4
    exact .cons (fieldFacts_key cfg gens f st st1 tf h1) (fieldsFacts_keys cfg gens fs st1 _ rest h3)

/-- the interface `write_struct` prints consists of the rendered `fieldsFacts` of the struct's fields -/
theorem writeStruct_fields (cfg : Cfg) (rs : RustStruct) (st st' : CustomMap) (txt : Str)
    (h : writeStruct cfg rs st = .ok (txt, st')) :
    ∃ tfs, fieldsFacts cfg rs.genericTypes rs.fields st = .ok (tfs, st') ∧
      txt = comments 0 rs.comments ++ s%"export interface " ++ rs.id.renamed ++ genericSuffix rs.genericTypes ++
        s%" {\n" ++ tfs.flatMap renderField ++ s%"}\n\n" := by
  unfold writeStruct at h
  rw [writeFields_eq] at h
  obtain ⟨⟨body, st1⟩, h1, h2⟩ := (bind_ok' _ _ _).1 h
  obtain ⟨⟨tfs, st2⟩, h3, h4⟩ := (bind_ok' _ _ _).1 h1
  try simp only at h2 h4
  cases h4; cases h2
  exact ⟨tfs, h3, rfl⟩

/-- a struct variant is printed inline: its body is the rendered `fieldsFacts` of its fields -/
theorem writeVariant_struct (cfg : Cfg) (e : RustEnum) (tag content : Str) (id : Id) (cs : List Str)
    (fs : List RustField) (st : CustomMap) :
    writeVariant cfg e tag content (.anonymousStruct id cs fs) st =
      (fieldsFacts cfg e.genericTypes fs st).bind fun (tfs, st) =>
        .ok (nl ++ comments 1 cs ++ s%"\t| { " ++ tag ++ s%": " ++ debugStr id.renamed ++ s%", " ++ content ++
             s%": {\n" ++ tfs.flatMap renderField ++ s%"}}", st) := by
  simp only [writeVariant, writeFields_eq, RustEnumVariant.comments]
  cases fieldsFacts cfg e.genericTypes fs st with
  | ok p => obtain ⟨tfs, st1⟩ := p; rfl
  | err e => rfl
  | panic s => rfl

/-- whenever `writeVariants` succeeds, `variantsFacts` succeeds with the same final state -/
theorem writeVariants_facts (cfg : Cfg) (e : RustEnum) (tag content : Str) :
    ∀ (vs : List RustEnumVariant) (st st' : CustomMap) (txt : Str),
      writeVariants cfg e tag content vs st = .ok (txt, st') →
      ∃ tfss, variantsFacts cfg e vs st = .ok (tfss, st')
  | [], st, st', txt, h => by simp [writeVariants] at h; exact ⟨[], by simp [variantsFacts, h.2]⟩
  | v :: vs, st, st', txt, h => by
    simp only [writeVariants] at h
    obtain ⟨⟨a, st1⟩, h1, h2⟩ := (bind_ok' _ _ _).1 h
    obtain ⟨⟨b, st2⟩, h3, h4⟩ := (bind_ok' _ _ _).1 h2
    try simp only at h4
    cases h4
    obtain ⟨rest, hr⟩ := writeVariants_facts cfg e tag content vs st1 _ b h3
    cases v with
    | unit id cs =>
      simp only [writeVariant] at h1
      cases h1
      exact ⟨rest, by simp only [variantsFacts]; exact hr⟩
    | tuple id cs ty =>
      simp only [writeVariant] at h1
      obtain ⟨⟨t, st3⟩, h5, h6⟩ := (bind_ok' _ _ _).1 h1
      try simp only at h6
      cases h6
      exact ⟨rest, by simp only [variantsFacts, h5, bind_ok]; exact hr⟩
    | anonymousStruct id cs fs =>
      rw [writeVariant_struct] at h1
      obtain ⟨⟨tfs, st3⟩, h5, h6⟩ := (bind_ok' _ _ _).1 h1
      try simp only at h6
      cases h6
      exact ⟨tfs :: rest, by simp only [variantsFacts, h5, bind_ok, hr]⟩

theorem variantsFacts_keys (cfg : Cfg) (e : RustEnum) :
    ∀ (vs : List RustEnumVariant) (st st' : CustomMap) (tfss : List (List TsField)),
      variantsFacts cfg e vs st = .ok (tfss, st') →
      Forall₂ (fun (p : Id × List RustField) tfs =>
          Forall₂ (fun f tf => KeyStr f.id.renamed → boundKey tf = f.id.renamed) p.2 tfs)
        (structVariants { e with variants := vs }) tfss
  | [], st, st', tfss, h => by
    simp [variantsFacts] at h; obtain ⟨rfl, _⟩ := h; exact .nil
  | .unit id cs :: vs, st, st', tfss, h => by
    simp only [variantsFacts] at h
    simpa [structVariants] using variantsFacts_keys cfg e vs st st' tfss h
  | .tuple id cs ty :: vs, st, st', tfss, h => by
    simp only [variantsFacts] at h
    obtain ⟨⟨t, st1⟩, _, h2⟩ := (bind_ok' _ _ _).1 h
    simpa [structVariants] using variantsFacts_keys cfg e vs st1 st' tfss h2
  | .anonymousStruct id cs fs :: vs, st, st', tfss, h => by
    simp only [variantsFacts] at h
    obtain ⟨⟨tfs, st1⟩, h1, h2⟩ := (bind_ok' _ _ _).1 h
    obtain ⟨⟨rest, st2⟩, h3, h4⟩ := (bind_ok' _ _ _).1 h2
    try simp only at h4
    cases h4
    have := variantsFacts_keys cfg e vs st1 _ rest h3
    simp only [structVariants, List.filterMap_cons] at this ⊢
    exact .cons (fieldsFacts_keys cfg e.genericTypes fs st st1 tfs h1) this

end TypeScript

/-! ## Kotlin -/
namespace Kotlin
open TsV.Lang.Kotlin

theorem paramFacts_key (cfg : Cfg) (gens : List Str) (b priv : Bool) (f : RustField) (p : KtParam)
    (h : paramFacts cfg gens b priv f = .ok p) :
    boundKey p = if b then f.id.renamed else removeDash f.id.renamed := by
  unfold paramFacts at h
  obtain ⟨ty, _, h2⟩ := (bind_ok' _ _ _).1 h
  cases h2
  cases b <;> rfl

theorem paramsFacts_keys (cfg : Cfg) (gens : List Str) (b : Bool) : ∀ (fs : List RustField) (ps : List KtParam),
    paramsFacts cfg gens b fs = .ok ps →
    Forall₂ (fun f p => boundKey p = if b then f.id.renamed else removeDash f.id.renamed) fs ps
  | [], ps, h => by simp [paramsFacts] at h; subst h; exact .nil
  | f :: fs, ps, h => by
    simp only [paramsFacts] at h
    obtain ⟨p, h1, h2⟩ := (bind_ok' _ _ _).1 h
    obtain ⟨rest, h3, h4⟩ := (bind_ok' _ _ _).1 h2
    cases h4
    exact .cons (paramFacts_key cfg gens b false f p h1) (paramsFacts_keys cfg gens b fs rest h3)

/-- **Kotlin**: `requires_serial_name` is struct-wide, `remove_dash` is the identity without dashes -/
theorem structFacts_keys (cfg : Cfg) (rs : RustStruct) (d : KtDecl) (h : structFacts cfg rs = .ok d) :
    Forall₂ (fun f p => boundKey p = f.id.renamed) rs.fields (declParams d) := by
  unfold structFacts at h
  split at h
  · rename_i he
    cases h
    have : rs.fields = [] := by simpa using he
    rw [this]; exact .nil
  · obtain ⟨ps, h1, h2⟩ := (bind_ok' _ _ _).1 h
    cases h2
    simp only [declParams]
    have hk := paramsFacts_keys cfg rs.genericTypes _ rs.fields ps h1
    cases hb : (rs.fields.any fun f => f.id.renamed.contains '-') with
    | true => rw [hb] at hk; exact forall₂_imp (fun f p hfp => by simpa using hfp) hk
    | false =>
      rw [hb] at hk
      have hall : ∀ f ∈ rs.fields, '-' ∉ f.id.renamed := by
        intro f hf
        have := (List.any_eq_false.1 hb) f hf
        simpa using this
      refine forall₂_imp ?_ (forall₂_mem_left hk hall)
      intro f p ⟨hd, hfp⟩
      simp only [Bool.false_eq_true, if_false] at hfp
      rw [hfp]
      exact replaceChar_absent _ _ _ hd

theorem structsFacts_forall₂ (cfg : Cfg) : ∀ (ss : List RustStruct) (ds : List KtDecl),
    structsFacts cfg ss = .ok ds → Forall₂ (fun s d => structFacts cfg s = .ok d) ss ds
  | [], ds, h => by simp [structsFacts] at h; subst h; exact .nil
  | s :: ss, ds, h => by
    simp only [structsFacts] at h
    obtain ⟨d, h1, h2⟩ := (bind_ok' _ _ _).1 h
    obtain ⟨rest, h3, h4⟩ := (bind_ok' _ _ _).1 h2
    cases h4
    exact .cons h1 (structsFacts_forall₂ cfg ss rest h3)

/-- the helper classes of the struct variants -/
theorem innerStructs_keys (cfg : Cfg) (e : RustEnum) (ds : List KtDecl)
    (h : structsFacts cfg (innerStructs e) = .ok ds) :
    Forall₂ (fun (p : Id × List RustField) d =>
        Forall₂ (fun f q => boundKey q = f.id.renamed) p.2 (declParams d)) (structVariants e) ds := by
  have := structsFacts_forall₂ cfg _ ds h
  unfold innerStructs at this
  have := forall₂_of_map_right (R := fun d s => structFacts cfg s = .ok d) _
    (l1 := ds) (l2 := structVariants e) (by
      -- flip
      have flip : ∀ {l1 : List RustStruct} {l2 : List KtDecl},
          Forall₂ (fun s d => structFacts cfg s = .ok d) l1 l2 →
          Forall₂ (fun d s => structFacts cfg s = .ok d) l2 l1 := by
        intro l1 l2 hh
        induction hh with
        | nil => exact .nil
        | cons a _ ih => exact .cons a ih
      exact flip this)
  have flip2 : ∀ {l1 : List KtDecl} {l2 : List (Id × List RustField)},
      Forall₂ (fun d (p : Id × List RustField) =>
        structFacts cfg (anonymousStruct e (e.id.renamed ++ p.1.original ++ s%"Inner") p.1.original p.2) = .ok d) l1 l2 →
      Forall₂ (fun (p : Id × List RustField) d =>
        Forall₂ (fun f q => boundKey q = f.id.renamed) p.2 (declParams d)) l2 l1 := by
    intro l1 l2 hh
    induction hh with
    | nil => exact .nil
    | cons a _ ih => exact .cons (structFacts_keys cfg _ _ a) ih
  exact flip2 this

/-- `write_enum` emits the helper classes first -/
theorem enumFacts_inners (cfg : Cfg) (e : RustEnum) (ds : List KtDecl) (h : enumFacts cfg e = .ok ds) :
    ∃ inners rest, structsFacts cfg (innerStructs e) = .ok inners ∧ ds = inners ++ rest := by
  unfold enumFacts at h
  obtain ⟨inners, h1, h2⟩ := (bind_ok' _ _ _).1 h
  try simp only at h2
  split at h2
  · cases h2; exact ⟨inners, _, h1, rfl⟩
  · obtain ⟨cases', _, h4⟩ := (bind_ok' _ _ _).1 h2
    cases h4; exact ⟨inners, _, h1, rfl⟩

end Kotlin

/-! ## Swift -/
namespace Swift
open TsV.Lang.Swift

theorem unbacktick_id (k : Str) (h : '`' ∉ k) : unbacktick k = k := by
  unfold unbacktick
  rw [List.filter_eq_self]
  intro c hc
  have : c ≠ '`' := fun e => h (e ▸ hc)
  simpa using this

theorem unbacktick_kw (k : Str) (h : '`' ∉ k) : unbacktick (kw k) = k := by
  unfold kw
  split
  · unfold unbacktick
    have := unbacktick_id k h
    unfold unbacktick at this
    simp [List.filter_append, this]
  · exact unbacktick_id k h

theorem kw_noDash (k : Str) (h : '-' ∉ k) : '-' ∉ kw k := by
  unfold kw
  split
  · simp [h]
  · exact h

theorem keyStr_noTick (k : Str) (h : KeyStr k) : '`' ∉ k := by
  intro hc
  have := (keyChar_cases _ (h _ hc)).2.2.2.2.2.2.1
  exact this rfl

/-- a dash-free key survives the member-name mangling -/
theorem memberName_key (f : RustField) (hk : KeyStr f.id.renamed) (hd : '-' ∉ f.id.renamed) :
    unbacktick (memberName f) = f.id.renamed := by
  unfold memberName removeDash
  rw [replaceChar_absent _ _ _ (kw_noDash _ hd)]
  exact unbacktick_kw _ (keyStr_noTick _ hk)

theorem caseRaw_key (f : RustField) (hk : KeyStr f.id.renamed) : caseRaw (fieldCodingKey f) = f.id.renamed := by
  unfold fieldCodingKey caseRaw
  split
  · rfl
  · rename_i hc
    simp only [Option.getD_none]
    exact memberName_key f hk (by simpa using hc)

theorem find_nodup {α} (g : α → Str) (hf : α → CodingKey) (hk : ∀ a, (hf a).caseName = g a) :
    ∀ (l : List α), (l.map g).Nodup → ∀ a ∈ l, (l.map hf).find? (·.caseName == g a) = some (hf a)
  | [], _, a, ha => by simp at ha
  | b :: t, hn, a, ha => by
    simp only [List.map_cons, List.nodup_cons] at hn
    simp only [List.map_cons, List.find?_cons, hk]
    by_cases hba : g b = g a
    · simp only [hba, beq_self_eq_true]
      simp only [List.mem_cons] at ha
      rcases ha with rfl | ha
      · rfl
      · exact absurd (hba ▸ List.mem_map_of_mem (f := g) ha) hn.1
    · have : (g b == g a) = false := by simpa using hba
      simp only [this]
      simp only [List.mem_cons] at ha
      rcases ha with rfl | ha
      · exact absurd rfl hba
      · exact find_nodup g hf hk t hn.2 a ha

theorem storedProps_names (cfg : Cfg) (gens : List Str) : ∀ (fs : List RustField) (st st' : St)
    (ps : List StoredProp), storedProps cfg gens fs st = .ok (ps, st') → ps.map (·.name) = fs.map memberName
  | [], st, st', ps, h => by simp [storedProps] at h; obtain ⟨rfl, _⟩ := h; rfl
  | f :: fs, st, st', ps, h => by
    simp only [storedProps] at h
    obtain ⟨⟨ty, st1⟩, _, h2⟩ := (bind_ok' _ _ _).1 h
    obtain ⟨⟨rest, st2⟩, h3, h4⟩ := (bind_ok' _ _ _).1 h2
    try simp only at h4
    cases h4
    simp [storedProps_names cfg gens fs st1 _ rest h3]

/-- the key bound to the property called `n` -/
def keyOfName (s : SwiftStruct) (n : Str) : Str :=
  if s.explicitCodingKeys then
    match s.codingKeys.find? (·.caseName == n) with
    | some k => caseRaw k
    | none => unbacktick n
  else unbacktick n

theorem structKeys_eq (s : SwiftStruct) : structKeys s = (s.props.map (·.name)).map (keyOfName s) := by
  unfold structKeys
  rw [List.map_map]
  rfl

/-- **Swift**: with `CodingKeys` the case of the property carries the key (explicitly if dashed,
by its name otherwise); without, the property name does -/
theorem structFacts_keys (U : UnicodeOps) (cfg : Cfg) (rs : RustStruct) (st st' : St) (s : SwiftStruct)
    (h : structFacts U cfg rs st = .ok (s, st')) (hn : (rs.fields.map memberName).Nodup) :
    Forall₂ (fun f k => KeyStr f.id.renamed → k = f.id.renamed) rs.fields (structKeys s) := by
  unfold structFacts at h
  obtain ⟨⟨props, st1⟩, h1, h2⟩ := (bind_ok' _ _ _).1 h
  obtain ⟨⟨params, st2⟩, _, h4⟩ := (bind_ok' _ _ _).1 h2
  try simp only at h4
  cases h4
  rw [structKeys_eq]
  simp only [storedProps_names cfg _ _ _ _ _ h1, List.map_map]
  apply forall₂_map_self
  intro f hf hk
  simp only [Function.comp, keyOfName]
  cases hb : (rs.fields.any fun f => f.id.renamed.contains '-') with
  | true =>
    simp only [if_true]
    rw [find_nodup memberName fieldCodingKey (by intro a; unfold fieldCodingKey; split <;> rfl) rs.fields hn f hf]
    exact caseRaw_key f hk
  | false =>
    simp only [Bool.false_eq_true, if_false]
    have := (List.any_eq_false.1 hb) f hf
    exact memberName_key f hk (by simpa using this)

theorem anonymousStructs_keys (U : UnicodeOps) (cfg : Cfg) (e : RustEnum) :
    ∀ (ps : List (Id × List RustField)) (st st' : St) (ss : List SwiftStruct),
      anonymousStructs U cfg e ps st = .ok (ss, st') →
      (∀ p ∈ ps, (p.2.map memberName).Nodup) →
      Forall₂ (fun (p : Id × List RustField) s =>
        Forall₂ (fun f k => KeyStr f.id.renamed → k = f.id.renamed) p.2 (structKeys s)) ps ss
  | [], st, st', ss, h, _ => by simp [anonymousStructs] at h; obtain ⟨rfl, _⟩ := h; exact .nil
  | (id, fields) :: rest, st, st', ss, h, hn => by
    simp only [anonymousStructs] at h
    obtain ⟨⟨s, st1⟩, h1, h2⟩ := (bind_ok' _ _ _).1 h
    obtain ⟨⟨ss', st2⟩, h3, h4⟩ := (bind_ok' _ _ _).1 h2
    try simp only at h4
    cases h4
    exact .cons (structFacts_keys U cfg _ st st1 s h1 (hn (id, fields) (by simp)))
      (anonymousStructs_keys U cfg e rest st1 _ ss' h3 fun p hp => hn p (by simp [hp]))

/-- `write_enum` generates the structs of the struct variants first -/
theorem enumFacts_structs (U : UnicodeOps) (cfg : Cfg) (e : RustEnum) (st st' : St) (ss : List SwiftStruct)
    (se : SwiftEnum) (h : enumFacts U cfg e st = .ok (ss, se, st')) :
    ∃ st1, anonymousStructs U cfg e (structVariants e) st = .ok (ss, st1) := by
  unfold enumFacts at h
  obtain ⟨⟨structs, st1⟩, h1, h2⟩ := (bind_ok' _ _ _).1 h
  obtain ⟨⟨cases', st2⟩, _, h4⟩ := (bind_ok' _ _ _).1 h2
  try simp only at h4
  cases h4
  exact ⟨st1, h1⟩

end Swift

/-! ## Go -/
namespace Go
open TsV.Lang.Go

theorem fieldFacts_key (U : UnicodeOps) (cfg : Cfg) (f : RustField) (st st' : Imports) (g : GoField)
    (h : fieldFacts U cfg f st = .ok (g, st')) (hk : KeyStr f.id.renamed) : boundKey g = f.id.renamed := by
  unfold fieldFacts at h
  obtain ⟨⟨typeName, st1⟩, _, h2⟩ := (bind_ok' _ _ _).1 h
  obtain ⟨goType, _, h3⟩ := (bind_ok' _ _ _).1 h2
  obtain ⟨name, _, h4⟩ := (bind_ok' _ _ _).1 h3
  cases h4
  simp only [boundKey]
  rw [debugInner_key _ hk, unescape_key _ hk, takeWhile_key _ hk]

theorem fieldsFacts_keys (U : UnicodeOps) (cfg : Cfg) : ∀ (fs : List RustField) (st st' : Imports)
    (gs : List GoField), fieldsFacts U cfg fs st = .ok (gs, st') →
    Forall₂ (fun f g => KeyStr f.id.renamed → boundKey g = f.id.renamed) fs gs
  | [], st, st', gs, h => by simp [fieldsFacts] at h; obtain ⟨rfl, _⟩ := h; exact .nil
  | f :: fs, st, st', gs, h => by
    simp only [fieldsFacts] at h
    obtain ⟨⟨g, st1⟩, h1, h2⟩ := (bind_ok' _ _ _).1 h
    obtain ⟨⟨rest, st2⟩, h3, h4⟩ := (bind_ok' _ _ _).1 h2
    try simp only at h4
    cases h4
    exact .cons (fieldFacts_key U cfg f st st1 g h1) (fieldsFacts_keys U cfg fs st1 _ rest h3)

/-- **Go**: the json tag carries the key -/
theorem structFacts_keys (U : UnicodeOps) (cfg : Cfg) (rs : RustStruct) (st st' : Imports) (d : GoStruct)
    (h : structFacts U cfg rs st = .ok (d, st')) :
    Forall₂ (fun f g => KeyStr f.id.renamed → boundKey g = f.id.renamed) rs.fields d.fields := by
  unfold structFacts at h
  obtain ⟨name, _, h2⟩ := (bind_ok' _ _ _).1 h
  obtain ⟨⟨fields, st1⟩, h3, h4⟩ := (bind_ok' _ _ _).1 h2
  try simp only at h4
  cases h4
  exact fieldsFacts_keys U cfg rs.fields st _ fields h3

theorem anonStructs_keys (U : UnicodeOps) (cfg : Cfg) (e : RustEnum) :
    ∀ (ps : List (Id × List RustField)) (st st' : Imports) (ds : List GoStruct),
      anonStructs U cfg e ps st = .ok (ds, st') →
      Forall₂ (fun (p : Id × List RustField) d =>
        Forall₂ (fun f g => KeyStr f.id.renamed → boundKey g = f.id.renamed) p.2 d.fields) ps ds
  | [], st, st', ds, h => by simp [anonStructs] at h; obtain ⟨rfl, _⟩ := h; exact .nil
  | (id, fs) :: rest, st, st', ds, h => by
    simp only [anonStructs] at h
    obtain ⟨structName, _, h2⟩ := (bind_ok' _ _ _).1 h
    obtain ⟨⟨d, st1⟩, h3, h4⟩ := (bind_ok' _ _ _).1 h2
    obtain ⟨⟨ds', st2⟩, h5, h6⟩ := (bind_ok' _ _ _).1 h4
    try simp only at h6
    cases h6
    exact .cons (structFacts_keys U cfg _ st st1 d h3) (anonStructs_keys U cfg e rest st1 _ ds' h5)

/-- the algebraic arm of `write_enum` declares the structs of the struct variants first -/
theorem algEnumFacts_anonymous (U : UnicodeOps) (cfg : Cfg) (e : RustEnum) (tagKey contentKey : Str)
    (cs : List Str) (st st' : Imports) (d : GoAlgEnum)
    (h : algEnumFacts U cfg e tagKey contentKey cs st = .ok (d, st')) :
    ∃ st1, anonStructs U cfg e (structVariants e) st = .ok (d.anonymous, st1) := by
  unfold algEnumFacts at h
  obtain ⟨⟨anonymous, st1⟩, h1, h2⟩ := (bind_ok' _ _ _).1 h
  obtain ⟨name, _, h3⟩ := (bind_ok' _ _ _).1 h2
  try simp only at h3
  obtain ⟨tagField, _, h4⟩ := (bind_ok' _ _ _).1 h3
  obtain ⟨short, _, h5⟩ := (bind_ok' _ _ _).1 h4
  obtain ⟨tagAcr, _, h6⟩ := (bind_ok' _ _ _).1 h5
  try simp only at h6
  obtain ⟨⟨variants, st2⟩, _, h8⟩ := (bind_ok' _ _ _).1 h6
  try simp only at h8
  cases h8
  exact ⟨st1, h1⟩

end Go

/-! ## Python -/
namespace Python
open TsV.Lang.Python

/-- **Python**: the alias is written exactly when the attribute name differs from the key —
whatever `convert_case` does (`E.snakeCase` is a parameter) -/
theorem fieldFacts_key (E : Ext) (cfg : Cfg) (gens : List Str) (f : RustField) (st st' : St) (pf : PyField)
    (h : fieldFacts E cfg gens f st = .ok (pf, st')) : boundKey pf = f.id.renamed := by
  unfold fieldFacts at h
  obtain ⟨⟨pythonType, st1⟩, _, h2⟩ := (bind_ok' _ _ _).1 h
  try simp only at h2
  cases h2
  simp only [boundKey]
  by_cases hc : (propertyAwareRename E f.id.original != f.id.renamed) = true
  · simp [hc]
  · simp only [hc]
    simpa using hc

theorem fieldsFacts_keys (E : Ext) (cfg : Cfg) (gens : List Str) : ∀ (fs : List RustField) (st st' : St)
    (ps : List PyField), fieldsFacts E cfg gens fs st = .ok (ps, st') →
    Forall₂ (fun f p => boundKey p = f.id.renamed) fs ps
  | [], st, st', ps, h => by simp [fieldsFacts] at h; obtain ⟨rfl, _⟩ := h; exact .nil
  | f :: fs, st, st', ps, h => by
    simp only [fieldsFacts] at h
    obtain ⟨⟨p, st1⟩, h1, h2⟩ := (bind_ok' _ _ _).1 h
    obtain ⟨⟨rest, st2⟩, h3, h4⟩ := (bind_ok' _ _ _).1 h2
    try simp only at h4
    cases h4
    exact .cons (fieldFacts_key E cfg gens f st st1 p h1) (fieldsFacts_keys E cfg gens fs st1 _ rest h3)

theorem structFacts_keys (E : Ext) (cfg : Cfg) (rs : RustStruct) (st st' : St) (c : PyClass)
    (h : structFacts E cfg rs st = .ok (c, st')) :
    Forall₂ (fun f p => boundKey p = f.id.renamed) rs.fields c.fields := by
  unfold structFacts at h
  obtain ⟨⟨fields, st1⟩, h1, h2⟩ := (bind_ok' _ _ _).1 h
  try simp only at h2
  cases h2
  exact fieldsFacts_keys E cfg _ _ _ _ fields h1

theorem innerFacts_keys (E : Ext) (cfg : Cfg) (e : RustEnum) :
    ∀ (ps : List (Id × List RustField)) (st st' : St) (cs : List PyClass),
      innerFacts E cfg e ps st = .ok (cs, st') →
      Forall₂ (fun (p : Id × List RustField) c =>
        Forall₂ (fun f q => boundKey q = f.id.renamed) p.2 c.fields) ps cs
  | [], st, st', cs, h => by simp [innerFacts] at h; obtain ⟨rfl, _⟩ := h; exact .nil
  | (id, fs) :: rest, st, st', cs, h => by
    simp only [innerFacts] at h
    obtain ⟨⟨c, st1⟩, h1, h2⟩ := (bind_ok' _ _ _).1 h
    obtain ⟨⟨cs', st2⟩, h3, h4⟩ := (bind_ok' _ _ _).1 h2
    try simp only at h4
    cases h4
    exact .cons (structFacts_keys E cfg _ st st1 c h1) (innerFacts_keys E cfg e rest st1 _ cs' h3)

/-- `write_algebraic_enum` writes the classes of the struct variants first -/
theorem unionFacts_inner (E : Ext) (cfg : Cfg) (e : RustEnum) (tag content : Str) (st st' : St) (u : PyUnion)
    (h : unionFacts E cfg e tag content st = .ok (u, st')) :
    ∃ st1, innerFacts E cfg e (structVariants e) st = .ok (u.inner, st1) := by
  unfold unionFacts at h
  obtain ⟨⟨inner, st1⟩, h1, h2⟩ := (bind_ok' _ _ _).1 h
  try simp only at h2
  obtain ⟨⟨variants, st2⟩, _, h4⟩ := (bind_ok' _ _ _).1 h2
  try simp only at h4
  cases h4
  exact ⟨st1, h1⟩

end Python

/-! ## Scala -/
namespace Scala
open TsV.Lang.Scala

theorem paramFacts_key (cfg : Cfg) (gens : List Str) (f : RustField) (p : ScParam)
    (h : paramFacts cfg gens f = .ok p) (hd : '-' ∉ f.id.renamed) : boundKey p = f.id.renamed := by
  unfold paramFacts at h
  obtain ⟨ty, _, h2⟩ := (bind_ok' _ _ _).1 h
  cases h2
  simp only [boundKey]
  exact replaceChar_absent _ _ _ hd

/-- **Scala**: no binding exists; the parameter name is the key as long as it has no dash -/
theorem classFacts_keys (cfg : Cfg) (rs : RustStruct) (c : ScClass) (h : classFacts cfg rs = .ok c) :
    Forall₂ (fun f p => '-' ∉ f.id.renamed → boundKey p = f.id.renamed) rs.fields c.params := by
  unfold classFacts at h
  obtain ⟨params, h1, h2⟩ := (bind_ok' _ _ _).1 h
  cases h2
  exact forall₂_imp (fun f p hfp hd => paramFacts_key cfg _ f p hfp hd) (mapM'_forall₂ _ _ _ h1)

theorem innerClasses_keys (cfg : Cfg) (e : RustEnum) (cs : List ScClass) (h : innerClasses cfg e = .ok cs) :
    Forall₂ (fun (p : Id × List RustField) c =>
      Forall₂ (fun f q => '-' ∉ f.id.renamed → boundKey q = f.id.renamed) p.2 c.params) (structVariants e) cs := by
  unfold innerClasses at h
  exact forall₂_imp (fun p c hpc => classFacts_keys cfg _ c hpc)
    (mapM'_forall₂ (fun p : Id × List RustField =>
      classFacts cfg (anonymousStruct e (e.id.renamed ++ p.1.original ++ s%"Inner") p.1.original p.2)) _ _ h)

theorem enumFacts_inner (cfg : Cfg) (e : RustEnum) (se : ScEnum) (h : enumFacts cfg e = .ok se) :
    innerClasses cfg e = .ok se.inner := by
  unfold enumFacts at h
  obtain ⟨inner, h1, h2⟩ := (bind_ok' _ _ _).1 h
  obtain ⟨cases', _, h4⟩ := (bind_ok' _ _ _).1 h2
  cases h4
  exact h1

end Scala

end TsV.C01
