import TsV.Lemmas.C20_Folder
/-!
# C20, folder output — the configured package reaches every module unchanged

In a folder run (`-d`, `Generate.run … (multiFile := true)`) one back-end value is built from the effective
configuration (`TsV.C20.precedence`) and reused for every crate.  The statements say that the package the
*k*-th module declares is a function of the configured package (and, for Kotlin, of that module's crate
name) only — not of the position of the module in the run, not of what was printed before:

* `C20_Folder` (`C20_Folder_full`), over every folder run that produces output:
  - **Kotlin**, package `P ≠ ""`: the module of crate `c` is
    `<version header>? package P.c ⏎ <the two kotlinx imports> <import lines> ⏎ <declarations>` and every import
    line is `C14I.ktImportLine cfg b t` = `import P.b.<prefix>t` for an entry `(b, t)` of the scoped imports of
    that crate's job (the lines `TsV.C14.import_line_kotlin` finds in the text): the same `P` everywhere;
    with `P = ""` the module has no package line (and no import block) at all;
  - **Scala**: the module is `renderFile` of facts whose `parent` / `last` are the configured package split
    at its last dot (`rsplitOnceDot_spec`), so it starts `<version header>? package <parent> ⏎ ⏎` (when there
    is a dot) and its package object / package block are named `<last>`;
  - **Go**: the module starts `<version header>? package P ⏎ ⏎`.
* `module_alone_kotlin` / `module_alone_scala`: the *k*-th module of `generateAll cfg jobs` is literally what
  `generateAll cfg [job k]` writes — the earlier jobs leave nothing behind.  Go threads its import set
  through the jobs (a fact about imports, not the package): `module_go_any_state` — whatever state the earlier
  jobs left, the module starts with the same package line.

Trusted reading (binding semantics): "the module declares package `X`" = the text is the optional version
comment followed by the line `package X` (`ktVersion`/`goVersion`/`scVersion`, `KtPackageLine`).
-/
namespace TsV.C20_Folder
open TsV TsV.Lang TsV.Generate TsV.Pipeline TsV.C06M TsV.C11M TsV.C14I TsV.C20F

/-- **independence of the earlier jobs, Kotlin**: module `k` is what a run of job `k` alone writes -/
theorem module_alone_kotlin (E : Ext) (cfg : Kotlin.Cfg) (mf : Bool) (jobs : List Job) (outs : List (Str × Str))
    (h : Kotlin.generateAll E cfg mf jobs = .ok outs) (k : Nat) (j : Job) (hk : jobs[k]? = some j) :
    ∃ text, outs[k]? = some (j.1, text) ∧ Kotlin.generateAll E cfg mf [j] = .ok [(j.1, text)] := by
  obtain ⟨text, ho, hm⟩ := (kotlin_mods E cfg jobs outs h).get k j hk
  refine ⟨text, ho, ?_⟩
  obtain ⟨c, d, imps⟩ := j
  have hm' : Kotlin.generate cfg d imps = .ok text := hm
  simp [Kotlin.generateAll, Kotlin.generateFrom, hm']

/-- **independence of the earlier jobs, Scala** -/
theorem module_alone_scala (E : Ext) (cfg : Scala.Cfg) (mf : Bool) (jobs : List Job) (outs : List (Str × Str))
    (h : Scala.generateAll E cfg mf jobs = .ok outs) (k : Nat) (j : Job) (hk : jobs[k]? = some j) :
    ∃ text, outs[k]? = some (j.1, text) ∧ Scala.generateAll E cfg mf [j] = .ok [(j.1, text)] := by
  obtain ⟨text, ho, hm⟩ := (scala_mods E cfg jobs outs h).get k j hk
  refine ⟨text, ho, ?_⟩
  obtain ⟨c, d, imps⟩ := j
  have hm' : Scala.generate cfg d = .ok text := hm
  simp [Scala.generateAll, Scala.generateFrom, hm']

/-- **Go, whatever the printer state**: module `k` is `generate_types` of job `k` in the import set the
earlier jobs left, and in *every* state that text starts with the configured package line -/
theorem module_go_any_state (E : Ext) (cfg : Go.Cfg) (mf : Bool) (jobs : List Job) (outs : List (Str × Str))
    (h : Go.generateAll E cfg mf jobs = .ok outs) (k : Nat) (j : Job) (hk : jobs[k]? = some j) :
    ∃ text, outs[k]? = some (j.1, text) ∧ (∃ st st', Go.generate E.U cfg j.2.1 st = .ok (text, st')) ∧
      ∃ rest, text = goVersion cfg ++ s%"package " ++ cfg.package ++ s%"\n\n" ++ rest := by
  obtain ⟨text, ho, st, st', hm⟩ := (go_mods E cfg jobs [] outs h).get k j hk
  exact ⟨text, ho, ⟨st, st', hm⟩, go_generate_package E.U cfg j.2.1 st text st' hm⟩

/-- **C20_Folder at full strength**: every folder run that produces output, Kotlin / Scala / Go -/
def C20_Folder_full : Prop :=
  (∀ (E : Ext) (cfg : Kotlin.Cfg) (targetOs : List Str) (pick : List ImportedType → Option ImportedType)
      (files : List SourceFile) (outs : List (Str × Str)),
      Generate.run E (.kotlin cfg) true targetOs pick files = .ok (.outputs outs) →
      ∀ p ∈ outs, ∃ (imps : ScopedCrateTypes) (body : Str),
        (cfg.package ≠ [] →
          p.2 = ktVersion cfg ++ s%"package " ++ cfg.package ++ s%"." ++ p.1 ++ s%"\n" ++ ktStdImports ++
            (imps.flatMap fun ct => ct.2.flatMap fun t => ktImportLine cfg ct.1 t) ++ s%"\n" ++ body) ∧
        (cfg.package = [] →
          p.2 = (imps.flatMap fun ct => ct.2.flatMap fun t => ktImportLine cfg ct.1 t) ++ s%"\n" ++ body)) ∧
  (∀ (E : Ext) (cfg : Scala.Cfg) (targetOs : List Str) (pick : List ImportedType → Option ImportedType)
      (files : List SourceFile) (outs : List (Str × Str)),
      Generate.run E (.scala cfg) true targetOs pick files = .ok (.outputs outs) →
      ∀ p ∈ outs, ∃ (f : Scala.ScFile) (rest : Str),
        p.2 = Scala.renderFile f ∧ f.parent = (Scala.rsplitOnceDot cfg.package).map (·.1) ∧
        f.last = Scala.lastPackageSegment cfg.package ∧
        p.2 = scVersion cfg ++ scParentLine cfg.package ++ rest) ∧
  (∀ (E : Ext) (cfg : Go.Cfg) (targetOs : List Str) (pick : List ImportedType → Option ImportedType)
      (files : List SourceFile) (outs : List (Str × Str)),
      Generate.run E (.go cfg) true targetOs pick files = .ok (.outputs outs) →
      ∀ p ∈ outs, ∃ rest, p.2 = goVersion cfg ++ s%"package " ++ cfg.package ++ s%"\n\n" ++ rest)

/-- **C20_Folder.**  The model satisfies the statement. -/
theorem C20_Folder : C20_Folder_full := by
  refine ⟨?_, ?_, ?_⟩
  · intro E cfg targetOs pick files outs h p hp
    obtain ⟨arrivals, mods, post, ha, _, hsplit, hm, hpost⟩ :=
      C11_Modules.run_modules E (.kotlin cfg) targetOs pick files outs h
    have hpost' : post = [] := hpost
    rw [hpost', List.append_nil] at hsplit
    subst hsplit
    obtain ⟨j, hj, hj1, hmod⟩ := hm.mem_out p hp
    obtain ⟨v, hv, _, hvc, hvu⟩ := job_inv (collect arrivals) j hj
    have hcn : j.2.1.crateName = p.1 := by rw [← hj1]; exact hvc.trans (entry_crateName arrivals j.1 v hv)
    have hmf := job_multiFile arrivals (arrivals_multiFile E _ rfl pick files arrivals ha) j hj
    have hmod' : Kotlin.generate cfg j.2.1 j.2.2 = .ok p.2 := hmod
    obtain ⟨imps, hvu'⟩ : ∃ imps, j.2.2 = some imps := ⟨_, hvu⟩
    rw [hvu'] at hmod'
    obtain ⟨body, hb⟩ := kt_generate_shape cfg j.2.1 imps p.2 hmf hmod'
    refine ⟨imps, body, fun hne => ?_, fun he => ?_⟩
    · rw [hb, kt_beginFile_package cfg j.2.1 hmf hne, hcn]
      simp only [writeImports_lines, List.append_assoc]
    · rw [hb, kt_beginFile_empty cfg j.2.1 he]
      simp only [writeImports_lines, List.nil_append, List.append_assoc]
  · intro E cfg targetOs pick files outs h p hp
    obtain ⟨arrivals, mods, post, ha, _, hsplit, hm, hpost⟩ :=
      C11_Modules.run_modules E (.scala cfg) targetOs pick files outs h
    have hpost' : post = [] := hpost
    rw [hpost', List.append_nil] at hsplit
    subst hsplit
    obtain ⟨j, hj, hj1, hmod⟩ := hm.mem_out p hp
    have hmod' : Scala.generate cfg j.2.1 = .ok p.2 := hmod
    exact sc_generate_package cfg j.2.1 p.2 hmod'
  · intro E cfg targetOs pick files outs h p hp
    obtain ⟨arrivals, mods, post, ha, _, hsplit, hm, hpost⟩ :=
      C11_Modules.run_modules E (.go cfg) targetOs pick files outs h
    have hpost' : post = [] := hpost
    rw [hpost', List.append_nil] at hsplit
    subst hsplit
    obtain ⟨j, hj, hj1, st, st', hmod⟩ := hm.mem_out p hp
    exact go_generate_package E.U cfg j.2.1 st p.2 st' hmod

/-- **the Kotlin import lines use the same package as the package line** (tie to
`TsV.C14.import_line_kotlin`): the line that theorem finds in the module of crate `A` for an imported
`(B, T)`, and the package line of the module of crate `B` that defines `T`, are built from the one `cfg.package` -/
theorem kotlin_import_matches_package (E : Ext) (cfg : Kotlin.Cfg) (targetOs : List Str)
    (pick : List ImportedType → Option ImportedType) (files : List SourceFile)
    (arrivals : List ParsedData) (outs : List (Str × Str))
    (hparse : Generate.parseAll E (C14.runCtx (.kotlin cfg) targetOs) pick files = .ok arrivals)
    (hrun : Generate.run E (.kotlin cfg) true targetOs pick files = .ok (.outputs outs))
    (hpkg : cfg.package ≠ [])
    (A B T : Str) (himp : C14.ImportedInJob arrivals A B T) (textB : Str) (hB : (B, textB) ∈ outs) :
    (∃ textA, (A, textA) ∈ outs ∧
      (s%"import " ++ (cfg.package ++ s%"." ++ B) ++ s%"." ++ cfg.pfx ++ T ++ s%"\n") <:+: textA) ∧
    ∃ rest, textB = ktVersion cfg ++ s%"package " ++ (cfg.package ++ s%"." ++ B) ++ s%"\n" ++ rest := by
  constructor
  · obtain ⟨textA, hA, hl⟩ := C14.import_line_kotlin E cfg targetOs pick files arrivals outs hparse hrun A B T himp
    refine ⟨textA, hA, ?_⟩
    simpa [ktImportLine, Lang.nl, List.append_assoc] using hl
  · obtain ⟨imps, body, h1, _⟩ := C20_Folder.1 E cfg targetOs pick files outs hrun (B, textB) hB
    refine ⟨ktStdImports ++ (imps.flatMap fun ct => ct.2.flatMap fun t => ktImportLine cfg ct.1 t) ++ s%"\n" ++ body, ?_⟩
    have := h1 hpkg
    simp only [List.append_assoc] at this ⊢
    exact this

/-! ## non-vacuity: three crates, package `com.cli`, in two different arrival orders -/

def mkField (name : Str) (ty : RustType) : RustField :=
  { id := ⟨name, name, false⟩, ty, comments := [], hasDefault := false, decorators := [] }
def mkStruct (name : Str) (fields : List RustField) : RustStruct :=
  { id := ⟨name, name, false⟩, genericTypes := [], fields, comments := [], decorators := {}, isRedacted := false }

def jobA : Job := (s%"alpha", { structs := [mkStruct s%"A" [mkField s%"n" (.prim .u8)]], crateName := s%"alpha", multiFile := true }, some [])
def jobB : Job := (s%"beta", { structs := [mkStruct s%"B" [mkField s%"a" (.simple s%"A")]], crateName := s%"beta", multiFile := true },
  some [(s%"alpha", [s%"A"])])
def jobC : Job := (s%"gamma", { structs := [mkStruct s%"C" [mkField s%"s" (.prim .string)]], crateName := s%"gamma", multiFile := true }, some [])

def exE : Ext := { U := .ascii, parseType := fun _ => none }
def ktCfg : Kotlin.Cfg := { package := s%"com.cli" }


/-- the third module of the run `[alpha, beta, gamma]` declares `com.cli.gamma` — not `com.cli.alpha.beta.gamma` —
and `beta` imports from `com.cli.alpha` -/
example : Kotlin.generateAll exE ktCfg true [jobA, jobB, jobC] = .ok
    [(s%"alpha", s%"package com.cli.alpha\n\nimport kotlinx.serialization.Serializable\nimport kotlinx.serialization.SerialName\n\n\n@Serializable\ndata class A (\n\tval n: UByte\n)\n\n"),
     (s%"beta", s%"package com.cli.beta\n\nimport kotlinx.serialization.Serializable\nimport kotlinx.serialization.SerialName\n\nimport com.cli.alpha.A\n\n@Serializable\ndata class B (\n\tval a: A\n)\n\n"),
     (s%"gamma", s%"package com.cli.gamma\n\nimport kotlinx.serialization.Serializable\nimport kotlinx.serialization.SerialName\n\n\n@Serializable\ndata class C (\n\tval s: String\n)\n\n")] := by
  have hA := generateOrder_single jobA.2.1 (.struct (mkStruct s%"A" [mkField s%"n" (.prim .u8)])) rfl (by decide +kernel)
  have hB := generateOrder_single jobB.2.1 (.struct (mkStruct s%"B" [mkField s%"a" (.simple s%"A")])) rfl (by decide +kernel)
  have hC := generateOrder_single jobC.2.1 (.struct (mkStruct s%"C" [mkField s%"s" (.prim .string)])) rfl (by decide +kernel)
  simp only [Kotlin.generateAll, Kotlin.generateFrom, jobA, jobB, jobC, Kotlin.generate] at hA hB hC ⊢
  simp only [hA, hB, hC]
  decide +kernel

/-- the hypothesis of `module_alone_kotlin` for the last job -/
example : [jobA, jobB, jobC][2]? = some jobC := rfl

/-- Scala: `com.cli.types` splits into `com.cli` and `types`; a name without a dot has no parent line -/
example : Scala.rsplitOnceDot s%"com.cli.types" = some (s%"com.cli", s%"types") ∧
    Scala.lastPackageSegment s%"com.cli.types" = s%"types" ∧
    Scala.rsplitOnceDot s%"types" = none ∧ Scala.lastPackageSegment s%"types" = s%"types" := by decide +kernel

end TsV.C20_Folder
