//! `#[attrdump::dump("id")]`: appends the token stream of the item it is attached to (as the compiler
//! hands it over, i.e. after every attribute macro written above it has run) to the file named by
//! the environment variable ATTRDUMP_OUT, one line `id<TAB>tokens`, and expands to nothing.
extern crate proc_macro;
use proc_macro::TokenStream;
use std::io::Write;

#[proc_macro_attribute]
pub fn dump(attr: TokenStream, item: TokenStream) -> TokenStream {
    let id = attr.to_string();
    let out = std::env::var("ATTRDUMP_OUT").expect("ATTRDUMP_OUT not set");
    let mut f = std::fs::OpenOptions::new()
        .create(true)
        .append(true)
        .open(out)
        .expect("cannot open ATTRDUMP_OUT");
    let text = item.to_string().replace('\n', " ");
    writeln!(f, "{}\t{}", id.trim_matches('"'), text).unwrap();
    TokenStream::new()
}
