import TsV.Lemmas.C05_DefinitionGenerics
import TsV.Props.C05_HelperGenerics
/-!
# C05_DefinitionGenerics — the parameter list at the *definition* is the declared list, in the declared order

C05: "generic arguments and generic parameters are preserved in order".  `Props/C05.lean` states it for
the arguments of a type expression, `Props/C05_HelperGenerics.lean` for the computed list of a helper
struct.  This module states it for the **header of the definition itself**: a struct / alias / enum
declared `<p₁, …, pₙ>` (any names, in particular not in alphabetical order) is written with exactly
`p₁, …, pₙ` in that order by every back end that writes a list — use sites pass arguments by position,
so a reordered header would silently re-bind them.

* record level (`*_record`): the `headerParams` extractors of `Lemmas/C05_DefinitionGenerics.lean`
  (trusted binding semantics, each a projection of the fact record) return `genericTypes` —
  Kotlin keeps the printed clause, so there it is `genericSuffix genericTypes`;
* text level (`ts_*`, `kotlin_*`, `swift_*`, `scala_*`, `go_struct`, `python_struct`): the block written
  for the item contains the header `<keyword> <name><clause><opener>` with the clause of the declared
  list: TypeScript / Kotlin `<p1, p2>`, Swift `<p1: C & D, p2: C & D>` (names in order, each with its
  configured constraints; aliases `<p1, p2>`), Scala `[p1, p2]`, Go `[p1 any, p2 any]`, Python
  `Generic[p1, p2]`;
* `clause_determines_list`: each clause can be read back — equal clauses list equal names in equal
  order (names non-empty and comma-free), so "contains the clause of `[p₁, …, pₙ]`" pins the order;
* `python_typeVars_any_order`: the `X = TypeVar("X")` lines of the Python header come from a sorted set
  (declaration order plays no role there), the `Generic[...]` base is in declaration order;
* what writes no list (not a failure of the statement, recorded so the scope is visible): a Go alias
  and a Go / Python enum carry no parameter list at all; Scala and Kotlin write a field-less struct as
  `class N extends Serializable` / `object N` without a list (`no_list_written`).
* `C05_DefinitionGenerics : C05_DefinitionGenerics_full`.  Nothing is false on the model.

`tools/c05.py: definition_generics_part` checks the same on the implementation.
-/
namespace TsV.C05_DefinitionGenerics
open TsV TsV.Lang TsV.C09 TsV.C09_HelperParams TsV.C05_HelperGenerics

/-! ## 1. TypeScript (no fact record for declarations: text) -/

theorem ts_struct (c : TypeScript.Cfg) (rs : RustStruct) (st st' : TypeScript.CustomMap) (b : Str)
    (h : TypeScript.writeStruct c rs st = .ok (b, st')) :
    (s%"export interface " ++ rs.id.renamed ++ genericSuffix rs.genericTypes ++ s%" {\n") <:+: b := by
  unfold TypeScript.writeStruct at h
  obtain ⟨⟨body, st1⟩, _, h⟩ := bindOk h
  cases h
  exact infix_of_eq (TypeScript.comments 0 rs.comments) (body ++ s%"}\n\n") (by simp [List.append_assoc])

theorem ts_alias (c : TypeScript.Cfg) (a : RustTypeAlias) (st st' : TypeScript.CustomMap) (b : Str)
    (h : TypeScript.writeAlias c a st = .ok (b, st')) :
    (s%"export type " ++ a.id.renamed ++ genericSuffix a.genericTypes ++ s%" = ") <:+: b := by
  unfold TypeScript.writeAlias at h
  obtain ⟨⟨ty, st1⟩, _, h⟩ := bindOk h
  cases h
  exact infix_of_eq (TypeScript.comments 0 a.comments) (ty ++ (if a.ty.isOptional then s%" | undefined" else []) ++ s%";\n\n")
    (by simp [List.append_assoc])

theorem ts_enum (c : TypeScript.Cfg) (e : RustEnum) (st st' : TypeScript.CustomMap) (b : Str)
    (h : TypeScript.writeEnum c e st = .ok (b, st')) :
    ((if e.keys.isSome then s%"export type " else s%"export enum ") ++ e.id.renamed ++ genericSuffix e.genericTypes ++
      (if e.keys.isSome then s%" = " else s%" {")) <:+: b := by
  unfold TypeScript.writeEnum at h
  cases hk : e.keys with
  | none =>
    simp only [hk] at h
    cases h
    exact infix_of_eq (TypeScript.comments 0 e.comments) _ (by simp [List.append_assoc]; rfl)
  | some kc =>
    obtain ⟨tag, content⟩ := kc
    simp only [hk] at h
    obtain ⟨⟨body, st1⟩, _, h⟩ := bindOk h
    cases h
    exact infix_of_eq (TypeScript.comments 0 e.comments) (body ++ s%";\n\n") (by simp [List.append_assoc])

/-! ## 2. Kotlin -/

theorem kotlin_struct_record (c : Kotlin.Cfg) (rs : RustStruct) (d : Kotlin.KtDecl) (hf : rs.fields.isEmpty = false)
    (h : Kotlin.structFacts c rs = .ok d) :
    Kt.headerClause d = genericSuffix rs.genericTypes ∧
    (s%"data class " ++ (c.pfx ++ rs.id.renamed) ++ genericSuffix rs.genericTypes ++ s%" (\n") <:+: Kotlin.renderDecl d := by
  simp only [Kotlin.structFacts, hf, Bool.false_eq_true, if_false] at h
  obtain ⟨ps, _, h⟩ := bindOk h
  cases h
  refine ⟨rfl, ?_⟩
  exact infix_of_eq (Kotlin.comments 0 rs.comments ++ s%"@Serializable\n") _ (by simp [Kotlin.renderDecl, List.append_assoc]; rfl)

theorem kotlin_alias_record (c : Kotlin.Cfg) (a : RustTypeAlias) (d : Kotlin.KtDecl) (hi : Kotlin.isInline a.decorators = false)
    (h : Kotlin.aliasFacts c a = .ok d) :
    Kt.headerClause d = genericSuffix a.genericTypes ∧
    (s%"typealias " ++ (c.pfx ++ a.id.renamed) ++ genericSuffix a.genericTypes ++ s%" = ") <:+: Kotlin.renderDecl d := by
  simp only [Kotlin.aliasFacts, hi, Bool.false_eq_true, if_false] at h
  obtain ⟨ty, _, h⟩ := bindOk h
  cases h
  refine ⟨rfl, ?_⟩
  exact infix_of_eq (Kotlin.comments 0 a.comments) (ty ++ s%"\n\n") (by simp [Kotlin.renderDecl, List.append_assoc])

/-- the enum's own declaration is the last one of its block (after the helper classes) -/
theorem kotlin_enum_record (c : Kotlin.Cfg) (e : RustEnum) (ds : List Kotlin.KtDecl) (h : Kotlin.enumFacts c e = .ok ds) :
    ∃ inners d, ds = inners ++ [d] ∧ Kt.headerClause d = genericSuffix e.genericTypes ∧
      ((if e.keys.isSome then s%"sealed class " else s%"enum class ") ++ (c.pfx ++ e.id.renamed) ++
        genericSuffix e.genericTypes ++ (if e.keys.isSome then s%" {\n" else s%"(val string: String) {\n")) <:+: Kotlin.renderDecl d := by
  unfold Kotlin.enumFacts at h
  obtain ⟨inners, _, h⟩ := bindOk h
  cases hk : e.keys with
  | none =>
    simp only [hk] at h
    cases h
    refine ⟨inners, _, rfl, rfl, ?_⟩
    exact infix_of_eq (Kotlin.comments 0 e.comments ++ s%"@Serializable\n") _
      (by simp [Kotlin.renderDecl, List.append_assoc]; rfl)
  | some kc =>
    obtain ⟨tag, content⟩ := kc
    simp only [hk] at h
    obtain ⟨cases, _, h⟩ := bindOk h
    cases h
    refine ⟨inners, _, rfl, rfl, ?_⟩
    exact infix_of_eq (Kotlin.comments 0 e.comments ++ s%"@Serializable\n") _
      (by simp [Kotlin.renderDecl, List.append_assoc]; rfl)

/-! ## 3. Swift -/

/-- the clause of a Swift declaration lists the declared names in order, each with its constraint set
(`Codable` plus the configured defaults, or what a `#[typeshare(swiftGenericConstraints = "T: …")]`
annotation gives for that name) -/
theorem swift_clause (U : UnicodeOps) (c : Swift.Cfg) (dm : DecoratorMap) (ps : List Str) :
    (Swift.genericParams U c dm ps).map (·.name) = ps ∧
    Swift.renderGenericClause (Swift.genericParams U c dm ps) =
      if ps.isEmpty then [] else
        s%"<" ++ Str.intercalate s%", " ((Swift.genericParams U c dm ps).map fun p =>
          p.name ++ s%": " ++ Str.intercalate s%" & " p.constraints) ++ s%">" := by
  refine ⟨swift_genericParams_names U c dm ps, ?_⟩
  cases ps <;> rfl

theorem swift_struct_record (U : UnicodeOps) (c : Swift.Cfg) (rs : RustStruct) (st st' : Swift.St) (d : Swift.SwiftStruct)
    (h : Swift.structFacts U c rs st = .ok (d, st')) :
    Sw.structParams d = rs.genericTypes ∧ d.generics = Swift.genericParams U c rs.decorators rs.genericTypes ∧
    (s%"public struct " ++ Swift.kw (c.pfx ++ rs.id.renamed) ++
      Swift.renderGenericClause (Swift.genericParams U c rs.decorators rs.genericTypes) ++ s%": ") <:+: Swift.renderStruct U d := by
  unfold Swift.structFacts at h
  obtain ⟨⟨props, st1⟩, _, h⟩ := bindOk h
  obtain ⟨⟨params, st2⟩, _, h⟩ := bindOk h
  cases h
  refine ⟨swift_genericParams_names U c _ _, rfl, ?_⟩
  exact infix_of_eq (nl ++ Swift.comments U 0 rs.comments) _ (by simp [Swift.renderStruct, List.append_assoc]; rfl)

theorem swift_enum_record (U : UnicodeOps) (c : Swift.Cfg) (e : RustEnum) (st st' : Swift.St) (ss : List Swift.SwiftStruct)
    (d : Swift.SwiftEnum) (h : Swift.enumFacts U c e st = .ok (ss, d, st')) :
    Sw.enumParams d = e.genericTypes ∧ d.generics = Swift.genericParams U c e.decorators e.genericTypes ∧
    (s%"enum " ++ Swift.kw (c.pfx ++ e.id.renamed) ++
      Swift.renderGenericClause (Swift.genericParams U c e.decorators e.genericTypes) ++ s%": ") <:+: Swift.renderEnum U d := by
  unfold Swift.enumFacts at h
  obtain ⟨⟨structs, st1⟩, _, h⟩ := bindOk h
  obtain ⟨⟨cases, st2⟩, _, h⟩ := bindOk h
  cases h
  refine ⟨swift_genericParams_names U c _ _, rfl, ?_⟩
  exact infix_of_eq (Swift.comments U 0 e.comments ++ s%"public " ++ (if e.isRecursive then s%"indirect " else [])) _
    (by simp [Swift.renderEnum, List.append_assoc]; rfl)

theorem swift_alias (U : UnicodeOps) (c : Swift.Cfg) (a : RustTypeAlias) (st st' : Swift.St) (b : Str)
    (h : Swift.writeAlias U c a st = .ok (b, st')) :
    (s%"public typealias " ++ Swift.kw (c.pfx ++ a.id.renamed) ++ genericSuffix a.genericTypes ++ s%" = ") <:+: b := by
  unfold Swift.writeAlias at h
  obtain ⟨⟨ty, st1⟩, _, h⟩ := bindOk h
  cases h
  exact infix_of_eq (nl ++ Swift.comments U 0 a.comments) (ty ++ nl) (by simp [List.append_assoc])

/-! ## 4. Scala -/

theorem scala_struct_record (c : Scala.Cfg) (rs : RustStruct) (d : Scala.ScClass) (hf : rs.fields.isEmpty = false)
    (h : Scala.classFacts c rs = .ok d) :
    Sc.classParams d = rs.genericTypes ∧
    (s%"case class " ++ rs.id.renamed ++ Scala.genericSq rs.genericTypes ++ s%" (\n") <:+: Scala.renderClass d := by
  unfold Scala.classFacts at h
  obtain ⟨params, hp, h⟩ := bindOk h
  cases h
  refine ⟨rfl, ?_⟩
  have hl := Outcome.mapM'_ok_length _ _ _ hp
  have : params.isEmpty = false := by
    cases params with
    | nil => cases hr : rs.fields <;> simp_all
    | cons _ _ => rfl
  exact infix_of_eq (Scala.comments 0 rs.comments) _ (by simp [Scala.renderClass, this, List.append_assoc]; rfl)

theorem scala_alias_record (c : Scala.Cfg) (a : RustTypeAlias) (d : Scala.ScAlias) (h : Scala.aliasFacts c a = .ok d) :
    Sc.aliasParams d = a.genericTypes ∧
    (s%"type " ++ a.id.renamed ++ Scala.genericSq a.genericTypes ++ s%" = ") <:+: Scala.renderAlias d := by
  unfold Scala.aliasFacts at h
  obtain ⟨ty, _, h⟩ := bindOk h
  cases h
  refine ⟨rfl, ?_⟩
  exact infix_of_eq (Scala.comments 0 a.comments) (ty ++ s%"\n\n") (by simp [Scala.renderAlias, List.append_assoc])

theorem scala_enum_record (c : Scala.Cfg) (e : RustEnum) (d : Scala.ScEnum) (h : Scala.enumFacts c e = .ok d) :
    Sc.enumParams d = e.genericTypes ∧
    (s%"sealed trait " ++ e.id.renamed ++ Scala.genericSq e.genericTypes ++ s%" {\n") <:+: Scala.renderEnum d := by
  unfold Scala.enumFacts at h
  obtain ⟨inner, _, h⟩ := bindOk h
  obtain ⟨cases, _, h⟩ := bindOk h
  cases h
  refine ⟨rfl, ?_⟩
  exact infix_of_eq (inner.flatMap Scala.renderClass ++ Scala.comments 0 e.comments) _
    (by simp [Scala.renderEnum, List.append_assoc]; rfl)

/-! ## 5. Go (structs; aliases and enums carry no list) -/

theorem go_struct_record (U : UnicodeOps) (c : Go.Cfg) (rs : RustStruct) (st st' : Go.Imports) (d : Go.GoStruct)
    (h : Go.structFacts U c rs st = .ok (d, st')) :
    Go.structParams d = rs.genericTypes ∧ Go.acr U c rs.id.renamed = .ok d.name ∧
    (s%"type " ++ d.name ++ goClause rs.genericTypes ++ s%" struct {\n") <:+: Go.renderStruct d := by
  unfold Go.structFacts at h
  obtain ⟨name, hn, h⟩ := bindOk h
  obtain ⟨⟨fields, st1⟩, _, h⟩ := bindOk h
  cases h
  refine ⟨rfl, hn, ?_⟩
  exact infix_of_eq (Go.comments 0 rs.comments) _ (by simp [Go.renderStruct, goClause, List.append_assoc]; rfl)

/-! ## 6. Python (classes; an alias is an assignment, an enum a `Union` — neither has a list) -/

theorem python_struct_record (E : Ext) (c : Python.Cfg) (rs : RustStruct) (st st' : Python.St) (d : Python.PyClass)
    (h : Python.structFacts E c rs st = .ok (d, st')) :
    Py.classParams d = rs.genericTypes ∧
    (s%"class " ++ rs.id.renamed ++ s%"(" ++ pyBases rs.genericTypes ++ s%"):\n") <:+: Python.renderClass d ∧
    (∀ x, x ∈ st'.typeVars ↔ x ∈ rs.genericTypes ∨ x ∈ st.typeVars) := by
  refine ⟨?_, ?_, python_typeVars E c rs st st' d h⟩
  · unfold Python.structFacts at h
    obtain ⟨⟨fields, st1⟩, _, h⟩ := bindOk h
    cases h; rfl
  · unfold Python.structFacts at h
    obtain ⟨⟨fields, st1⟩, _, h⟩ := bindOk h
    cases h
    exact infix_of_eq [] _ (by simp [Python.renderClass, pyBases, List.append_assoc]; rfl)

/-! ## 7. a clause determines the list it was printed from -/

/-- **equal clauses, equal lists** (names non-empty and without a comma): the angle clause of
TypeScript / Kotlin / Swift aliases, Scala's and Go's bracket clauses, Python's base list.  For a Swift
struct or enum the record gives the names directly (`swift_clause`). -/
theorem clause_determines_list (ps qs : List Str) (hp : ∀ p ∈ ps, Clean p) (hq : ∀ q ∈ qs, Clean q) :
    (genericSuffix ps = genericSuffix qs → ps = qs) ∧ (Scala.genericSq ps = Scala.genericSq qs → ps = qs) ∧
    (goClause ps = goClause qs → ps = qs) ∧ (pyBases ps = pyBases qs → ps = qs) :=
  ⟨genericSuffix_inj ps qs hp hq, genericSq_inj ps qs hp hq, goClause_inj ps qs hp hq, pyBases_inj ps qs hp hq⟩

/-- in particular a header never lists a permutation of the declared list other than the declared
order: the clause of a reordered list is a different text -/
theorem reordered_clause_differs (ps qs : List Str) (hp : ∀ p ∈ ps, Clean p) (hq : ∀ q ∈ qs, Clean q) (hne : ps ≠ qs) :
    genericSuffix ps ≠ genericSuffix qs ∧ Scala.genericSq ps ≠ Scala.genericSq qs ∧ goClause ps ≠ goClause qs ∧
    pyBases ps ≠ pyBases qs :=
  ⟨fun h => hne (genericSuffix_inj ps qs hp hq h), fun h => hne (genericSq_inj ps qs hp hq h),
   fun h => hne (goClause_inj ps qs hp hq h), fun h => hne (pyBases_inj ps qs hp hq h)⟩

/-! ## the statement at full strength -/

/-- **C05_DefinitionGenerics**: for every struct, alias and enum — whatever the names of its generic
parameters and whatever their order — every back end that writes a parameter list at the definition
writes the declared list in the declared order. -/
def C05_DefinitionGenerics_full : Prop :=
  (∀ (rs : RustStruct),
    (∀ (c : TypeScript.Cfg) (st st' : TypeScript.CustomMap) (b : Str), TypeScript.writeStruct c rs st = .ok (b, st') →
      (s%"export interface " ++ rs.id.renamed ++ genericSuffix rs.genericTypes ++ s%" {\n") <:+: b) ∧
    (∀ (c : Kotlin.Cfg) (d : Kotlin.KtDecl), rs.fields.isEmpty = false → Kotlin.structFacts c rs = .ok d →
      Kt.headerClause d = genericSuffix rs.genericTypes ∧
      (s%"data class " ++ (c.pfx ++ rs.id.renamed) ++ genericSuffix rs.genericTypes ++ s%" (\n") <:+: Kotlin.renderDecl d) ∧
    (∀ (U : UnicodeOps) (c : Swift.Cfg) (st st' : Swift.St) (d : Swift.SwiftStruct), Swift.structFacts U c rs st = .ok (d, st') →
      Sw.structParams d = rs.genericTypes ∧ d.generics = Swift.genericParams U c rs.decorators rs.genericTypes ∧
      (s%"public struct " ++ Swift.kw (c.pfx ++ rs.id.renamed) ++
        Swift.renderGenericClause (Swift.genericParams U c rs.decorators rs.genericTypes) ++ s%": ") <:+: Swift.renderStruct U d) ∧
    (∀ (c : Scala.Cfg) (d : Scala.ScClass), rs.fields.isEmpty = false → Scala.classFacts c rs = .ok d →
      Sc.classParams d = rs.genericTypes ∧
      (s%"case class " ++ rs.id.renamed ++ Scala.genericSq rs.genericTypes ++ s%" (\n") <:+: Scala.renderClass d) ∧
    (∀ (U : UnicodeOps) (c : Go.Cfg) (st st' : Go.Imports) (d : Go.GoStruct), Go.structFacts U c rs st = .ok (d, st') →
      Go.structParams d = rs.genericTypes ∧ Go.acr U c rs.id.renamed = .ok d.name ∧
      (s%"type " ++ d.name ++ goClause rs.genericTypes ++ s%" struct {\n") <:+: Go.renderStruct d) ∧
    (∀ (E : Ext) (c : Python.Cfg) (st st' : Python.St) (d : Python.PyClass), Python.structFacts E c rs st = .ok (d, st') →
      Py.classParams d = rs.genericTypes ∧
      (s%"class " ++ rs.id.renamed ++ s%"(" ++ pyBases rs.genericTypes ++ s%"):\n") <:+: Python.renderClass d ∧
      (∀ x, x ∈ st'.typeVars ↔ x ∈ rs.genericTypes ∨ x ∈ st.typeVars))) ∧
  (∀ (a : RustTypeAlias),
    (∀ (c : TypeScript.Cfg) (st st' : TypeScript.CustomMap) (b : Str), TypeScript.writeAlias c a st = .ok (b, st') →
      (s%"export type " ++ a.id.renamed ++ genericSuffix a.genericTypes ++ s%" = ") <:+: b) ∧
    (∀ (c : Kotlin.Cfg) (d : Kotlin.KtDecl), Kotlin.isInline a.decorators = false → Kotlin.aliasFacts c a = .ok d →
      Kt.headerClause d = genericSuffix a.genericTypes ∧
      (s%"typealias " ++ (c.pfx ++ a.id.renamed) ++ genericSuffix a.genericTypes ++ s%" = ") <:+: Kotlin.renderDecl d) ∧
    (∀ (U : UnicodeOps) (c : Swift.Cfg) (st st' : Swift.St) (b : Str), Swift.writeAlias U c a st = .ok (b, st') →
      (s%"public typealias " ++ Swift.kw (c.pfx ++ a.id.renamed) ++ genericSuffix a.genericTypes ++ s%" = ") <:+: b) ∧
    (∀ (c : Scala.Cfg) (d : Scala.ScAlias), Scala.aliasFacts c a = .ok d →
      Sc.aliasParams d = a.genericTypes ∧
      (s%"type " ++ a.id.renamed ++ Scala.genericSq a.genericTypes ++ s%" = ") <:+: Scala.renderAlias d)) ∧
  (∀ (e : RustEnum),
    (∀ (c : TypeScript.Cfg) (st st' : TypeScript.CustomMap) (b : Str), TypeScript.writeEnum c e st = .ok (b, st') →
      ((if e.keys.isSome then s%"export type " else s%"export enum ") ++ e.id.renamed ++ genericSuffix e.genericTypes ++
        (if e.keys.isSome then s%" = " else s%" {")) <:+: b) ∧
    (∀ (c : Kotlin.Cfg) (ds : List Kotlin.KtDecl), Kotlin.enumFacts c e = .ok ds →
      ∃ inners d, ds = inners ++ [d] ∧ Kt.headerClause d = genericSuffix e.genericTypes ∧
        ((if e.keys.isSome then s%"sealed class " else s%"enum class ") ++ (c.pfx ++ e.id.renamed) ++
          genericSuffix e.genericTypes ++ (if e.keys.isSome then s%" {\n" else s%"(val string: String) {\n"))
          <:+: Kotlin.renderDecl d) ∧
    (∀ (U : UnicodeOps) (c : Swift.Cfg) (st st' : Swift.St) (ss : List Swift.SwiftStruct) (d : Swift.SwiftEnum),
      Swift.enumFacts U c e st = .ok (ss, d, st') →
      Sw.enumParams d = e.genericTypes ∧ d.generics = Swift.genericParams U c e.decorators e.genericTypes ∧
      (s%"enum " ++ Swift.kw (c.pfx ++ e.id.renamed) ++
        Swift.renderGenericClause (Swift.genericParams U c e.decorators e.genericTypes) ++ s%": ") <:+: Swift.renderEnum U d) ∧
    (∀ (c : Scala.Cfg) (d : Scala.ScEnum), Scala.enumFacts c e = .ok d →
      Sc.enumParams d = e.genericTypes ∧
      (s%"sealed trait " ++ e.id.renamed ++ Scala.genericSq e.genericTypes ++ s%" {\n") <:+: Scala.renderEnum d)) ∧
  (∀ (ps qs : List Str), (∀ p ∈ ps, Clean p) → (∀ q ∈ qs, Clean q) →
    (genericSuffix ps = genericSuffix qs → ps = qs) ∧ (Scala.genericSq ps = Scala.genericSq qs → ps = qs) ∧
    (goClause ps = goClause qs → ps = qs) ∧ (pyBases ps = pyBases qs → ps = qs)) ∧
  (∀ (U : UnicodeOps) (c : Swift.Cfg) (dm : DecoratorMap) (ps : List Str), (Swift.genericParams U c dm ps).map (·.name) = ps)

theorem C05_DefinitionGenerics : C05_DefinitionGenerics_full :=
  ⟨fun rs => ⟨fun c st st' b h => ts_struct c rs st st' b h, fun c d hf h => kotlin_struct_record c rs d hf h,
      fun U c st st' d h => swift_struct_record U c rs st st' d h, fun c d hf h => scala_struct_record c rs d hf h,
      fun U c st st' d h => go_struct_record U c rs st st' d h, fun E c st st' d h => python_struct_record E c rs st st' d h⟩,
   fun a => ⟨fun c st st' b h => ts_alias c a st st' b h, fun c d hi h => kotlin_alias_record c a d hi h,
      fun U c st st' b h => swift_alias U c a st st' b h, fun c d h => scala_alias_record c a d h⟩,
   fun e => ⟨fun c st st' b h => ts_enum c e st st' b h, fun c ds h => kotlin_enum_record c e ds h,
      fun U c st st' ss d h => swift_enum_record U c e st st' ss d h, fun c d h => scala_enum_record c e d h⟩,
   fun ps qs hp hq => clause_determines_list ps qs hp hq,
   fun U c dm ps => swift_genericParams_names U c dm ps⟩

/-! ## non-vacuity: `struct Pair<V, K> { a: V, b: Vec<K> }`, `type Al<V, K> = Pair<V, K>`,
`#[serde(tag = "t", content = "c")] enum En<V, K> { A(V), B(K) }` — declared order `V, K`, not alphabetical -/

/-- map over an outcome (used by the examples only) -/
def omap {α β} (f : α → β) : Outcome α → Outcome β
  | .ok a => .ok (f a)
  | .err e => .err e
  | .panic s => .panic s

def fV : Str := s%"V"
def fK : Str := s%"K"
def wPair : RustStruct := mkStruct s%"Pair" none [fV, fK] [fld s%"a" (.simple fV), fld s%"b" (.vec (.simple fK))]
def wAl : RustTypeAlias :=
  { id := mkId s%"Al" none, genericTypes := [fV, fK], ty := .generic s%"Pair" [.simple fV, .simple fK], comments := [],
    decorators := {}, isRedacted := false }
def wEn : RustEnum :=
  { keys := some (s%"t", s%"c"), id := mkId s%"En" none, genericTypes := [fV, fK], comments := [],
    variants := [.tuple (mkId s%"A" none) [] (.simple fV), .tuple (mkId s%"B" none) [] (.simple fK)],
    decorators := {}, isRecursive := false, isRedacted := false }

/-- the names are clean, and the declared order is not the sorted one -/
example : (∀ p ∈ [fV, fK], Clean p) ∧ [fV, fK] ≠ [fK, fV] := by
  refine ⟨?_, by decide⟩
  intro p hp
  simp only [List.mem_cons, List.not_mem_nil, or_false] at hp
  rcases hp with rfl | rfl <;> exact ⟨by decide, by decide⟩

/-- the six struct headers on the witness (every hypothesis of the struct part is met: the six
printers succeed, the struct has fields) -/
theorem struct_example :
    wPair.fields.isEmpty = false ∧
    omap (·.1) (TypeScript.writeStruct {} wPair []) =
      .ok s%"export interface Pair<V, K> {\n\ta: V;\n\tb: K[];\n}\n\n" ∧
    omap Kotlin.renderDecl (Kotlin.structFacts {} wPair) =
      .ok s%"@Serializable\ndata class Pair<V, K> (\n\tval a: V,\n\tval b: List<K>\n)\n\n" ∧
    omap (fun r => ((s%"\npublic struct Pair<V: Codable, K: Codable>: Codable {").isPrefixOf (Swift.renderStruct .ascii r.1),
        Sw.structParams r.1)) (Swift.structFacts .ascii {} wPair false) = .ok (true, [fV, fK]) ∧
    omap Scala.renderClass (Scala.classFacts {} wPair) =
      .ok s%"case class Pair[V, K] (\n\ta: V,\n\tb: Vector[K]\n)\n\n" ∧
    omap (fun r => (s%"type Pair[V any, K any] struct {\n\tA").isPrefixOf (Go.renderStruct r.1)) (Go.structFacts .ascii {} wPair []) =
      .ok true ∧
    omap (fun r => ((s%"class Pair(BaseModel, Generic[V, K]):\n    a").isPrefixOf (Python.renderClass r.1), r.2.typeVars))
      (Python.structFacts E0 {} wPair {}) = .ok (true, [fK, fV]) := by
  decide +kernel

/-- **Python: the header's `TypeVar` lines are in name order, the `Generic[...]` base in declaration
order** — on the witness the state holds `[K, V]`, the class says `Generic[V, K]` -/
theorem python_typeVars_any_order :
    omap (fun r => (r.2.typeVars, Py.classParams r.1)) (Python.structFacts E0 {} wPair {}) = .ok ([fK, fV], [fV, fK]) := by
  decide +kernel

/-- aliases and enums on the witness -/
theorem alias_enum_example :
    omap (·.1) (TypeScript.writeAlias {} wAl []) = .ok s%"export type Al<V, K> = Pair<V, K>;\n\n" ∧
    omap Kotlin.renderDecl (Kotlin.aliasFacts {} wAl) = .ok s%"typealias Al<V, K> = Pair<V, K>\n\n" ∧
    omap (·.1) (Swift.writeAlias .ascii {} wAl false) = .ok s%"\npublic typealias Al<V, K> = Pair<V, K>\n" ∧
    omap Scala.renderAlias (Scala.aliasFacts {} wAl) = .ok s%"type Al[V, K] = Pair[V, K]\n\n" ∧
    omap (fun r => (s%"export type En<V, K> = \n\t").isPrefixOf r.1) (TypeScript.writeEnum {} wEn []) = .ok true ∧
    omap (fun ds => ds.map Kt.headerClause) (Kotlin.enumFacts {} wEn) = .ok [s%"<V, K>"] ∧
    omap (fun r => ((s%"public enum En<V: Codable, K: Codable>: Codable {").isPrefixOf (Swift.renderEnum .ascii r.2.1),
        Sw.enumParams r.2.1)) (Swift.enumFacts .ascii {} wEn false) = .ok (true, [fV, fK]) ∧
    omap (fun d => (s%"sealed trait En[V, K] {\n\td").isPrefixOf (Scala.renderEnum d)) (Scala.enumFacts {} wEn) = .ok true := by
  decide +kernel

/-- **what writes no list**: a Go alias drops the alias's own parameters (`type Al Pair[V, K]`), a Go
or Python enum type has none; Kotlin / Scala write a struct without fields as `object` / plain
`class` without a list -/
theorem no_list_written :
    omap (fun r => Go.renderAlias r.1) (Go.aliasFacts .ascii {} wAl []) = .ok s%"type Al Pair[V, K]\n\n" ∧
    omap (fun r => Python.renderAlias r.1) (Python.aliasFacts {} wAl {}) = .ok s%"Al = Pair[V, K]\n\n" ∧
    omap Kotlin.renderDecl (Kotlin.structFacts {} { wPair with fields := [] }) = .ok s%"@Serializable\nobject Pair\n\n" ∧
    omap Scala.renderClass (Scala.classFacts {} { wPair with fields := [] }) = .ok s%"class Pair extends Serializable\n\n" := by
  decide +kernel

end TsV.C05_DefinitionGenerics
