"""C09 — every reference to a generated type uses the name the type is defined under.

Generation level.  Programs of 3-6 items that reference each other directly, through Vec / Option / HashMap / Box /
arrays, as generic arguments and recursively; every item kind (struct, generic struct, unit enum, tagged enum with
struct / tuple / unit variants, generic tagged enum, alias, generic alias); every subset of items carrying
`serde(rename)`; prefixes for Swift / Kotlin; all six back ends.

 (a) byte-exact comparison of the implementation's text with the Lean back-end models (l2.requests);
 (b) the *binding semantics* of TsV.C09 (`allDefs`, `refs`: driver request `c09-facts`) against a python extractor
     over the IMPLEMENTATION's text: the same set of defined names, the same set of referenced names;
 (c) the oracle = the property on the implementation's text: every referenced name that is not a builtin or a
     generic parameter must be a defined name.  The references that fail must be exactly those the `Known_*`
     predicates (re-implemented here, and cross-checked against the Lean ones) predict; anything else is a VIOLATION.
     Since the `fix:` commits 944b749 / 0c924cd / 3d3e1e7 the only per-reference class left is `Known_def_original`
     = a reference to a renamed *Go enum*; the witnesses of the repaired classes (generic head, Kotlin/Scala/Go alias
     definition, Kotlin/Scala parent class and helper struct) are replayed as regressions: they must pass the oracle,
     and are reported as a VIOLATION "has returned" if they do not.
     Kotlin multi-file import lines (`kotlin-import-without-prefix`, repaired by 8dc01bf): byte-exact against the model over all
     prefixes, and every imported name must be defined by the other module's file (kotlin_import_part).
     Generic parameters: the field `v: T` of every generic struct must be printed with the type `T` (positional), and
     one program in ten has an item called `T` (the class Known_shadow).
     The shape of the renamed definition (definition_shape_part): tagged enums with one / two / many variants, declared or
     skipped down to that; unit enums with no / one / several variants; unit, empty and skipped-to-empty structs; newtype
     structs; aliases; serialized_as items; the generic version of each - renamed and referred to from every position.
     What a struct variant has left (struct_variant_members_part): struct variants declaring 0 / 1 / 2-4 members of which none /
     some / all are removed by serde(skip) / typeshare(skip) / a cfg(target_os) that --target-os does not accept, in enums with
     and without serde(rename), generics, prefixes: every helper name `<prefix><Enum><Variant>Inner` the output spells - as a
     payload type, in a Swift decode call, in a Go accessor or constructor - must be a name the output defines.
     The position of a cross-crate type among type arguments (argument_position_part, folder mode): a renamed type of another crate
     as the first / middle / last argument of HashMap and of user generics with 2-3 parameters, nested, as the only mention in the
     consumer's file or next to another one; every reference must resolve to a definition of the same spelling in some file of the run.
"""
import itertools, re
from common import *
from syn_gen import *
from gen import Gen
import l2

NEEDS = ("runner",)
TRUSTED = ["binding semantics TsV.C09.{defName, innerDefName, refs, spell, tgt} (lean/TsV/Lemmas/C09_Defs.lean): tied to the "
           "fact records by the tie_* lemmas and to the implementation's text by this check's extractors",
           "the per-language python extractors of tools/c09.py (line patterns over the generated text)"]

NAMES = ["Alpha", "Bravo", "Carol", "Delta", "Echo", "Fox"]
# `sas_*`: an enum / struct carrying typeshare(serialized_as = "String") is written as an alias of that type (its own members are not printed)
KINDS = ["struct", "gstruct", "unit", "tagged", "gtagged", "alias", "galias", "struct", "tagged", "sas_enum", "sas_struct"]
SKELETON_KINDS = ["struct", "gstruct", "unit", "tagged", "alias"]
GENERIC = {"gstruct", "gtagged", "galias"}
PREFIXES = ["", "OP", "Core_", "Al", "Alpha", "E", "T", "Fo"]   # incl. prefixes that are leading parts of / equal to item and parameter names


def mkgen(rng):
    g = Gen(rng)
    g.ext["String"] = t_path("String")       # what syn makes of the serialized_as string of the `sas_*` kinds
    return g


def new_name(name):
    return name + "Rn"


# ----------------------------------------------------------------------------- programs

def tref(item, arg=None):
    """a reference to `item` (with one type argument if it is generic)"""
    if item["kind"] in GENERIC:
        return t_path(item["name"], [arg if arg is not None else t_path("String")])
    return t_path(item["name"])


def wrap(t, how):
    if how == "vec":
        return t_path("Vec", [t])
    if how == "opt":
        return t_path("Option", [t])
    if how == "map":
        return t_path("HashMap", [t_path("String"), t])
    if how == "box":
        return t_path("Box", [t])
    if how == "optbox":
        return t_path("Option", [t_path("Box", [t])])
    if how == "arr":
        return ("array", t, 3)
    if how == "optvec":
        return t_path("Option", [t_path("Vec", [t])])
    if how == "slice":
        return ("ref", ("slice", t), False)
    return t


WRAPS = ["", "", "vec", "opt", "map", "box", "arr", "optvec", "slice"]


def build_item(it):
    """abstract item -> syn_gen item.  it: name, kind, rename(bool), uses: list of type trees (already wrapped)"""
    name, kind, uses = it["name"], it["kind"], it["uses"]
    serde = []
    if it["rename"]:
        serde.append(m_nv("rename", lit_s(new_name(name))))
    gens = [("ty", "T")] if kind in GENERIC else []
    if kind in ("tagged", "gtagged"):
        serde += [m_nv("tag", lit_s("t")), m_nv("content", lit_s("c"))]
    # container options that concern the members only, never the name of the type itself
    if it.get("rename_all") and kind in ("struct", "gstruct", "unit", "sas_enum", "sas_struct"):
        serde.append(m_nv("rename_all", lit_s(it["rename_all"])))
    attrs = [m_path("typeshare")] + ([m_list("serde", serde)] if serde else [])
    if kind in ("sas_enum", "sas_struct"):
        attrs = [m_list("typeshare", [m_nv("serialized_as", lit_s("String"))])] + attrs[1:]
        if kind == "sas_enum":
            vs = [{"attrs": [], "ident": v, "fields": ("unit",)} for v in ("Pa", "Qa")]
            return {"kind": "enum", "attrs": attrs, "ident": name, "generics": [], "variants": vs}
        return {"kind": "struct", "attrs": attrs, "ident": name, "generics": [], "fields": ("named", [field([], "p", t_path("u32"))])}
    if kind in ("struct", "gstruct"):
        fs = [field([], "f%d" % i, u) for i, u in enumerate(uses)] + [field([], "p", t_path("u32"))]
        if kind == "gstruct":
            fs += [field([], "v", t_path("T")), field([], "l", t_path("Vec", [t_path("T")]))]
        return {"kind": "struct", "attrs": attrs, "ident": name, "generics": gens, "fields": ("named", fs)}
    if kind == "unit":
        vs = [{"attrs": [], "ident": v, "fields": ("unit",)} for v in ("Pa", "Qa")]
        return {"kind": "enum", "attrs": attrs, "ident": name, "generics": [], "variants": vs}
    if kind in ("tagged", "gtagged"):
        vs = []
        half = (len(uses) + 1) // 2
        vs.append({"attrs": [], "ident": "Va", "fields": ("named", [field([], "x%d" % i, u) for i, u in enumerate(uses[:half])] +
                                                          ([field([], "g", t_path("T"))] if kind == "gtagged" else []))})
        for i, u in enumerate(uses[half:]):
            vs.append({"attrs": [], "ident": "Vb%d" % i, "fields": ("unnamed", [field([], None, u)])})
        vs.append({"attrs": [], "ident": "Vc", "fields": ("unit",)})
        if kind == "gtagged":
            vs.append({"attrs": [], "ident": "Vd", "fields": ("unnamed", [field([], None, t_path("T"))])})
            # a struct variant that mentions the parameter only inside maps (TypeScript refuses a parameter as a key: value positions)
            vs.append({"attrs": [], "ident": "Vm", "fields": ("named", [field([], "m", t_path("HashMap", [t_path("String"), t_path("T")])),
                                                                        field([], "k", t_path("Vec", [t_path("HashMap", [t_path("String"), t_path("Vec", [t_path("T")])])]))])})
        return {"kind": "enum", "attrs": attrs, "ident": name, "generics": gens, "variants": vs}
    if kind in ("alias", "galias"):
        ty = uses[0] if uses else (t_path("Vec", [t_path("T")]) if kind == "galias" else t_path("String"))
        if kind == "alias" and it.get("decorated"):
            # type-level decorators (Kotlin writes a `@JvmInline value class` for the alias, Swift adds conformances): the name stays
            attrs = [m_list("typeshare", [m_nv("kotlin", lit_s("JvmInline")), m_nv("swift", lit_s("Equatable"))])] + attrs[1:]
        return {"kind": "alias", "attrs": attrs, "ident": name, "generics": gens, "ty": ty}
    raise ValueError(kind)


def build_file(items):
    return {"attrs": [], "items": [build_item(it) for it in items]}


def random_program(rng):
    n = rng.randint(3, 6)
    items = [{"name": NAMES[i], "kind": rng.choice(KINDS), "rename": rng.random() < 0.5,
              "rename_all": rng.choice([None, None, "lowercase", "camelCase", "snake_case", "SCREAMING_SNAKE_CASE", "kebab-case"]),
              "decorated": rng.random() < 0.4} for i in range(n)]
    if rng.random() < 0.1:
        # an item with the name of the generic parameter of the other items (shadowing)
        plain = [it for it in items if it["kind"] not in GENERIC]
        if plain:
            rng.choice(plain)["name"] = "T"

    def ref(target, me, depth=0):
        arg = None
        if target["kind"] in GENERIC:
            r = rng.random()
            if r < 0.3 and me["kind"] in GENERIC:
                arg = t_path("T")
            elif r < 0.7 and depth < 2:
                other = rng.choice(items)
                arg = ref(other, me, depth + 1) if not (me["kind"] in ("alias", "galias") and other is me) else t_path("u8")
            else:
                arg = t_path(rng.choice(["String", "u32", "bool"]))
            if rng.random() < 0.25:
                arg = wrap(arg, rng.choice(["vec", "opt"]))
        return tref(target, arg)

    for me in items:
        if me["kind"] in ("unit", "sas_enum", "sas_struct"):
            me["uses"] = []
            continue
        k = 1 if me["kind"] in ("alias", "galias") else rng.randint(1, 4)
        uses = []
        for _ in range(k):
            cands = [t for t in items if not (me["kind"] in ("alias", "galias") and t is me)]
            target = rng.choice(cands)
            t = ref(target, me)
            how = rng.choice(WRAPS)
            if target is me and how in ("", "arr", "vec", "slice", "map", "opt"):
                how = "optbox" if me["kind"] in ("struct", "gstruct") else "box"
            uses.append(wrap(t, how))
        me["uses"] = uses
    return items


def skeleton_program(kinds, renamed):
    """the fixed reference skeleton of the thorough tier: I0..I3 of the given kinds, each using its predecessor
    (directly, in containers) and itself, and a root struct I4 using all of them, the generic ones also as the
    head of a generic application with another item as the argument"""
    items = [{"name": NAMES[i], "kind": k, "rename": bool(renamed[i])} for i, k in enumerate(kinds)]
    items.append({"name": NAMES[4], "kind": "struct", "rename": bool(renamed[4])})
    for i, me in enumerate(items[:4]):
        prev = items[i - 1] if i else None
        k = me["kind"]
        if k == "unit":
            me["uses"] = []
        elif k in ("struct", "gstruct"):
            me["uses"] = ([tref(prev), wrap(tref(prev), "vec")] if prev else []) + [wrap(tref(me), "optbox")]
        elif k == "tagged":
            me["uses"] = ([tref(prev), wrap(tref(prev), "opt"), wrap(tref(prev), "map")] if prev else [t_path("u8")]) + [wrap(tref(me), "box")]
        else:
            me["uses"] = [wrap(tref(prev), "vec")] if prev else [t_path("String")]
    root = items[4]
    root["uses"] = [tref(items[0]), wrap(tref(items[1]), "vec"), wrap(tref(items[2]), "opt"), wrap(tref(items[3]), "map")]
    for i, it in enumerate(items[:4]):
        if it["kind"] in GENERIC:
            root["uses"].append(tref(it, tref(items[(i + 1) % 4])))
    return items


# ----------------------------------------------------------------------------- the predicates of TsV.C09 in python

def def_uses_original(lang, kind):
    """TsV.C09.defUsesOriginal"""
    k = "alias" if kind in ("alias", "galias", "sas_enum", "sas_struct") else "enum" if kind in ("unit", "tagged", "gtagged") else "struct"
    return lang == "go" and k == "enum"      # (Kotlin / Scala / Go aliases: repaired by 0c924cd)


def leaves(t, out):
    """(name, is generic head) for every user-type / parameter position of a syn type, after smart pointers are removed"""
    k = t[0]
    if k == "path":
        name, args = t[2], t[3]
        if name in ("Vec", "Option", "HashMap", "Box"):
            for a in args:
                leaves(a, out)
        elif name in ("String", "u8", "u32", "bool"):
            pass
        else:
            out.append((name, bool(args)))
            for a in args:
                leaves(a, out)
    elif k in ("array", "slice"):
        leaves(t[1], out)
    elif k == "ref":
        leaves(t[1], out)
    return out


def item_types(it):
    """every type expression printed for the item"""
    b = build_item(it)
    if it["kind"] in ("sas_enum", "sas_struct"):
        return []
    if b["kind"] == "struct":
        return [f["ty"] for f in b["fields"][1]]
    if b["kind"] == "alias":
        return [b["ty"]]
    return [f["ty"] for v in b["variants"] if v["fields"][0] != "unit" for f in v["fields"][1]]


def predict(items, lang, pfx):
    """(defined names, referenced names, {failing referenced name: known class}) according to TsV.C09's definitions"""
    pfx = pfx if lang in ("kotlin", "swift") else ""
    by = {it["name"]: it for it in items}
    ren = lambda it: new_name(it["name"]) if it["rename"] else it["name"]
    dname = lambda it: pfx + (it["name"] if def_uses_original(lang, it["kind"]) else ren(it))
    defs, refs, fail = set(), set(), {}
    for it in items:
        defs.add(dname(it))
        scope = ["T"] if it["kind"] in GENERIC else []
        for ty in item_types(it):
            for name, head in leaves(ty, []):
                if name in scope:
                    # a generic parameter; `reconcile` renames it when an item of that name carries serde(rename)
                    # (TsV.C09.Known_shadow): printed like a reference to that item
                    t = by.get(name)
                    if t is not None and t["rename"]:
                        refs.add(pfx + ren(t))
                        fail.setdefault(pfx + ren(t), set()).add("shadow")
                    else:
                        refs.add(name)
                    continue
                t = by[name]
                spelled = pfx + ren(t)       # plain leaves and (since 944b749) generic heads alike
                refs.add(spelled)
                if spelled != dname(t):
                    fail.setdefault(spelled, set()).add("def-original")
        if it["kind"] in ("tagged", "gtagged"):
            if lang != "typescript":
                # TsV.C09.innerDefName = innerRefs: `<original>VaInner` in Go, `<renamed>VaInner` elsewhere (Kotlin / Scala
                # referred to `<original>VaInner` before 3d3e1e7)
                for vn in ("Va", "Vm") if it["kind"] == "gtagged" else ("Va",):
                    inner = pfx + (it["name"] if lang == "go" else ren(it)) + vn + "Inner"
                    defs.add(inner)
                    refs.add(inner)
            if lang in ("kotlin", "scala"):
                refs.add(pfx + ren(it))      # TsV.C09.parentRefs: the parent class of the cases (`<original>` before 3d3e1e7)
        if it["kind"] == "unit" and lang == "scala":
            refs.add(ren(it))
    return defs, refs, fail


KNOWN_ID = {"shadow": "generic-parameter-renamed", "def-original": "definition-under-original-name"}


# ----------------------------------------------------------------------------- extractors over generated text

IDENT = re.compile(r"[A-Za-z_][A-Za-z0-9_]*")
BUILTIN = {
    "typescript": {"string", "number", "boolean", "undefined", "null", "Record", "Date", "Uint8Array"},
    "kotlin": {"String", "Int", "UInt", "Long", "ULong", "Short", "UShort", "Byte", "UByte", "Boolean", "Float", "Double",
               "List", "HashMap", "Unit"},
    "swift": {"String", "Int", "UInt", "Int8", "UInt8", "Int16", "UInt16", "Int32", "UInt32", "Int64", "UInt64", "Bool",
              "Float", "Double", "CodableVoid", "Unicode", "Scalar"},
    "scala": {"String", "Int", "UInt", "Long", "ULong", "Short", "UShort", "Byte", "UByte", "Boolean", "Float", "Double",
              "Vector", "Option", "Map", "Unit"},
    "go": {"string", "int", "uint32", "int64", "uint64", "bool", "float32", "float64", "rune", "map", "struct", "time", "Time"},
    "python": {"str", "int", "float", "bool", "None", "List", "Dict", "Optional", "datetime", "bytes", "Annotated"},
}


def idents(s):
    s = re.sub(r'"[^"]*"', "", s)
    return IDENT.findall(s)


def extract(lang, text):
    """-> (defined names, auxiliary defined names, referenced names (type positions), declared generic parameters,
    {(declaration, field): printed type} for the fields of struct-like declarations)"""
    defs, aux, refs, params, fields = set(), set(), set(), set(), {}
    decl = None
    lines = text.split("\n")
    if lang == "typescript":
        for ln in lines:
            m = re.match(r"export (interface|type|enum) (\w+)(<([^>]*)>)?", ln)
            if m:
                defs.add(m.group(2))
                decl = m.group(2)
                params.update(idents(m.group(4) or ""))
                m2 = re.match(r"export type \w+(<[^>]*>)? = (.+);$", ln)
                if m2:
                    refs.update(idents(m2.group(2)))
                continue
            m = re.match(r'\t(?:readonly )?(\w+|"[^"]*")\??: (.+);$', ln)          # (a member renamed to kebab-case is written in quotes)
            if m:
                refs.update(idents(m.group(2)))
                fields[(decl, m.group(1))] = m.group(2)
                continue
            m = re.match(r'\t\| \{ \w+: "[^"]*", \w+\??: (.+) \};?$', ln)     # (the last variant's line ends with `};`)
            if m:
                refs.update(idents(m.group(1)))
    elif lang == "kotlin":
        for ln in lines:
            m = re.match(r"(typealias|data class|object|enum class|sealed class|value class) (\w+)(<([^>]*)>)?", ln)
            if m:
                defs.add(m.group(2))
                decl = m.group(2)
                params.update(idents(m.group(4) or ""))
                m2 = re.match(r"typealias \w+(<[^>]*>)? = (.+)$", ln)
                if m2:
                    refs.update(idents(m2.group(2)))
                continue
            m = re.match(r"\t(?:private )?val (\w+): (.+?)( = null)?,?$", ln)
            if m:
                refs.update(idents(m.group(2)))
                fields[(decl, m.group(1))] = m.group(2)
                continue
            m = re.match(r"\tdata class \w+(?:<[^>]*>)?\(val \w+: (.+)\): (\w+)(?:<[^>]*>)?\(\)$", ln)
            if m:
                refs.update(idents(m.group(1)))
                refs.add(m.group(2))
                continue
            m = re.match(r"\tobject \w+: (\w+)(?:<[^>]*>)?\(\)$", ln)
            if m:
                refs.add(m.group(1))
    elif lang == "swift":
        for ln in lines:
            m = re.match(r"public (?:indirect )?(struct|enum|typealias) (`?\w+`?)(<([^>]*)>)?", ln)
            if m:
                defs.add(m.group(2).strip("`"))
                decl = m.group(2).strip("`")
                for p in (m.group(4) or "").split(","):
                    if p.strip():
                        params.add(p.split(":")[0].strip())
                m2 = re.match(r"public typealias `?\w+`?(<[^>]*>)? = (.+)$", ln)
                if m2:
                    refs.update(idents(m2.group(2)))
                continue
            m = re.match(r"\tpublic let `?(\w+)`?: (.+)$", ln)
            if m:
                refs.update(idents(m.group(2)))
                fields[(decl, m.group(1))] = m.group(2)
                continue
            m = re.match(r"\tcase `?\w+`?\((.+)\)$", ln)
            if m:
                refs.update(idents(m.group(1)))
    elif lang == "scala":
        for ln in lines:
            m = re.match(r"(type|case class|class|sealed trait) (\w+)(\[([^\]]*)\])?", ln)
            if m:
                defs.add(m.group(2))
                decl = m.group(2)
                params.update(idents(m.group(4) or ""))
                m2 = re.match(r"type \w+(\[[^\]]*\])? = (.+)$", ln)
                if m2:
                    refs.update(idents(m2.group(2)))
                continue
            m = re.match(r"\t(\w+): (.+?)( = None| = _)?,?$", ln)
            if m:
                refs.update(idents(m.group(2)))
                fields[(decl, m.group(1))] = m.group(2)
                continue
            m = re.match(r"\tcase class \w+(?:\[[^\]]*\])?\(\w+: (.+)\) extends (\w+)(?:\[[^\]]*\])? \{$", ln)
            if m:
                refs.update(idents(m.group(1)))
                refs.add(m.group(2))
                continue
            m = re.match(r"\tcase object \w+ extends (\w+)(?:\[[^\]]*\])? \{$", ln)
            if m:
                refs.add(m.group(1))
    elif lang == "go":
        in_struct = False
        for i, ln in enumerate(lines):
            m = re.match(r"type (\w+)(\[([^\]]*)\])? (.+)$", ln)
            if m:
                defs.add(m.group(1))
                for p in (m.group(3) or "").split(","):
                    if p.strip():
                        params.add(p.split()[0])
                rest = m.group(4)
                if rest == "struct {":
                    in_struct = True
                    decl = m.group(1)
                elif rest.startswith("struct{"):
                    # the struct of a tagged enum: its first field has the (auxiliary) key type
                    k = re.match(r"\t\w+ (\w+) `json:", lines[i + 1])
                    if k:
                        aux.add(k.group(1))
                else:
                    refs.update(idents(rest))
                continue
            if in_struct:
                if ln == "}":
                    in_struct = False
                    continue
                m = re.match(r"\t(\w+) (.+) `json:\"[^`]*\"`$", ln)
                if m:
                    refs.update(idents(m.group(2)))
                    fields[(decl, m.group(1).lower())] = m.group(2)
                continue
            m = re.match(r"\t\tvar res (.+)$", ln)
            if m:
                refs.update(idents(m.group(1)))
    elif lang == "python":
        cur = None
        for ln in lines:
            m = re.match(r"class (\w+)\((.*)\):$", ln)
            if m:
                cur = m.group(1)
                defs.add(cur)
                g = re.search(r"Generic\[([^\]]*)\]", m.group(2))
                if g:
                    params.update(idents(g.group(1)))
                continue
            m = re.match(r'(\w+) = TypeVar\("\w+"\)$', ln)
            if m:
                params.add(m.group(1))
                continue
            m = re.match(r"(\w+)(\[([^\]]*)\])? = (.+)$", ln)
            if m:
                cur = None
                defs.add(m.group(1))
                params.update(idents(m.group(3) or ""))
                refs.update(x for x in idents(m.group(4)) if x != "Union")
                continue
            m = re.match(r"    (\w+): (.+?)( = .*)?$", ln)
            if m and cur:
                if "Literal[" in m.group(2):
                    aux.add(cur)
                    aux.add(idents(m.group(2))[1])      # the `<Enum>Types` enumeration
                else:
                    refs.update(idents(m.group(2)))
                    fields[(cur, m.group(1))] = m.group(2)
    # Scala's package object re-declares the unsigned integer names; they are builtins, not program types
    defs -= BUILTIN[lang]
    return defs, aux, refs, params, fields


# ----------------------------------------------------------------------------- the check

def cfg_of(lang, pfx):
    cfg = {"type_mappings": {}, "version_header": False, "package": "com.example", "module_name": "", "prefix": pfx}
    if lang == "go":
        cfg["package"] = "proto"
    return cfg


def facts_request(lang, cfg, file, gen, text):
    return [S("c09-facts"), l2.lang_sx(lang, cfg), [], gen.ext_sx(), [["", "out", "src/lib.rs", sx_file(file, text)]]]


def evaluate(check, cases, impl_only=False):
    """cases: dicts(items, lang, pfx).  Runs model + implementation, the oracle and the comparisons.
    Returns the list of (case, problem) found; reports nothing itself."""
    g = mkgen(check.rng)
    mreqs, rreqs, freqs, names = [], [], [], set()
    for c in cases:
        f = build_file(c["items"])
        cfg = cfg_of(c["lang"], c["pfx"])
        m, r, texts = l2.requests(c["lang"], cfg, [{"crate": "", "file_name": "out", "path": "src/lib.rs", "file": f}], g)
        c["source"] = texts[0]
        c["rreq"] = r
        mreqs.append(m)
        rreqs.append(r)
        freqs.append(facts_request(c["lang"], cfg, f, g, texts[0]))
        if c["lang"] == "python":
            names |= l2.names_of(f)
    rans = runner(rreqs)
    if impl_only:
        mans, fans = [None] * len(cases), [None] * len(cases)
    else:
        both = model(mreqs + freqs, names=names or None)
        mans, fans = both[:len(cases)], both[len(cases):]
    out = []
    for c, ma, fa, ra in zip(cases, mans, fans, rans):
        c["impl"], c["model"] = ra, ma
        lang = c["lang"]
        if "ok" not in ra:
            out.append((c, "generation", "the implementation does not generate this program: %s" % str(ra)[:200]))
            continue
        text = list(ra["ok"].values())[0]
        defs, aux, refs, params, fields = extract(lang, text)
        pdefs, prefs, pfail = predict(c["items"], lang, c["pfx"])
        # (c) the oracle: the property on the implementation's text
        if all(it["name"] != "T" for it in c["items"]):
            params = params | {"T"}  # Go drops the parameter list of a generic alias; the use `T` itself is unchanged
        failing = {n for n in refs if n not in defs and n not in BUILTIN[lang] and n not in params}
        # ... and generic parameters are printed unchanged: the field `v: T` of every generic struct has the type `T`
        ppfx = c["pfx"] if lang in ("kotlin", "swift") else ""
        for it in c["items"]:
            if it["kind"] == "gstruct":
                got = fields.get((ppfx + (new_name(it["name"]) if it["rename"] else it["name"]), "v"))
                if got is not None and got != "T":
                    failing.add(got)
        c["failing"], c["expected"] = failing, pfail
        new = failing - set(pfail)
        if new:
            out.append((c, "oracle", "%s output refers to %s, which it does not define (defined: %s)"
                        % (lang, sorted(new), sorted(defs - aux))))
            continue
        # (a renamed generic parameter is spelled with a *defined* name: only the positional part of the oracle and the
        # comparison with the model's positional reference list can see it)
        # (likewise a name that is also a declared generic parameter cannot be told apart by name)
        gone = {n for n in pfail if n not in failing and pfail[n] != {"shadow"} and n not in params}
        # (b) the binding semantics against the implementation's text
        urefs = {n for n in refs if n not in BUILTIN[lang] and n not in aux}
        if defs - aux != pdefs or urefs != prefs | (params & urefs):
            out.append((c, "semantics", "python reading of TsV.C09.defName/refs differs from the names extracted from the "
                        "implementation's text: defs %s vs %s, refs %s vs %s" % (sorted(pdefs), sorted(defs - aux), sorted(prefs), sorted(urefs))))
            continue
        if gone:
            out.append((c, "semantics", "a reference predicted to be inconsistent is consistent: %s" % sorted(gone)))
            continue
        if impl_only:
            continue
        # (a) byte-exact correspondence
        if l2.norm(ma) != l2.norm(ra):
            d = l2.text_diff(list(ma["ok"].values())[0], text) if "ok" in ma else str(ma)[:300]
            out.append((c, "correspondence", "the %s model's text differs from the implementation's: %s" % (lang, d)))
            continue
        # (b') the Lean definitions themselves (driver request c09-facts)
        if "ok" not in fa:
            out.append((c, "facts", "c09-facts failed: %s" % str(fa)[:200]))
            continue
        mdefs = set(fa["ok"]["defs"])
        mrefs = {r[1] for r in fa["ok"]["refs"]}
        mknown = {}
        for r in fa["ok"]["refs"]:
            if r[4] is not None:
                mknown.setdefault(r[1], set()).add(r[4])
            if r[2][0] == "param" and r[1] != r[2][1]:
                # a generic parameter spelled differently: only in programs of the class Known_shadow
                mknown.setdefault(r[1], set()).add("shadow" if fa["ok"]["shadow"] else "parameter-respelled")
        if mdefs != defs - aux or mrefs != urefs:
            out.append((c, "facts", "TsV.C09.allDefs/refs differ from the names extracted from the implementation's text: "
                        "defs %s vs %s, refs %s vs %s" % (sorted(mdefs), sorted(defs - aux), sorted(mrefs), sorted(urefs))))
            continue
        if mknown != pfail:
            out.append((c, "facts", "TsV.C09.Known_* and their python twins disagree: %s vs %s" % (mknown, pfail)))
    return out


BROKEN = {"correspondence": "correspondence L2 generate_types (theorems TsV.C09.C09_partial, C09_exact, tie_*)",
          "semantics": "binding semantics TsV.C09.defName/refs vs the implementation's text (trusted specification of TsV.C09.*)",
          "facts": "binding semantics TsV.C09.allDefs/refs/Known_* (driver request c09-facts) vs the implementation's text",
          "generation": "correspondence L2 generate_types (the generator's programs must be accepted)"}


def report(check, problems):
    # a failing input found by the oracle explains the differences: report it (them) alone
    if any(kind == "oracle" for _, kind, _ in problems):
        problems = [p for p in problems if p[1] == "oracle"]
    seen = set()
    for c, kind, what in problems:
        if kind in seen:
            continue
        seen.add(kind)
        case = {"lang": c["lang"], "prefix": c["pfx"], "source": c["source"], "request": c["rreq"],
                "items": [(i["name"], i["kind"], i["rename"]) for i in c["items"]]}
        if kind == "oracle":
            check.violation(what, case=case, impl=c["impl"], model=c.get("model"), failing_input=True)
        else:
            check.violation(what, case=case, impl=c["impl"], model=c.get("model"), failing_input=False, broken=BROKEN[kind])


# stored witnesses of the known findings (single-file unless stated), replayed on the implementation on every run
ALIAS = "#[typeshare]\n#[serde(rename = \"AliasNew\")]\npub type Al = String;\n\n#[typeshare]\npub struct User { pub a: Al }\n"
ENUM = ("#[typeshare]\n#[serde(rename = \"EnumNew\", tag = \"t\", content = \"c\")]\npub enum En { A { x: u8 }, B(String), C }\n")
GOENUM = "#[typeshare]\n#[serde(rename = \"UnitNew\")]\npub enum Un { P, Q }\n\n#[typeshare]\npub struct User { pub u: Un }\n"
GEN = "#[typeshare]\n#[serde(rename = \"GenNew\")]\npub struct Ge<T> { pub v: T }\n\n#[typeshare]\npub struct User { pub g: Ge<String> }\n"
SHADOW = "#[typeshare]\n#[serde(rename = \"TNew\")]\npub struct T { pub z: u8 }\n\n#[typeshare]\npub struct Holder<T> { pub t: T }\n"
GOGENENUM = ("#[typeshare]\n#[serde(rename = \"GnNew\", tag = \"t\", content = \"c\")]\npub enum Gn<T> { A(T) }\n\n"
             "#[typeshare]\npub struct User { pub g: Gn<String> }\n")
WITNESSES = [
    # (known id, language, prefix, source, name referred to, name that should have been used)
    ("definition-under-original-name", "go", "", GOENUM, "UnitNew", "Un"),
    ("definition-under-original-name", "go", "", GOGENENUM, "GnNew", "Gn"),
] + [("generic-parameter-renamed", l, "", SHADOW, "TNew", "T") for l in LANGS]

# the witnesses of the repaired classes: (fixed class, commit, language, prefix, source, name that was referred to /
# defined by mistake, name that must now be both defined and referred to)
REPAIRED = [
    ("definition-under-original-name (aliases)", "0c924cd", "kotlin", "", ALIAS, "Al", "AliasNew"),
    ("definition-under-original-name (aliases)", "0c924cd", "kotlin", "OP", ALIAS, "OPAl", "OPAliasNew"),
    ("definition-under-original-name (aliases)", "0c924cd", "scala", "", ALIAS, "Al", "AliasNew"),
    ("definition-under-original-name (aliases)", "0c924cd", "go", "", ALIAS, "Al", "AliasNew"),
    ("parent-class-original-name", "3d3e1e7", "kotlin", "", ENUM, "En", "EnumNew"),
    ("parent-class-original-name", "3d3e1e7", "kotlin", "OP", ENUM, "OPEn", "OPEnumNew"),
    ("parent-class-original-name", "3d3e1e7", "scala", "", ENUM, "En", "EnumNew"),
    ("inner-struct-original-name", "3d3e1e7", "kotlin", "", ENUM, "EnAInner", "EnumNewAInner"),
    ("inner-struct-original-name", "3d3e1e7", "kotlin", "OP", ENUM, "OPEnAInner", "OPEnumNewAInner"),
    ("inner-struct-original-name", "3d3e1e7", "scala", "", ENUM, "EnAInner", "EnumNewAInner"),
] + [("generic-head-not-renamed", "944b749", l, "", GEN, "Ge", "GenNew") for l in LANGS]

MULTI_A = "#[typeshare]\npub struct Foo { pub a: u8 }\n"
MULTI_B = "use alpha::Foo;\n#[typeshare]\npub struct Bar { pub f: Foo }\n"


def replay_repaired(check):
    """the witnesses of the repaired classes must pass the oracle now; a failure means the defect has returned"""
    reqs = [{"op": "generate", "lang": l, "config": cfg_of(l, p), "multi_file": False, "target_os": [],
             "files": [{"src": src, "crate": "", "file_name": "out", "path": "src/lib.rs"}]} for _, _, l, p, src, _, _ in REPAIRED]
    ans = runner(reqs)
    for (cls, commit, lang, pfx, src, old, new), a in zip(REPAIRED, ans):
        check.count("repaired-witness-replayed")
        case = {"lang": lang, "prefix": pfx, "source": src}
        if "ok" not in a:
            check.violation("the regression witness of the repaired class %s is not generated any more: %s" % (cls, str(a)[:200]),
                            case=case, impl=a, failing_input=False, broken="correspondence L2 generate_types (regression witnesses of TsV.C09.repaired_*)")
            continue
        text = list(a["ok"].values())[0]
        defs, aux, refs, params, fields = extract(lang, text)
        undefined = sorted(n for n in refs if n not in defs and n not in BUILTIN[lang] and n not in params)
        if undefined or old in defs or old in refs or new not in defs or new not in refs:
            check.violation("the repaired class %s (fix %s) has returned: %s output (prefix %r) refers to %s / defines %s where `%s` "
                            "should be both defined and referred to (undefined references: %s)"
                            % (cls, commit, lang, pfx, sorted(refs - BUILTIN[lang]), sorted(defs - aux), new, undefined),
                            case=case, impl=a, failing_input=True)


def replay_witnesses(check):
    replay_repaired(check)
    reqs = [{"op": "generate", "lang": l, "config": cfg_of(l, p), "multi_file": False, "target_os": [],
             "files": [{"src": src, "crate": "", "file_name": "out", "path": "src/lib.rs"}]} for _, l, p, src, _, _ in WITNESSES]
    reqs.append({"op": "generate", "lang": "kotlin", "config": cfg_of("kotlin", "OP"), "multi_file": True, "target_os": [],
                 "files": [{"src": MULTI_A, "crate": "alpha", "file_name": "alpha.out", "path": "alpha/src/lib.rs"},
                           {"src": MULTI_B, "crate": "beta", "file_name": "beta.out", "path": "beta/src/lib.rs"}]})
    ans = runner(reqs)
    for (kid, lang, pfx, src, used, wanted), a in zip(WITNESSES, ans):
        if "ok" not in a:
            continue
        text = list(a["ok"].values())[0]
        defs, aux, refs, params, fields = extract(lang, text)
        if kid == "generic-parameter-renamed":
            # `Holder<T> { t: T }`: the field must be printed with the parameter `T`
            bad = fields.get(("Holder", "t")) == "TNew"
        else:
            bad = used in refs and used not in defs and wanted in defs
        if bad and not check.known(kid, {"lang": lang, "source": src, "refers_to": used, "defined_as": wanted}):
            check.violation("%s output refers to `%s` where `%s` is what is defined / meant (class %s not listed as known)"
                            % (lang, used, wanted, kid), case={"lang": lang, "source": src}, impl=a, failing_input=True)
    # the repaired class kotlin-import-without-prefix (fix 8dc01bf): the import line must name the class as alpha defines it
    a = ans[-1]
    check.count("repaired-witness-replayed")
    case = {"lang": "kotlin", "prefix": "OP", "alpha": MULTI_A, "beta": MULTI_B}
    if "ok" not in a:
        check.violation("the regression witness of the repaired class kotlin-import-without-prefix is not generated any more: %s" % str(a)[:200],
                        case=case, impl=a, failing_input=False,
                        broken="correspondence L2 generate_types (regression witness TsV.C09.repaired_kotlin_import_prefix)")
    else:
        alpha, beta = a["ok"].get("alpha", ""), a["ok"].get("beta", "")
        if "data class OPFoo" not in alpha or "import com.example.alpha.OPFoo\n" not in beta or "import com.example.alpha.Foo\n" in beta:
            check.violation("the repaired class kotlin-import-without-prefix (fix 8dc01bf) has returned: kotlin multi-file output of beta "
                            "imports %s while alpha defines the class as `OPFoo`" % re.findall(r"^import com\.example\.alpha\.\S+", beta, re.M),
                            case=case, impl=a, failing_input=True)


def kotlin_import_part(check):
    """Kotlin multi-file mode with a prefix: crate alpha defines a struct, a unit enum, a tagged enum and an alias, crate beta
    imports a subset of them (`use alpha::X;`) and uses them.  (a) byte-exact against the model (Kotlin.writeImports);
    (b) the oracle = theorem TsV.C09.C09_kotlin_import_lines on the implementation's text: every `import <package>.alpha.<N>`
    line of beta's file names a declaration alpha's file defines."""
    rng = check.rng
    g = mkgen(rng)
    ts = [m_path("typeshare")]
    defs_alpha = [
        {"kind": "struct", "attrs": list(ts), "ident": "Foo", "generics": [], "fields": ("named", [field([], "a", t_path("u8"))])},
        {"kind": "enum", "attrs": list(ts), "ident": "Kind", "generics": [],
         "variants": [{"attrs": [], "ident": "P", "fields": ("unit",)}, {"attrs": [], "ident": "Q", "fields": ("unit",)}]},
        {"kind": "enum", "attrs": list(ts) + [m_list("serde", [m_nv("tag", lit_s("t")), m_nv("content", lit_s("c"))])], "ident": "Shape",
         "generics": [], "variants": [{"attrs": [], "ident": "A", "fields": ("unnamed", [field([], None, t_path("String"))])},
                                      {"attrs": [], "ident": "B", "fields": ("unit",)}]},
        {"kind": "alias", "attrs": list(ts), "ident": "Ident", "generics": [], "ty": t_path("String")},
    ]
    names = ["Foo", "Kind", "Shape", "Ident"]
    subsets = [c for r in (1, 2, 4) for c in itertools.combinations(names, r)]
    if not check.thorough:
        subsets = [("Foo",), ("Kind", "Ident"), tuple(names)]
    mreqs, rreqs, meta, allnames = [], [], [], set()
    for pfx in PREFIXES:
        for used in subsets:
            fa = {"attrs": [], "items": [dict(d) for d in defs_alpha]}
            fb = {"attrs": [], "items": [{"kind": "use", "tree": ("upath", "alpha", ("uname", w))} for w in used] + [
                {"kind": "struct", "attrs": list(ts), "ident": "Bar", "generics": [],
                 "fields": ("named", [field([], "f%d" % i, t_path(w) if i % 2 == 0 else t_path("Vec", [t_path(w)])) for i, w in enumerate(used)])}]}
            jobs = [{"crate": "alpha", "file_name": "alpha.out", "path": "alpha/src/lib.rs", "file": fa},
                    {"crate": "beta", "file_name": "beta.out", "path": "beta/src/lib.rs", "file": fb}]
            allnames |= l2.names_of(fa) | l2.names_of(fb)
            m, r, texts = l2.requests("kotlin", cfg_of("kotlin", pfx), jobs, g, multi_file=True)
            mreqs.append(m)
            rreqs.append(r)
            meta.append((pfx, used, texts))
    mans = [l2.norm(a) for a in model(mreqs, names=allnames)]
    rans = [l2.norm(a) for a in runner(rreqs)]
    mismatch = None
    for (pfx, used, texts), ma, ra in zip(meta, mans, rans):
        check.saw(("kotlin-import", pfx, used), nontrivial=bool(pfx))
        check.count("kotlin-multi-file-imports")
        case = {"lang": "kotlin", "prefix": pfx, "sources": texts}
        if "ok" in ra:
            defs = extract("kotlin", ra["ok"].get("alpha", ""))[0]
            imported = re.findall(r"^import com\.example\.alpha\.(\S+)$", ra["ok"].get("beta", ""), re.M)
            bad = sorted(n for n in imported if n not in defs)
            if bad or len(imported) != len(used):
                check.violation("kotlin multi-file output (prefix %r) of beta imports %s from alpha, which defines %s%s"
                                % (pfx, imported, sorted(defs), " (the repaired class kotlin-import-without-prefix, fix 8dc01bf, has returned)" if bad else ""),
                                case=case, impl=ra, model=ma, failing_input=True)
                return
        if ma != ra and mismatch is None:
            mismatch = (case, ma, ra)
    if mismatch:
        case, ma, ra = mismatch
        check.violation("kotlin multi-file generation differs from the model on import lines", case=case, impl=ra, model=ma,
                        failing_input=False, broken="correspondence L2 Kotlin write_imports (theorem TsV.C09.C09_kotlin_import_lines)")


def multi_part(check):
    """multi-file mode: the same Rust type name is defined in two or three crates, each with its own serde(rename) (or none);
    every crate refers to its *own* type.  The rename table is keyed by (original name, crate): each module must spell the
    reference with the name its own definition is emitted under."""
    rng = check.rng
    g = mkgen(rng)
    ts = [m_path("typeshare")]
    ncases = 60 if check.thorough else 12
    mreqs, rreqs, meta, allnames = [], [], [], set()
    for k in range(ncases):
        base = rng.choice(["Error", "Config", "Item", "State"])
        crates = rng.sample(["alpha", "beta", "gamma", "net", "storage"], rng.randint(2, 3))
        plan = {}
        jobs = []
        for c in crates:
            new = None if rng.random() < 0.25 else c.capitalize() + base
            plan[c] = new
            attrs = list(ts) + ([m_list("serde", [m_nv("rename", lit_s(new))])] if new else [])
            user = c.capitalize() + "User"
            f = {"attrs": [], "items": [
                {"kind": "struct", "attrs": attrs, "ident": base, "generics": [], "fields": ("named", [field([], "code", t_path("u8"))])},
                {"kind": "struct", "attrs": list(ts), "ident": user, "generics": [],
                 "fields": ("named", [field([], "one", t_path(base)), field([], "many", t_path("Vec", [t_path(base)])),
                                      field([], "maybe", t_path("Option", [t_path(base)]))])}]}
            jobs.append({"crate": c, "file_name": c + ".out", "path": "%s/src/lib.rs" % c, "file": f})
            allnames |= l2.names_of(f)
        for lang in LANGS:
            m, r, texts = l2.requests(lang, cfg_of(lang, ""), jobs, g, multi_file=True)
            mreqs.append(m)
            rreqs.append(r)
            meta.append((lang, base, plan, texts))
    mans = [l2.norm(a) for a in model(mreqs, names=allnames)]
    rans = [l2.norm(a) for a in runner(rreqs)]
    mismatch = None
    for (lang, base, plan, texts), ma, ra in zip(meta, mans, rans):
        check.saw(("multi", lang, base, json.dumps(plan, sort_keys=True)), nontrivial=sum(1 for v in plan.values() if v) >= 2)
        check.count("multi-crate-same-name-" + lang)
        if "ok" in ra:
            for c, new in plan.items():
                text = ra["ok"].get(c, "")
                defined = new or base
                if not re.search(r"\b%s\b" % re.escape(defined), text):
                    continue
                other = base if new else None
                if other and re.search(r"\b%s\b" % re.escape(other), text):
                    check.violation("%s multi-file output of crate %s defines `%s` but still refers to the Rust name `%s`" % (lang, c, defined, other),
                                    case={"lang": lang, "sources": texts, "renames": plan}, impl=ra, model=ma, failing_input=True)
                    return
        if ma != ra and mismatch is None:
            mismatch = (lang, texts, ma, ra)
    if mismatch:
        lang, texts, ma, ra = mismatch
        check.violation("%s multi-file generation differs from the model on same-named renamed types" % lang,
                        case={"lang": lang, "sources": texts}, impl=ra, model=ma, failing_input=False,
                        broken="correspondence L2 reconcile across crates (theorems TsV.C09.C09_reconcile_*)")


def cross_crate_part(check):
    """multi-file mode: a serde-renamed type of one crate is referred to from another crate (`use provider::T;` or the qualified
    path `provider::T`); the provider's name may *begin with* the name of a crate the import collector ignores (`http_api`,
    `time_utils`, `std_ext`, `serde_models` ...).  The reference must be spelled with the name the provider defines the type under."""
    rng = check.rng
    g = mkgen(rng)
    ts = [m_path("typeshare")]
    providers = ["models", "http_api", "time_utils", "std_ext", "serde_models", "synth", "zip_codes", "ring_buffer", "core_types", "timeline"]
    ncases = 40 if check.thorough else 10
    mreqs, rreqs, meta, allnames = [], [], [], set()
    for k in range(ncases):
        prov = providers[(k + rng.randint(0, 2)) % len(providers)]
        base = rng.choice(["Request", "Account", "Token"])
        new = "Api" + base
        how = rng.choice(["use", "use", "qualified", "use-group"])
        pf = {"attrs": [], "items": [{"kind": "struct", "attrs": list(ts) + [m_list("serde", [m_nv("rename", lit_s(new))])], "ident": base,
                                     "generics": [], "fields": ("named", [field([], "id", t_path("u8"))])}]}
        q = [prov] if how == "qualified" else []
        uf = {"attrs": [], "items": [
            {"kind": "struct", "attrs": list(ts), "ident": "Consumer", "generics": [],
             "fields": ("named", [field([], "one", t_path(base, quals=q)), field([], "many", t_path("Vec", [t_path(base, quals=q)])),
                                  field([], "keyed", t_path("HashMap", [t_path("String"), t_path(base, quals=q)]))])},
            {"kind": "alias", "attrs": list(ts), "ident": "Shortcut", "generics": [], "ty": t_path(base, quals=q)}]}
        if how == "use":
            uf["items"].insert(0, {"kind": "use", "tree": ("upath", prov, ("uname", base))})
        elif how == "use-group":
            uf["items"].insert(0, {"kind": "use", "tree": ("upath", prov, ("ugroup", [("uname", "helper"), ("uname", base)]))})
        jobs = [{"crate": prov, "file_name": prov + ".out", "path": "%s/src/lib.rs" % prov, "file": pf},
                {"crate": "zconsumer", "file_name": "zconsumer.out", "path": "zconsumer/src/lib.rs", "file": uf}]
        allnames |= l2.names_of(pf) | l2.names_of(uf)
        for lang in LANGS:
            m, r, texts = l2.requests(lang, cfg_of(lang, ""), jobs, g, multi_file=True)
            mreqs.append(m)
            rreqs.append(r)
            meta.append((lang, prov, base, new, how, texts))
    mans = [l2.norm(a) for a in model(mreqs, names=allnames)]
    rans = [l2.norm(a) for a in runner(rreqs)]
    mismatch = None
    for (lang, prov, base, new, how, texts), ma, ra in zip(meta, mans, rans):
        check.saw(("cross-crate", lang, prov, base, how), nontrivial=True)
        check.count("cross-crate-%s" % lang)
        if "ok" in ra:
            text = ra["ok"].get("zconsumer", "")
            body = "\n".join(l for l in text.split("\n") if not l.lstrip().startswith("import "))
            if re.search(r"\b%s\b" % re.escape(base), body) and not re.search(r"\b%s\b" % re.escape(new), body):
                check.violation("%s multi-file: crate `%s` defines `%s` as `%s`, the consumer (reference written as %s) still refers to `%s`"
                                % (lang, prov, base, new, how, base), case={"lang": lang, "sources": texts}, impl=ra, model=ma, failing_input=True)
                return
        if ma != ra and mismatch is None:
            mismatch = (lang, texts, ma, ra)
    if mismatch:
        lang, texts, ma, ra = mismatch
        check.violation("%s multi-file generation differs from the model on a cross-crate reference to a renamed type" % lang,
                        case={"lang": lang, "sources": texts}, impl=ra, model=ma, failing_input=False,
                        broken="correspondence L2 reconcile across crates (theorems TsV.C09.C09_reconcile_*)")


ARG_RUST = [("Key", "AccountKey", "struct"), ("State", "AccountState", "unit"), ("Label", "AccountLabel", "alias"), ("Owner", "Owner", "struct")]


def arg_forms(r, others, rng):
    """the ways a consumer mentions the cross-crate type `r`: {form name: type tree}.  `others` = types to put into the remaining
    argument positions (primitives, the consumer's own types, the other imported types)"""
    o = lambda: rng.choice(others)
    R = lambda: t_path(r)
    return {
        "plain": R(),
        "only-arg": t_path(rng.choice(["Vec", "Option"]), [R()]),
        "map-key": t_path("HashMap", [R(), o()]),
        "map-value": t_path("HashMap", [t_path("String"), R()]),
        "pair-first": t_path("Pair", [R(), o()]),
        "pair-last": t_path("Pair", [o(), R()]),
        "triple-first": t_path("Triple", [R(), o(), o()]),
        "triple-middle": t_path("Triple", [o(), R(), o()]),
        "triple-last": t_path("Triple", [o(), o(), R()]),
        "nested-vec-pair-first": t_path("Vec", [t_path("Pair", [R(), o()])]),
        "nested-opt-triple-middle": t_path("Option", [t_path("Triple", [o(), R(), o()])]),
        "nested-pair-of-vec-first": t_path("Pair", [t_path("Vec", [R()]), o()]),
        "nested-map-of-pair-first": t_path("HashMap", [t_path("String"), t_path("Pair", [R(), o()])]),
        "nested-pair-in-pair-first": t_path("Pair", [t_path("Pair", [R(), o()]), o()]),
        "nested-map-key-in-triple-middle": t_path("Triple", [o(), t_path("HashMap", [R(), o()]), o()]),
        "nested-pair-last-in-pair-first": t_path("Pair", [t_path("Pair", [o(), R()]), o()]),
    }


ARG_FORMS = ["plain", "only-arg", "map-key", "map-value", "pair-first", "pair-last", "triple-first", "triple-middle", "triple-last",
             "nested-vec-pair-first", "nested-opt-triple-middle", "nested-pair-of-vec-first", "nested-map-of-pair-first",
             "nested-pair-in-pair-first", "nested-map-key-in-triple-middle", "nested-pair-last-in-pair-first"]
ARG_NOT_LAST = [f for f in ARG_FORMS if f not in ("plain", "only-arg", "map-value", "pair-last", "triple-last")]


def replay_glob_renamed(check):
    """open finding glob-import-renamed-reference (found by the round-14 argument-position work): a type brought in by a *glob* import
    (`use alpha::*;`) keeps its Rust name at the reference although its definition is written under the serde(rename) name; with a named
    import (`use alpha::Key;`) the reference is rewritten"""
    A = "#[typeshare]\n#[serde(rename = \"AccountKey\")]\npub struct Key { pub id: String }\n"
    reqs = []
    for how in ("use alpha::*;", "use alpha::Key;"):
        B = how + "\n#[typeshare]\npub struct Ledger { pub owner: Key }\n"
        reqs.append({"op": "generate", "lang": "typescript", "config": {"type_mappings": {}}, "multi_file": True, "target_os": [],
                     "files": [{"src": A, "crate": "alpha", "file_name": "x", "path": "ws/alpha/src/lib.rs"},
                               {"src": B, "crate": "beta", "file_name": "x", "path": "ws/beta/src/lib.rs"}]})
    glob, named = runner(reqs)
    check.saw(("glob-renamed-witness",), nontrivial=True)
    gtext = (glob.get("ok") or {}).get("beta", "")
    ntext = (named.get("ok") or {}).get("beta", "")
    if "owner: AccountKey" not in ntext and "ok" in named:
        check.violation("typescript folder mode: `use alpha::Key;` with `#[serde(rename = \"AccountKey\")] struct Key` in crate alpha: the "
                        "reference is not written under the renamed name", case={"request": reqs[1]}, impl=named, failing_input=True)
    if "ok" in glob and "owner: Key" in gtext:
        if not check.known("glob-import-renamed-reference", {"consumer": "use alpha::*; struct Ledger { owner: Key }", "beta.ts": gtext[-300:]}):
            check.violation("typescript folder mode: a type imported by glob keeps its Rust name `Key` at the reference while alpha.ts defines "
                            "`AccountKey`", case={"request": reqs[0]}, impl=glob, failing_input=True)


def argument_position_part(check):
    """multi-file (folder) mode, the *position of a cross-crate type among the type arguments* of the type that mentions it: crate
    `accounts` (or another provider name) defines 2-4 types, most of them carrying serde(rename); a consumer crate imports them
    (`use p::X;`, a `use p::{..}` group, the qualified path `p::X`) and mentions each as the first / middle / last
    argument of HashMap and of its own generics `Pair<A, B>` / `Triple<A, B, C>`, nested (`Vec<Pair<X, String>>`,
    `Pair<Vec<X>, u32>`, `Triple<u8, HashMap<X, u8>, u8>`), in a struct field, an alias target, a tuple-variant payload or a
    struct-variant member - as the only mention of the type in the consumer's file or next to a plain / only-argument / last-argument
    mention; prefixes for Kotlin / Swift; all six back ends.  The oracle = the property across the files of the run: every name a
    generated file refers to is a name some generated file of the run defines, spelled the same (after serde(rename) and the prefix),
    and the Rust name of a renamed type is spelled nowhere.  The model's text is compared as well."""
    rng = check.rng
    g = mkgen(rng)
    ts = [m_path("typeshare")]
    providers = ["accounts", "models", "core_types"]
    # (`use p::*` is not explored: a glob import keeps the import but resolve_renamed does not rewrite the reference - the unchanged
    # tree spells the Rust name there; reported separately, not a listed finding)
    hows = ["use", "use", "use-group", "qualified"]
    ncases = 330 if check.thorough else 33
    mreqs, rreqs, meta, allnames = [], [], [], set()
    for k in range(ncases):
        prov = providers[k % len(providers)]
        how = hows[(k // 2) % len(hows)]
        ntypes = rng.randint(2, len(ARG_RUST))
        types = ARG_RUST[:2] + rng.sample(ARG_RUST[2:], ntypes - 2)
        pitems = []
        for rust, new, kind in types:
            attrs = list(ts) + ([m_list("serde", [m_nv("rename", lit_s(new))])] if new != rust else [])
            if kind == "struct":
                pitems.append({"kind": "struct", "attrs": attrs, "ident": rust, "generics": [], "fields": ("named", [field([], "id", t_path("String"))])})
            elif kind == "unit":
                pitems.append({"kind": "enum", "attrs": attrs, "ident": rust, "generics": [],
                               "variants": [{"attrs": [], "ident": v, "fields": ("unit",)} for v in ("Open", "Closed")]})
            else:
                pitems.append({"kind": "alias", "attrs": attrs, "ident": rust, "generics": [], "ty": t_path("String")})
        rng.shuffle(pitems)
        pf = {"attrs": [], "items": pitems}
        # the consumer: its own generics, and one declaration per imported type that mentions it
        others = [t_path("String"), t_path("u32"), t_path("bool"), t_path("Local")] + [t_path(t[0]) for t in types[1:]]
        citems = [
            {"kind": "struct", "attrs": list(ts), "ident": "Pair", "generics": [("ty", "A"), ("ty", "B")],
             "fields": ("named", [field([], "first", t_path("A")), field([], "second", t_path("B"))])},
            {"kind": "struct", "attrs": list(ts), "ident": "Triple", "generics": [("ty", "A"), ("ty", "B"), ("ty", "C")],
             "fields": ("named", [field([], "a", t_path("A")), field([], "b", t_path("B")), field([], "c", t_path("C"))])},
            {"kind": "struct", "attrs": list(ts), "ident": "Local", "generics": [], "fields": ("named", [field([], "n", t_path("u8"))])}]
        plan = []
        lead = ARG_NOT_LAST[k % len(ARG_NOT_LAST)]          # every non-last position leads equally often, as the only mention
        for i, (rust, new, kind) in enumerate(types):
            # (others[] never mentions the first type, so a mention of it is the *only* one when one form is chosen)
            forms = arg_forms(rust, others if i == 0 else others[:4], rng)
            if i == 0:
                chosen = [lead] + (rng.sample(ARG_FORMS, rng.randint(1, 2)) if k % 3 == 2 else [])
            else:
                chosen = rng.sample(ARG_FORMS, rng.randint(1, 2))
            where = rng.choice(["field", "field", "alias", "tuple-variant", "struct-variant"])
            plan.append((rust, new, where, chosen))
            tys = [forms[f] for f in chosen]
            if how == "qualified":
                tys = [qualify(t, {x[0] for x in types}, prov) for t in tys]
            nm = "Uses%s" % rust
            if where == "field":
                citems.append({"kind": "struct", "attrs": list(ts), "ident": nm, "generics": [],
                               "fields": ("named", [field([], "m%d" % j, t) for j, t in enumerate(tys)])})
            elif where == "alias":
                for j, t in enumerate(tys):
                    citems.append({"kind": "alias", "attrs": list(ts), "ident": "%s%d" % (nm, j), "generics": [], "ty": t})
            else:
                vs = []
                for j, t in enumerate(tys):
                    fs = ("unnamed", [field([], None, t)]) if where == "tuple-variant" else ("named", [field([], "inner", t)])
                    vs.append({"attrs": [], "ident": "V%d" % j, "fields": fs})
                vs.append({"attrs": [], "ident": "Nothing", "fields": ("unit",)})
                citems.append({"kind": "enum", "attrs": list(ts) + [m_list("serde", [m_nv("tag", lit_s("t")), m_nv("content", lit_s("c"))])],
                               "ident": nm, "generics": [], "variants": vs})
        head = citems[:3]
        rest = citems[3:]
        rng.shuffle(rest)
        citems = head + rest if rng.random() < 0.5 else rest + head
        if how == "use":
            uses = [{"kind": "use", "tree": ("upath", prov, ("uname", t[0]))} for t in types]
        elif how == "use-group":
            uses = [{"kind": "use", "tree": ("upath", prov, ("ugroup", [("uname", t[0]) for t in types]))}]
        elif how == "glob":
            uses = [{"kind": "use", "tree": ("upath", prov, ("uglob",))}]
        else:
            uses = []
        uf = {"attrs": [], "items": uses + citems}
        jobs = [{"crate": prov, "file_name": prov + ".out", "path": "%s/src/lib.rs" % prov, "file": pf},
                {"crate": "ledger", "file_name": "ledger.out", "path": "ledger/src/lib.rs", "file": uf}]
        allnames |= l2.names_of(pf) | l2.names_of(uf)
        for lang in LANGS:
            pfx = rng.choice(["", "OP", "Core_"]) if lang in ("kotlin", "swift") else ""
            m, r, texts = l2.requests(lang, cfg_of(lang, pfx), jobs, g, multi_file=True)
            mreqs.append(m)
            rreqs.append(r)
            meta.append((lang, pfx, prov, how, types, plan, texts, r))
    mans = [l2.norm(a) for a in model(mreqs, names=allnames)]
    rans = [l2.norm(a) for a in runner(rreqs)]
    mismatch = None
    for (lang, pfx, prov, how, types, plan, texts, rreq), ma, ra in zip(meta, mans, rans):
        only = plan[0][3][0] if len(plan[0][3]) == 1 else None
        check.saw(("argument-position", lang, pfx, how, json.dumps(plan)), nontrivial=True)
        check.count("argument-position-%s" % lang)
        for rust, new, where, chosen in plan:
            for f in chosen:
                check.count("argument-position:%s" % f)
        if only:
            check.count("argument-position-only-mention-not-last")
        case = {"lang": lang, "prefix": pfx, "import": how, "sources": dict(zip(["%s/src/lib.rs" % prov, "ledger/src/lib.rs"], texts)),
                "mentions": [{"type": p[0], "defined_as": pfx + p[1], "in": p[2], "positions": p[3]} for p in plan], "request": rreq,
                "replay": "put the two sources into a folder (<dir>/%s/src/lib.rs, <dir>/ledger/src/lib.rs) and run `typeshare <dir> --lang %s "
                          "--output-folder <out>`%s" % (prov, lang, {"kotlin": " --kotlin-prefix %s --java-package com.example" % pfx if pfx else " --java-package com.example",
                                                                     "swift": " --swift-prefix %s" % pfx if pfx else "", "scala": " --scala-package com.example",
                                                                     "go": " --go-package proto"}.get(lang, ""))}
        if "ok" not in ra:
            if ma != ra and mismatch is None:
                mismatch = (case, ma, ra)
            continue
        files = {c: t for c, t in ra["ok"].items() if not c.startswith("<post>/")}
        ex = {c: extract(lang, t) for c, t in files.items()}
        defined = set().union(*[e[0] | e[1] for e in ex.values()]) if ex else set()
        ppfx = pfx if lang in ("kotlin", "swift") else ""
        go_enum = {new for rust, new, kind in types if lang == "go" and kind == "unit" and new != rust}
        for c, (defs, aux, refs, params, fields) in sorted(ex.items()):
            undefined = sorted(n for n in refs if n not in defined and n not in BUILTIN[lang] and n not in params
                               and n not in go_enum and not (lang == "go" and n == prov))
            if undefined:
                culprit = [p for p in plan if ppfx + p[0] in undefined or p[0] in undefined]
                check.violation("%s folder output (prefix %r, import written as %s): the file of crate `%s` refers to %s, which no file of the run "
                                "defines (defined: %s)%s" % (lang, pfx, how, c, undefined, sorted(defined),
                                                            "".join("; `%s` of crate `%s` is defined as `%s` and mentioned by `ledger` as %s (%s)"
                                                                    % (p[0], prov, ppfx + p[1], " + ".join(p[3]), p[2]) for p in culprit)),
                                case=case, impl=ra, model=ma, failing_input=True)
                return
        # the Rust name of a renamed type is spelled nowhere in the consumer's code (Go names enums after the Rust identifier: listed finding)
        body = "\n".join(l for l in files.get("ledger", "").split("\n") if not l.lstrip().startswith(("import ", "from ")))
        for rust, new, where, chosen in plan:
            if new == rust or (lang == "go" and ppfx + new in go_enum):
                continue
            if ppfx + rust in set(idents(code_of(lang, body))):
                check.violation("%s folder output (prefix %r, import written as %s): crate `%s` defines `%s` as `%s`, the file of `ledger` "
                                "(which mentions it as %s, %s) still spells the Rust name `%s`"
                                % (lang, pfx, how, prov, rust, ppfx + new, " + ".join(chosen), where, ppfx + rust),
                                case=case, impl=ra, model=ma, failing_input=True)
                return
        if ma != ra and mismatch is None:
            mismatch = (case, ma, ra)
    if mismatch:
        case, ma, ra = mismatch
        check.violation("%s multi-file generation differs from the model on a cross-crate type in a non-last type-argument position" % case["lang"],
                        case=case, impl=ra, model=ma, failing_input=False,
                        broken="correspondence L2 parse (reconcile_referenced_types) + reconcile across crates (theorems TsV.C09.C09_reconcile_*)")


def qualify(t, names, crate):
    """the type tree with every path to one of `names` written as `crate::Name`"""
    if t[0] == "path":
        _, quals, last, args, lt = t
        return ("path", [crate] if last in names and not quals else list(quals), last, [qualify(a, names, crate) for a in args], lt)
    return t


def odd_rename_part(check):
    """type-level serde(rename) values that are not identifiers (a dash, a dot, a leading digit, a blank - XML / wire names): whatever
    a back end makes of such a name, it makes the same of it where the type is defined and where it is referred to"""
    rng = check.rng
    g = mkgen(rng)
    ts = [m_path("typeshare")]
    mreqs, rreqs, meta, names = [], [], [], set()
    for new in ["line-item", "gift.marker", "order-event", "2nd", "with space", "kebab-case-Name", "snake_case_name"]:
        kinds = rng.sample(["struct", "unit-struct", "tagged", "unit-enum", "alias"], 3)
        items = []
        for k, kind in enumerate(kinds):
            nm = "Renamed%d" % k
            rn = new + ("%d" % k if k else "")
            attrs = list(ts) + [m_list("serde", [m_nv("rename", lit_s(rn))] + ([m_nv("tag", lit_s("t")), m_nv("content", lit_s("c"))] if kind == "tagged" else []))]
            if kind == "struct":
                items.append({"kind": "struct", "attrs": attrs, "ident": nm, "generics": [], "fields": ("named", [field([], "a", t_path("u8"))])})
            elif kind == "unit-struct":
                items.append({"kind": "struct", "attrs": attrs, "ident": nm, "generics": [], "fields": ("unit",)})
            elif kind == "tagged":
                items.append({"kind": "enum", "attrs": attrs, "ident": nm, "generics": [],
                              "variants": [{"attrs": [], "ident": "Added", "fields": ("named", [field([], "n", t_path("u8"))])},
                                           {"attrs": [], "ident": "Gone", "fields": ("unit",)}]})
            elif kind == "unit-enum":
                items.append({"kind": "enum", "attrs": attrs, "ident": nm, "generics": [], "variants": [{"attrs": [], "ident": "A", "fields": ("unit",)}]})
            else:
                items.append({"kind": "alias", "attrs": attrs, "ident": nm, "generics": [], "ty": t_path("String")})
        items.append({"kind": "struct", "attrs": list(ts), "ident": "UserOfThem", "generics": [],
                      "fields": ("named", [field([], "f%d" % k, t) for k, t in enumerate(
                          [t_path("Renamed0"), t_path("Vec", [t_path("Renamed1")]), t_path("Option", [t_path("Renamed2")]),
                           t_path("HashMap", [t_path("String"), t_path("Renamed0")])])])})
        f = {"attrs": [], "items": items}
        names |= l2.names_of(f)
        for lang in LANGS:
            m, r, texts = l2.requests(lang, cfg_of(lang, ""), [{"crate": "", "file_name": "out", "path": "src/lib.rs", "file": f}], g)
            mreqs.append(m); rreqs.append(r); meta.append((lang, new, kinds, texts[0]))
    mans = [l2.norm(a) for a in model(mreqs, names=names)]
    rans = [l2.norm(a) for a in runner(rreqs)]
    mismatch = None
    for (lang, new, kinds, src), ma, ra in zip(meta, mans, rans):
        check.saw(("odd-rename", lang, new, tuple(kinds)), nontrivial=True)
        check.count("odd-rename-" + lang)
        if "ok" in ra:
            out = ra["ok"].get("", "")
            for k, kind in enumerate(kinds):
                rn = new + ("%d" % k if k else "")
                if lang == "go" and kind in ("tagged", "unit-enum"):
                    continue                    # Go names enums after the Rust identifier (open finding)
                variants = {rn, re.sub(r"[^A-Za-z0-9_]", "_", rn), re.sub(r"[^A-Za-z0-9_]", "", rn)}
                used = sorted(v for v in variants if re.search(r"(?<![A-Za-z0-9_-])%s(?![A-Za-z0-9_-])" % re.escape(v), out))
                if len(used) > 1:
                    check.violation("%s: the type renamed to %r is written in %d different spellings (%s): its definition and the references "
                                    "to it do not agree" % (lang, rn, len(used), used), case={"lang": lang, "source": src}, impl=ra, model=ma, failing_input=True)
                    return
        if ma != ra and mismatch is None:
            mismatch = (lang, src, ma, ra)
    if mismatch:
        lang, src, ma, ra = mismatch
        check.violation("%s generation differs from the model on rename values that are not identifiers" % lang,
                        case={"lang": lang, "source": src}, impl=ra, model=ma, failing_input=False,
                        broken="correspondence L2 generate (theorems TsV.C09.*)")


def go_acronym_part(check):
    """Go with `uppercase_acronyms`: the acronym pass is applied to definition names and to formatted type strings alike, so
    a type whose name contains a configured acronym must be spelled identically where it is defined and wherever it is
    used - plain, under Vec / Option, as a map key or value, as a generic argument (no serde(rename) involved)"""
    rng = check.rng
    g = mkgen(rng)
    ts = [m_path("typeshare")]
    pool = ["AccountId", "ApiUrl", "UserId", "HttpApi", "IdCard", "UrlId", "Plain"]
    ncases = 330 if check.thorough else 33
    mreqs, rreqs, meta = [], [], []
    for k in range(ncases):
        names = rng.sample(pool, 3)
        acr = rng.sample(["ID", "URL", "API", "HTTP"], rng.randint(1, 3))
        shapes = [lambda t: t, lambda t: t_path("Vec", [t]), lambda t: t_path("Option", [t]),
                  lambda t: t_path("HashMap", [t, t_path("String")]), lambda t: t_path("HashMap", [t_path("String"), t]),
                  lambda t: t_path("Wrapper", [t]), lambda t: t_path("Pair", [t, t_path("String")]),
                  lambda t: t_path("Wrapper", [t_path("Vec", [t])])]
        items = [{"kind": "struct", "attrs": list(ts), "ident": n, "generics": [], "fields": ("named", [field([], "v", t_path("u8"))])} for n in names]
        items.append({"kind": "struct", "attrs": list(ts), "ident": "Wrapper", "generics": [("ty", "T")], "fields": ("named", [field([], "inner", t_path("T"))])})
        items.append({"kind": "struct", "attrs": list(ts), "ident": "Pair", "generics": [("ty", "A"), ("ty", "B")],
                      "fields": ("named", [field([], "a", t_path("A")), field([], "b", t_path("B"))])})
        fs = [field([], "f%d" % i, rng.choice(shapes)(t_path(rng.choice(names)))) for i in range(6)]
        items.append({"kind": "struct", "attrs": list(ts), "ident": "Holder", "generics": [], "fields": ("named", fs)})
        f = {"attrs": [], "items": items}
        cfg = dict(cfg_of("go", ""), uppercase_acronyms=acr)
        m, r, texts = l2.requests("go", cfg, [{"crate": "", "file_name": "out", "path": "src/lib.rs", "file": f}], g)
        mreqs.append(m)
        rreqs.append(r)
        meta.append((acr, texts[0]))
    mans = [l2.norm(a) for a in model(mreqs)]
    rans = [l2.norm(a) for a in runner(rreqs)]
    mismatch = None
    for (acr, text), ma, ra in zip(meta, mans, rans):
        check.saw(("go-acronyms", tuple(acr), text), nontrivial=True)
        check.count("go-acronym-programs")
        if "ok" in ra:
            out = ra["ok"][""]
            defs = set(re.findall(r"^type (\w+)[ \[]", out, re.M))
            used = set()
            for line in out.split("\n"):
                mm = re.match(r"^\t(\w+) (.+?) `json:", line)
                if mm:
                    used |= set(re.findall(r"[A-Za-z_]\w*", mm.group(2)))
            undefined = sorted(u for u in used if u not in defs and u not in BUILTIN["go"] and u not in ("T", "A", "B"))
            if undefined:
                check.violation("go with uppercase_acronyms %s refers to %s, which the file does not define (defined: %s)" % (acr, undefined, sorted(defs)),
                                case={"lang": "go", "uppercase_acronyms": acr, "source": text}, impl=ra, model=ma, failing_input=True)
                return
        if ma != ra and mismatch is None:
            mismatch = (acr, text, ma, ra)
    if mismatch:
        acr, text, ma, ra = mismatch
        check.violation("go generation with uppercase_acronyms %s differs from the model" % acr,
                        case={"lang": "go", "uppercase_acronyms": acr, "source": text}, impl=ra, model=ma, failing_input=False,
                        broken="correspondence L2 Go acronym pass (Go.convertAcronyms)")


def variant_names_part(check):
    """helper structs of struct variants whose identifiers are not fixed points of the case conversions the back ends apply
    (all capitals, an underscore inside, a lower-case initial): the `<Enum><Variant>Inner` name must be spelled identically
    where the helper is defined and where the variant's content refers to it"""
    rng = check.rng
    g = mkgen(rng)
    ts = [m_path("typeshare")]
    pool = ["TCP", "OK", "Unix_Socket", "lowerCase", "Plain", "HTTPServer", "V2", "Id"]
    defs_rx = {"kotlin": r"(?:data class|object) (\w+Inner)\b", "swift": r"public struct (\w+Inner)\b", "scala": r"(?:case class|class) (\w+Inner)\b",
               "go": r"^type (\w+Inner) struct", "python": r"^class (\w+Inner)\("}
    ncases = 60 if check.thorough else 12
    mreqs, rreqs, meta, allnames = [], [], [], set()
    for k in range(ncases):
        vnames = rng.sample(pool, 3)
        variants = [{"attrs": [], "ident": v, "fields": ("named", [field([], "x", t_path("u8")), field([], "y", t_path("String"))])} for v in vnames]
        variants.append({"attrs": [], "ident": "Unit", "fields": ("unit",)})
        f = {"attrs": [], "items": [{"kind": "enum", "attrs": list(ts) + [m_list("serde", [m_nv("tag", lit_s("t")), m_nv("content", lit_s("c"))])],
                                     "ident": "Transport", "generics": [], "variants": variants}]}
        for lang in LANGS:
            pfx = rng.choice(["", "OP"]) if lang in ("kotlin", "swift") else ""
            m, r, texts = l2.requests(lang, cfg_of(lang, pfx), [{"crate": "", "file_name": "out", "path": "src/lib.rs", "file": f}], g)
            mreqs.append(m)
            rreqs.append(r)
            meta.append((lang, pfx, vnames, texts[0]))
        allnames |= l2.names_of(f)
    mans = [l2.norm(a) for a in model(mreqs, names=allnames)]
    rans = [l2.norm(a) for a in runner(rreqs)]
    mismatch = None
    for (lang, pfx, vnames, text), ma, ra in zip(meta, mans, rans):
        check.saw(("variant-names", lang, pfx, tuple(vnames)), nontrivial=True)
        check.count("variant-name-programs-" + lang)
        if "ok" in ra and lang in defs_rx:
            out = ra["ok"][""]
            defs = {x if isinstance(x, str) else next(y for y in x if y) for x in re.findall(defs_rx[lang], out, re.M)}
            used = set(re.findall(r"\b(\w+Inner)\b", out))
            undefined = sorted(u for u in used if u not in defs)
            if undefined:
                check.violation("%s refers to helper struct(s) %s, defined are %s" % (lang, undefined, sorted(defs)),
                                case={"lang": lang, "prefix": pfx, "variants": vnames, "source": text}, impl=ra, model=ma, failing_input=True)
                return
        if ma != ra and mismatch is None:
            mismatch = (lang, pfx, text, ma, ra)
    if mismatch:
        lang, pfx, text, ma, ra = mismatch
        check.violation("%s generation differs from the model on struct variants with unusual identifiers" % lang,
                        case={"lang": lang, "prefix": pfx, "source": text}, impl=ra, model=ma, failing_input=False,
                        broken="correspondence L2 enum helper-struct names (theorems TsV.C09.tie_*)")


# ----------------------------------------------------------------------------- the shape of the renamed definition

# every shape the parser / the back ends treat on a path of their own: (shape, class of the definition, may be generic)
SHAPES = [
    ("tagged-1-newtype", "enum", True), ("tagged-1-struct", "enum", True), ("tagged-2", "enum", True), ("tagged-many", "enum", True),
    ("tagged-skipped-to-1", "enum", True), ("tagged-skipped-to-2", "enum", True), ("tagged-skipped-to-many", "enum", True),
    ("unit-0", "enum", False), ("unit-1", "enum", False), ("unit-2", "enum", False), ("unit-many", "enum", False),
    ("unit-skipped-to-0", "enum", False), ("unit-skipped-to-1", "enum", False), ("unit-skipped-to-2", "enum", False),
    ("struct-unit", "struct", False), ("struct-empty", "struct", False), ("struct-skipped-to-0", "struct", True),
    ("struct-1", "struct", True), ("struct-many", "struct", True), ("struct-skipped-to-1", "struct", True),
    ("newtype", "alias", True), ("alias-primitive", "alias", False), ("alias-container", "alias", True),
    ("sas-struct", "alias", False), ("sas-enum", "alias", False),
]
SHAPE_ORIGINALS = ["Event", "Command", "Packet", "Status", "Marker", "Ticket"]      # (no builtin of any target language among them)
SKIP_WAYS = ["typeshare", "serde", "cfg"]        # typeshare(skip) / serde(skip) / cfg(target_os = other) under --target-os


def shape_rename(rng, name, k):
    """a new name that begins with / ends with / has nothing to do with the Rust name (and sorts before or after it)"""
    return rng.choice(["Wire" + name, name + "Dto", "Api%sV2" % name, ["Zulu", "Able", "Mike"][k % 3] + "Msg%d" % k])


def shape_item(rng, shape, name, new, generic, payload):
    """-> (syn_gen item, does the request need a target os).  `payload`: a type the kept members carry (a primitive or a
    reference to an earlier item of the program); a generic definition mentions its parameter `T` in a kept member where the
    shape has one"""
    ts = m_path("typeshare")
    serde = [m_nv("rename", lit_s(new))] if new else []
    gens = [("ty", "T")] if generic else []
    needs_os = [False]

    def skip_attr():
        way = rng.choice(SKIP_WAYS)
        if way == "cfg":
            needs_os[0] = True
            return [m_list("cfg", [m_nv("target_os", lit_s("android"))])]
        return [m_list(way, [m_path("skip")])]

    def variant(kind, ident, ty, attrs=()):
        if kind == "u":
            fs = ("unit",)
        elif kind == "n":
            fs = ("unnamed", [field([], None, ty)])
        else:
            fs = ("named", [field([], "x", ty), field([], "note", t_path("String"))])
        return {"attrs": list(attrs), "ident": ident, "fields": fs}

    tparam = t_path("T") if generic else payload
    if shape.startswith("tagged"):
        kept_n = {"tagged-1-newtype": 1, "tagged-1-struct": 1, "tagged-2": 2, "tagged-many": rng.randint(3, 5), "tagged-skipped-to-1": 1,
                  "tagged-skipped-to-2": 2, "tagged-skipped-to-many": rng.randint(3, 4)}[shape]
        first = "n" if shape == "tagged-1-newtype" else "s" if shape == "tagged-1-struct" else rng.choice("ns")
        kinds = [first] + [rng.choice("uns") for _ in range(kept_n - 1)]
        kept = [variant(k, "K%d%s" % (i, {"u": "Unit", "n": "Tuple", "s": "Struct"}[k]), tparam if i == 0 else payload) for i, k in enumerate(kinds)]
        rng.shuffle(kept)
        vs = kept
        if "skipped" in shape:
            gone = [variant(rng.choice("uns"), "Gone%d" % i, t_path("u32"), skip_attr()) for i in range(rng.randint(1, 3))]
            vs = kept + gone
            rng.shuffle(vs)
        serde += [m_nv("tag", lit_s("type")), m_nv("content", lit_s("content"))]
        rng.shuffle(serde)
        return {"kind": "enum", "attrs": [ts, m_list("serde", serde)], "ident": name, "generics": gens, "variants": vs}, needs_os[0]
    if shape.startswith("unit"):
        kept_n = {"unit-0": 0, "unit-1": 1, "unit-2": 2, "unit-many": rng.randint(3, 6), "unit-skipped-to-0": 0, "unit-skipped-to-1": 1,
                  "unit-skipped-to-2": 2}[shape]
        vs = [variant("u", "Unit%d" % i, None) for i in range(kept_n)]
        if "skipped" in shape:
            # without serde(tag) the variants that are not shared may be of any kind: what is left decides
            vs += [variant(rng.choice("uuns"), "Gone%d" % i, t_path("u32"), skip_attr()) for i in range(rng.randint(1, 3))]
            rng.shuffle(vs)
        return {"kind": "enum", "attrs": [ts] + ([m_list("serde", serde)] if serde else []), "ident": name, "generics": [], "variants": vs}, needs_os[0]
    attrs = [ts] + ([m_list("serde", serde)] if serde else [])
    if shape in ("sas-struct", "sas-enum"):
        attrs = [m_list("typeshare", [m_nv("serialized_as", lit_s("String"))])] + attrs[1:]
        if shape == "sas-enum":
            return {"kind": "enum", "attrs": attrs, "ident": name, "generics": [], "variants": [variant("u", "Pa", None), variant("n", "Qa", t_path("u8"))]}, False
        return {"kind": "struct", "attrs": attrs, "ident": name, "generics": [], "fields": ("named", [field([], "p", t_path("u32"))])}, False
    if shape.startswith("struct"):
        if shape == "struct-unit":
            return {"kind": "struct", "attrs": attrs, "ident": name, "generics": [], "fields": ("unit",)}, False
        kept_n = {"struct-empty": 0, "struct-skipped-to-0": 0, "struct-1": 1, "struct-many": rng.randint(2, 5), "struct-skipped-to-1": 1}[shape]
        fs = [field([], "k%d" % i, tparam if i == 0 else rng.choice([payload, t_path("String"), t_path("Option", [payload])])) for i in range(kept_n)]
        if "skipped" in shape:
            # (a generic definition without a kept member keeps its parameter in a member that is not shared)
            fs += [field(skip_attr(), "gone%d" % i, t_path("T") if generic and i == 0 else t_path("u32")) for i in range(rng.randint(1, 3))]
            rng.shuffle(fs)
        return {"kind": "struct", "attrs": attrs, "ident": name, "generics": gens, "fields": ("named", fs)}, needs_os[0]
    if shape == "newtype":
        ty = t_path("Vec", [t_path("T")]) if generic else payload
        return {"kind": "struct", "attrs": attrs, "ident": name, "generics": gens, "fields": ("unnamed", [field([], None, ty)])}, False
    if shape == "alias-primitive":
        return {"kind": "alias", "attrs": attrs, "ident": name, "generics": [], "ty": t_path(rng.choice(["String", "u32", "bool"]))}, False
    if shape == "alias-container":
        inner = t_path("T") if generic else payload
        ty = rng.choice([t_path("Vec", [inner]), t_path("Option", [inner]), t_path("HashMap", [t_path("String"), inner])])
        return {"kind": "alias", "attrs": attrs, "ident": name, "generics": gens, "ty": ty}, False
    raise ValueError(shape)


def shape_program(rng, lead):
    """2-4 definitions of the shapes above (the first one of the shape `lead`), three in four of them renamed, each referred to
    from a field, a container element, a generic argument, an alias target, a tuple-variant payload and a struct-variant member
    of the other items; declaration order shuffled.  -> (abstract file, plan, needs a target os)"""
    ts = m_path("typeshare")
    n = rng.randint(2, 4)
    by_name = dict((s[0], s) for s in SHAPES)
    chosen = [by_name[lead]] + [rng.choice(SHAPES) for _ in range(n - 1)]
    originals = rng.sample(SHAPE_ORIGINALS, n)
    plan, items, needs_os = [], [], False
    for k, ((shape, cls, can_generic), name) in enumerate(zip(chosen, originals)):
        new = shape_rename(rng, name, k) if (k == 0 or rng.random() < 0.7) else None
        generic = can_generic and rng.random() < 0.35
        payload = t_path(rng.choice(["u32", "String", "bool"]))
        if plan and rng.random() < 0.4:
            p = rng.choice(plan)                         # an earlier definition as the payload: renamed shapes refer to each other
            payload = t_path(p["name"], [t_path("u32")] if p["generic"] else [])
        it, os_ = shape_item(rng, shape, name, new, generic, payload)
        needs_os = needs_os or os_
        items.append(it)
        plan.append({"name": name, "new": new, "shape": shape, "class": cls, "generic": generic})

    def ref(p):
        if not p["generic"]:
            return t_path(p["name"])
        others = [q for q in plan if q is not p and not q["generic"]]
        arg = t_path(rng.choice(others)["name"]) if others and rng.random() < 0.4 else t_path(rng.choice(["String", "u32"]))
        return t_path(p["name"], [arg])

    conts = [lambda t: t_path("Vec", [t]), lambda t: t_path("Option", [t]), lambda t: t_path("HashMap", [t_path("String"), t]),
             lambda t: t_path("Option", [t_path("Vec", [t])]), lambda t: ("array", t, 4), lambda t: t_path("Box", [t])]
    hf, variants = [], []
    for k, p in enumerate(plan):
        hf.append(field([], "direct%d" % k, ref(p)))
        hf.append(field([], "inside%d" % k, rng.choice(conts)(ref(p))))
        hf.append(field([], "argument%d" % k, rng.choice([t_path("Wrapper", [ref(p)]), t_path("Wrapper", [t_path("Vec", [ref(p)])]),
                                                           t_path("Vec", [t_path("Wrapper", [ref(p)])])])))
        tgt = rng.choice([ref(p), t_path("Vec", [ref(p)]), t_path("Option", [ref(p)]), t_path("Wrapper", [ref(p)])])
        items.append({"kind": "alias", "attrs": [ts], "ident": "%sAlias" % p["name"], "generics": [], "ty": tgt})
        variants.append({"attrs": [], "ident": "Tuple%d" % k, "fields": ("unnamed", [field([], None, rng.choice([ref(p), t_path("Vec", [ref(p)])]))])})
        variants.append({"attrs": [], "ident": "Struct%d" % k, "fields": ("named", [field([], "one", ref(p)), field([], "some", t_path("Option", [ref(p)]))])})
    rng.shuffle(hf)
    items.append({"kind": "struct", "attrs": [ts], "ident": "Holder", "generics": [], "fields": ("named", hf)})
    items.append({"kind": "struct", "attrs": [ts], "ident": "Wrapper", "generics": [("ty", "T")],
                  "fields": ("named", [field([], "inner", t_path("T")), field([], "list", t_path("Vec", [t_path("T")]))])})
    variants.append({"attrs": [], "ident": "Nothing", "fields": ("unit",)})
    items.append({"kind": "enum", "attrs": [ts, m_list("serde", [m_nv("tag", lit_s("t")), m_nv("content", lit_s("c"))])], "ident": "Carrier",
                  "generics": [], "variants": variants})
    rng.shuffle(items)
    return {"attrs": [], "items": items}, plan, needs_os


def code_of(lang, text):
    """the generated text without its comments (the comment of a helper struct names the *Rust* enum it comes from)"""
    if lang == "python":
        text = re.sub(r'"""[\s\S]*?"""', "", text)
        return "\n".join(l for l in text.split("\n") if not l.lstrip().startswith("#"))
    text = re.sub(r"/\*[\s\S]*?\*/", "", text)
    return "\n".join(l for l in text.split("\n") if not l.lstrip().startswith("//"))


def definition_shape_part(check):
    """The dimension explored: the *shape* of the definition that carries serde(rename) - every kind of item the parser or a back
    end writes on a path of its own: tagged enums with one / two / many variants (unit, tuple, struct variants; declared so, or
    with the other variants removed by typeshare(skip) / serde(skip) / cfg(target_os) under --target-os), unit enums with no /
    one / several variants (again declared or skipped down), unit structs, structs without members (declared or skipped down),
    structs with one / several members, newtype structs, aliases of primitives and containers, serialized_as items, and the
    generic version of each shape that can have one - each renamed to a name that begins with / ends with / has nothing to do
    with the Rust name, and referred to from a field, a container element, a generic argument, an alias target, a tuple-variant
    payload, a struct-variant member and the members of the other renamed definitions; declaration order shuffled; all six
    back ends, prefixes for Swift / Kotlin.
    Demanded (the property on the implementation's text): (1) every referenced name is a defined name (C09's own oracle);
    (2) a renamed item is defined under its new name, and its Rust name occurs nowhere in the output - with the one listed
    exception (Go names enums after the Rust identifier: definition-under-original-name).  Also compared: model text =
    implementation text (bytes), and TsV.C09.allDefs / refs = the names extracted from the implementation's text."""
    rng = check.rng
    g = mkgen(rng)
    rounds = 40 if check.thorough else 6
    mreqs, rreqs, freqs, meta, allnames = [], [], [], [], set()
    for k in range(rounds * len(SHAPES)):
        lead = SHAPES[k % len(SHAPES)][0]
        f, plan, needs_os = shape_program(rng, lead)
        target_os = ["ios"] if needs_os else []
        allnames |= l2.names_of(f)
        for lang in LANGS:
            pfx = rng.choice(PREFIXES) if lang in ("kotlin", "swift") else ""
            cfg = cfg_of(lang, pfx)
            m, r, texts = l2.requests(lang, cfg, [{"crate": "", "file_name": "out", "path": "src/lib.rs", "file": f}], g, target_os=target_os)
            mreqs.append(m)
            rreqs.append(r)
            freqs.append([S("c09-facts"), l2.lang_sx(lang, cfg), list(target_os), g.ext_sx(), [["", "out", "src/lib.rs", sx_file(f, texts[0])]]])
            meta.append((lang, pfx, plan, target_os, texts[0], r))
    both = model(mreqs + freqs, names=allnames)
    mans, fans = both[:len(mreqs)], both[len(mreqs):]
    rans = runner(rreqs)
    mismatch, found = None, []
    for (lang, pfx, plan, target_os, src, rreq), ma, fa, ra in zip(meta, mans, fans, rans):
        renamed = [p for p in plan if p["new"]]
        check.saw(("definition-shape", lang, pfx, src), nontrivial=bool(renamed))
        check.count("definition-shape-programs-" + lang)
        case = {"lang": lang, "prefix": pfx, "target_os": target_os, "source": src, "request": rreq,
                "definitions": [(p["name"], p["new"], p["shape"], "generic" if p["generic"] else "") for p in plan]}
        if "ok" not in ra:
            check.count("definition-shape-not-generated")
        else:
            if lang == "python":
                for p in renamed:
                    check.count("renamed-shape:%s%s" % (p["shape"], "<T>" if p["generic"] else ""))
            text = list(ra["ok"].values())[0]
            defs, aux, refs, params, fields = extract(lang, text)
            code = code_of(lang, text)
            ppfx = pfx if lang in ("kotlin", "swift") else ""
            go_enum = lambda p: lang == "go" and p["class"] == "enum"
            # (1) the oracle of the property: every referenced name is defined
            failing = {n for n in refs if n not in defs and n not in BUILTIN[lang] and n not in params | {"T"}}
            listed = {ppfx + p["new"] for p in renamed if go_enum(p)}
            if failing & listed:
                check.count("known:def-original")
                check.known("definition-under-original-name", {"lang": lang, "source": src, "undefined_references": sorted(failing & listed)})
            if not check.known_open("definition-under-original-name"):
                listed = set()
            bad = None
            if failing - listed:
                who = [p for p in plan if ppfx + (p["new"] or p["name"]) in failing - listed]
                bad = ("%s output refers to %s, which it does not define (defined: %s)%s"
                       % (lang, sorted(failing - listed), sorted(defs - aux),
                          "".join("; `%s` is the %s definition `%s`%s renamed by serde(rename)" % (ppfx + p["new"], p["shape"], p["name"],
                                  "<T>" if p["generic"] else "") for p in who if p["new"])))
            else:
                # (2) the renamed definition is emitted under its new name and the Rust name is gone
                for p in renamed:
                    if go_enum(p) and check.known_open("definition-under-original-name"):
                        continue
                    word = lambda w: re.search(r"(?<![A-Za-z0-9_])%s(?![A-Za-z0-9_])" % re.escape(w), code)
                    if ppfx + p["new"] not in defs or word(ppfx + p["name"]) or word(p["name"]):
                        bad = ("%s: the %s definition `%s`%s carries serde(rename = \"%s\"): the output must define and refer to `%s` only, but it "
                               "defines %s and still spells the Rust name in %r"
                               % (lang, p["shape"], p["name"], "<T>" if p["generic"] else "", p["new"], ppfx + p["new"], sorted(defs - aux),
                                  [l for l in code.split("\n") if re.search(r"(?<![A-Za-z0-9_])(%s)?%s(?![A-Za-z0-9_])" % (re.escape(ppfx), re.escape(p["name"])), l)][:4]))
                        break
            if bad:
                found.append((len(src), len(found), bad, case, ra, ma))
                continue
        if mismatch is not None:
            continue
        check.count("definition-shape-compared-with-model")
        if l2.norm(ma) != l2.norm(ra):
            d = l2.text_diff(list(ma["ok"].values())[0], list(ra["ok"].values())[0]) if "ok" in ma and "ok" in ra else "%s vs %s" % (str(ma)[:200], str(ra)[:200])
            mismatch = ("the %s model's text differs from the implementation's on a renamed definition of a special shape: %s" % (lang, d),
                        case, ma, ra, BROKEN["correspondence"])
        elif "ok" in ra:
            if "ok" not in fa:
                mismatch = ("c09-facts failed: %s" % str(fa)[:200], case, fa, ra, BROKEN["facts"])
                continue
            mdefs, mrefs = set(fa["ok"]["defs"]), {r[1] for r in fa["ok"]["refs"]}
            urefs = {n for n in refs if n not in BUILTIN[lang] and n not in aux}
            if mdefs != defs - aux or mrefs != urefs:
                mismatch = ("TsV.C09.allDefs/refs differ from the names extracted from the implementation's text: defs %s vs %s, refs %s vs %s"
                            % (sorted(mdefs), sorted(defs - aux), sorted(mrefs), sorted(urefs)), case, fa, ra, BROKEN["facts"])
    if found:
        # the shortest failing program is reported (it explains the differences from the model as well)
        _, _, bad, case, ra, ma = min(found)
        check.count("definition-shape-failing-programs", len(found))
        check.violation(bad, case=case, impl=ra, model=ma, failing_input=True)
        return
    if mismatch:
        what, case, ma, ra, broken = mismatch
        check.violation(what, case=case, impl=ra, model=ma, failing_input=False, broken=broken)


# ----------------------------------------------------------------------------- struct variants and the members they have left

# how many members a struct variant declares x how many of them are removed before generation x what removes them
SV_LEADS = ([("0", "none", None), ("1", "none", None), ("many", "none", None)] +
            [(d, r, w) for d, r in (("1", "all"), ("many", "some"), ("many", "all")) for w in ("serde", "typeshare", "cfg", "mixed")])
SV_ENUMS = ["Event", "Command", "Packet", "Signal"]                  # (no builtin of any target language among them)
SV_VARIANTS = ["Started", "Stopped", "Moved", "Opened", "Closed", "Failed", "Queued", "Synced"]
SV_FIELDS = ["id", "code", "cache", "note", "task", "seen_at", "items", "retry_count"]
SV_OTHER_OS, SV_THIS_OS = "android", "ios"


def sv_variant(rng, ident, declared, removed, way, types, first_type=None):
    """a struct variant `ident` declaring 0 / 1 / 2-4 members of which none / some (at least one stays) / all are removed by
    serde(skip), typeshare(skip), cfg(target_os = <another os>) or a mixture.  -> (variant, plan entry)"""
    n = {"0": 0, "1": 1, "many": rng.randint(2, 4)}[declared]
    k = {"none": 0, "some": rng.randint(1, max(1, n - 1)), "all": n}[removed]
    gone = set(rng.sample(range(n), k))
    names = rng.sample(SV_FIELDS, n)
    fs, ways = [], []
    for i in range(n):
        attrs = []
        if i in gone:
            w = rng.choice(["serde", "typeshare", "cfg"]) if way == "mixed" else way
            ways.append(w)
            if w == "cfg":
                attrs.append(rng.choice([m_list("cfg", [m_nv("target_os", lit_s(SV_OTHER_OS))]),
                                         m_list("cfg", [m_list("any", [m_nv("target_os", lit_s(SV_OTHER_OS)), m_nv("target_os", lit_s("windows"))])])]))
            else:
                attrs.append(m_list(w, [m_path("skip")]))
        elif rng.random() < 0.15:
            attrs.append(m_list("cfg", [m_nv("target_os", lit_s(SV_THIS_OS))]))      # a cfg that --target-os accepts: the member stays
        ty = first_type if (i == 0 and first_type is not None) else rng.choice(types)
        fs.append(field(attrs, names[i], ty))
    vattrs = []
    r = rng.random()
    if r < 0.15:
        vattrs.append(m_list("serde", [m_nv("rename", lit_s(rng.choice([ident.lower(), ident + "V2", "on-" + ident.lower()])))]))
    elif r < 0.25:
        vattrs.append(m_list("serde", [m_nv("rename_all", lit_s(rng.choice(["camelCase", "SCREAMING_SNAKE_CASE", "kebab-case"])))]))
    return ({"attrs": vattrs, "ident": ident, "fields": ("named", fs)},
            {"variant": ident, "declared": n, "left": n - k, "removed_by": sorted(set(ways)), "uses_cfg": "cfg" in ways})


def sv_program(rng, lead):
    """1-2 tagged enums (serde(rename) on half of them, one in three generic) of 1-5 variants: struct variants of every
    combination of SV_LEADS (the first variant of the first enum is of the combination `lead`), tuple and unit variants, whole
    variants removed by a skip attribute; the members refer to primitives, containers, the enum's parameter, a renamed struct and
    the other enum; a root struct refers to the enums.  -> (abstract file, plan, target os list)"""
    ts = m_path("typeshare")
    task_new = rng.choice([None, "Job", "TaskDto"])
    items = [{"kind": "struct", "attrs": [ts] + ([m_list("serde", [m_nv("rename", lit_s(task_new))])] if task_new else []), "ident": "Task",
              "generics": [], "fields": ("named", [field([], "id", t_path("u32"))])}]
    plan, uses_cfg = [], False
    n_enums = rng.choice([1, 1, 2])
    for e, name in enumerate(rng.sample(SV_ENUMS, n_enums)):
        new = rng.choice([name + "Dto", "Wire" + name, "Api%sV2" % name]) if rng.random() < 0.5 else None
        generic = rng.random() < 0.35
        types = [t_path("u32"), t_path("String"), t_path("bool"), t_path("Option", [t_path("String")]), t_path("Vec", [t_path("u32")]),
                 t_path("Task"), t_path("Vec", [t_path("Task")]), t_path("Option", [t_path("Task")]), t_path("HashMap", [t_path("String"), t_path("Task")])]
        if generic:
            types += [t_path("T"), t_path("Vec", [t_path("T")]), t_path("Option", [t_path("T")])]
        if plan:
            p = plan[0]
            types.append(t_path(p["name"], [t_path("u32")] if p["generic"] else []))
        idents = rng.sample(SV_VARIANTS, 5)
        n_var = rng.choice([1, 2, 3, 3, 4, 5])
        variants, vplan = [], []
        for i in range(n_var):
            if e == 0 and i == 0:
                kind, combo = "s", lead
            else:
                # (the first variant of an enum is never a unit variant and never removed: the enum stays a tagged one)
                kind, combo = rng.choice("sssn" if i == 0 else "sssntu"), rng.choice(SV_LEADS)
            if kind == "s":
                # (the parameter of a generic enum sits in the first member of its first struct variant: kept or removed with it)
                v, vp = sv_variant(rng, idents[i], combo[0], combo[1], combo[2], types, t_path("T") if generic and i == 0 and combo[0] != "0" else None)
                uses_cfg = uses_cfg or vp["uses_cfg"]
            elif kind == "n":
                v, vp = {"attrs": [], "ident": idents[i], "fields": ("unnamed", [field([], None, rng.choice(types))])}, {"variant": idents[i], "tuple": True}
            else:
                v, vp = {"attrs": [], "ident": idents[i], "fields": ("unit",)}, {"variant": idents[i], "unit": True}
            if i > 0 and rng.random() < 0.12:
                # the whole variant is not shared: neither a helper struct nor a case for it
                v["attrs"] = v["attrs"] + [m_list(rng.choice(["serde", "typeshare"]), [m_path("skip")])]
                vp["skipped"] = True
            variants.append(v)
            vplan.append(vp)
        order = list(range(n_var))
        rng.shuffle(order)
        serde = ([m_nv("rename", lit_s(new))] if new else []) + [m_nv("tag", lit_s("type")), m_nv("content", lit_s("content"))]
        rng.shuffle(serde)
        items.append({"kind": "enum", "attrs": [ts, m_list("serde", serde)], "ident": name, "generics": [("ty", "T")] if generic else [],
                      "variants": [variants[i] for i in order]})
        plan.append({"name": name, "new": new, "generic": generic, "variants": [vplan[i] for i in order]})
    ref = lambda p: t_path(p["name"], [t_path(rng.choice(["String", "Task"]))] if p["generic"] else [])
    hf = [field([], "task", t_path("Task"))]
    for k, p in enumerate(plan):
        hf.append(field([], "direct%d" % k, ref(p)))
        hf.append(field([], "inside%d" % k, rng.choice([t_path("Vec", [ref(p)]), t_path("Option", [ref(p)]), t_path("HashMap", [t_path("String"), ref(p)])])))
    items.append({"kind": "struct", "attrs": [ts], "ident": "Holder", "generics": [], "fields": ("named", hf)})
    rng.shuffle(items)
    target_os = []
    if uses_cfg:
        # under [] or a list that names the other os the cfg'd members stay: the plan counts them as kept
        target_os = [SV_THIS_OS] if (lead[2] in ("cfg", "mixed") or rng.random() < 0.8) else rng.choice([[], [SV_OTHER_OS], [SV_THIS_OS, SV_OTHER_OS]])
        if target_os != [SV_THIS_OS]:
            for it in items:
                if it["kind"] != "enum":
                    continue
                p = next(q for q in plan if q["name"] == it["ident"])
                for v, vp in zip(it["variants"], p["variants"]):
                    if "left" in vp:
                        vp["left"] = sum(1 for f in v["fields"][1] if not any(a[0] == "l" and a[1] in (["serde"], ["typeshare"]) for a in f["attrs"]))
                        vp["removed_by"] = [w for w in vp["removed_by"] if w != "cfg"]
                        vp["uses_cfg"] = False
    return {"attrs": [], "items": items}, plan, target_os


def struct_variant_members_part(check):
    """The dimension explored: what a struct variant of a tagged enum has *left* when its helper struct `<prefix><Enum><Variant>Inner`
    is written - variants declaring 0 (`Variant {}`) / 1 / 2-4 members, of which none / some / all are removed by serde(skip),
    typeshare(skip), a cfg(target_os) that --target-os does not accept (plain or inside any(..)), or a mixture of these; next to
    them members with a cfg that is accepted, the same program under a --target-os that keeps the members, tuple and unit
    variants, whole variants removed, variant-level serde(rename) / rename_all; enums of 1-5 variants with and without
    serde(rename), generic (the parameter kept or removed with a member) or not, referring to each other, to a renamed struct
    and referred to from a root struct; prefixes for Swift / Kotlin; all six back ends.
    Demanded (the property on the implementation's text): every name the output refers to - the extractor's type positions, and
    every word `…Inner` anywhere in the code: payload types, Swift decode calls, Go accessors and constructors - is a name the
    output defines (listed exception: Go names enums after the Rust identifier).  Also compared: model text = implementation text
    (bytes), TsV.C09.allDefs / refs = the names extracted from the implementation's text."""
    rng = check.rng
    g = mkgen(rng)
    rounds = 60 if check.thorough else 10
    mreqs, rreqs, freqs, meta, allnames = [], [], [], [], set()
    for k in range(rounds * len(SV_LEADS)):
        f, plan, target_os = sv_program(rng, SV_LEADS[k % len(SV_LEADS)])
        allnames |= l2.names_of(f)
        for lang in LANGS:
            pfx = rng.choice(PREFIXES) if lang in ("kotlin", "swift") else ""
            cfg = cfg_of(lang, pfx)
            m, r, texts = l2.requests(lang, cfg, [{"crate": "", "file_name": "out", "path": "src/lib.rs", "file": f}], g, target_os=target_os)
            mreqs.append(m)
            rreqs.append(r)
            freqs.append([S("c09-facts"), l2.lang_sx(lang, cfg), list(target_os), g.ext_sx(), [["", "out", "src/lib.rs", sx_file(f, texts[0])]]])
            meta.append((lang, pfx, plan, target_os, texts[0], r))
    both = model(mreqs + freqs, names=allnames)
    mans, fans = both[:len(mreqs)], both[len(mreqs):]
    rans = runner(rreqs)
    mismatch, found = None, []
    for (lang, pfx, plan, target_os, src, rreq), ma, fa, ra in zip(meta, mans, fans, rans):
        helpers = [(p, v) for p in plan for v in p["variants"] if "left" in v and not v.get("skipped")]
        check.saw(("struct-variant-members", lang, pfx, tuple(target_os), src), nontrivial=any(v["left"] == 0 for _, v in helpers))
        check.count("struct-variant-programs-" + lang)
        case = {"lang": lang, "prefix": pfx, "target_os": target_os, "source": src, "request": rreq,
                "enums": [(p["name"], p["new"], "generic" if p["generic"] else "",
                           [(v["variant"], "skipped" if v.get("skipped") else "tuple" if v.get("tuple") else "unit" if v.get("unit") else
                             "%d declared, %d left" % (v["declared"], v["left"])) for v in p["variants"]]) for p in plan]}
        if "ok" not in ra:
            check.count("struct-variant-programs-not-generated")
        else:
            if lang == "python":
                for _, v in helpers:
                    check.count("struct-variant:%s declared, %s left%s" % (v["declared"] if v["declared"] < 2 else "2-4",
                                                                            "none" if v["left"] == 0 else "all" if v["left"] == v["declared"] else "some",
                                                                            (" (removed by %s)" % "+".join(v["removed_by"])) if v["removed_by"] else ""))
            text = list(ra["ok"].values())[0]
            defs, aux, refs, params, fields = extract(lang, text)
            ppfx = pfx if lang in ("kotlin", "swift") else ""
            # the oracle of the property: every referenced name is defined; a helper's name wherever the code spells it
            failing = {n for n in refs if n not in defs and n not in BUILTIN[lang] and n not in params | {"T"}}
            inner_words = set(re.findall(r"(?<![A-Za-z0-9_])(\w+Inner)(?![A-Za-z0-9_])", code_of(lang, text)))
            check.count("helper-struct-names-referred-to", len(inner_words))
            failing |= {n for n in inner_words if n not in defs}
            listed = {ppfx + p["new"] for p in plan if p["new"] and lang == "go"}
            if failing & listed:
                check.count("known:def-original")
                check.known("definition-under-original-name", {"lang": lang, "source": src, "undefined_references": sorted(failing & listed)})
            if not check.known_open("definition-under-original-name"):
                listed = set()
            if failing - listed:
                who = []
                for p, v in helpers:
                    for enum_name in {p["name"], p["new"] or p["name"]}:
                        if ppfx + enum_name + v["variant"] + "Inner" in failing:
                            who.append("; `%s` is the helper struct of the struct variant `%s::%s`, which declares %d member(s) and has %d left%s"
                                       % (ppfx + enum_name + v["variant"] + "Inner", p["name"], v["variant"], v["declared"], v["left"],
                                          (" (removed by %s%s)" % (" / ".join(v["removed_by"]), ", --target-os %s" % ",".join(target_os) if v["uses_cfg"] else ""))
                                          if v["removed_by"] else ""))
                bad = ("%s output refers to %s, which it does not define (defined: %s)%s"
                       % (lang, sorted(failing - listed), sorted(defs - aux), "".join(who)))
                found.append((len(src), len(found), bad, case, ra, ma))
                continue
        if mismatch is not None:
            continue
        check.count("struct-variant-programs-compared-with-model")
        if l2.norm(ma) != l2.norm(ra):
            d = l2.text_diff(list(ma["ok"].values())[0], list(ra["ok"].values())[0]) if "ok" in ma and "ok" in ra else "%s vs %s" % (str(ma)[:200], str(ra)[:200])
            mismatch = ("the %s model's text differs from the implementation's on struct variants with removed members: %s" % (lang, d),
                        case, ma, ra, BROKEN["correspondence"])
        elif "ok" in ra:
            if "ok" not in fa:
                mismatch = ("c09-facts failed: %s" % str(fa)[:200], case, fa, ra, BROKEN["facts"])
                continue
            mdefs, mrefs = set(fa["ok"]["defs"]), {r[1] for r in fa["ok"]["refs"]}
            urefs = {n for n in refs if n not in BUILTIN[lang] and n not in aux}
            if mdefs != defs - aux or mrefs != urefs:
                mismatch = ("TsV.C09.allDefs/refs differ from the names extracted from the implementation's text: defs %s vs %s, refs %s vs %s"
                            % (sorted(mdefs), sorted(defs - aux), sorted(mrefs), sorted(urefs)), case, fa, ra, BROKEN["facts"])
    if found:
        # the shortest failing program is reported (it explains the differences from the model as well)
        _, _, bad, case, ra, ma = min(found)
        check.count("struct-variant-failing-programs", len(found))
        check.violation(bad, case=case, impl=ra, model=ma, failing_input=True)
        return
    if mismatch:
        what, case, ma, ra, broken = mismatch
        check.violation(what, case=case, impl=ra, model=ma, failing_input=False, broken=broken)


def classes_of(c):
    return sorted(set().union(*c["expected"].values())) if c["expected"] else []


def run(check):
    rng = check.rng
    check.rule = ("single-file programs of 3-6 items over %s of the kinds %s; each non-unit item uses 1-4 items (itself "
                  "included: recursion) directly and under Vec/Option/HashMap/Box/array/slice, generic items as the head of "
                  "a generic application whose argument is a primitive, the enclosing generic parameter or another item "
                  "reference; each item carries serde(rename) with probability 1/2 (thorough: every subset); one program in ten has "
                  "an item named like the generic parameter `T`; prefixes %s "
                  "for Swift/Kotlin; all six back ends.  Compared: model text = implementation text (bytes); names defined "
                  "/ referred to according to TsV.C09.allDefs/refs (Lean, request c09-facts) = names extracted from the "
                  "implementation's text; references to undefined names = exactly those in a Known_* class.  non-trivial "
                  "= some item with serde(rename) is referred to.  definition_shape_part: programs of 2-4 definitions over the shapes %s "
                  "(generic where the shape allows), renamed, each referred to from a field, a container element, a generic argument, an "
                  "alias target, a tuple-variant payload and a struct-variant member; every referenced name must be defined, the new name "
                  "defined and the Rust name gone (Go enums: listed finding); model text and TsV.C09.allDefs/refs compared as well.  "
                  "struct_variant_members_part: 1-2 tagged enums (renamed or not, generic or not) of 1-5 variants whose struct variants "
                  "declare 0 / 1 / 2-4 members with none / some / all of them removed by serde(skip), typeshare(skip), cfg(target_os) under "
                  "--target-os or a mixture (combinations %s, each leading equally often); every referenced name and every `...Inner` word of "
                  "the code must be defined; model text and TsV.C09.allDefs/refs compared as well.  "
                  "argument_position_part (folder mode, two crates): 2-4 types of a provider crate (struct / unit enum / alias, renamed or not) "
                  "imported by name, in a group or written as qualified paths, each mentioned in the positions %s of HashMap / "
                  "Pair<A, B> / Triple<A, B, C> from a field, an alias target, a tuple-variant payload or a struct-variant member; every "
                  "non-last position leads equally often as the only mention of its type; every name a file refers to must be defined by "
                  "some file of the run and the Rust name of a renamed type spelled nowhere; model text compared as well"
                  % (NAMES, KINDS, PREFIXES, [s[0] for s in SHAPES], ["/".join(str(x) for x in l if x) for l in SV_LEADS], ARG_FORMS))
    cases = []
    n = 3000 if check.thorough else 1500
    for i in range(n):
        items = random_program(rng)
        for lang in LANGS:
            pfx = rng.choice(PREFIXES) if lang in ("kotlin", "swift") else ""
            cases.append({"items": items, "lang": lang, "pfx": pfx})
    if check.thorough:
        for kinds in itertools.product(SKELETON_KINDS, repeat=4):
            for renamed in itertools.product([0, 1], repeat=5):
                items = skeleton_program(kinds, renamed)
                for lang in LANGS:
                    cases.append({"items": items, "lang": lang, "pfx": "OP" if lang in ("kotlin", "swift") else "", "skeleton": True})
        check.exhaustive = True
        check.extra["exhaustive_part"] = ("all 5^4 kind assignments of the 5-item skeleton x all 2^5 rename subsets x 6 back ends "
                                          "(prefix OP for Swift/Kotlin) = %d generations" % (625 * 32 * 6))
    problems = []
    chunk = 6000
    for i in range(0, len(cases), chunk):
        problems += evaluate(check, cases[i:i + chunk])
        if problems:
            break
    for c in cases:
        if "expected" not in c:
            continue
        renamed_used = any(it["rename"] for it in c["items"])
        check.saw((c["lang"], c["pfx"], c["source"]), nontrivial=renamed_used)
        check.count(c["lang"])
        for k in classes_of(c):
            check.count("known:" + k)
            wit = {"lang": c["lang"], "prefix": c["pfx"], "source": c["source"],
                   "undefined_references": sorted(n for n, kk in c["expected"].items() if k in kk)}
            if not check.known(KNOWN_ID[k], wit):
                problems.append((c, "oracle", "%s output refers to undefined names %s (class %s is not listed in KNOWN_FINDINGS.txt)"
                                 % (c["lang"], wit["undefined_references"], k)))
        if not c["expected"]:
            check.count("consistent")
        if len(check.samples) < 4 and c["expected"] and rng.random() < 0.02:
            check.sample({"lang": c["lang"], "prefix": c["pfx"], "source": c["source"], "undefined_references": {k: sorted(v) for k, v in c["expected"].items()}})
    report(check, problems)
    replay_witnesses(check)
    if not check.has_failing():
        definition_shape_part(check)
    if not check.has_failing():
        struct_variant_members_part(check)
    if not check.has_failing():
        multi_part(check)
    if not check.has_failing():
        cross_crate_part(check)
    if not check.has_failing():
        argument_position_part(check)
        replay_glob_renamed(check)
    if not check.has_failing():
        odd_rename_part(check)
    if not check.has_failing():
        kotlin_import_part(check)
    if not check.has_failing():
        go_acronym_part(check)
    if not check.has_failing():
        variant_names_part(check)
    check.assumptions += [
        "scope of the theorems: single-file mode, no type mappings / type overrides / decorators, Go without uppercase_acronyms, "
        "consts excluded (the property text does not list const types; their types are not reconciled at all)",
        "names are compared as sets per output (a name that is both referred to consistently and inconsistently is caught through "
        "the byte-exact comparison with the model, whose reference list TsV.C09.refs is positional)"]
