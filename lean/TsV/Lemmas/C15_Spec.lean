import TsV.Model.Lang.TypeScript
import TsV.Model.Lang.Kotlin
import TsV.Model.Lang.Swift
import TsV.Model.Lang.Scala
import TsV.Model.Lang.Go
import TsV.Model.Lang.Python
import TsV.Model.Parser
/-!
# C15 — specification side (trusted definitions)

* the comment / docstring *lexers* of the six target languages (exactly the comment syntax, nothing
  else): `cStep` for the `//` … end-of-line, `/*` … `*/` family (TypeScript, Kotlin, Swift, Scala, Go)
  and `pyStep` for Python (`#` … end-of-line, short and triple-quoted strings with backslash escapes);
* *tagged text*: every character of a rendered comment block carries a flag "stems from the doc
  text" (`D`) or "written by the printer" (`P`); `renderT` is the tagged twin of each back end's
  comment renderer (`erase_renderT` in `Lemmas/C15.lean` proves that forgetting the tags gives
  exactly the model's renderer, `docChars_renderT` that the flagged characters are exactly the doc
  strings);
* `contained`: the lexer, started in `code`, is in a comment state before *and* after every flagged
  character, and is back in `code` at the end of the block;
* `Bad`: the decidable description of the strings that break containment when handed to a renderer
  (after the repairs: no string at all for TypeScript and for Python docstrings; a string with a
  line terminator of the target language for the line-comment renderers — which the parser never
  produces for `\n` / `\r`, see `Lemmas/C15.lean` section 8);
* `KnownScalaSub`: the residual class (Scala only: an entry containing U+001A).
-/
namespace TsV.C15
open TsV TsV.Lang

/-! ## tagged text -/

/-- text whose characters are flagged: `true` = stems from the doc text -/
abbrev TStr := List (Char × Bool)

/-- printer-written text -/
def P (s : Str) : TStr := s.map fun c => (c, false)
/-- doc text -/
def D (s : Str) : TStr := s.map fun c => (c, true)
/-- forget the flags -/
def erase (t : TStr) : Str := t.map Prod.fst
/-- the flagged characters, in order -/
def docChars (t : TStr) : Str := (t.filter Prod.snd).map Prod.fst

/-- `Str.intercalate` on tagged text -/
def tInter (sep : TStr) : List TStr → TStr
  | [] => []
  | [x] => x
  | x :: xs => x ++ sep ++ tInter sep xs

/-! ## running a lexer over tagged text -/

section run
variable {σ : Type} (step : σ → Char → σ) (inC : σ → Bool)

/-- the state after the text -/
def final : σ → TStr → σ
  | s, [] => s
  | s, (c, _) :: r => final (step s c) r

/-- every flagged character is consumed strictly inside a comment: the lexer is in a comment state
before it and still in a comment state after it -/
def okOn : σ → TStr → Bool
  | _, [] => true
  | s, (c, d) :: r => (!d || (inC s && inC (step s c))) && okOn (step s c) r

/-- started in `code`: all doc characters inside comments, and back in `code` at the end -/
def containedIn [DecidableEq σ] (code : σ) (t : TStr) : Bool :=
  okOn step inC code t && (final step code t == code)
end run

/-! ## the `//`, `/* */` family -/

inductive CSt where
  | code
  | slash                    -- a `/` seen in code
  | line                     -- inside `// …`
  | block (depth : Nat)      -- inside `/* … */` (`depth` enclosing comments, for nesting languages)
  | blockStar (depth : Nat)  -- … and the last character was `*`
  | blockSlash (depth : Nat) -- … and the last character was `/` (nesting languages only)
deriving DecidableEq, Repr

def CSt.inComment : CSt → Bool
  | .code | .slash => false
  | _ => true

structure CSyntax where
  /-- characters that end a line comment -/
  eol : Char → Bool
  /-- do block comments nest -/
  nest : Bool

def cStep (S : CSyntax) : CSt → Char → CSt
  | .code, c => if c = '/' then .slash else .code
  | .slash, c => if c = '/' then .line else if c = '*' then .block 0 else .code
  | .line, c => if S.eol c then .code else .line
  | .block d, c =>
    if c = '*' then .blockStar d else if S.nest && c == '/' then .blockSlash d else .block d
  | .blockStar d, c =>
    if c = '/' then (match d with | 0 => .code | d + 1 => .block d)
    else if c = '*' then .blockStar d else .block d
  | .blockSlash d, c =>
    if c = '*' then .block (d + 1) else if c = '/' then .blockSlash d else .block d

/-- ECMAScript: only `/** … */` is written, `*/` ends it, no nesting (line terminators of `//`
comments: LF, CR, LS, PS) -/
def tsSyntax : CSyntax :=
  { eol := fun c => c = '\n' || c = '\r' || c.toNat = 0x2028 || c.toNat = 0x2029, nest := false }
/-- Kotlin: `LineComment: '//' ~[\r\n]*`, block comments nest -/
def kotlinSyntax : CSyntax := { eol := fun c => c = '\n' || c = '\r', nest := true }
/-- Swift: a line comment runs to LF or CR, block comments nest -/
def swiftSyntax : CSyntax := { eol := fun c => c = '\n' || c = '\r', nest := true }
/-- Scala: `skipLineComment` stops at CR, LF and SU (U+001A), block comments nest -/
def scalaSyntax : CSyntax := { eol := fun c => c = '\n' || c = '\r' || c.toNat = 0x1A, nest := true }
/-- Go: a line comment runs to the next newline, no nesting -/
def goSyntax : CSyntax := { eol := fun c => c = '\n', nest := false }

/-! ## Python -/

inductive PSt where
  | code
  | hash                  -- inside `# …`
  | q1 (q : Char)         -- one quote seen in code
  | q2 (q : Char)         -- two quotes seen in code
  | short (q : Char)      -- inside `"…"` / `'…'`
  | shortEsc (q : Char)   -- … after a backslash
  | long (q : Char)       -- inside `"""…"""` / `'''…'''`
  | longEsc (q : Char)    -- … after a backslash
  | longQ1 (q : Char)     -- … one quote seen
  | longQ2 (q : Char)     -- … two quotes seen
deriving DecidableEq, Repr

/-- `#` comments and triple-quoted strings (the docstring syntax) -/
def PSt.inComment : PSt → Bool
  | .hash | .long _ | .longEsc _ | .longQ1 _ | .longQ2 _ => true
  | _ => false

/-- physical lines end at LF or CR -/
def pyEol (c : Char) : Bool := c = '\n' || c = '\r'

def pyFromCode (c : Char) : PSt :=
  if c = '#' then .hash else if c = '"' || c = '\'' then .q1 c else .code

def pyStep : PSt → Char → PSt
  | .code, c => pyFromCode c
  | .hash, c => if pyEol c then .code else .hash
  | .q1 q, c =>
    if c = q then .q2 q else if c = '\\' then .shortEsc q else if pyEol c then .code else .short q
  | .q2 q, c => if c = q then .long q else pyFromCode c
  | .short q, c =>
    if c = q then .code else if c = '\\' then .shortEsc q else if pyEol c then .code else .short q
  | .shortEsc q, _ => .short q
  | .long q, c => if c = q then .longQ1 q else if c = '\\' then .longEsc q else .long q
  | .longEsc q, _ => .long q
  | .longQ1 q, c => if c = q then .longQ2 q else if c = '\\' then .longEsc q else .long q
  | .longQ2 q, c => if c = q then .code else if c = '\\' then .longEsc q else .long q

/-! ## the seven comment renderers -/

/-- the comment renderers of the six back ends (Python has two) -/
inductive Style where
  | typescript | kotlin | swift | scala | go
  | pyDoc      -- Python `write_comments(is_docstring = true)`
  | pyHash     -- Python `write_comments(is_docstring = false)`
deriving DecidableEq, Repr

def Style.lang : Style → TsV.Lang
  | .typescript => .typescript | .kotlin => .kotlin | .swift => .swift | .scala => .scala | .go => .go
  | .pyDoc | .pyHash => .python

/-- the model's renderer (`indent`: tabs, for Python: levels of four blanks) -/
def render (sty : Style) (U : UnicodeOps) (indent : Nat) (cs : List Str) : Str :=
  match sty with
  | .typescript => TypeScript.comments indent cs
  | .kotlin => Kotlin.comments indent cs
  | .swift => Swift.comments U indent cs
  | .scala => Scala.comments indent cs
  | .go => Go.comments indent cs
  | .pyDoc => Python.docstring indent cs
  | .pyHash => Python.hashComments indent cs

/-- what the printer does to one doc string before writing it: TypeScript writes `*/` as `*\/`, the
Python docstring writer `\"\"\"` as `\\\"\\\"\\\"`, Swift strips trailing white space -/
def written (sty : Style) (U : UnicodeOps) (c : Str) : Str :=
  match sty with
  | .typescript => TypeScript.escapeDoc c
  | .swift => Swift.trimEnd U c
  | .pyDoc => Python.escapeDoc c
  | _ => c

/-- the same text with the origin of every character -/
def renderT (sty : Style) (U : UnicodeOps) (indent : Nat) (cs : List Str) : TStr :=
  match sty with
  | .typescript =>
    match cs with
    | [] => []
    | [c] => P (tabs indent ++ s%"/** ") ++ D (TypeScript.escapeDoc c) ++ P (s%" */" ++ nl)
    | _ =>
      P (tabs indent ++ s%"/**\n" ++ tabs indent ++ s%" * ") ++
        tInter (P (nl ++ tabs indent ++ s%" * ")) (cs.map fun c => D (TypeScript.escapeDoc c)) ++
        P (nl ++ tabs indent ++ s%" */" ++ nl)
  | .kotlin => cs.flatMap fun c => P (tabs indent ++ s%"/// ") ++ D c ++ P nl
  | .swift => cs.flatMap fun c => P (tabs indent ++ s%"/// ") ++ D (Swift.trimEnd U c) ++ P nl
  | .scala => cs.flatMap fun c => P (tabs indent ++ s%"// ") ++ D c ++ P nl
  | .go => cs.flatMap fun c => P (tabs indent ++ s%"// ") ++ D c ++ P nl
  | .pyDoc =>
    if cs.isEmpty then [] else
    P (Python.indent indent ++ s%"\"\"\"\n") ++
      tInter (P nl) (cs.map fun c => P (Python.indent indent) ++ D (Python.escapeDoc c)) ++
      P (nl ++ Python.indent indent ++ s%"\"\"\"" ++ nl)
  | .pyHash =>
    if cs.isEmpty then [] else
    tInter (P nl) (cs.map fun c => P (Python.indent indent ++ s%"# ") ++ D c) ++ P nl

/-- is the comment block lexed as the printer intends: all doc text inside comments / docstrings,
the block closed at its end -/
def contained (sty : Style) (U : UnicodeOps) (indent : Nat) (cs : List Str) : Bool :=
  match sty with
  | .typescript => containedIn (cStep tsSyntax) CSt.inComment .code (renderT .typescript U indent cs)
  | .kotlin => containedIn (cStep kotlinSyntax) CSt.inComment .code (renderT .kotlin U indent cs)
  | .swift => containedIn (cStep swiftSyntax) CSt.inComment .code (renderT .swift U indent cs)
  | .scala => containedIn (cStep scalaSyntax) CSt.inComment .code (renderT .scala U indent cs)
  | .go => containedIn (cStep goSyntax) CSt.inComment .code (renderT .go U indent cs)
  | .pyDoc => containedIn pyStep PSt.inComment .code (renderT .pyDoc U indent cs)
  | .pyHash => containedIn pyStep PSt.inComment .code (renderT .pyHash U indent cs)

/-! ## the doc strings that break out -/

/-- some position that is not under a backslash escape starts `"""` (`esc`: the previous character
was an unescaped backslash) -/
def unescapedTripleQuote : Bool → Str → Bool
  | _, [] => false
  | true, _ :: rest => unescapedTripleQuote false rest
  | false, c :: rest =>
    if c = '\\' then unescapedTripleQuote true rest
    else Str.startsWith (c :: rest) s%"\"\"\"" || unescapedTripleQuote false rest

/-- the strings that are *not* carried inside the comment when a renderer is handed them, in terms
of the text the printer writes for them (`written`):
* line-comment back ends (Kotlin, Swift `///`; Scala, Go `//`; Python `#`): the written string
  contains a character that ends a line comment of that language;
* TypeScript: the written string contains `*/` (line breaks are harmless inside `/** */`) — never,
  `Bad_typescript`;
* Python docstrings: the written string contains an unescaped `"""` (a trailing `"` or `\` is
  harmless, because the printer puts the closing `"""` on a line of its own) — never, `Bad_pyDoc`. -/
def Bad (sty : Style) (U : UnicodeOps) (c : Str) : Bool :=
  match sty with
  | .typescript => Str.containsSub (TypeScript.escapeDoc c) s%"*/"
  | .kotlin => c.any kotlinSyntax.eol
  | .swift => (Swift.trimEnd U c).any swiftSyntax.eol
  | .scala => c.any scalaSyntax.eol
  | .go => c.any goSyntax.eol
  | .pyDoc => unescapedTripleQuote false (Python.escapeDoc c)
  | .pyHash => c.any pyEol

/-! ## from the `#[doc]` strings of an item to the comment block -/

/-- the comment entries the parser makes of the `#[doc = ".."]` strings of one item
(`parse_comment_attrs`: each string trimmed, split at `\n`, `\r\n`, lone `\r`, each line trimmed) -/
abbrev entries (U : UnicodeOps) (docs : List Str) : List Str := Parser.docEntries U docs

/-- U+001A (SUB): Scala's scanner ends a `//` comment there (it is its end-of-input marker) -/
def isSub (c : Char) : Bool := c.toNat = 0x1A

/-- the residual class: the Scala renderer, and some comment entry contains U+001A -/
def KnownScalaSub (sty : Style) (U : UnicodeOps) (docs : List Str) : Bool :=
  sty == .scala && (entries U docs).any fun e => e.any isSub

end TsV.C15
