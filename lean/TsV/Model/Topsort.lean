import TsV.Model.Str
/-!
# Model of `core/src/topsort.rs`: `toposort_impl` and `sort_by_indices`

`processed` and `res` are always pushed together in the Rust code, so the model keeps one list.
`none` = an index panic (`graph[d]`, `indices[i]`, `data.swap`) or fuel exhausted; the theorems
show neither happens on graphs / index vectors whose entries are in range.
-/
namespace TsV.Topsort

structure TS where
  res : List Nat
  seen : List Nat
deriving Repr

/-- `toposort_impl::inner`.  The first argument is recursion-depth fuel. -/
def inner (graph : List (List Nat)) : Nat → List Nat → TS → Option TS
  | 0, _, _ => none
  | _, [], st => some st
  | fuel+1, d :: rest, st =>
    if st.res.contains d then inner graph (fuel+1) rest st
    else if st.seen.contains d then some st          -- cycle: `return`
    else
      match graph[d]? with
      | none => none                                   -- `graph[*dependant]` out of range
      | some deps =>
        match inner graph fuel deps { st with seen := st.seen ++ [d] } with
        | none => none
        | some st1 =>
          inner graph (fuel+1) rest { res := st1.res ++ [d], seen := st1.seen.erase d }
termination_by fuel nodes _ => (fuel, nodes.length)

/-- `toposort_impl` -/
def toposort (graph : List (List Nat)) : Option (List Nat) :=
  (inner graph (graph.length + 1) (List.range graph.length) ⟨[], []⟩).map (·.res)

/-- every adjacency entry is a node -/
def wfGraph (g : List (List Nat)) : Bool := g.all fun deps => deps.all fun d => d < g.length

/-- `slice::swap`; `none` if out of bounds -/
def swap {α} (l : List α) (i j : Nat) : Option (List α) :=
  match l[i]?, l[j]? with
  | some a, some b => some ((l.set i b).set j a)
  | _, _ => none

/-- the inner `loop` of `sort_by_indices` -/
def cycleLoop {α} : Nat → List α → List Nat → Nat → Option (List α × List Nat)
  | 0, _, _, _ => none
  | fuel+1, data, ind, cur =>
    match ind[cur]? with
    | none => none
    | some target =>
      let ind' := ind.set cur cur
      match ind'[target]? with
      | none => none
      | some t2 =>
        if t2 == target then some (data, ind')
        else
          match swap data cur target with
          | none => none
          | some data' => cycleLoop fuel data' ind' target

/-- the outer `for idx in 0..data.len()` -/
def outerLoop {α} : List Nat → List α → List Nat → Option (List α × List Nat)
  | [], data, ind => some (data, ind)
  | idx :: rest, data, ind =>
    match ind[idx]? with
    | none => none
    | some v =>
      if v != idx then
        match cycleLoop (data.length + 1) data ind idx with
        | none => none
        | some (data', ind') => outerLoop rest data' ind'
      else outerLoop rest data ind

/-- `sort_by_indices` -/
def sortByIndices {α} (data : List α) (indices : List Nat) : Option (List α) :=
  (outerLoop (List.range data.length) data indices).map (·.1)

end TsV.Topsort
