import TsV.Model.Parser
import TsV.Lemmas.Outcome
/-!
# C04, source side: what "the Rust field is `Option<T>` or carries bare `serde(default)`" means,
and the proof that the parser model computes exactly that.

Specification (written independently of the parser model):

* `bareDefault attrs` — some attribute is a well-formed `serde(…)` list that has the *bare path*
  `default` among its arguments (any attribute position, merged with any other serde arguments;
  `default = "path"` is a name-value, not a bare path, and does not count).
* `isOptionSyn t` / `isDoubleOptionSyn t` — after erasing references and the eleven transparent
  smart pointers at the top of the written type, the type is `Option<_>` / `Option<Option<_>>`
  (the inner `Option` again looked at through references and smart pointers).
-/
namespace TsV.C04
open TsV TsV.Syn TsV.Parser TsV.RustTypes

/-! ## the specification -/

def kDefault : Str := s%"default"

/-- the argument is the bare path `default` -/
def isBareDefaultArg : Meta → Bool
  | .path segs => segs == [kDefault]
  | _ => false

/-- the attribute is `#[serde(…, default, …)]` -/
def attrBareDefault (a : Attr) : Bool :=
  match a.val with
  | .list segs true args => segs == [kSerde] && args.any isBareDefaultArg
  | _ => false

/-- **the field carries the bare `serde(default)` attribute** -/
def bareDefault (attrs : List Attr) : Bool := attrs.any attrBareDefault

/-- the same, spelled as a proposition over the `syn::Meta` structure -/
theorem bareDefault_iff (attrs : List Attr) :
    bareDefault attrs = true ↔
      ∃ a ∈ attrs, ∃ args, a.val = .list [kSerde] true args ∧ Meta.path [kDefault] ∈ args := by
  simp only [bareDefault, List.any_eq_true]
  constructor
  · rintro ⟨a, ha, h⟩
    refine ⟨a, ha, ?_⟩
    unfold attrBareDefault at h
    split at h
    · rename_i segs args hv
      simp only [Bool.and_eq_true, beq_iff_eq, List.any_eq_true] at h
      obtain ⟨hs, m, hm, hb⟩ := h
      refine ⟨args, by rw [hv, hs], ?_⟩
      cases m with
      | path s =>
        simp only [isBareDefaultArg, beq_iff_eq] at hb
        subst hb; exact hm
      | nameValue s v => simp [isBareDefaultArg] at hb
      | list s p as => simp [isBareDefaultArg] at hb
    · simp at h
  · rintro ⟨a, ha, args, hv, hm⟩
    refine ⟨a, ha, ?_⟩
    unfold attrBareDefault
    rw [hv]
    simp only [beq_self_eq_true, Bool.true_and, List.any_eq_true]
    exact ⟨_, hm, by simp [isBareDefaultArg]⟩

mutual
  /-- erase references and transparent smart pointers (`Box<T>`, `Arc<T>`, … stand for their first
  type argument) at the top of a written type -/
  def peel : SynType → SynType
    | .reference e => peel e
    | .path q last args =>
      if smartPointers.contains last then peelHead (.path q last args) args else .path q last args
    | .tuple es => .tuple es
    | .array e n => .array e n
    | .slice e => .slice e
    | .other => .other
  def peelHead (dflt : SynType) : List SynType → SynType
    | [] => dflt
    | a :: _ => peel a
end

def kOption : Str := s%"Option"

/-- **the written type is `Option<_>`** (through references and smart pointers) -/
def isOptionSyn (t : SynType) : Bool :=
  match peel t with
  | .path _ last (_ :: _) => last == kOption
  | _ => false

/-- **the written type is `Option<Option<_>>`** -/
def isDoubleOptionSyn (t : SynType) : Bool :=
  match peel t with
  | .path _ last (a :: _) => last == kOption && isOptionSyn a
  | _ => false

/-- the type a field / payload / alias is generated from: the `serialized_as` string if present
(as `syn` parses it), else the written type -/
def effectiveType (E : Ext) (attrs : List Attr) (ty : SynType) : Option SynType :=
  match getSerializedAsType E attrs with
  | some s => E.parseType s
  | none => some ty

/-! ## `serde_default` is exactly `bareDefault` -/

theorem hasPathArg_serde_default (a : Attr) :
    hasPathArg a kSerde s%"default" = attrBareDefault a := by
  unfold hasPathArg getMetaItems attrBareDefault
  cases hv : a.val with
  | path s => simp
  | nameValue s v => simp
  | list segs parsed args =>
    cases parsed with
    | false => simp
    | true =>
      by_cases hs : (segs == [kSerde]) = true
      · simp only [hs, if_true, Bool.true_and]
        congr 1
      · simp only [hs, Bool.false_eq_true, if_false, List.any_nil]
        simp

/-- **`Parser.serdeDefault` (model of `serde_default`, parser.rs:728) is the specification** -/
theorem serdeDefault_eq (attrs : List Attr) : serdeDefault attrs = bareDefault attrs := by
  unfold serdeDefault serdeAttr bareDefault
  congr 1
  funext a
  exact hasPathArg_serde_default a

/-! ## transparency of references and smart pointers in `RustType::try_from` -/

theorem tryFrom_reference (e : SynType) : tryFrom (.reference e) = tryFrom e := by
  simp [tryFrom]

theorem fromPath_smart (sp : Str) (h : sp ∈ smartPointers) (p : RustType) (ps : List RustType) :
    fromPath sp (p :: ps) = .ok p := by
  simp only [smartPointers, List.mem_cons, List.not_mem_nil, or_false] at h
  rcases h with rfl | rfl | rfl | rfl | rfl | rfl | rfl | rfl | rfl | rfl | rfl <;>
    simp [fromPath, smartPointers] <;> decide

/-- `Box<X>` (… `RwLock<X>`) parses to exactly what `X` parses to -/
theorem tryFrom_smart (q : List Str) (sp : Str) (h : sp ∈ smartPointers) (a : SynType) :
    tryFrom (.path q sp [a]) = tryFrom a := by
  simp only [tryFrom, tryFromList]
  cases tryFrom a with
  | ok p => simp [fromPath_smart sp h]
  | err e => rfl
  | panic s => rfl

/-- e.g. `Box<Option<T>>` and `Option<T>` are the same `RustType` -/
theorem tryFrom_box_option (t : SynType) :
    tryFrom (.path [] s%"Box" [.path [] s%"Option" [t]]) = tryFrom (.path [] s%"Option" [t]) :=
  tryFrom_smart [] _ (by decide) _

theorem tryFromList_cons_ok {a : SynType} {as : List SynType} {ps : List RustType}
    (h : tryFromList (a :: as) = .ok ps) :
    ∃ p rest, tryFrom a = .ok p ∧ tryFromList as = .ok rest ∧ ps = p :: rest := by
  simp only [tryFromList] at h
  cases ha : tryFrom a with
  | ok p =>
    rw [ha] at h
    cases hl : tryFromList as with
    | ok rest => rw [hl] at h; simp at h; exact ⟨p, rest, rfl, rfl, h.symm⟩
    | err e => rw [hl] at h; simp at h
    | panic s => rw [hl] at h; simp at h
  | err e => rw [ha] at h; simp at h
  | panic s => rw [ha] at h; simp at h

theorem tryFromList_nil_ok {ps : List RustType} (h : tryFromList [] = .ok ps) : ps = [] := by
  simp [tryFromList] at h; exact h

/-- what `fromPath` can return, by the identifier -/
theorem fromPath_cases (id : Str) (ps : List RustType) (r : RustType) (h : fromPath id ps = .ok r) :
    (id = kOption ∧ ∃ p rest, ps = p :: rest ∧ r = .option p) ∨
    (id ∈ smartPointers ∧ ∃ p rest, ps = p :: rest ∧ r = p) ∨
    (id ≠ kOption ∧ id ∉ smartPointers ∧ r.isOptional = false) := by
  unfold fromPath at h
  by_cases h1 : id = s%"Vec"
  · right; right
    subst h1
    refine ⟨by decide, by decide, ?_⟩
    cases ps with
    | nil => simp at h
    | cons p _ => simp at h; subst h; rfl
  · simp only [h1, if_false] at h
    by_cases h2 : id = s%"Option"
    · left
      refine ⟨h2, ?_⟩
      simp only [h2, if_true] at h
      cases ps with
      | nil => simp at h
      | cons p rest => simp at h; exact ⟨p, rest, rfl, h.symm⟩
    · simp only [h2, if_false] at h
      by_cases h3 : id = s%"HashMap"
      · right; right
        subst h3
        refine ⟨by decide, by decide, ?_⟩
        simp only [if_true] at h
        match ps, h with
        | k :: v :: _, h => simp at h; subst h; rfl
      · simp only [h3, if_false] at h
        by_cases h4 : smartPointers.contains id = true
        · right; left
          refine ⟨by simpa using h4, ?_⟩
          simp only [h4, if_true] at h
          cases ps with
          | nil => simp at h
          | cons p rest => simp at h; exact ⟨p, rest, rfl, h.symm⟩
        · right; right
          refine ⟨h2, by simpa using h4, ?_⟩
          simp only [h4, Bool.false_eq_true, if_false] at h
          by_cases h5 : id ∈ unsupported64
          · simp [h5] at h
          · simp only [List.elem_eq_mem, decide_eq_true_eq, h5, if_false] at h
            cases hl : primTable.lookup id with
            | some p => rw [hl] at h; simp at h; subst h; rfl
            | none =>
              rw [hl] at h
              simp only at h
              split at h <;> (simp at h; subst h; rfl)

theorem peel_path_not_smart (q : List Str) (last : Str) (args : List SynType)
    (h : last ∉ smartPointers) : peel (.path q last args) = .path q last args := by
  simp [peel, h]

theorem peel_path_smart (q : List Str) (last : Str) (a : SynType) (as : List SynType)
    (h : last ∈ smartPointers) : peel (.path q last (a :: as)) = peel a := by
  simp [peel, peelHead, h]

theorem isOptionSyn_reference (e : SynType) : isOptionSyn (.reference e) = isOptionSyn e := by
  simp [isOptionSyn, peel]

theorem isDoubleOptionSyn_reference (e : SynType) :
    isDoubleOptionSyn (.reference e) = isDoubleOptionSyn e := by
  simp [isDoubleOptionSyn, peel]

/-- **`RustType::is_optional` of the parsed type ⇔ the written type is `Option<_>` after
references and smart pointers are erased** -/
theorem isOptional_spec : ∀ (t : SynType) (r : RustType), tryFrom t = .ok r →
    r.isOptional = isOptionSyn t
  | .reference e, r, h => by
    rw [tryFrom_reference] at h
    rw [isOptionSyn_reference]
    exact isOptional_spec e r h
  | .path q last args, r, h => by
    simp only [tryFrom] at h
    cases hl : tryFromList args with
    | err e => rw [hl] at h; simp at h
    | panic s => rw [hl] at h; simp at h
    | ok ps =>
      rw [hl] at h
      simp only at h
      rcases fromPath_cases last ps r h with ⟨hid, p, rest, hps, hr⟩ | ⟨hsp, p, rest, hps, hr⟩ | ⟨hno, hns, hr⟩
      · subst hps hr hid
        have hns : kOption ∉ smartPointers := by decide
        cases args with
        | nil => simp [tryFromList] at hl
        | cons a as => simp [isOptionSyn, peel_path_not_smart _ _ _ hns, RustType.isOptional]
      · subst hps hr
        cases args with
        | nil => simp [tryFromList] at hl
        | cons a as =>
          obtain ⟨p', rest', ha, _, hpp⟩ := tryFromList_cons_ok hl
          simp only [List.cons.injEq] at hpp
          obtain ⟨rfl, _⟩ := hpp
          have := isOptional_spec a r ha
          simp only [isOptionSyn, peel_path_smart _ _ _ _ hsp]
          simpa [isOptionSyn] using this
      · rw [hr]
        simp only [isOptionSyn, peel_path_not_smart _ _ _ hns]
        cases args with
        | nil => rfl
        | cons a as =>
          have : (last == kOption) = false := by simpa using hno
          simp [this]
  | .tuple es, r, h => by
    cases es with
    | nil => simp [tryFrom] at h; subst h; simp [isOptionSyn, peel, RustType.isOptional]
    | cons e es => simp [tryFrom] at h
  | .array e n, r, h => by
    simp only [tryFrom] at h
    cases he : tryFrom e with
    | ok t =>
      rw [he] at h
      cases n with
      | none => simp at h
      | some n =>
        simp only at h
        split at h
        · simp at h; subst h; simp [isOptionSyn, peel, RustType.isOptional]
        · simp at h
    | err er => rw [he] at h; cases n <;> simp at h
    | panic s => rw [he] at h; cases n <;> simp at h
  | .slice e, r, h => by
    simp only [tryFrom] at h
    cases he : tryFrom e with
    | ok t => rw [he] at h; simp at h; subst h; simp [isOptionSyn, peel, RustType.isOptional]
    | err er => rw [he] at h; simp at h
    | panic s => rw [he] at h; simp at h
  | .other, r, h => by simp [tryFrom] at h

/-- **`RustType::is_double_optional` ⇔ the written type is `Option<Option<_>>`** -/
theorem isDoubleOptional_spec : ∀ (t : SynType) (r : RustType), tryFrom t = .ok r →
    r.isDoubleOptional = isDoubleOptionSyn t
  | .reference e, r, h => by
    rw [tryFrom_reference] at h
    rw [isDoubleOptionSyn_reference]
    exact isDoubleOptional_spec e r h
  | .path q last args, r, h => by
    simp only [tryFrom] at h
    cases hl : tryFromList args with
    | err e => rw [hl] at h; simp at h
    | panic s => rw [hl] at h; simp at h
    | ok ps =>
      rw [hl] at h
      simp only at h
      rcases fromPath_cases last ps r h with ⟨hid, p, rest, hps, hr⟩ | ⟨hsp, p, rest, hps, hr⟩ | ⟨hno, hns, hr⟩
      · subst hps hr hid
        have hns : kOption ∉ smartPointers := by decide
        cases args with
        | nil => simp [tryFromList] at hl
        | cons a as =>
          obtain ⟨p', rest', ha, _, hpp⟩ := tryFromList_cons_ok hl
          simp only [List.cons.injEq] at hpp
          obtain ⟨rfl, _⟩ := hpp
          have := isOptional_spec a p ha
          simp only [isDoubleOptionSyn, peel_path_not_smart _ _ _ hns, beq_self_eq_true, Bool.true_and]
          rw [← this]
          cases p <;> rfl
      · subst hps hr
        cases args with
        | nil => simp [tryFromList] at hl
        | cons a as =>
          obtain ⟨p', rest', ha, _, hpp⟩ := tryFromList_cons_ok hl
          simp only [List.cons.injEq] at hpp
          obtain ⟨rfl, _⟩ := hpp
          have := isDoubleOptional_spec a r ha
          simp only [isDoubleOptionSyn, peel_path_smart _ _ _ _ hsp]
          simpa [isDoubleOptionSyn] using this
      · have h1 : r.isDoubleOptional = false := by
          cases r <;> simp_all [RustType.isOptional, RustType.isDoubleOptional]
        rw [h1]
        simp only [isDoubleOptionSyn, peel_path_not_smart _ _ _ hns]
        cases args with
        | nil => rfl
        | cons a as =>
          have : (last == kOption) = false := by simpa using hno
          simp [this]
  | .tuple es, r, h => by
    cases es with
    | nil => simp [tryFrom] at h; subst h; simp [isDoubleOptionSyn, peel, RustType.isDoubleOptional]
    | cons e es => simp [tryFrom] at h
  | .array e n, r, h => by
    simp only [tryFrom] at h
    cases he : tryFrom e with
    | ok t =>
      rw [he] at h
      cases n with
      | none => simp at h
      | some n =>
        simp only at h
        split at h
        · simp at h; subst h; simp [isDoubleOptionSyn, peel, RustType.isDoubleOptional]
        · simp at h
    | err er => rw [he] at h; cases n <;> simp at h
    | panic s => rw [he] at h; cases n <;> simp at h
  | .slice e, r, h => by
    simp only [tryFrom] at h
    cases he : tryFrom e with
    | ok t => rw [he] at h; simp at h; subst h; simp [isDoubleOptionSyn, peel, RustType.isDoubleOptional]
    | err er => rw [he] at h; simp at h
    | panic s => rw [he] at h; simp at h
  | .other, r, h => by simp [tryFrom] at h

/-! ## the parser's fields, payloads and aliases -/

/-- every type the parser attaches to a field, a newtype payload, a newtype struct or an alias
comes from `fieldType`, i.e. from `try_from` of the effective type -/
theorem fieldType_spec (E : Ext) (attrs : List Attr) (ty : SynType) (r : RustType)
    (h : fieldType E attrs ty = .ok r) :
    ∃ t, effectiveType E attrs ty = some t ∧ tryFrom t = .ok r := by
  unfold fieldType at h
  unfold effectiveType
  cases hs : getSerializedAsType E attrs with
  | none => rw [hs] at h; exact ⟨ty, rfl, h⟩
  | some s =>
    rw [hs] at h
    simp only [fromStr] at h
    cases hp : E.parseType s with
    | none => rw [hp] at h; simp at h
    | some t => rw [hp] at h; exact ⟨t, hp, h⟩

theorem parseField_ok (E : Ext) (cf : Bool) (ra : Option Str) (f : Field) (rf : RustField)
    (h : parseField E cf ra f = .ok rf) :
    rf.hasDefault = serdeDefault f.attrs ∧ fieldType E f.attrs f.ty = .ok rf.ty := by
  unfold parseField at h
  obtain ⟨ty, hty, h⟩ := (Outcome.bind_eq_ok _ _ _).1 h
  split at h
  · simp at h
  · obtain ⟨id, _, h⟩ := (Outcome.bind_eq_ok _ _ _).1 h
    simp only [Outcome.pure_eq_ok, Outcome.ok.injEq] at h
    subst h
    exact ⟨rfl, hty⟩

theorem mkAlias_ok {E : Ext} {ident : Str} {attrs : List Attr} {gens : List GenericParam} {ty : RustType}
    {it : RustItem} (h : mkAlias E ident attrs gens ty = .ok it) : ∃ a, it = .alias a ∧ a.ty = ty := by
  unfold mkAlias at h
  obtain ⟨id, _, h⟩ := (Outcome.bind_eq_ok _ _ _).1 h
  simp only [Outcome.pure_eq_ok, Outcome.ok.injEq] at h
  exact ⟨_, h.symm, rfl⟩

/-- `type X = …`: the alias' type comes from `fieldType` -/
theorem parseTypeAlias_ok {E : Ext} {attrs : List Attr} {ident : Str} {gens : List GenericParam}
    {ty : SynType} {it : RustItem} (h : parseTypeAlias E attrs ident gens ty = .ok it) :
    ∃ a, it = .alias a ∧ fieldType E attrs ty = .ok a.ty := by
  unfold parseTypeAlias at h
  obtain ⟨t, ht, h⟩ := (Outcome.bind_eq_ok _ _ _).1 h
  obtain ⟨a, ha, hty⟩ := mkAlias_ok h
  exact ⟨a, ha, by rw [hty]; exact ht⟩

/-- newtype struct `struct X(T);`: an alias whose type comes from `fieldType` of the one field -/
theorem parseStruct_newtype_ok {E : Ext} {tos : List Str} {attrs : List Attr} {ident : Str}
    {gens : List GenericParam} {f : Field} {it : RustItem}
    (hs : getSerializedAsType E attrs = none)
    (h : parseStruct E tos attrs ident gens (.unnamed [f]) = .ok it) :
    ∃ a, it = .alias a ∧ fieldType E f.attrs f.ty = .ok a.ty := by
  unfold parseStruct at h
  rw [hs] at h
  simp only [List.length_cons, List.length_nil, Nat.zero_add, Nat.lt_irrefl, if_false] at h
  obtain ⟨t, ht, h⟩ := (Outcome.bind_eq_ok _ _ _).1 h
  obtain ⟨a, ha, hty⟩ := mkAlias_ok h
  exact ⟨a, ha, by rw [hty]; exact ht⟩

/-- newtype variant `V(T)`: the payload type comes from `fieldType` of the one field (its
attributes other than `serialized_as` — e.g. `serde(default)` — are not looked at) -/
theorem parseEnumVariant_newtype_ok {E : Ext} {tos : List Str} {ra : Option Str} {attrs : List Attr}
    {ident : Str} {f : Field} {rv : RustEnumVariant}
    (h : parseEnumVariant E tos ra ⟨attrs, ident, .unnamed [f]⟩ = .ok rv) :
    ∃ id cs ty, rv = .tuple id cs ty ∧ fieldType E f.attrs f.ty = .ok ty := by
  unfold parseEnumVariant at h
  obtain ⟨id, _, h⟩ := (Outcome.bind_eq_ok _ _ _).1 h
  simp only [List.length_cons, List.length_nil, Nat.zero_add, Nat.lt_irrefl, if_false] at h
  obtain ⟨t, ht, h⟩ := (Outcome.bind_eq_ok _ _ _).1 h
  simp only [Outcome.pure_eq_ok, Outcome.ok.injEq] at h
  exact ⟨_, _, t, h.symm, ht⟩

end TsV.C04
