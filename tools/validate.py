import json, sys, glob
import jsonschema
jsonschema.validate(json.load(open('/verif/MANIFEST.json')), json.load(open('/root/.vp/MANIFEST.schema.json')))
print('manifest ok')
for f in sorted(glob.glob('/verif/evidence/*.json')):
    jsonschema.validate(json.load(open(f)), json.load(open('/root/.vp/EVIDENCE.schema.json')))
    print('ok', f)
