import TsV.Model.Lang.TypeScript
import TsV.Lemmas.C04_Common
/-!
# C04 for the TypeScript back end (`write_field`, typescript.rs:337-364)
-/
namespace TsV.C04.Ts
open TsV TsV.Lang TsV.Lang.TypeScript TsV.C04

/-! ## binding semantics (trusted specification)

TypeScript's idiom is the optional property `name?: T`; `Option<Option<T>>` additionally gets
` | null` after the type.  Both are explicit fields of the fact record. -/

def isOptional (f : TsField) : Bool := f.optional
def stripOptional (f : TsField) : Str := f.ty
def orNull (f : TsField) : Bool := f.orNull

/-- the rendering of the two markers (by definition of `renderField`) -/
theorem renderField_eq (f : TsField) :
    renderField f = comments 1 f.comments ++ s%"\t" ++ (if f.readonly then s%"readonly " else []) ++ f.name ++
      (if isOptional f then s%"?" else []) ++ s%": " ++ stripOptional f ++
      (if orNull f then s%" | null" else []) ++ s%";\n" := rfl

/-! ## `format_type` erases `Option` -/

theorem formatType_option {cfg : Cfg} {gens : List Str} {r : RustType} (st : CustomMap)
    (h : NoOptionKey cfg.typeMappings (.option r)) :
    formatType cfg gens (.option r) st = formatType cfg gens r st := by
  have h' : mapGet cfg.typeMappings (RustType.option r).display = none := h rfl
  rw [formatType]
  simp [special, h']

theorem formatType_strip {cfg : Cfg} {gens : List Str} {t : RustType} (st : CustomMap)
    (h : NoOptionKey cfg.typeMappings t) :
    formatType cfg gens t st = formatType cfg gens (stripOption t) st := by
  cases t with
  | option r => exact formatType_option st h
  | _ => rfl

/-! ## one field -/

theorem fieldFacts_ok {cfg : Cfg} {gens : List Str} {f : RustField} {st st' : CustomMap} {tf : TsField}
    (h : fieldFacts cfg gens f st = .ok (tf, st')) :
    tf.optional = opt f ∧ tf.orNull = f.ty.isDoubleOptional ∧
    (match typeOverride f .typescript with
     | some t => tf.ty = t
     | none => ∃ st1, formatType cfg gens f.ty st = .ok (tf.ty, st1)) := by
  unfold fieldFacts at h
  obtain ⟨⟨ty, st1⟩, hty, h⟩ := bind_ok h
  simp only [Outcome.ok.injEq, Prod.mk.injEq] at h
  obtain ⟨h1, _⟩ := h
  subst h1
  refine ⟨rfl, rfl, ?_⟩
  cases ho : typeOverride f .typescript with
  | some t => rw [ho] at hty; simp at hty; simp [hty.1]
  | none => rw [ho] at hty; exact ⟨st1, hty⟩

/-- **TypeScript, one field**: `?` exactly when the field is `Option<_>` or has
`serde(default)` (with or without a type override); ` | null` exactly for `Option<Option<_>>`;
and the type is the translation of the `Option`-stripped Rust type -/
theorem field {cfg : Cfg} {gens : List Str} {f : RustField} {st st' : CustomMap} {tf : TsField}
    (h : fieldFacts cfg gens f st = .ok (tf, st')) :
    isOptional tf = opt f ∧ orNull tf = f.ty.isDoubleOptional ∧
    (typeOverride f .typescript = none → NoOptionKey cfg.typeMappings f.ty →
      ∃ st1, formatType cfg gens (stripOption f.ty) st = .ok (stripOptional tf, st1)) := by
  obtain ⟨h1, h2, h3⟩ := fieldFacts_ok h
  refine ⟨h1, h2, ?_⟩
  intro hov hk
  rw [hov] at h3
  obtain ⟨st1, h3⟩ := h3
  rw [formatType_strip st hk] at h3
  exact ⟨st1, h3⟩

/-- with a `typescript(type = "t")` override the text replaces the type; the markers stay -/
theorem field_override {cfg : Cfg} {gens : List Str} {f : RustField} {st st' : CustomMap} {tf : TsField} {t : Str}
    (hov : typeOverride f .typescript = some t) (h : fieldFacts cfg gens f st = .ok (tf, st')) :
    stripOptional tf = t ∧ isOptional tf = opt f := by
  obtain ⟨h1, _, h3⟩ := fieldFacts_ok h
  rw [hov] at h3
  exact ⟨h3, h1⟩

/-! ## every field of a struct, of a struct variant; payloads; aliases -/

def FieldGen (cfg : Cfg) (gens : List Str) (f : RustField) (tf : TsField) : Prop :=
  ∃ st st', fieldFacts cfg gens f st = .ok (tf, st')

theorem writeFields_pointwise (cfg : Cfg) (gens : List Str) :
    ∀ (fs : List RustField) (st : CustomMap) (body : Str) (st' : CustomMap),
      writeFields cfg gens fs st = .ok (body, st') →
      ∃ tfs, Pointwise (FieldGen cfg gens) fs tfs ∧ body = tfs.flatMap renderField := by
  intro fs
  induction fs with
  | nil =>
    intro st body st' h
    simp [writeFields] at h
    exact ⟨[], .nil, by simp [h.1]⟩
  | cons f t ih =>
    intro st body st' h
    simp only [writeFields] at h
    obtain ⟨⟨tf, st1⟩, htf, h⟩ := bind_ok h
    obtain ⟨⟨rest, st2⟩, hrest, h⟩ := bind_ok h
    simp only [Outcome.ok.injEq, Prod.mk.injEq] at h
    obtain ⟨tfs, hpw, hb⟩ := ih _ _ _ hrest
    exact ⟨tf :: tfs, .cons ⟨st, st1, htf⟩ hpw, by simp [← h.1, hb]⟩

/-- **every field of every struct**: the interface body is the rendering of one property per
field, in order -/
theorem struct_fields {cfg : Cfg} {rs : RustStruct} {st st' : CustomMap} {text : Str}
    (h : writeStruct cfg rs st = .ok (text, st')) :
    ∃ tfs, Pointwise (FieldGen cfg rs.genericTypes) rs.fields tfs ∧
      text = comments 0 rs.comments ++ s%"export interface " ++ rs.id.renamed ++ genericSuffix rs.genericTypes ++
        s%" {\n" ++ tfs.flatMap renderField ++ s%"}\n\n" := by
  unfold writeStruct at h
  obtain ⟨⟨body, st1⟩, hb, h⟩ := bind_ok h
  simp only [Outcome.ok.injEq, Prod.mk.injEq] at h
  obtain ⟨tfs, hpw, hbody⟩ := writeFields_pointwise _ _ _ _ _ _ hb
  exact ⟨tfs, hpw, by rw [← h.1, hbody]⟩

/-- **every field of every struct variant**: the properties are written inline under the content
key, one per field, in order -/
theorem variant_fields {cfg : Cfg} {e : RustEnum} {tag content : Str} {id : Id} {cs : List Str}
    {fs : List RustField} {st st' : CustomMap} {text : Str}
    (h : writeVariant cfg e tag content (.anonymousStruct id cs fs) st = .ok (text, st')) :
    ∃ tfs, Pointwise (FieldGen cfg e.genericTypes) fs tfs ∧
      text = nl ++ comments 1 cs ++ s%"\t| { " ++ tag ++ s%": " ++ debugStr id.renamed ++ s%", " ++ content ++
        s%": {\n" ++ tfs.flatMap renderField ++ s%"}}" := by
  unfold writeVariant at h
  simp only at h
  obtain ⟨⟨body, st1⟩, hb, h⟩ := bind_ok h
  simp only [Outcome.ok.injEq, Prod.mk.injEq] at h
  obtain ⟨tfs, hpw, hbody⟩ := writeFields_pointwise _ _ _ _ _ _ hb
  exact ⟨tfs, hpw, by rw [← h.1, hbody]; rfl⟩

/-- **newtype-variant payload**: `content?: T` exactly when the payload type is `Option<_>`; the
type is the translation of the payload type (which erases the `Option`, `formatType_option`) -/
theorem payload {cfg : Cfg} {e : RustEnum} {tag content : Str} {id : Id} {cs : List Str} {ty : RustType}
    {st st' : CustomMap} {text : Str}
    (h : writeVariant cfg e tag content (.tuple id cs ty) st = .ok (text, st')) :
    ∃ t, formatType cfg e.genericTypes ty st = .ok (t, st') ∧
      text = nl ++ comments 1 cs ++ s%"\t| { " ++ tag ++ s%": " ++ debugStr id.renamed ++ s%", " ++ content ++
        (if ty.isOptional then s%"?" else []) ++ s%": " ++ t ++ s%" }" := by
  unfold writeVariant at h
  simp only at h
  obtain ⟨⟨t, st1⟩, ht, h⟩ := bind_ok h
  simp only [Outcome.ok.injEq, Prod.mk.injEq] at h
  obtain ⟨h1, h2⟩ := h
  subst h2
  exact ⟨t, ht, by rw [← h1]; rfl⟩

/-- **alias**: `export type X = T | undefined` exactly when the aliased type is `Option<_>` -/
theorem alias {cfg : Cfg} {a : RustTypeAlias} {st st' : CustomMap} {text : Str}
    (h : writeAlias cfg a st = .ok (text, st')) :
    ∃ ty, formatType cfg a.genericTypes a.ty st = .ok (ty, st') ∧
      text = comments 0 a.comments ++ s%"export type " ++ a.id.renamed ++ genericSuffix a.genericTypes ++
        s%" = " ++ ty ++ (if a.ty.isOptional then s%" | undefined" else []) ++ s%";\n\n" := by
  unfold writeAlias at h
  obtain ⟨⟨ty, st1⟩, hty, h⟩ := bind_ok h
  simp only [Outcome.ok.injEq, Prod.mk.injEq] at h
  obtain ⟨h1, h2⟩ := h
  subst h2
  exact ⟨ty, hty, h1.symm⟩

end TsV.C04.Ts
