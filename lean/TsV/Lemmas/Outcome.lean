import TsV.Model.Outcome
namespace TsV.Outcome

theorem mapM'_ok_all {α β} (f : α → Outcome β) : ∀ (l : List α) (r : List β),
    mapM' f l = .ok r → ∀ x ∈ l, (f x).isOk = true := by
  intro l
  induction l with
  | nil => intro r _ x hx; simp at hx
  | cons a t ih =>
    intro r h x hx
    simp only [mapM'] at h
    cases hfa : f a with
    | ok b =>
      rw [hfa] at h
      cases ht : mapM' f t with
      | ok bs =>
        simp only [List.mem_cons] at hx
        rcases hx with rfl | hx
        · simp [hfa, isOk]
        · exact ih bs ht x hx
      | err e => rw [ht] at h; simp at h
      | panic s => rw [ht] at h; simp at h
    | err e => rw [hfa] at h; simp at h
    | panic s => rw [hfa] at h; simp at h

theorem mapM'_ok_length {α β} (f : α → Outcome β) : ∀ (l : List α) (r : List β),
    mapM' f l = .ok r → r.length = l.length := by
  intro l
  induction l with
  | nil => intro r h; simp [mapM'] at h; subst h; rfl
  | cons a t ih =>
    intro r h
    simp only [mapM'] at h
    cases hfa : f a with
    | ok b =>
      rw [hfa] at h
      cases ht : mapM' f t with
      | ok bs => rw [ht] at h; simp at h; subst h; simp [ih bs ht]
      | err e => rw [ht] at h; simp at h
      | panic s => rw [ht] at h; simp at h
    | err e => rw [hfa] at h; simp at h
    | panic s => rw [hfa] at h; simp at h

/-- element-wise description of a successful `mapM'` -/
theorem mapM'_ok_forall₂ {α β} (f : α → Outcome β) : ∀ (l : List α) (r : List β),
    mapM' f l = .ok r → ∀ i (hi : i < l.length) (hr : i < r.length), f l[i] = .ok r[i] := by
  intro l
  induction l with
  | nil => intro r _ i hi; simp at hi
  | cons a t ih =>
    intro r h i hi hr
    simp only [mapM'] at h
    cases hfa : f a with
    | ok b =>
      rw [hfa] at h
      cases ht : mapM' f t with
      | ok bs =>
        rw [ht] at h; simp at h; subst h
        cases i with
        | zero => simpa using hfa
        | succ j => simpa using ih bs ht j (by simpa using hi) (by simpa using hr)
      | err e => rw [ht] at h; simp at h
      | panic s => rw [ht] at h; simp at h
    | err e => rw [hfa] at h; simp at h
    | panic s => rw [hfa] at h; simp at h

theorem isOk_iff {α} (o : Outcome α) : o.isOk = true ↔ ∃ a, o = .ok a := by
  cases o <;> simp [isOk]

end TsV.Outcome
