import TsV.Lemmas.TargetOs
import TsV.Model.Visitor
/-!
# C13 — `--target-os` filtering follows the documented accept/reject rule

`names` is the plain reading of the documentation: the `target_os = "…"` leaves of a cfg expression,
each marked with whether it sits inside a `not(…)`.  `C13` says that the stack-machine
implementation (`accept`, the model of `accept_target_os`) decides exactly the documented rule.
-/
namespace TsV.C13
open TsV.Syn TsV.TargetOs

mutual
  /-- `(insideNot, os)` for every `target_os = "os"` leaf -/
  def names : Bool → Meta → List (Bool × Str)
    | _, .path _ => []
    | inNot, .nameValue segs v =>
      match v with
      | some (.str s) => if segs = [s%"target_os"] then [(inNot, s)] else []
      | _ => []
    | inNot, .list segs _ args => namesList (inNot || segs == [s%"not"]) args
  def namesList : Bool → List Meta → List (Bool × Str)
    | _, [] => []
    | inNot, m :: ms => names inNot m ++ namesList inNot ms
end

/-- all cfg predicates of an attribute list -/
def allNames (attrs : List Attr) : List (Bool × Str) :=
  (attrs.flatMap cfgItems).flatMap (names false)

/-- OS names inside a `not(…)` -/
def N (attrs : List Attr) : List Str := ((allNames attrs).filter (·.1)).map (·.2)
/-- OS names outside every `not(…)` -/
def P (attrs : List Attr) : List Str := ((allNames attrs).filter (!·.1)).map (·.2)

/-- the documented rule -/
def rule (attrs : List Attr) (T : List Str) : Bool :=
  T.isEmpty ||
    ((N attrs).all (fun o => !T.contains o) && ((P attrs).isEmpty || (P attrs).any (fun o => T.contains o)))

def wfAttrs (attrs : List Attr) : Bool := (attrs.flatMap cfgItems).all WF

/-! ### relating `collect` to `names` -/

def tag (sc : Scope) : Bool := sc != .accept

theorem tag_scopeOf_list (sc : Scope) (segs : List Str) (p : Bool) (args : List Meta) :
    tag (scopeOf sc (.list segs p args)) = (tag sc || segs == [s%"not"]) := by
  unfold scopeOf
  simp only [Meta.isIdent, Meta.segs, kNot]
  by_cases h : segs = [s%"not"]
  · subst h; cases sc <;> simp [tag]
  · have h' : (segs == [s%"not"]) = false := by simpa using h
    simp [h']

mutual
  theorem collect_names : ∀ (sc : Scope) (m : Meta),
      (collect sc m).map (fun p => (tag p.1, p.2)) = names (tag sc) m
    | sc, .path _ => by simp [collect, names]
    | sc, .nameValue segs v => by
      simp only [collect, names, leaf]
      cases v with
      | none => simp
      | some l =>
        cases l with
        | str s =>
          simp only [kTargetOs]
          by_cases h : segs = [s%"target_os"]
          · subst h
            have : scopeOf sc (Meta.nameValue [s%"target_os"] (some (Lit.str s))) = sc := by
              simp [scopeOf, Meta.isIdent, Meta.segs, kNot]
            simp [this]
          · have h' : (segs == [s%"target_os"]) = false := by simpa using h
            simp [h, h']
        | int _ _ => simp
        | other => simp
    | sc, .list segs p args => by
      simp only [collect, names]
      rw [collectList_names, tag_scopeOf_list]
  theorem collectList_names : ∀ (sc : Scope) (ms : List Meta),
      (collectList sc ms).map (fun p => (tag p.1, p.2)) = namesList (tag sc) ms
    | sc, [] => by simp [collectList, namesList]
    | sc, m :: ms => by
      simp only [collectList, namesList, List.map_append]
      rw [collect_names, collectList_names]
end

/-! ### the yielded list -/

theorem yielded_spec (items : List Meta) (hwf : items.all WF = true) :
    ∀ acc0, ∃ ys, items.foldl yieldStep (some acc0) = some ys ∧
      ys.Perm (acc0 ++ items.flatMap (collect .accept)) := by
  induction items with
  | nil => intro acc0; exact ⟨acc0, by simp, by simp⟩
  | cons m ms ih =>
    intro acc0
    simp only [List.all_cons, Bool.and_eq_true] at hwf
    have hsome : (drainTop m).isSome := by
      unfold drainTop
      apply drain_isSome; simp [stackSize]
    obtain ⟨r, hr⟩ := Option.isSome_iff_exists.mp hsome
    have hperm : r.Perm ([] ++ specOf [(.accept, m)]) := by
      unfold drainTop at hr
      exact drain_perm _ _ _ _ (by simp [stackWF, hwf.1]) hr
    simp only [specOf, List.flatMap_cons, List.flatMap_nil, List.append_nil, List.nil_append] at hperm
    obtain ⟨ys, hys, hp⟩ := ih hwf.2 (acc0 ++ r)
    refine ⟨ys, ?_, ?_⟩
    · simp only [List.foldl_cons, yieldStep, hr]; exact hys
    · refine hp.trans ?_
      simp only [List.flatMap_cons, List.append_assoc]
      exact (List.Perm.append_left acc0 (List.Perm.append_right _ hperm))

theorem any_perm {α} {l₁ l₂ : List α} (h : l₁.Perm l₂) (p : α → Bool) : l₁.any p = l₂.any p := by
  rw [Bool.eq_iff_iff]; simp only [List.any_eq_true]
  constructor <;> rintro ⟨x, hx, hp⟩
  · exact ⟨x, h.subset hx, hp⟩
  · exact ⟨x, h.symm.subset hx, hp⟩

theorem isEmpty_perm {α} {l₁ l₂ : List α} (h : l₁.Perm l₂) : l₁.isEmpty = l₂.isEmpty := by
  have := h.length_eq
  cases l₁ <;> cases l₂ <;> simp_all

theorem cross_any {A B T : List Str} (h : A.Perm B) :
    (T.any fun t => A.any fun r => t == r) = B.any fun o => T.contains o := by
  rw [Bool.eq_iff_iff]
  simp only [List.any_eq_true, List.contains_iff_mem]
  constructor
  · rintro ⟨t, ht, r, hr, htr⟩
    have : t = r := eq_of_beq htr
    subst this; exact ⟨t, h.subset hr, ht⟩
  · rintro ⟨o, ho, hoT⟩; exact ⟨o, hoT, o, h.symm.subset ho, beq_self_eq_true o⟩

theorem cross_any' {A B T : List Str} (h : A.Perm B) :
    (T.any fun t => A.any fun a => a == t) = B.any fun o => T.contains o := by
  rw [← cross_any h]
  congr 1; funext t; congr 1; funext a
  exact Bool.beq_comm

theorem not_any_eq_all {B T : List Str} :
    (!B.any fun o => T.contains o) = B.all fun o => !T.contains o := by
  induction B with
  | nil => simp
  | cons b t ih => rw [List.any_cons, List.all_cons, Bool.not_or, ih]

theorem spec_accepted (attrs : List Attr) :
    (((attrs.flatMap cfgItems).flatMap (collect .accept)).filter fun p => p.1 == Scope.accept).map (·.2)
      = P attrs := by
  unfold P allNames
  have : ∀ items : List Meta, items.flatMap (names false) =
      (items.flatMap (collect .accept)).map fun p => (tag p.1, p.2) := by
    intro items
    induction items with
    | nil => simp
    | cons m ms ih =>
      simp only [List.flatMap_cons, List.map_append, ih]
      rw [collect_names]; simp [tag]
  rw [this, List.filter_map, List.map_map]
  congr 1
  apply List.filter_congr
  intro p _
  obtain ⟨sc, o⟩ := p
  cases sc <;> rfl

theorem spec_rejected (attrs : List Attr) :
    (((attrs.flatMap cfgItems).flatMap (collect .accept)).filter fun p => p.1 != Scope.accept).map (·.2)
      = N attrs := by
  unfold N allNames
  have : ∀ items : List Meta, items.flatMap (names false) =
      (items.flatMap (collect .accept)).map fun p => (tag p.1, p.2) := by
    intro items
    induction items with
    | nil => simp
    | cons m ms ih =>
      simp only [List.flatMap_cons, List.map_append, ih]
      rw [collect_names]; simp [tag]
  rw [this, List.filter_map, List.map_map]
  congr 1

/-- **C13.** For every attribute list whose cfg expressions are built from `any/all/not`, name-values
and bare words (at any depth), and every target list, `accept_target_os` decides the documented
rule: nothing is filtered for an empty list; otherwise no OS named under a `not` may be a target
and, if any OS is named outside `not`, one of those must be a target. -/
theorem C13 (attrs : List Attr) (T : List Str) (hwf : wfAttrs attrs = true) :
    accept attrs T = some (rule attrs T) := by
  unfold accept rule
  by_cases hT : T.isEmpty
  · simp [hT]
  · simp only [hT, Bool.false_eq_true, if_false, Bool.false_or]
    obtain ⟨ys, hys, hp⟩ := yielded_spec (attrs.flatMap cfgItems) hwf []
    simp only [yielded, hys]
    simp only [List.nil_append] at hp
    have hacc : ((ys.filter fun p => p.1 == Scope.accept).map (·.2)).Perm (P attrs) := by
      rw [← spec_accepted]
      exact (hp.filter _).map _
    have hrej : ((ys.filter fun p => p.1 != Scope.accept).map (·.2)).Perm (N attrs) := by
      rw [← spec_rejected]
      exact (hp.filter _).map _
    simp only [Option.some.injEq]
    rw [cross_any hrej, cross_any' hacc, isEmpty_perm hacc, not_any_eq_all]

/-! ### corollaries named in the property -/

/-- without `--target-os` nothing is filtered -/
theorem no_targets (attrs : List Attr) : accept attrs [] = some true := by simp [accept]

/-- an item without any `target_os` predicate is always kept; in particular predicates other than
`target_os` (features, bare words, …) never exclude anything -/
theorem no_target_os_kept (attrs : List Attr) (T : List Str) (hwf : wfAttrs attrs = true)
    (h : allNames attrs = []) : accept attrs T = some true := by
  rw [C13 attrs T hwf]; simp [rule, N, P, h]

/-- the decision in the property's own words -/
theorem C13_iff (attrs : List Attr) (T : List Str) (hwf : wfAttrs attrs = true) (hT : T ≠ []) :
    accept attrs T = some true ↔
      ((∀ o ∈ N attrs, o ∉ T) ∧ (P attrs = [] ∨ ∃ o ∈ P attrs, o ∈ T)) := by
  rw [C13 attrs T hwf]
  have : T.isEmpty = false := by cases T <;> simp_all
  simp [rule, this, List.isEmpty_iff]

/-! ### non-vacuity: `cfg(all(feature = "f", not(target_os = "ios")))` against `[ios, android]` -/
def exAttr : Attr := ⟨.list [s%"cfg"] true
  [.list [s%"all"] true
    [.nameValue [s%"feature"] (some (.str s%"f")),
     .list [s%"not"] true [.nameValue [s%"target_os"] (some (.str s%"ios"))]]]⟩

example : wfAttrs [exAttr] = true := by decide +kernel
example : accept [exAttr] [s%"ios", s%"android"] = some false := by decide +kernel
example : accept [exAttr] [s%"android"] = some true := by decide +kernel
example : N [exAttr] = [s%"ios"] ∧ P [exAttr] = [] := by decide +kernel

end TsV.C13

/-! ### the same decision at every attachment level -/
namespace TsV.C13
open TsV TsV.Syn TsV.TargetOs

/-- **file level** (inner attributes `#![cfg(..)]`): a rejected file contributes nothing -/
theorem file_level (E : Ext) (ctx : ParseContext) (pick) (c fn p : Str) (f : File)
    (h : accept f.attrs ctx.targetOs = some false) :
    Visitor.parseFile E ctx pick c fn p f = .ok none := by
  unfold Visitor.parseFile Visitor.visitFile
  by_cases hm : f.marker = true
  · simp [hm, h, Visitor.isEmpty]
  · simp [hm]

/-- **item level** (struct / enum / type alias / const): an annotated item is parsed iff its own
attributes are accepted -/
theorem item_level (ctx : ParseContext) (attrs : List Attr) :
    Visitor.accepted ctx attrs =
      (Parser.hasTypeshareAnnotation attrs && (accept attrs ctx.targetOs == some true)) := by
  unfold Visitor.accepted
  obtain ⟨b, hb⟩ := Option.isSome_iff_exists.mp (accept_isSome attrs ctx.targetOs)
  rw [hb]; cases b <;> simp

/-- **variant, field and struct-variant-field level**: a member is dropped iff it carries a skip
marker or its own attributes are rejected -/
theorem member_level (attrs : List Attr) (T : List Str) :
    Parser.isSkipped attrs T = (Parser.skipMarked attrs || (accept attrs T == some false)) := by
  unfold Parser.isSkipped
  obtain ⟨b, hb⟩ := Option.isSome_iff_exists.mp (accept_isSome attrs T)
  rw [hb]; cases b <;> simp

end TsV.C13
