import TsV.Lemmas.C10_Files_Common
import TsV.Lemmas.C10_Go
import TsV.Lemmas.C03_Emission_Go
/-!
# C10, whole files — Go

* enums **from the parsed enum** (the step from `RustEnum` to the fact records `GoUnitEnum` /
  `GoAlgEnum`, which `C10_Go.lean` left open), with `uppercase_acronyms = []`;
* the whole file: `// Code generated …` line, `package` line, the import block (whose content is the
  printer state: `encoding/json`, `time`), the declarations.
-/
namespace TsV.C10Files.GoF
open TsV TsV.Lang TsV.C10Lex TsV.Lang.Go TsV.C10Go TsV.C03E TsV.C10Files

/-! ## enums from the parsed enum -/

theorem anonStructs_ok (U : UnicodeOps) {cfg : Cfg} (H : CfgOk cfg) (e : RustEnum) (he : EnumOk e) :
    ∀ (l : List (Id × List RustField)) (st : Imports) (ds : List GoStruct) (st' : Imports),
    (∀ p ∈ l, IdentStr p.1.original ∧ ∀ f ∈ p.2, FieldOk f) →
    anonStructs U cfg e l st = .ok (ds, st') → ∀ d ∈ ds, GoStructOk d
  | [], st, ds, st', _, h => by simp only [anonStructs] at h; cases h; simp
  | (id, fs) :: rest, st, ds, st', hl, h => by
    simp only [anonStructs, anonName, acr_id U H, Outcome.bind] at h
    obtain ⟨d, st1, hd, h⟩ := obind_pair_ok h
    obtain ⟨ds', st2, hds, h⟩ := obind_pair_ok h
    cases h
    intro x hx
    simp only [List.mem_cons] at hx
    rcases hx with rfl | hx
    · obtain ⟨hid, hfs⟩ := hl (id, fs) (by simp)
      refine structFacts_ok U H _ ⟨?_, ?_, ?_, hfs⟩ st _ st1 hd
      · exact anonymousStruct_docs e _ _ fs hid he.original
      · exact KeyStr.append (KeyStr.append (IdentStr.key he.original) (IdentStr.key hid)) (by decide : KeyStr s%"Inner")
      · exact fun g hg => he.generics g (anonymousStruct_generics e _ _ fs g hg)
    · exact anonStructs_ok U H e he rest st1 ds' _ (fun p hp => hl p (by simp [hp])) hds x hx

theorem algVariant_ok (U : UnicodeOps) {cfg : Cfg} (H : CfgOk cfg) (e : RustEnum) (he : EnumOk e) (tagKey : Str)
    (htag : IdentStr tagKey) (cs : List Str) (v : RustEnumVariant) (hv : VariantOk v) (st : Imports)
    (g : GoAlgVariant) (st' : Imports)
    (h : algVariant U cfg e e.id.original tagKey cs v st = .ok (g, st')) : AlgVariantOk g := by
  have hvn : IdentStr v.id.original := hv.original
  have hconst : NB G (e.id.original ++ Rename.toPascal U tagKey ++ s%"Variant" ++ v.id.original) :=
    IdentStr.nb (IdentStr.append (IdentStr.append (IdentStr.append he.original (toPascal_ident htag))
      (by decide : IdentStr s%"Variant")) hvn)
  unfold algVariant at h
  simp only [acr_id U H, anonName, Outcome.bind] at h
  cases v with
  | unit id dcs =>
    simp only at h
    cases h
    exact ⟨hv.1, IdentStr.nb hvn, hconst, by intro p hp; cases hp⟩
  | tuple id dcs ty =>
    simp only at h
    cases hf : formatType cfg ty st with
    | ok r =>
      obtain ⟨t, st1⟩ := r
      rw [hf] at h
      simp only at h
      cases h
      refine ⟨hv.1, IdentStr.nb hvn, hconst, ?_⟩
      intro p hp; cases hp
      exact formatType_nb H ty st _ _ hv.2.2.2 hf
    | err x => rw [hf] at h; cases h
    | panic x => rw [hf] at h; cases h
  | anonymousStruct id dcs fs =>
    simp only at h
    cases h
    refine ⟨hv.1, IdentStr.nb hvn, hconst, ?_⟩
    intro p hp; cases hp
    exact IdentStr.nb (IdentStr.append (IdentStr.append he.original hvn) (by decide : IdentStr s%"Inner"))

theorem algVariants_ok (U : UnicodeOps) {cfg : Cfg} (H : CfgOk cfg) (e : RustEnum) (he : EnumOk e) (tagKey : Str)
    (htag : IdentStr tagKey) (cs : List Str) : ∀ (vs : List RustEnumVariant) (st : Imports) (gs : List GoAlgVariant)
    (st' : Imports), (∀ v ∈ vs, VariantOk v) → algVariants U cfg e e.id.original tagKey cs vs st = .ok (gs, st') →
    ∀ g ∈ gs, AlgVariantOk g
  | [], st, gs, st', _, h => by simp only [algVariants] at h; cases h; simp
  | v :: vs, st, gs, st', hv, h => by
    simp only [algVariants] at h
    obtain ⟨g, st1, hg, h⟩ := obind_pair_ok h
    obtain ⟨rest, st2, hrest, h⟩ := obind_pair_ok h
    cases h
    intro x hx
    simp only [List.mem_cons] at hx
    rcases hx with rfl | hx
    · exact algVariant_ok U H e he tagKey htag cs v (hv v (by simp)) st _ st1 hg
    · exact algVariants_ok U H e he tagKey htag cs vs st1 rest _ (fun w hw => hv w (by simp [hw])) hrest x hx

theorem shortName_ident (U : UnicodeOps) (hU : U.AsciiCorrect) (original : Str) (ho : IdentStr original) (s : Str)
    (h : shortName U original = .ok s) : IdentStr s := by
  unfold shortName at h
  split at h
  · rename_i c r
    cases h
    exact lowerStr_ident U hU (fun d hd => by simp only [List.mem_singleton] at hd; subst hd; exact ho _ (by simp))
  · cases h; intro c hc; simp at hc

theorem algEnumFacts_ok (U : UnicodeOps) (hU : U.AsciiCorrect) {cfg : Cfg} (H : CfgOk cfg) (e : RustEnum) (he : EnumOk e)
    (tagKey contentKey : Str) (hk : e.keys = some (tagKey, contentKey)) (cs : List Str) (st : Imports) (d : GoAlgEnum)
    (st' : Imports) (h : algEnumFacts U cfg e tagKey contentKey cs st = .ok (d, st')) : AlgEnumOk d := by
  have htag : IdentStr tagKey := he.tag _ hk
  have hcontent : KeyStr contentKey := he.content _ hk
  unfold algEnumFacts at h
  obtain ⟨anonymous, st1, ha, h⟩ := obind_pair_ok h
  simp only [acr_id U H, fieldName, Outcome.bind] at h
  obtain ⟨short, hs, h⟩ := obind_ok h
  obtain ⟨variants, st2, hvs, h⟩ := obind_pair_ok h
  cases h
  exact ⟨he.docs, anonStructs_ok U H e he _ st anonymous st1 (structVariants_scope e he) ha,
    IdentStr.nb he.original, IdentStr.nb (shortName_ident U hU _ he.original short hs),
    IdentStr.nb (IdentStr.append (IdentStr.append he.original (toPascal_ident htag)) (by decide : IdentStr s%"s")),
    IdentStr.nb (toPascal_ident htag), KeyStr.nb (toCamel_key hcontent), IdentStr.key htag, hcontent,
    algVariants_ok U H e he tagKey htag cs e.variants st1 variants _ he.variants hvs⟩

/-- **Go enums from the parsed enum** (unit enums: `type T string` and the `const ( … )` block;
algebraic enums: key type, constants, the struct, `UnmarshalJSON` / `MarshalJSON`, accessors and
constructors, preceded by the named types of the struct variants) -/
theorem writeEnum_nb (U : UnicodeOps) (hU : U.AsciiCorrect) {cfg : Cfg} (H : CfgOk cfg) (e : RustEnum) (he : EnumOk e)
    (cs : List Str) (st : Imports) (text : Str) (st' : Imports) (h : writeEnum U cfg e cs st = .ok (text, st')) :
    NB G text := by
  unfold writeEnum at h
  split at h
  · obtain ⟨anonymous, st1, ha, h⟩ := obind_pair_ok h
    simp only [acr_id U H, Outcome.bind] at h
    obtain ⟨consts, hc, h⟩ := obind_ok h
    cases h
    have hanon := anonStructs_ok U H e he _ st anonymous _ (structVariants_scope e he) ha
    refine NB.append (NB.flatMap _ _ fun s hs => renderStruct_nb s (hanon s hs)) ?_
    exact renderUnitEnum_nb { comments := e.comments, name := e.id.original, consts := consts } he.docs
      (IdentStr.nb he.original) (unitConsts_ok U H e.id.original he.original e.variants consts he.variants hc)
  · rename_i tagKey contentKey hk
    obtain ⟨d, st1, hd, h⟩ := obind_pair_ok h
    simp only [Outcome.ok.injEq, Prod.mk.injEq] at h
    obtain ⟨rfl, rfl⟩ := h
    exact renderAlgEnum_nb d (algEnumFacts_ok U hU H e he tagKey contentKey hk cs st d _ hd)

/-! ## the printer state: the import set -/

/-- every recorded import path can stand between double quotes -/
def StOk (st : Imports) : Prop := ∀ i ∈ st, ∀ c ∈ i, strChar c = true

theorem stOk_nil : StOk [] := fun _ h => by simp at h

theorem addImport_ok {st : Imports} (h : StOk st) {name : Str} (hn : ∀ c ∈ name, strChar c = true) :
    StOk (addImport st name) := by
  intro i hi
  rcases TsV.C12L.mem_insertSorted_iff.1 hi with rfl | hi
  · exact hn
  · exact h i hi

def Pres (st st' : Imports) : Prop := StOk st → StOk st'
theorem Pres.refl (st : Imports) : Pres st st := id
theorem Pres.trans {a b c : Imports} (h1 : Pres a b) (h2 : Pres b c) : Pres a c := fun h => h2 (h1 h)

theorem special_pres (cfg : Cfg) (t : RustType) (st : Imports) (k : Imports → Outcome (Str × Imports)) (s : Str)
    (st' : Imports) (hk : ∀ s st', k st = .ok (s, st') → Pres st st') (h : special cfg t st k = .ok (s, st')) :
    Pres st st' := by
  unfold special at h
  split at h
  · cases h; exact Pres.refl st
  · exact hk s st' h

mutual
  theorem formatType_pres (cfg : Cfg) : ∀ (t : RustType) (st : Imports) (s : Str) (st' : Imports),
      formatType cfg t st = .ok (s, st') → Pres st st'
    | .simple id, st, s, st', h => by simp only [formatType] at h; cases h; exact Pres.refl st
    | .generic id ps, st, s, st', h => by
      simp only [formatType] at h
      split at h
      · cases h; exact Pres.refl st
      · obtain ⟨strs, st1, hs, h⟩ := obind_pair_ok h
        cases h
        exact formatTypes_pres cfg ps st strs _ hs
    | .vec r, st, s, st', h => by
      simp only [formatType] at h
      refine special_pres cfg _ st _ s st' ?_ h
      intro s2 st2 hk
      obtain ⟨a, b, ha, hf⟩ := obind_pair_ok hk
      cases hf
      exact formatType_pres cfg r st a _ ha
    | .slice r, st, s, st', h => by
      simp only [formatType] at h
      refine special_pres cfg _ st _ s st' ?_ h
      intro s2 st2 hk
      obtain ⟨a, b, ha, hf⟩ := obind_pair_ok hk
      cases hf
      exact formatType_pres cfg r st a _ ha
    | .array r n, st, s, st', h => by
      simp only [formatType] at h
      refine special_pres cfg _ st _ s st' ?_ h
      intro s2 st2 hk
      obtain ⟨a, b, ha, hf⟩ := obind_pair_ok hk
      cases hf
      exact formatType_pres cfg r st a _ ha
    | .option r, st, s, st', h => by
      simp only [formatType] at h
      refine special_pres cfg _ st _ s st' ?_ h
      intro s2 st2 hk
      obtain ⟨a, b, ha, hf⟩ := obind_pair_ok hk
      cases hf
      exact formatType_pres cfg r st a _ ha
    | .hashMap k v, st, s, st', h => by
      simp only [formatType] at h
      refine special_pres cfg _ st _ s st' ?_ h
      intro s2 st2 hk
      obtain ⟨ks, st3, hks, hk⟩ := obind_pair_ok hk
      obtain ⟨vs, st4, hvs, hk⟩ := obind_pair_ok hk
      cases hk
      exact (formatType_pres cfg k st ks st3 hks).trans (formatType_pres cfg v st3 vs _ hvs)
    | .prim p, st, s, st', h => by
      simp only [formatType] at h
      refine special_pres cfg _ st _ s st' ?_ h
      intro s2 st2 hk
      cases p <;> simp only [primType] at hk <;> cases hk <;>
        first | exact Pres.refl st | exact fun hst => addImport_ok hst (by decide)
  theorem formatTypes_pres (cfg : Cfg) : ∀ (ts : List RustType) (st : Imports) (ss : List Str) (st' : Imports),
      formatTypes cfg ts st = .ok (ss, st') → Pres st st'
    | [], st, ss, st', h => by simp only [formatTypes] at h; cases h; exact Pres.refl st
    | t :: ts, st, ss, st', h => by
      simp only [formatTypes] at h
      obtain ⟨a, st1, ha, h⟩ := obind_pair_ok h
      obtain ⟨as, st2, has, h⟩ := obind_pair_ok h
      cases h
      exact (formatType_pres cfg t st a st1 ha).trans (formatTypes_pres cfg ts st1 as _ has)
end


theorem fieldFacts_pres (U : UnicodeOps) (cfg : Cfg) (f : RustField) (st : Imports) (g : GoField) (st' : Imports)
    (h : fieldFacts U cfg f st = .ok (g, st')) : Pres st st' := by
  unfold fieldFacts at h
  obtain ⟨typeName, st1, hty, h⟩ := obind_pair_ok h
  obtain ⟨goType, _, h⟩ := obind_ok h
  obtain ⟨name, _, h⟩ := obind_ok h
  cases h
  split at hty
  · cases hty; exact Pres.refl st
  · exact formatType_pres cfg f.ty st typeName _ hty

theorem fieldsFacts_pres (U : UnicodeOps) (cfg : Cfg) : ∀ (fs : List RustField) (st : Imports) (gs : List GoField)
    (st' : Imports), fieldsFacts U cfg fs st = .ok (gs, st') → Pres st st'
  | [], st, gs, st', h => by simp only [fieldsFacts] at h; cases h; exact Pres.refl st
  | f :: fs, st, gs, st', h => by
    simp only [fieldsFacts] at h
    obtain ⟨g, st1, hg, h⟩ := obind_pair_ok h
    obtain ⟨rest, st2, hrest, h⟩ := obind_pair_ok h
    cases h
    exact (fieldFacts_pres U cfg f st g st1 hg).trans (fieldsFacts_pres U cfg fs st1 rest _ hrest)

theorem structFacts_pres (U : UnicodeOps) (cfg : Cfg) (rs : RustStruct) (st : Imports) (d : GoStruct) (st' : Imports)
    (h : structFacts U cfg rs st = .ok (d, st')) : Pres st st' := by
  unfold structFacts at h
  obtain ⟨name, _, h⟩ := obind_ok h
  obtain ⟨fields, st1, hf, h⟩ := obind_pair_ok h
  cases h
  exact fieldsFacts_pres U cfg rs.fields st fields _ hf

theorem anonStructs_pres (U : UnicodeOps) (cfg : Cfg) (e : RustEnum) : ∀ (l : List (Id × List RustField)) (st : Imports)
    (ds : List GoStruct) (st' : Imports), anonStructs U cfg e l st = .ok (ds, st') → Pres st st'
  | [], st, ds, st', h => by simp only [anonStructs] at h; cases h; exact Pres.refl st
  | (id, fs) :: rest, st, ds, st', h => by
    simp only [anonStructs] at h
    obtain ⟨sn, _, h⟩ := obind_ok h
    obtain ⟨d, st1, hd, h⟩ := obind_pair_ok h
    obtain ⟨ds', st2, hds, h⟩ := obind_pair_ok h
    cases h
    exact (structFacts_pres U cfg _ st d st1 hd).trans (anonStructs_pres U cfg e rest st1 ds' _ hds)

theorem algVariant_pres (U : UnicodeOps) (cfg : Cfg) (e : RustEnum) (sn tagKey : Str) (cs : List Str)
    (v : RustEnumVariant) (st : Imports) (g : GoAlgVariant) (st' : Imports)
    (h : algVariant U cfg e sn tagKey cs v st = .ok (g, st')) : Pres st st' := by
  unfold algVariant at h
  obtain ⟨vn, _, h⟩ := obind_ok h
  obtain ⟨vt, st1, hvt, h⟩ := obind_pair_ok h
  obtain ⟨tp, _, h⟩ := obind_ok h
  obtain ⟨pl, _, h⟩ := obind_ok h
  cases h
  cases v with
  | unit id dcs => simp only at hvt; cases hvt; exact Pres.refl st
  | tuple id dcs ty =>
    simp only at hvt
    cases hf : formatType cfg ty st with
    | ok r =>
      obtain ⟨t, st2⟩ := r
      rw [hf] at hvt
      simp only [Outcome.ok.injEq, Prod.mk.injEq] at hvt
      rw [← hvt.2]
      exact formatType_pres cfg ty st t st2 hf
    | err x => rw [hf] at hvt; cases hvt
    | panic x => rw [hf] at hvt; cases hvt
  | anonymousStruct id dcs fs =>
    simp only at hvt
    obtain ⟨n, _, hvt⟩ := obind_ok hvt
    cases hvt
    exact Pres.refl st

theorem algVariants_pres (U : UnicodeOps) (cfg : Cfg) (e : RustEnum) (sn tagKey : Str) (cs : List Str) :
    ∀ (vs : List RustEnumVariant) (st : Imports) (gs : List GoAlgVariant) (st' : Imports),
      algVariants U cfg e sn tagKey cs vs st = .ok (gs, st') → Pres st st'
  | [], st, gs, st', h => by simp only [algVariants] at h; cases h; exact Pres.refl st
  | v :: vs, st, gs, st', h => by
    simp only [algVariants] at h
    obtain ⟨g, st1, hg, h⟩ := obind_pair_ok h
    obtain ⟨rest, st2, hrest, h⟩ := obind_pair_ok h
    cases h
    exact (algVariant_pres U cfg e sn tagKey cs v st g st1 hg).trans
      (algVariants_pres U cfg e sn tagKey cs vs st1 rest _ hrest)

theorem writeItem_pres (U : UnicodeOps) (cfg : Cfg) (cs : List Str) (it : RustItem) (st : Imports) (text : Str)
    (st' : Imports) (h : writeItem U cfg cs it st = .ok (text, st')) : Pres st st' := by
  cases it with
  | struct s =>
    simp only [writeItem, writeStruct] at h
    obtain ⟨d, st1, hd, h⟩ := obind_pair_ok h
    simp only [Outcome.ok.injEq, Prod.mk.injEq] at h
    rw [← h.2]
    exact structFacts_pres U cfg s st d st1 hd
  | alias a =>
    simp only [writeItem, writeAlias, aliasFacts] at h
    obtain ⟨d, st1, hd, h⟩ := obind_pair_ok h
    simp only [Outcome.ok.injEq, Prod.mk.injEq] at h
    rw [← h.2]
    obtain ⟨name, _, hd⟩ := obind_ok hd
    obtain ⟨ty, st2, hty, hd⟩ := obind_pair_ok hd
    cases hd
    exact formatType_pres cfg a.ty st ty _ hty
  | const c =>
    simp only [writeItem, writeConst, constFacts] at h
    obtain ⟨d, st1, hd, h⟩ := obind_pair_ok h
    simp only [Outcome.ok.injEq, Prod.mk.injEq] at h
    rw [← h.2]
    obtain ⟨ty, st2, hty, hd⟩ := obind_pair_ok hd
    cases hd
    exact formatType_pres cfg c.ty st ty _ hty
  | «enum» e =>
    simp only [writeItem, writeEnum] at h
    split at h
    · obtain ⟨anonymous, st1, ha, h⟩ := obind_pair_ok h
      obtain ⟨name, _, h⟩ := obind_ok h
      obtain ⟨consts, _, h⟩ := obind_ok h
      simp only [Outcome.ok.injEq, Prod.mk.injEq] at h
      rw [← h.2]
      exact anonStructs_pres U cfg e _ st anonymous st1 ha
    · obtain ⟨d, st1, hd, h⟩ := obind_pair_ok h
      simp only [Outcome.ok.injEq, Prod.mk.injEq] at h
      rw [← h.2]
      unfold algEnumFacts at hd
      obtain ⟨anonymous, st2, ha, hd⟩ := obind_pair_ok hd
      obtain ⟨name, _, hd⟩ := obind_ok hd
      obtain ⟨tagField, _, hd⟩ := obind_ok hd
      obtain ⟨short, _, hd⟩ := obind_ok hd
      obtain ⟨tagAcr, _, hd⟩ := obind_ok hd
      obtain ⟨variants, st3, hvs, hd⟩ := obind_pair_ok hd
      cases hd
      exact (anonStructs_pres U cfg e _ st anonymous st2 ha).trans
        (algVariants_pres U cfg e _ _ _ e.variants st2 variants _ hvs)

/-! ## header and import block -/

/-- the version text: dotted identifier fragments and blanks -/
structure FileOk (cfg : Cfg) : Prop where
  version : ∀ v, cfg.versionHeader = some v → '\n' ∉ v
  package : Dotted cfg.package

instance (cfg : Cfg) : Decidable (FileOk cfg) :=
  decidable_of_iff ((∀ v, cfg.versionHeader = some v → '\n' ∉ v) ∧ Dotted cfg.package)
    ⟨fun ⟨a, b⟩ => ⟨a, b⟩, fun h => ⟨h.version, h.package⟩⟩

theorem beginFile_nb (cfg : Cfg) (hf : FileOk cfg) : NB G (beginFile cfg) := by
  unfold beginFile
  nb_pieces
  · split
    · rename_i v hv
      have e : s%"// Code generated by typeshare " ++ v ++ s%". DO NOT EDIT.\n"
          = s%"//" ++ (s%" Code generated by typeshare " ++ v ++ s%". DO NOT EDIT.") ++ s%"\n" := by simp
      rw [e]
      refine NB.lineComment _ ?_
      have := hf.version v hv
      simp [this]
    · exact NB.nil
  · nb_lit
  · exact hf.package.nb
  · exact NB.nl
  · exact NB.nl

theorem renderImports_nb (st : Imports) (h : StOk st) : NB G (renderImports st) := by
  unfold renderImports
  split
  · exact NB.nil
  · rename_i i
    have e : s%"import \"" ++ i ++ s%"\"\n" ++ nl = s%"import " ++ (s%"\"" ++ i ++ s%"\"") ++ s%"\n" ++ nl := by simp
    rw [e]
    exact NB.append (NB.append (NB.append (by nb_lit) (NB.quoted i (h i (by simp)))) (by nb_lit)) NB.nl
  · intro stk
    have r1 : Run G s%"import (\n" ⟨.code, stk⟩ ⟨.code, '(' :: stk⟩ := rfl
    have r2 : NB G (st.flatMap fun i => s%"\t\"" ++ i ++ s%"\"\n") := by
      apply NB.flatMap
      intro i hi
      have e : s%"\t\"" ++ i ++ s%"\"\n" = s%"\t" ++ (s%"\"" ++ i ++ s%"\"") ++ s%"\n" := by simp
      rw [e]
      exact NB.append (NB.append (by nb_lit) (NB.quoted i (h i hi))) (by nb_lit)
    have r3 : Run G s%")\n" ⟨.code, '(' :: stk⟩ ⟨.code, stk⟩ := rfl
    have r4 : Run G nl ⟨.code, stk⟩ ⟨.code, stk⟩ := rfl
    exact ((r1.append (r2 _)).append r3).append r4

/-! ## the whole file -/

abbrev ItemOk := ItemScope Lang.go G DocsOk

theorem writeItem_nb (U : UnicodeOps) (hU : U.AsciiCorrect) {cfg : Cfg} (H : CfgOk cfg) (cs : List Str) (it : RustItem)
    (hs : ItemOk it) (st : Imports) (text : Str) (st' : Imports) (h : writeItem U cfg cs it st = .ok (text, st')) :
    NB G text := by
  cases it with
  | struct s => exact writeStruct_nb U H s hs st text st' h
  | «enum» e => exact writeEnum_nb U hU H e hs cs st text st' h
  | alias a => exact writeAlias_nb U H a hs st text st' h
  | const c => exact writeConst_nb H c hs st text st' h

theorem generate_nb (U : UnicodeOps) (hU : U.AsciiCorrect) {cfg : Cfg} (H : CfgOk cfg) (hf : FileOk cfg) (d : ParsedData)
    (hitems : ∀ it ∈ TsV.C12L.itemsOf d, ItemOk it) (st0 : Imports) (h0 : StOk st0) (text : Str) (st : Imports)
    (h : generate U cfg d st0 = .ok (text, st)) : NB G text ∧ StOk st := by
  obtain ⟨items, blocks, ho, hth, rfl⟩ := TsV.C03E.Go.generate_blocks U cfg d st0 text st h
  obtain ⟨hb, hst⟩ := Threaded.inv (P := StOk) (Q := NB G) hth (addImport_ok h0 (by decide)) (fun it hit s b s' hs hw =>
    ⟨writeItem_nb U hU H _ it (hitems it (mem_of_generateOrder ho hit)) s b s' hw, writeItem_pres U cfg _ it s b s' hw hs⟩)
  exact ⟨((beginFile_nb cfg hf).append (renderImports_nb st hst)).append (NB.flatten _ hb), hst⟩

def JobsOk (jobs : List (Str × ParsedData × Option Pipeline.ScopedCrateTypes)) : Prop :=
  ∀ j ∈ jobs, ∀ it ∈ TsV.C12L.itemsOf j.2.1, ItemOk it

theorem generateFrom_nb (U : UnicodeOps) (hU : U.AsciiCorrect) {cfg : Cfg} (H : CfgOk cfg) (hf : FileOk cfg) :
    ∀ (jobs : List (Str × ParsedData × Option Pipeline.ScopedCrateTypes)) (st0 : Imports), StOk st0 → JobsOk jobs →
      ∀ outs, generateFrom U cfg jobs st0 = .ok outs → ∀ o ∈ outs, NB G o.2
  | [], _, _, _, outs, h => by simp only [generateFrom] at h; cases h; simp
  | (crate, d, imps) :: rest, st0, h0, hj, outs, h => by
    simp only [generateFrom] at h
    obtain ⟨text, st, hg, h⟩ := obind_pair_ok h
    obtain ⟨outs', ho, h⟩ := obind_ok h
    cases h
    obtain ⟨hnb, hst⟩ := generate_nb U hU H hf d (hj (crate, d, imps) (by simp)) st0 h0 text st hg
    intro o hoo
    rcases List.mem_cons.1 hoo with rfl | hoo
    · exact hnb
    · exact generateFrom_nb U hU H hf rest st hst (fun j hjm => hj j (by simp [hjm])) outs' ho o hoo

end TsV.C10Files.GoF
