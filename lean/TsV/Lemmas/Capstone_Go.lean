import TsV.Lemmas.Capstone_Items
import TsV.Lemmas.Capstone_Order
/-!
# Capstone — Go: from `writeItem … = .ok (b, st')` to the fact records and the clauses
-/
namespace TsV.Cap.Go
open TsV TsV.Syn TsV.Parser TsV.Pipeline TsV.Generate TsV.C03E TsV.Lang TsV.Lang.Go TsV.Outcome

/-- C04's reading of one struct field -/
def Reads (cfg : Cfg) (g : GoField) (o : Bool) (core : Str) : Prop :=
  o = C04.Go.isOptional cfg g ∧ core = C04.Go.stripOptional g

theorem writeItem_struct (U : UnicodeOps) (cfg : Cfg) (cs : List Str) (rs : RustStruct) (st st' : Imports) (b : Str)
    (h : writeItem U cfg cs (.struct rs) st = .ok (b, st')) :
    ∃ d, structFacts U cfg rs st = .ok (d, st') ∧ b = renderStruct d := by
  simp only [writeItem, writeStruct] at h
  obtain ⟨⟨d, st1⟩, hd, h⟩ := bindOk h
  simp only [Outcome.ok.injEq, Prod.mk.injEq] at h
  obtain ⟨rfl, rfl⟩ := h
  exact ⟨d, hd, rfl⟩

theorem writeItem_enum (U : UnicodeOps) (cfg : Cfg) (cs : List Str) (e : RustEnum) (st st' : Imports) (b : Str)
    (h : writeItem U cfg cs (.enum e) st = .ok (b, st')) :
    ∃ d, C02.Go.enumFacts U cfg e cs st = .ok (d, st') ∧ b = C02.Go.renderDecl d := by
  have h' : writeEnum U cfg e cs st = .ok (b, st') := h
  rw [C02.Go.writeEnum_eq] at h'
  obtain ⟨⟨d, st1⟩, hd, h'⟩ := bindOk h'
  simp only [Outcome.ok.injEq, Prod.mk.injEq] at h'
  obtain ⟨rfl, rfl⟩ := h'
  exact ⟨d, hd, rfl⟩

/-- the helper structs of the struct variants (a unit enum has none, the list is computed all the same) -/
def anonOf : C02.Go.EnumDecl → List GoStruct
  | .unit anonymous _ => anonymous
  | .alg d => d.anonymous

theorem enumFacts_anon (U : UnicodeOps) (cfg : Cfg) (cs : List Str) (e : RustEnum) (st st' : Imports)
    (d : C02.Go.EnumDecl) (h : C02.Go.enumFacts U cfg e cs st = .ok (d, st')) :
    ∃ st1, anonStructs U cfg e (structVariants e) st = .ok (anonOf d, st1) := by
  unfold C02.Go.enumFacts at h
  cases hk : e.keys with
  | none =>
    simp only [hk] at h
    obtain ⟨⟨an, st1⟩, ha, h⟩ := bindOk h
    obtain ⟨name, _, h⟩ := bindOk h
    obtain ⟨consts, _, h⟩ := bindOk h
    simp only [Outcome.ok.injEq, Prod.mk.injEq] at h
    obtain ⟨rfl, _⟩ := h
    exact ⟨st1, ha⟩
  | some kc =>
    obtain ⟨t, c⟩ := kc
    simp only [hk] at h
    obtain ⟨⟨g, st1⟩, hg, h⟩ := bindOk h
    simp only [Outcome.ok.injEq, Prod.mk.injEq] at h
    obtain ⟨rfl, rfl⟩ := h
    exact C01.C01_go_enum_structs U cfg e t c cs st _ g hg

theorem structKeys_eq (E : Ext) (cfg : Cfg) (rs : RustStruct) (st st' : Imports) (d : GoStruct)
    (h : structFacts E.U cfg rs st = .ok (d, st')) :
    C01.structKeys E .go (cfg, st) rs = .ok (d.fields.map C01.Go.boundKey) := by
  simp [C01.structKeys, h]

theorem struct_c04 (E : Ext) (cfg : Cfg) (rs : RustStruct) (st st' : Imports) (d : GoStruct)
    (h : structFacts E.U cfg rs st = .ok (d, st')) :
    C04.Pointwise (fun rf' p => C04.InScope rs.genericTypes rf' (.go cfg) →
      C04.Known_scalaDefaultNonOption (.go cfg) rf' = false →
      ∃ o core, Reads cfg p o core ∧ o = C04.opt rf' ∧
        C04.Translates E rs.genericTypes (C04.stripOption rf'.ty) (.go cfg) core) rs.fields d.fields := by
  refine (C04.go_struct h).imp ?_
  intro rf' p hp hs _
  obtain ⟨h1, h2⟩ := hp hs.1 hs.2.1 hs.2.2.1 hs.2.2.2
  exact ⟨_, _, ⟨rfl, rfl⟩, h1, h2⟩

/-- **clauses 2 + 3 for the struct of a source struct** -/
theorem struct_ok (E : Ext) (hU : E.U.AsciiCorrect) (cfg : Cfg) (targetOs : List Str) (c : Str) (r : Renames)
    (attrs : List Attr) (ident : Str) (gens : List GenericParam) (fs : List Field) (rs : RustStruct)
    (st st' : Imports) (d : GoStruct)
    (hparse : parseStruct E targetOs attrs ident gens (.named fs) = .ok (.struct rs))
    (hd : structFacts E.U cfg (recStruct c r rs) st = .ok (d, st')) :
    StructClauses E .go (.go cfg) targetOs c r attrs fs (recStruct c r rs)
      (d.fields.map C01.Go.boundKey) (Reads cfg) d.fields :=
  struct_clauses E hU .go (.go cfg) (cfg, st) targetOs c r attrs ident gens fs rs _ (Reads cfg) _ hparse
    (structKeys_eq E cfg _ st st' d hd) (struct_c04 E cfg _ st st' d hd)

/-- **clauses 2 + 4 for the declarations of a source enum** (C02's known class for Go is evaluated at the
configured `uppercase_acronyms`) -/
theorem enum_ok (E : Ext) (hU : E.U.AsciiCorrect) (cfg : Cfg) (cs : List Str) (targetOs : List Str) (c : Str) (r : Renames)
    (attrs : List Attr) (ident : Str) (gens : List GenericParam) (vs : List Variant) (e : RustEnum)
    (st st' : Imports) (d : C02.Go.EnumDecl)
    (hparse : parseEnum E targetOs attrs ident gens vs = .ok (.enum e))
    (hd : C02.Go.enumFacts E.U cfg (recEnum c r e) cs st = .ok (d, st')) :
    EnumClauses E .go targetOs attrs vs (recEnum c r e) cfg.uppercaseAcronyms
      ((anonOf d).map (·.fields.map C01.Go.boundKey)) (C02.Go.wire d) := by
  obtain ⟨st1, ha⟩ := enumFacts_anon E.U cfg cs _ st st' d hd
  refine enum_clauses E hU .go (cfg, st) targetOs c r attrs ident gens vs e _ _ _ hparse
    (by simp [C01.enumKeys, ha]) ?_
  intro hsc hk
  exact C02.C02_backend .go E hU _ _ hsc hk cfg cs st d st' rfl hd

theorem block_of (U : UnicodeOps) (cfg : Cfg) (cs : List Str) {items emitted : List RustItem} {blocks : List Str}
    {st0 stN : Imports} (hperm : items.Perm emitted) (ht : Threaded (writeItem U cfg cs) items st0 blocks stN)
    {x : RustItem} (hx : x ∈ emitted) :
    ∃ (k : Nat) (b : Str) (st st' : Imports), items[k]? = some x ∧ blocks[k]? = some b ∧
      writeItem U cfg cs x st = .ok (b, st') := by
  obtain ⟨k, hk⟩ := getElem?_of_perm_mem hperm hx
  obtain ⟨sts, _, _, _, hall⟩ := ht.nth
  obtain ⟨s, s', b, _, _, hb, hw⟩ := hall k x hk
  exact ⟨k, b, s, s', hk, hb, hw⟩

end TsV.Cap.Go
