import TsV.Lemmas.C07_Backends_Run
/-!
# C07, generation side — evaluating small runs in the kernel

`decide +kernel` cannot evaluate `Generate.run` directly: `List.mergeSort` (in `reconcile_aliases`)
and `Topsort.inner` (in the ordering pass) are defined by well-founded recursion.  For the
kernel-checked witnesses and non-vacuity examples of `Props/C07_Backends.lean` this file shows that
on *small* inputs — at most one struct / enum / alias / const per crate, and a dependency graph
without edges — both passes are the identity, so that a run (Go) or one back-end call equals an
expression the kernel evaluates.
-/
namespace TsV.C07BE
open TsV TsV.Outcome TsV.Pipeline

def getOk {α} [Inhabited α] : Outcome α → α
  | .ok a => a
  | _ => default

theorem eq_ok_getOk {α} [Inhabited α] {o : Outcome α} (h : o.isOk = true) : o = .ok (getOk o) := by
  cases o <;> simp_all [Outcome.isOk, getOk]

/-- one item without dependencies: the ordering pass returns it -/
theorem generateOrder_trivial {d : ParsedData} (h : Deps.graph (itemsOf d) = some [[]]) :
    Pipeline.generateOrder d = some (itemsOf d) := by
  have hlen : (itemsOf d).length = 1 := by
    have := C11.option_mapM_length _ _ _ (by simpa [Deps.graph] using h)
    simpa using this.symm
  have ho : Topsort.toposort [[]] = some [0] := by
    simp [Topsort.toposort, Topsort.inner, List.range, List.range.loop]
  show Deps.topsort (itemsOf d) = some (itemsOf d)
  rw [C11.topsort_eq h ho]
  match hi : itemsOf d, hlen with
  | [it], _ => simp [Topsort.sortByIndices, Topsort.outerLoop, List.range, List.range.loop]

/-- no item at all (every annotated item of the crate failed to parse) -/
theorem generateOrder_empty {d : ParsedData} (h : Deps.graph (itemsOf d) = some []) :
    Pipeline.generateOrder d = some (itemsOf d) := by
  have hlen : (itemsOf d).length = 0 := by
    have := C11.option_mapM_length _ _ _ (by simpa [Deps.graph] using h)
    simpa using this.symm
  have ho : Topsort.toposort [] = some [] := by
    simp [Topsort.toposort, Topsort.inner, List.range, List.range.loop]
  show Deps.topsort (itemsOf d) = some (itemsOf d)
  rw [C11.topsort_eq h ho]
  match hi : itemsOf d, hlen with
  | [], _ => simp [Topsort.sortByIndices, Topsort.outerLoop, List.range, List.range.loop]

theorem sortBy_small {α} (key : α → Str) (l : List α) (h : l.length ≤ 1) : sortBy key l = l := by
  match l, h with
  | [], _ => simp [sortBy]
  | [a], _ => simp [sortBy]

/-- at most one item of each kind -/
def small (d : ParsedData) : Bool :=
  decide (d.structs.length ≤ 1) && decide (d.enums.length ≤ 1) && decide (d.aliases.length ≤ 1) &&
    decide (d.consts.length ≤ 1)

/-- `reconcile_aliases` for one crate without the (then trivial) sorting -/
def reconcileOneNoSort (r : Renames) (crate : Str) (d : ParsedData) : ParsedData :=
  let imports := d.importTypes
  { d with
    structs := d.structs.map fun s => { s with fields := s.fields.map (checkField crate r imports) },
    enums := d.enums.map fun e => { e with variants := e.variants.map (checkVariant crate r imports) },
    aliases := d.aliases.map fun a => { a with ty := checkType crate r imports a.ty },
    consts := d.consts }

theorem reconcileOne_small (r : Renames) (crate : Str) (d : ParsedData) (h : small d = true) :
    reconcileOne r crate d = reconcileOneNoSort r crate d := by
  simp only [small, Bool.and_eq_true, decide_eq_true_eq] at h
  obtain ⟨⟨⟨h1, h2⟩, h3⟩, h4⟩ := h
  simp only [reconcileOne, reconcileOneNoSort]
  rw [sortBy_small _ _ (by simpa using h1), sortBy_small _ _ (by simpa using h2),
    sortBy_small _ _ (by simpa using h3), sortBy_small _ _ h4]

def cratesNoSort (m : List (Str × ParsedData)) : List (Str × ParsedData) :=
  m.map fun (crate, d) => (crate, reconcileOneNoSort (collectSerdeRenames m) crate d)

theorem reconcile_small (m : List (Str × ParsedData)) (h : m.all (fun p => small p.2) = true) :
    reconcile m = cratesNoSort m := by
  simp only [reconcile, cratesNoSort]
  apply List.map_congr_left
  intro p hp
  obtain ⟨c, d⟩ := p
  simp only
  rw [reconcileOne_small _ _ _ (List.all_eq_true.1 h (c, d) hp)]

/-! ## Go with the order supplied -/

def goGenerateWith (U : UnicodeOps) (cfg : Lang.Go.Cfg) (items : List RustItem) (st0 : Lang.Go.Imports) :
    Outcome (Str × Lang.Go.Imports) :=
  (Lang.Go.writeItems U cfg (Lang.Go.typesMappingToStruct items) items
      (Lang.Go.addImport st0 s%"encoding/json")).bind fun (body, st) =>
    .ok (Lang.Go.beginFile cfg ++ Lang.Go.renderImports st ++ body, st)

theorem go_generate_of_order {U : UnicodeOps} {cfg : Lang.Go.Cfg} {d : ParsedData} {items : List RustItem}
    (h : Pipeline.generateOrder d = some items) (st : Lang.Go.Imports) :
    Lang.Go.generate U cfg d st = goGenerateWith U cfg items st := by
  simp only [Lang.Go.generate, h, goGenerateWith]

def goGenerateFromNoSort (U : UnicodeOps) (cfg : Lang.Go.Cfg) : List Job → Lang.Go.Imports → Outcome (List (Str × Str))
  | [], _ => .ok []
  | (crate, d, _) :: rest, st =>
    (goGenerateWith U cfg (itemsOf d) st).bind fun (text, st) =>
    (goGenerateFromNoSort U cfg rest st).bind fun outs => .ok ((crate, text) :: outs)

/-- every crate's dependency graph is empty or one node without edges -/
def trivialGraphs (jobs : List Job) : Bool :=
  jobs.all fun j => decide (Deps.graph (itemsOf j.2.1) = some [[]]) || decide (Deps.graph (itemsOf j.2.1) = some [])

theorem go_generateFrom_noSort (U : UnicodeOps) (cfg : Lang.Go.Cfg) : ∀ (jobs : List Job) (st : Lang.Go.Imports),
    trivialGraphs jobs = true → Lang.Go.generateFrom U cfg jobs st = goGenerateFromNoSort U cfg jobs st
  | [], _, _ => rfl
  | (c, d, i) :: rest, st, h => by
    have h' : (Deps.graph (itemsOf d) = some [[]] ∨ Deps.graph (itemsOf d) = some []) ∧
        trivialGraphs rest = true := by
      simpa [trivialGraphs] using h
    have ho : Pipeline.generateOrder d = some (itemsOf d) :=
      h'.1.elim generateOrder_trivial generateOrder_empty
    simp only [Lang.Go.generateFrom, goGenerateFromNoSort, go_generate_of_order ho]
    congr 1
    funext x
    rw [go_generateFrom_noSort U cfg rest _ h'.2]

/-! ## a whole Go run on small inputs -/

def goJobs (multi : Bool) (crates : List (Str × ParsedData)) : List Job :=
  let all := if multi then Pipeline.allTypes crates else []
  crates.map fun (c, d) =>
    (c, d, if multi then
        some (Pipeline.usedImports d all d.importTypes (Generate.firstOther all d.crateName))
      else none)

/-- `Generate.run` for Go without the two passes the kernel cannot unfold -/
def runGoEval (E : Ext) (cfg : Lang.Go.Cfg) (multi : Bool) (targetOs : List Str)
    (pick : List ImportedType → Option ImportedType) (files : List Generate.SourceFile) :
    Outcome Generate.RunResult :=
  (Generate.parseAll E { ignoredTypes := Generate.ignoredTypes (.go cfg), multiFile := multi, targetOs }
      pick files).bind fun arrivals =>
    let crates := cratesNoSort (Pipeline.collect arrivals)
    let errs := Pipeline.allErrors crates
    if !errs.isEmpty then .ok (.parseErrors errs)
    else (goGenerateFromNoSort E.U cfg (goJobs multi crates) []).bind fun o => .ok (.outputs o)

/-- the (decidable) side condition under which `runGoEval` is the run -/
def evalOk (E : Ext) (cfg : Lang.Go.Cfg) (multi : Bool) (targetOs : List Str)
    (pick : List ImportedType → Option ImportedType) (files : List Generate.SourceFile) : Bool :=
  match Generate.parseAll E { ignoredTypes := Generate.ignoredTypes (.go cfg), multiFile := multi, targetOs }
      pick files with
  | .ok arrivals =>
    (Pipeline.collect arrivals).all (fun p => small p.2) &&
      trivialGraphs (goJobs multi (cratesNoSort (Pipeline.collect arrivals)))
  | _ => true

theorem run_go_eval (E : Ext) (cfg : Lang.Go.Cfg) (multi : Bool) (targetOs : List Str)
    (pick : List ImportedType → Option ImportedType) (files : List Generate.SourceFile)
    (h : evalOk E cfg multi targetOs pick files = true) :
    Generate.run E (.go cfg) multi targetOs pick files = runGoEval E cfg multi targetOs pick files := by
  unfold Generate.run runGoEval
  simp only
  unfold evalOk at h
  cases hp : Generate.parseAll E { ignoredTypes := Generate.ignoredTypes (.go cfg), multiFile := multi, targetOs }
      pick files with
  | err e => rfl
  | panic s => rfl
  | ok arrivals =>
    rw [hp] at h
    simp only [Bool.and_eq_true] at h
    simp only [Outcome.bind_ok, reconcile_small _ h.1]
    split
    · rfl
    · simp only [Lang.Go.generateAll]
      rw [← go_generateFrom_noSort E.U cfg _ [] h.2]
      rfl

end TsV.C07BE
