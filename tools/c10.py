"""C10 — generated files are syntactically well-formed in their target language (partial strength).

Every generated program goes through the Lean model and the real generator (byte-exact comparison, the tie for the
theorems of TsV.C10), and the IMPLEMENTATION's text goes through an oracle: CPython's own parser (`ast.parse`, plus a
declaration-shape pass and, in the thorough tier, execution against stub `pydantic`) for Python, recursive-descent
recognisers for the declaration subset for the other five (tools/c10_syntax.py).  A rejected output is a failing
input unless one of the `Known_*` classes of TsV.C10 (same predicates, evaluated here on the implementation's
reconciled ParsedData) explains the rejection.
"""
import re, sys, types
from common import *
from syn_gen import *
import gen as genmod
from gen import Gen, TYPE_WORDS
import l2
import c10_syntax as syn

NEEDS = ("runner", "cli")
TRUSTED = [
    "C10 oracles: CPython's parser for Python; for TypeScript/Kotlin/Swift/Scala/Go the hand-written tokenisers and "
    "recursive-descent recognisers of tools/c10_syntax.py (the declaration subset typeshare emits, NOT the vendors' grammars; "
    "bodies of Swift init(from:)/encode(to:), Go funcs and the TypeScript reviver/replacer are balanced token soup)",
    "keyword policy of the oracles: Swift reserved words are rejected in declaring positions, as init labels only inout/var/let, "
    "lower-case ones in type position; TypeScript/Kotlin/Scala/Go reserved words in identifier position are accepted and counted "
    "(the property demands escaping only where the back end promises it)",
    "lexer automata and bracket discipline of TsV/Lemmas/C10_Lex.lean (`wellBracketed`) as the specification of 'all "
    "delimiters, string literals and comments are closed'",
]

# ------------------------------------------------------------------------------------------ scope and known classes

IDENT = re.compile(r"[A-Za-z_][A-Za-z0-9_]*\Z")
PY_KEYWORDS = {"False", "None", "True", "and", "as", "assert", "async", "await", "break", "class", "continue", "def", "del",
               "elif", "else", "except", "finally", "for", "from", "global", "if", "import", "in", "is", "lambda",
               "nonlocal", "not", "or", "pass", "raise", "return", "try", "while", "with", "yield"}
SWIFT_KEYWORDS = ["associatedtype", "class", "deinit", "enum", "extension", "fileprivate", "func", "import", "init", "inout",
                  "internal", "let", "operator", "private", "protocol", "public", "rethrows", "static", "struct", "subscript",
                  "typealias", "var", "break", "case", "continue", "default", "defer", "do", "else", "fallthrough", "for",
                  "guard", "if", "in", "repeat", "return", "switch", "where", "while", "as", "Any", "catch", "false", "is",
                  "nil", "super", "self", "Self", "throw", "throws", "true", "try", "Protocol", "Type"]


def to_pascal(s):
    all_upper = s.upper() == s
    out, cap = [], True
    for ch in s:
        if ch == "_":
            cap = True
        elif cap:
            out.append(ch.upper() if ch.isascii() else ch)
            cap = False
        else:
            out.append(ch.lower() if all_upper and ch.isascii() else ch)
    return "".join(out)


def to_camel(s):
    p = to_pascal(s)
    return (p[0].lower() if p[0].isascii() else p[0]) + p[1:] if p else p


def type_names(t, acc):
    if "S" in t:
        acc.append(t["S"])
    elif "G" in t:
        acc.append(t["G"])
        for p in t["p"]:
            type_names(p, acc)
    else:
        for a in t.get("a", []):
            type_names(a, acc)


def all_fields(d):
    for s in d["structs"]:
        for f in s["fields"]:
            yield f
    for e in d["enums"]:
        for v in e["variants"]:
            for f in v.get("fields", []):
                yield f


def printed_type_names(d):
    """every name a back end prints in a type-name position: declared names (original and renamed) and references"""
    acc = []
    for k in ("structs", "enums", "aliases"):
        for it in d[k]:
            acc += [it["id"]["o"], it["id"]["r"]]
    for a in d["aliases"]:
        type_names(a["ty"], acc)
    for c in d["consts"]:
        type_names(c["ty"], acc)
    for f in all_fields(d):
        type_names(f["ty"], acc)
    for e in d["enums"]:
        for v in e["variants"]:
            if "ty" in v:
                type_names(v["ty"], acc)
    return acc


def known_classes(lang, cfg, datas):
    """the `Known_*` predicates of TsV.C10 evaluated on the implementation's reconciled ParsedData: id -> detail"""
    out = {}

    def add(kid, detail):
        out.setdefault(kid, [])
        out[kid] += [x for x in detail if x not in out[kid]]
    for d in datas:
        dashed = sorted({n for n in printed_type_names(d) if "-" in n})
        if dashed:
            add("dashed-type-name", dashed)
        if lang == "python":
            kw = [k for e in d["enums"] if e["kind"] == "alg" for k in (e["tag"], e["content"]) if k in PY_KEYWORDS]
            if kw:
                add("python-tag-key-keyword", kw)
            alg = [v["id"]["r"] for e in d["enums"] if e["kind"] == "alg" for v in e["variants"]]
            dig = [r for r, sn in zip(alg, snake(alg)) if sn == "" or sn[0].isdigit()]
            if dig:
                add("python-tag-member-not-identifier", dig)
        if lang == "kotlin" and d.get("multi_file") and cfg.get("package", "") == "":
            add("kotlin-import-empty-package", [""])
        if lang == "typescript":
            ge = [e["id"]["r"] for e in d["enums"] if e["kind"] == "unit" and e["generic_types"]]
            if ge:
                add("typescript-generic-unit-enum", ge)
        if lang == "scala":
            du = [f["id"]["r"] for f in all_fields(d) if f["has_default"] and f["ty"].get("Sp") != "Option"]
            if du:
                add("scala-default-underscore", du)
        if lang == "swift":
            kw = [k for e in d["enums"] if e["kind"] == "alg" for k in (e["tag"], e["content"]) if k in syn.SWIFT_RESERVED]
            lab = [f["id"]["r"] for f in all_fields(d) if f["id"]["r"].replace("-", "_") in ("var", "let", "inout")]
            if kw or lab:
                add("swift-keyword-not-escaped", kw + lab)
            bad = []
            for e in d["enums"]:
                for v in e["variants"]:
                    c = to_camel(v["id"]["o"])
                    if c == "" or (e["kind"] == "unit" and c[0].isdigit()):
                        bad.append(v["id"]["o"])
            if bad:
                add("swift-case-name-not-identifier", bad)
    return out


_SNAKE = {}


def snake(strings):
    """convert_case's snake-casing (external to typeshare), by the real crate through the runner"""
    todo = sorted({x for x in strings if x not in _SNAKE})
    if todo:
        for a, b in runner([{"op": "snake", "strings": todo}])[0]["ok"]:
            _SNAKE[a] = b
    return [_SNAKE[x] for x in strings]


def all_comments(d):
    for k in ("structs", "enums", "aliases"):
        for it in d[k]:
            yield from it["comments"]
    for f in all_fields(d):
        yield from f["comments"]
    for e in d["enums"]:
        for v in e["variants"]:
            yield from v["comments"]


def explains(kid, detail, lang, rej, text):
    """does the known class account for THIS rejection (not merely co-occur with it)?"""
    lines = text.split("\n")
    ln = rej.tok[2] if rej.tok else 0
    line = lines[ln - 1] if 0 < ln <= len(lines) else ""
    near = rej.tok[1] if rej.tok else ""
    if kid == "dashed-type-name":
        return any(n in line for n in detail) and (near == "-" or lang == "python")
    if kid == "python-tag-key-keyword":
        return any(re.match(r"\s+%s: " % re.escape(k), line) for k in detail)
    if kid == "python-tag-member-not-identifier":
        return any(re.match(r"\s+\S* = %s\Z" % re.escape(json.dumps(r)), line) for r in detail) or rej.what.startswith("CPython: invalid decimal literal")
    if kid == "kotlin-import-empty-package":
        return line.startswith("import .")
    if kid == "typescript-generic-unit-enum":
        return near == "<" and line.startswith("export enum ")
    if kid == "scala-default-underscore":
        return "not a default-value expression" in rej.what and near == "_"
    if kid == "swift-keyword-not-escaped":
        return "keyword" in rej.what and near in [x.replace("-", "_") for x in detail]
    if kid == "swift-case-name-not-identifier":
        return "expected an identifier (case)" in rej.what
    return False


# stored witnesses: (id, lang, config, source or None for the two-crate Kotlin case)
DASHED = "#[typeshare]\n#[serde(rename = \"New-Name\")]\npub struct Foo { pub a: u8 }\n"
WITNESSES = [
    ("dashed-type-name", "typescript", {}, DASHED),
    ("dashed-type-name", "kotlin", {"package": "com.example"}, DASHED),
    ("dashed-type-name", "swift", {}, DASHED),
    ("dashed-type-name", "scala", {"package": "com.example"}, DASHED),
    ("dashed-type-name", "go", {"package": "proto"}, DASHED),
    ("dashed-type-name", "python", {}, DASHED),
    ("python-tag-key-keyword", "python", {}, "#[typeshare]\n#[serde(tag = \"class\", content = \"content\")]\npub enum E { A(u8) }\n"),
    ("typescript-generic-unit-enum", "typescript", {}, "#[typeshare]\npub enum E<T> { A, #[serde(skip)] P(std::marker::PhantomData<T>) }\n"),
    ("scala-default-underscore", "scala", {"package": "com.example"}, "#[typeshare]\npub struct S { #[serde(default)] pub a: u8 }\n"),
    ("swift-keyword-not-escaped", "swift", {}, "#[typeshare]\n#[serde(tag = \"case\", content = \"content\")]\npub enum E { A(u8) }\n"),
    ("swift-keyword-not-escaped", "swift", {}, "#[typeshare]\npub struct S { pub var: u8 }\n"),
    ("swift-case-name-not-identifier", "swift", {}, "#[typeshare]\npub enum E { _1, B }\n"),
    ("python-tag-member-not-identifier", "python", {}, "#[typeshare]\n#[serde(tag = \"t\", content = \"c\")]\npub enum E { _1(u8), B }\n"),
    ("kotlin-import-empty-package", "kotlin", {"package": ""}, None),
]
# witnesses of repaired findings (python-generic-alias: f8d1040, python-docstring-escape: af54d85,
# scala-package-without-dot: 653aee1): the oracle must accept the implementation's output now
REPAIRED = [
    ("scala-package-without-dot", "scala", {"package": "pkg"}, "#[typeshare]\npub struct S { pub a: u8 }\n"),
    ("scala-package-without-dot", "scala", {"package": "pkg"}, "#[typeshare]\npub struct S;\n"),
    ("scala-package-without-dot", "scala", {"package": "pkg"},
     "#[typeshare]\npub type A = Vec<u8>;\n#[typeshare]\npub struct S { pub a: A }\n#[typeshare]\npub enum E { P, Q }\n"),
    ("python-generic-alias", "python", {}, "#[typeshare]\npub type G<T> = Vec<T>;\n"),
    ("python-generic-alias", "python", {}, "#[typeshare]\n/// doc\npub type M<K, V> = HashMap<String, Option<Vec<V>>>;\n#[typeshare]\npub struct S<K> { pub a: K }\n"),
    ("python-docstring-escape", "python", {}, "#[typeshare]\n/// see C:\\Users\\x\npub struct S { pub a: u8 }\n"),
    ("python-docstring-escape", "python", {}, "#[typeshare]\n/// \\N \\x4 \\u12 \\\"\"\" \\\npub struct S {\n    /// trailing \\\n    pub a: u8 }\n"),
]
# the witness of TsV.C10.C10_not_full (theorem renamed_name_printed_raw): the item rename is copied into the declaration
# unchecked (the mechanism of dashed-type-name), so a dash *and a bracket* leave the file lexically unclosed
NOT_FULL = ("scala", {"package": "com.example", "version_header": False},
            "#[typeshare]\n#[serde(rename = \"New-Name{\")]\npub struct Foo;\n",
            "package com\n\npackage example {\n\nclass New-Name{ extends Serializable\n\n}\n")
KOTLIN_IMPORT_FILES = [
    {"src": "#[typeshare]\npub struct A { pub a: u8 }\n", "crate": "alpha", "file_name": "alpha.out", "path": "alpha/src/lib.rs"},
    {"src": "use alpha::A;\n#[typeshare]\npub struct B { pub a: A }\n", "crate": "beta", "file_name": "beta.out", "path": "beta/src/lib.rs"},
]

# ------------------------------------------------------------------------------------------ generation

MAPS = {
    "typescript": [{}, {}, {"Url": "string"}, {"Vec<u8>": "Uint8Array"}, {"OffsetDateTime": "Date", "Foo": "FooMapped"},
                   {"Option<String>": "Maybe<string>", "HashMap<String,u8>": "Record<string, number>", "Bar": "{ a: number }"}],
    "kotlin": [{}, {}, {"Url": "String"}, {"OffsetDateTime": "Instant"}, {"Foo": "FooMapped", "Bar": "kotlin.Any"},
               {"Item": "List<Int>", "Id": "java.util.UUID"}],
    "swift": [{}, {}, {"Url": "URL"}, {"OffsetDateTime": "Date"}, {"Foo": "FooMapped", "Wrapper": "Box<Int>", "Id": "UUID"}],
    "scala": [{}, {}, {"Url": "String"}, {"OffsetDateTime": "java.time.Instant"}, {"Foo": "FooMapped", "Bar": "Map[String, Any]"}],
    "go": [{}, {}, {"Url": "string"}, {"OffsetDateTime": "time.Time"}, {"Vec<u8>": "[]byte"}, {"Foo": "FooMapped", "Id": "uuid.UUID"},
           {"Option<String>": "*Str", "HashMap<String,u8>": "map[string]int", "()": "Unit"}],
    "python": [{}, {}, {"Url": "AnyUrl"}, {"OffsetDateTime": "datetime"}, {"Vec<u8>": "bytes"},
               {"Vec<u8>": "bytes", "OffsetDateTime": "datetime", "Foo": "FooMapped"},
               {"Option<String>": "MaybeStr", "HashMap<String,u8>": "Dict[str, int]"}],
}
OVERRIDES = {
    "typescript": ["any", "string | undefined", "Custom<number>[]", "[number, string]", "Record<string, unknown>"],
    "kotlin": ["Any", "kotlin.Any?", "List<Custom<Int>>"],
    "swift": ["Any", "[Custom]?", "[String: Custom<Int>]"],
    "scala": ["Any", "Option[Custom]", "Map[String, Vector[Custom]]"],
    "go": ["any", "[]Custom", "map[string]*Custom", "interface{}"],
    "python": [],           # python.rs ignores type overrides
}
DOC_EXTRA = [" see C:\\Users", " \\N", " \\x4z \\u12", " say \"hi\"", " it's", " a /* b", " x // y", " (paren", " brace}", " [", " >", " <T", " `tick", " 100%", " $x ${y}",
             " back\\slash", " two \"\" quotes", " semi;colon", " trailing backslash\\", " @tag", " #", " '"]
KEY_TAGS = [("case", "content"), ("type", "default"), ("class", "value"), ("kind", "in"), ("from", "import"), ("t", "is")]
VARIANT_EXTRA = ["Default", "Case", "In", "Is", "Do", "Type", "Any", "_1", "_2nd", "Class1"]
# `inout` (Swift label keyword); names that are not keywords themselves but whose snake_case form is a Python keyword
FIELD_EXTRA = ["inout", "from_", "in_", "as_", "is_", "_while", "class_", "not_", "_if", "lambda_"]


def tweak(rng, lang, f, thorough):
    """additions to a generated file that aim at C10: lang-valid type overrides and decorators, keyword tag keys"""
    feats = {}

    def fields(fs):
        if fs[0] != "named":
            return
        for fl in fs[1]:
            if OVERRIDES[lang] and rng.random() < 0.06:
                fl["attrs"] = fl["attrs"] + [m_list("typeshare", [m_list(lang, [m_nv("type", lit_s(rng.choice(OVERRIDES[lang])))])])]
                feats["type-override"] = feats.get("type-override", 0) + 1
            if lang == "typescript" and rng.random() < 0.04:
                fl["attrs"] = fl["attrs"] + [m_list("typeshare", [m_list("typescript", [m_path("readonly")])])]
                feats["readonly"] = feats.get("readonly", 0) + 1

    def items(its):
        for it in its:
            k = it["kind"]
            if k in ("mod", "other"):
                items(it["items"])
                continue
            if k in ("struct", "enum", "alias") and rng.random() < 0.85:
                # keep the dashed item rename (a known class that breaks the whole file) rare
                it["attrs"] = [m_list("serde", [m_nv("rename", lit_s("NewName")) if (x[0] == "nv" and x[1] == ["rename"] and x[2] == ("s", "New-Name")) else x
                                                 for x in a[3]]) if (a[0] == "l" and a[1] == ["serde"] and a[2]) else a for a in it["attrs"]]
            if k == "struct":
                fields(it["fields"])
            if k == "enum":
                for v in it["variants"]:
                    fields(v["fields"])
                if rng.random() < 0.05:
                    new = []
                    tag, content = rng.choice(KEY_TAGS)
                    hit = False
                    for a in it["attrs"]:
                        if a[0] == "l" and a[1] == ["serde"] and a[2]:
                            args = []
                            for x in a[3]:
                                if x[0] == "nv" and x[1] == ["tag"]:
                                    x, hit = m_nv("tag", lit_s(tag)), True
                                elif x[0] == "nv" and x[1] == ["content"]:
                                    x = m_nv("content", lit_s(content))
                                args.append(x)
                            a = m_list("serde", args)
                        new.append(a)
                    it["attrs"] = new
                    if hit:
                        feats["keyword-tag"] = feats.get("keyword-tag", 0) + 1
            if k in ("struct", "enum", "alias") and rng.random() < 0.1 and any(a[0] in ("p", "l") and a[1][-1] == "typeshare" for a in it["attrs"]):
                if lang == "swift":
                    arg = rng.choice([m_nv("swift", lit_s(rng.choice(["Equatable", "Equatable, Hashable", " Sendable ,Codable"]))),
                                      m_nv("swiftGenericConstraints", lit_s(rng.choice(["T: Equatable", "T: Equatable & Hashable, U: Sendable"])))])
                elif lang == "kotlin":
                    arg = m_nv("kotlin", lit_s(rng.choice(["JvmInline", "Serializable"])))
                else:
                    arg = m_path("redacted")
                it["attrs"] = it["attrs"] + [m_list("typeshare", [arg])]
                feats["decorator"] = feats.get("decorator", 0) + 1
    items(f["items"])
    return feats


def config_for(rng, lang):
    cfg = {"type_mappings": rng.choice(MAPS[lang]), "version_header": rng.random() < 0.4,
           "package": "com.example.pkg", "module_name": rng.choice(["mod", ""]), "prefix": rng.choice(["", "", "OP", "Core_"])}
    if lang == "kotlin":
        cfg["package"] = rng.choice(["com.example.pkg", "com.example.pkg", "", "x"])
    if lang == "go":
        cfg["package"] = rng.choice(["proto", "my_pkg"])
        cfg["uppercase_acronyms"] = rng.choice([[], [], ["id", "url"], ["ID", "Url", "line"], ["type", "kind", "id"]])
        cfg["no_pointer_slice"] = rng.random() < 0.4
    if lang == "swift":
        cfg["default_decorators"] = rng.choice([[], [], ["Equatable"], ["Sendable", "Hashable"], ["Codable"]])
        cfg["default_generic_constraints"] = rng.choice([[], [], ["Equatable"], ["Sendable & Identifiable"]])
        cfg["codablevoid_constraints"] = rng.choice([[], ["Equatable"], ["Sendable", "Hashable"]])
    if lang == "scala":
        cfg["package"] = rng.choice(["com.example.pkg"] * 8 + ["a.b", "pkg"])
    return cfg


def make_cases(rng, lang, n, thorough):
    cases = []
    consts = lang in ("typescript", "go", "python")
    for i in range(n):
        multi = (i % 8 == 7)
        g = Gen(rng, p_cfg=0.0, p_edge=0.0, p_decorators=0.0, p_type_decorators=0.0, p_doc=0.45, p_redacted=0.1,
                p_rename=0.25, p_default=0.06 if lang == "scala" else 0.25, p_generic=0.3, p_const=0.25 if consts else 0.0,
                multi_file=multi, crates=["alpha", "beta_x"],
                # one case in three draws its doc strings from characters instead of words: line breaks of every kind inside
                # #[doc = ".."] strings (a line comment that is not closed at one of them swallows or spills code)
                doc_alphabet=["a", "b", " ", "x", "\r", "\n", "\t", "'", "z", "*/", "/*", "*", "/", '"""', "\\"] if i % 3 == 1 else None)
        cfg = config_for(rng, lang)
        feats = {}
        if not multi:
            f = g.file()
            feats = tweak(rng, lang, f, thorough)
            files = [{"crate": "", "file_name": "out", "path": "src/lib.rs", "file": f}]
            names = l2.names_of(f)
        else:
            words = rng.sample(TYPE_WORDS, 8)
            split = {"alpha": words[:4], "beta_x": words[4:]}
            files, names = [], set()
            for crate, mine in split.items():
                others = [w for c, ws in split.items() if c != crate for w in ws]
                ext = rng.sample(others, 2)
                f = g.file(names=rng.sample(mine, rng.randint(1, 4)), extern_types=ext)
                for e in ext:
                    if rng.random() < 0.7:
                        oc = [c for c in split if c != crate][0]
                        f["items"].insert(0, {"kind": "use", "tree": ("upath", oc, ("uname", e))})
                for k, v in tweak(rng, lang, f, thorough).items():
                    feats[k] = feats.get(k, 0) + v
                files.append({"crate": crate, "file_name": crate + ".out", "path": crate + "/src/lib.rs", "file": f})
                names |= l2.names_of(f)
            rng.shuffle(files)
        m, r, texts = l2.requests(lang, cfg, files, g, multi_file=multi)
        for k, v in g.features.items():
            feats[k] = feats.get(k, 0) + v
        cases.append(dict(lang=lang, cfg=cfg, m=m, r=r, texts=texts, names=names, multi=multi, feats=feats))
    return cases


# ------------------------------------------------------------------------------------------ python import (thorough)

def stub_modules():
    """a stub `pydantic` (and `pydantic.networks`) good enough to *import* a generated module"""
    pyd = types.ModuleType("pydantic")

    class BaseModel:
        def __init__(self, **kw):
            self.__dict__.update(kw)

    def Field(*a, **kw):
        return kw.get("default")

    def ConfigDict(**kw):
        return dict(kw)

    class _Marker:
        def __init__(self, *a, **kw):
            pass
    pyd.BaseModel, pyd.Field, pyd.ConfigDict = BaseModel, Field, ConfigDict
    pyd.BeforeValidator, pyd.PlainSerializer = _Marker, _Marker
    net = types.ModuleType("pydantic.networks")
    net.AnyUrl = str
    pyd.networks = net
    return {"pydantic": pyd, "pydantic.networks": net}


def python_import(text):
    """execute the module against the stubs; returns None or (exception class name, message)"""
    saved = {k: sys.modules.get(k) for k in ("pydantic", "pydantic.networks")}
    sys.modules.update(stub_modules())
    try:
        exec(compile(text, "<generated>", "exec"), {"__name__": "generated"})
        return None
    except Exception as e:            # noqa: the generated module may raise anything
        return type(e).__name__, str(e)[:200]
    finally:
        for k, v in saved.items():
            if v is None:
                sys.modules.pop(k, None)
            else:
                sys.modules[k] = v


# ------------------------------------------------------------------------------------------ the check

def reconciled(case):
    r = dict(case["r"])
    r["reconciled"] = True
    a = runner([r])[0]
    return list(a["ok"].values()) if "ok" in a else []


def judge(check, case, ans, lexok):
    """oracle on the implementation's output of one case; returns the list of unexplained rejections.
    `lexok`: file name -> the Lean specification `C10Spec.lexOk` evaluated on the same text"""
    bad = []
    datas = None
    for name, text in sorted(ans["ok"].items()):
        rej, notes = syn.check(case["lang"], text)
        if rej is None and lexok.get(name) is False:
            bad.append((name, text, syn.Reject("the recogniser accepts the text but the Lean lexical specification lexOk rejects it"), "specification and oracle disagree"))
            continue
        check.count("%s-lexOk=%s-oracle=%s" % (case["lang"], lexok.get(name), "accept" if rej is None else "reject"))
        for role, w in notes:
            check.count("%s-reserved-word-as-%s(accepted,no-promise)" % (case["lang"], role.replace(" ", "-")))
        if rej is None:
            check.count("%s-accepted" % case["lang"])
            if case["lang"] == "python" and check.thorough:
                imp = python_import(text)
                check.count("python-import-%s" % (imp[0] if imp else "ok"))
            continue
        if datas is None:
            datas = reconciled(case)
        classes = known_classes(case["lang"], case["cfg"], datas)
        hit = [k for k, d in classes.items() if explains(k, d, case["lang"], rej, text)]
        if hit:
            check.count("%s-rejected-known:%s" % (case["lang"], hit[0]))
            witness = {"lang": case["lang"], "config": case["cfg"], "source": case["texts"], "rejection": rej.describe()}
            if not check.known(hit[0], witness):
                bad.append((name, text, rej, "class %s is not an open known finding" % hit[0]))
        else:
            bad.append((name, text, rej, "no known class explains it (classes present: %s)" % sorted(classes)))
    return bad


ON_DISK_SRC = "#[typeshare]\npub struct Holder { pub unit: (), pub name: String }\n\n#[typeshare]\n#[serde(tag = \"t\", content = \"c\")]\npub enum Shape { Dot, Line(u32), Box { w: u8 } }\n"
ON_DISK_LONG = "#[typeshare]\npub struct HolderWithAVeryLongNameIndeed { pub unit: (), pub a_rather_long_field_name: String, pub another_one: Vec<Option<String>> }\n\n" + ON_DISK_SRC


def files_on_disk_part(check):
    """well-formedness is a property of the *files*: every file the binary leaves behind - also over a destination that already
    holds an earlier, longer or equally long output, and Swift's `Codable.swift` after the configuration changed between two runs
    into the same folder - is recognised and equals what a run into a fresh destination writes"""
    for lang in LANGS:
        prob = dirty_destination(check, "c10", lang, {"src/lib.rs": ON_DISK_SRC}, earlier_sources={"src/lib.rs": ON_DISK_LONG})
        if prob:
            rej, _ = syn.check(lang, prob["file_after_run"] or "")
            check.violation("%s: written over an existing file (%s) the output %s" % (lang, prob["state"],
                            "is not well-formed: " + rej.describe() if rej is not None else "is not the file a fresh run writes"),
                            case=prob, impl=prob["file_after_run"], model=prob["fresh_run"], failing_input=True)
            return
    # Swift's helper module: three configurations of decreasing / equal / increasing length, run one after the other into one folder
    seqs = [[["Equatable", "Hashable", "Sendable"], [], ["Sendable"]], [["Sendable"], ["Hashable"], ["Equatable", "Hashable"]]]
    for seq in seqs:
        with Scratch() as sc:
            sc.write("ws/alpha/src/lib.rs", ON_DISK_SRC)
            for step, constraints in enumerate(seq):
                sc.write("ws/typeshare.toml", "[swift]\ncodablevoid_constraints = [%s]\n" % ", ".join('"%s"' % c for c in constraints))
                r = run_cli(["--lang", "swift", "-d", sc.path("out"), "-c", sc.path("ws/typeshare.toml"), sc.path("ws")], cwd=sc.path("ws"))
                rf = run_cli(["--lang", "swift", "-d", sc.path("fresh%d" % step), "-c", sc.path("ws/typeshare.toml"), sc.path("ws")], cwd=sc.path("ws"))
                check.saw(("codable-sequence", json.dumps(seq), step), nontrivial=True)
                check.count("codable-sequence-step")
                if r["rc"] != 0 or rf["rc"] != 0:
                    continue
                for fn in sorted(os.listdir(sc.path("fresh%d" % step))):
                    want = open(os.path.join(sc.path("fresh%d" % step), fn), encoding="utf-8").read()
                    got = open(os.path.join(sc.path("out"), fn), encoding="utf-8").read() if os.path.exists(os.path.join(sc.path("out"), fn)) else None
                    rej = syn.check("swift", got)[0] if got is not None else None
                    if got != want or rej is not None:
                        check.violation("swift -d: after %d run(s) into one folder with codablevoid_constraints %s, %s %s"
                                        % (step + 1, seq[:step + 1], fn, "is not well-formed: " + rej.describe() if rej is not None
                                           else "is not the file a fresh folder gets"),
                                        case={"constraint_sequence": seq[:step + 1], "source": ON_DISK_SRC}, impl=got, model=want, failing_input=True)
                        return


def run(check):
    rng = check.rng
    per_lang = 20000 if check.thorough else 1800
    check.rule = ("random programs over all item kinds (structs incl. empty/unit/newtype, unit and algebraic enums incl. empty, "
                  "aliases, consts where supported), generics, renames incl. dashed keys and dashed item names, rename_all, "
                  "optionals and serde(default), redaction, decorators and lang-valid type overrides, type mappings, doc comments "
                  "on every level over an alphabet with quotes, back-slashes, comment openers and brackets (C15's bad classes — "
                  "newline, `*/`, `\"\"\"` — excluded), keyword field/variant/tag names; header, package and prefix settings; "
                  "1 in 8 cases multi-file; x 6 languages.  non-trivial = the implementation produced at least one output file "
                  "that went through the oracle")
    genmod.DOC_WORDS = list(genmod.DOC_WORDS) + DOC_EXTRA
    genmod.VARIANT_WORDS = list(genmod.VARIANT_WORDS) + VARIANT_EXTRA
    genmod.FIELD_WORDS = list(genmod.FIELD_WORDS) + FIELD_EXTRA
    # type names that are (capitalised) Swift keywords: the escape must apply to the whole prefixed name
    genmod.TYPE_WORDS = list(genmod.TYPE_WORDS) + ["Type", "Protocol", "Any"]
    reported_langs = set()
    for lang in LANGS:
        cases = make_cases(rng, lang, per_lang, check.thorough)
        names = set().union(*[c["names"] for c in cases]) if lang == "python" else None
        mans = [l2.norm(a) for a in model([c["m"] for c in cases], names=names)]
        rans_raw = runner([c["r"] for c in cases])
        # the Lean specification on the implementation's text (ties `lexOk` to real outputs)
        lex_reqs, lex_idx = [], []
        for i, ra_raw in enumerate(rans_raw):
            for name, text in sorted(ra_raw.get("ok", {}).items()) if isinstance(ra_raw.get("ok"), dict) else []:
                lex_reqs.append([S("lexok"), S(lang), text])
                lex_idx.append((i, name))
        lex_ans = model(lex_reqs, with_unicode=False) if lex_reqs else []
        lexok = {}
        for (i, name), a in zip(lex_idx, lex_ans):
            lexok.setdefault(i, {})[name] = a.get("ok")
        for ci, (c, ma, ra_raw) in enumerate(zip(cases, mans, rans_raw)):
            ra = l2.norm(ra_raw)
            key = (lang, json.dumps(c["cfg"], sort_keys=True), "\n".join(c["texts"]))
            check.saw(key, nontrivial="ok" in ra)
            check.count("%s-%s" % (lang, "ok" if "ok" in ra else "rejected-input"))
            for k, v in c["feats"].items():
                if k in ("keyword-tag", "type-override", "decorator", "doc", "item-rename", "rename", "default", "const", "alias", "enum", "struct"):
                    check.count(k, v)
            agree = ma == ra
            bad = judge(check, c, ra_raw, lexok.get(ci, {})) if "ok" in ra_raw else []
            # one failing input and one broken-correspondence report per language; the latter never hides the former
            reported = (lang, "failing") in reported_langs
            if bad and not reported:
                name, text, rej, why = bad[0]
                reported_langs.add((lang, "failing"))
                check.violation("%s output is not well-formed: %s; %s" % (lang, rej.describe(), why),
                                case={"lang": lang, "config": c["cfg"], "source": c["texts"], "request": c["r"]},
                                impl={"file": name, "text": text}, model=ma if not agree else "(agrees with the implementation)",
                                failing_input=True)
            elif not agree and not bad and (lang, "weak") not in reported_langs and not reported:
                reported_langs.add((lang, "weak"))
                diff = None
                if "ok" in ma and "ok" in ra:
                    for k in ra["ok"]:
                        diff = diff or l2.text_diff(ma["ok"].get(k, ""), ra["ok"][k])
                check.violation("%s generator differs from the model (%s); the oracle accepts the implementation's text" % (lang, diff or "different outcome"),
                                case={"lang": lang, "config": c["cfg"], "source": c["texts"], "request": c["r"]},
                                impl=ra, model=ma, failing_input=False,
                                broken="correspondence L2 %s generate_types byte-exact (hypotheses of TsV.C10.* are about this model)" % lang)
            if len(check.samples) < 6 and "ok" in ra and lang not in [s_["lang"] for s_ in check.samples]:
                check.sample({"lang": lang, "config": c["cfg"], "source": c["texts"][0][:600],
                              "output": list(ra["ok"].values())[0][:600]})
    replay_witnesses(check)
    replay_repaired(check)
    replay_not_full(check)
    if not check.has_failing():
        files_on_disk_part(check)
    check.assumptions += [
        "partial strength: the Lean theorems prove lexical well-formedness (comments, string literals and brackets closed: `wellBracketed`), the "
        "keyword-escaping promises of Swift and Python and the leading-digit rule on the model; conformance to the declaration grammar is CHECKED "
        "here by recognisers on generated programs, not proved",
        "the recognisers accept a declaration subset, not the vendors' grammars; no name resolution or type checking of the generated code "
        "(duplicate member names, undefined or shadowed names, Go's unused import are outside)",
        "doc comments containing a line break, `*/` (TypeScript) or `\"\"\"` (Python) are C15's known classes and excluded by hypothesis here",
    ]


def replay_not_full(check):
    """the kernel-checked witness of C10_not_full on the real generator: the same bytes as in the theorem, rejected by the
    Lean specification lexOk and by the oracle, inside the open class dashed-type-name"""
    lang, cfg, src, want = NOT_FULL
    req = {"op": "generate", "lang": lang, "config": cfg, "files": [{"src": src, "crate": "", "file_name": "o", "path": "w.rs"}]}
    a = runner([req])[0]
    d = runner([dict(req, reconciled=True)])[0]
    check.saw(("not-full-witness", lang, src), nontrivial=True)
    case = {"lang": lang, "config": cfg, "source": src}
    text = list(a["ok"].values())[0] if "ok" in a else None
    if text != want:
        check.violation("the witness of TsV.C10.C10_not_full is generated differently from the theorem's text", case=case, impl=a,
                        model=want, failing_input=False, broken="correspondence L2 scala generate_types (theorem TsV.C10.renamed_name_printed_raw)")
        return
    lex = model([[S("lexok"), S(lang), text]], with_unicode=False)[0].get("ok")
    rej, _ = syn.check(lang, text)
    classes = known_classes(lang, cfg, list(d["ok"].values())) if "ok" in d else {}
    if lex is not False or rej is None or "dashed-type-name" not in classes:
        check.violation("the witness of TsV.C10.C10_not_full is not rejected any more (lexOk=%s, oracle=%s, classes=%s)"
                        % (lex, rej.describe() if rej else "accept", sorted(classes)), case=case, impl={"text": text},
                        failing_input=False, broken="theorem TsV.C10.C10_not_full is about the model only")
    elif not check.known("dashed-type-name", {"lang": lang, "config": cfg, "source": src, "output": text, "rejection": rej.describe()}):
        check.violation("%s output is not lexically closed: %s (witness of C10_not_full; class dashed-type-name is not an open known finding)"
                        % (lang, rej.describe()), case=case, impl={"text": text}, failing_input=True)


def replay_repaired(check):
    """the witnesses of repaired findings are ordinary inputs now: the oracle must accept what is generated for them"""
    reqs = [{"op": "generate", "lang": l, "config": cfg, "files": [{"src": s_, "crate": "", "file_name": "o", "path": "w.rs"}]}
            for _, l, cfg, s_ in REPAIRED]
    for (kid, lang, cfg, src), a in zip(REPAIRED, runner(reqs)):
        check.saw(("repaired", kid, lang, src), nontrivial=True)
        if "ok" not in a:
            check.violation("the witness of the repaired finding %s is not generated: %s" % (kid, str(a)[:200]),
                            case={"lang": lang, "config": cfg, "source": src}, impl=a, failing_input=True)
            continue
        for text in a["ok"].values():
            rej, _ = syn.check(lang, text)
            lex = model([[S("lexok"), S(lang), text]], with_unicode=False)[0].get("ok")
            if rej is not None or lex is False:
                check.violation("%s output is not well-formed: %s (witness of the repaired finding %s: the defect has returned)"
                                % (lang, rej.describe() if rej is not None else "the Lean specification lexOk rejects it", kid),
                                case={"lang": lang, "config": cfg, "source": src}, impl={"text": text}, failing_input=True)
            elif lang == "python":
                imp = python_import(text)
                check.count("repaired-python-import-%s" % (imp[0] if imp else "ok"))
                if imp:
                    check.violation("python module generated for the witness of the repaired finding %s does not import: %s" % (kid, imp),
                                    case={"lang": lang, "config": cfg, "source": src}, impl={"text": text}, failing_input=True)


def replay_witnesses(check):
    """every stored witness must still be rejected by the oracle, for the reason its class names; a class all of whose
    witnesses are accepted is reported by finish() as 'no longer fails'"""
    reqs = [{"op": "generate", "lang": l, "config": cfg, "files": [{"src": s_, "crate": "", "file_name": "o", "path": "w.rs"}]}
            if s_ is not None else
            {"op": "generate", "lang": l, "config": cfg, "multi_file": True, "files": KOTLIN_IMPORT_FILES}
            for _, l, cfg, s_ in WITNESSES]
    answers = runner(reqs)
    datas = runner([dict(r, reconciled=True) for r in reqs])
    for (kid, lang, cfg, src), a, d in zip(WITNESSES, answers, datas):
        check.saw(("witness", kid, lang, src), nontrivial=True)
        if "ok" not in a or "ok" not in d:
            check.notes.append("witness of %s (%s) is no longer generated: %s" % (kid, lang, str(a)[:200]))
            continue
        rej, text = None, ""
        for text in a["ok"].values():
            rej, _ = syn.check(lang, text)
            if rej is not None:
                break
        if rej is None:
            check.notes.append("witness of %s (%s) is accepted by the oracle now (repaired upstream?)" % (kid, lang))
            continue
        classes = known_classes(lang, cfg, list(d["ok"].values()))
        if kid in classes and explains(kid, classes[kid], lang, rej, text):
            if not check.known(kid, {"lang": lang, "config": cfg, "source": src, "output": text, "rejection": rej.describe()}):
                check.violation("%s output is not well-formed: %s (stored witness of class %s, which is not an open known finding)"
                                % (lang, rej.describe(), kid),
                                case={"lang": lang, "config": cfg, "source": src}, impl={"text": text}, failing_input=True)
        else:
            check.violation("stored witness of %s is rejected for another reason: %s" % (kid, rej.describe()),
                            case={"lang": lang, "config": cfg, "source": src}, impl={"text": text}, failing_input=True)
