import TsV.Lemmas.C01_Spec
import TsV.Lemmas.Outcome
/-!
# C01, parse half: the parser model computes serde's key
-/
namespace TsV.C01
open TsV TsV.Str TsV.Syn TsV.Parser TsV.Serde TsV.Outcome TsV.RenameLemmas

/-! ## list relations -/

theorem forall₂_imp {α β} {R S : α → β → Prop} (h : ∀ a b, R a b → S a b) :
    ∀ {l1 l2}, Forall₂ R l1 l2 → Forall₂ S l1 l2
  | _, _, .nil => .nil
  | _, _, .cons hab t => .cons (h _ _ hab) (forall₂_imp h t)

theorem forall₂_comp {α β γ} {R : α → β → Prop} {S : β → γ → Prop} :
    ∀ {l1 l2 l3}, Forall₂ R l1 l2 → Forall₂ S l2 l3 →
      Forall₂ (fun a c => ∃ b, R a b ∧ S b c) l1 l3
  | _, _, _, .nil, .nil => .nil
  | _, _, _, .cons hab t, .cons hbc t' => .cons ⟨_, hab, hbc⟩ (forall₂_comp t t')

theorem forall₂_map_right {α β γ} {R : α → γ → Prop} (g : β → γ) :
    ∀ {l1 : List α} {l2 : List β}, Forall₂ (fun a b => R a (g b)) l1 l2 → Forall₂ R l1 (l2.map g)
  | _, _, .nil => .nil
  | _, _, .cons hab t => .cons hab (forall₂_map_right g t)

theorem forall₂_of_map_right {α β γ} {R : α → γ → Prop} (g : β → γ) :
    ∀ {l1 : List α} {l2 : List β}, Forall₂ R l1 (l2.map g) → Forall₂ (fun a b => R a (g b)) l1 l2
  | [], [], _ => .nil
  | [], _ :: _, h => by cases h
  | _ :: _, [], h => by cases h
  | _ :: _, _ :: _, .cons hab t => .cons hab (forall₂_of_map_right g t)

theorem forall₂_map_self {α β} {R : α → β → Prop} (g : α → β) :
    ∀ (l : List α), (∀ a ∈ l, R a (g a)) → Forall₂ R l (l.map g)
  | [], _ => .nil
  | a :: t, h => .cons (h a (by simp)) (forall₂_map_self g t fun x hx => h x (by simp [hx]))

theorem forall₂_mem_left {α β} {R : α → β → Prop} {P : α → Prop} :
    ∀ {l1 l2}, Forall₂ R l1 l2 → (∀ a ∈ l1, P a) → Forall₂ (fun a b => P a ∧ R a b) l1 l2
  | _, _, .nil, _ => .nil
  | _, _, .cons hab t, h => .cons ⟨h _ (by simp), hab⟩ (forall₂_mem_left t fun x hx => h x (by simp [hx]))

/-- equality of lists from a pointwise functional relation -/
theorem forall₂_eq_map {α β} (g : α → β) :
    ∀ {l1 : List α} {l2 : List β}, Forall₂ (fun a b => b = g a) l1 l2 → l2 = l1.map g
  | _, _, .nil => rfl
  | _, _, .cons hab t => by rw [hab, forall₂_eq_map g t]; rfl

/-- a successful `mapM'` relates the lists element-wise -/
theorem mapM'_forall₂ {α β} (f : α → Outcome β) : ∀ (l : List α) (r : List β),
    mapM' f l = .ok r → Forall₂ (fun a b => f a = .ok b) l r := by
  intro l
  induction l with
  | nil => intro r hr; simp [mapM'] at hr; subst hr; exact .nil
  | cons a t ih =>
    intro r hr
    simp only [mapM'] at hr
    cases hfa : f a with
    | ok b =>
      rw [hfa] at hr
      cases ht : mapM' f t with
      | ok bs => rw [ht] at hr; simp at hr; subst hr; exact .cons hfa (ih bs ht)
      | err e => rw [ht] at hr; simp at hr
      | panic s => rw [ht] at hr; simp at hr
    | err e => rw [hfa] at hr; simp at hr
    | panic s => rw [hfa] at hr; simp at hr

/-! ## the raw prefix -/

theorem fc_ne_hash (c : Char) (h : fcChar c = true) : c ≠ '#' := by
  intro hc; subst hc; revert h; decide

theorem startsWith_raw_false : ∀ (s : Str), (∀ c ∈ s, c ≠ '#') → startsWith s s%"r#" = false
  | [], _ => rfl
  | [a], _ => by simp [startsWith]
  | a :: b :: t, h => by
    have hb : b ≠ '#' := h b (by simp)
    simp [startsWith, hb]

theorem replaceGo_noHash (rep : Str) : ∀ (fuel : Nat) (s : Str), (∀ c ∈ s, c ≠ '#') →
    replaceSub.go s%"r#" rep fuel s = s
  | 0, s, _ => by cases s <;> rfl
  | _+1, [], _ => rfl
  | fuel+1, c :: t, h => by
    have hs := startsWith_raw_false (c :: t) h
    simp only [replaceSub.go, hs, Bool.false_eq_true, if_false]
    rw [replaceGo_noHash rep fuel t (fun x hx => h x (by simp [hx]))]

theorem replaceSub_noHash (s : Str) (h : ∀ c ∈ s, c ≠ '#') : replaceSub s s%"r#" [] = s := by
  unfold replaceSub
  simp only [List.isEmpty_cons, Bool.false_eq_true, if_false]
  exact replaceGo_noHash [] _ s h

theorem replaceSub_raw (s : Str) (h : ∀ c ∈ s, c ≠ '#') : replaceSub ('r' :: '#' :: s) s%"r#" [] = s := by
  unfold replaceSub
  simp only [List.isEmpty_cons, Bool.false_eq_true, if_false, List.length_cons]
  simp only [replaceSub.go, startsWith, beq_self_eq_true, Bool.and_self, if_true, List.length_cons,
    List.length_nil, List.drop_succ_cons, List.drop_zero, List.nil_append]
  exact replaceGo_noHash [] _ s h

theorem stripRaw_cases (i : Str) : (∃ rest, i = 'r' :: '#' :: rest ∧ stripRaw i = rest) ∨ stripRaw i = i := by
  unfold stripRaw
  split
  · exact Or.inl ⟨_, rfl, rfl⟩
  · exact Or.inr rfl

/-- `get_ident`'s `replace("r#", "")` is `unraw` on conventional identifiers -/
theorem original_eq_stripRaw (i : Str) (h : IdentConv i) : replaceSub i s%"r#" [] = stripRaw i := by
  unfold IdentConv C16.FieldConv at h
  have hh : ∀ c ∈ stripRaw i, c ≠ '#' := fun c hc => fc_ne_hash c (h c hc)
  rcases stripRaw_cases i with ⟨rest, hi, hr⟩ | hr
  · rw [hr] at hh ⊢; subst hi; exact replaceSub_raw _ hh
  · rw [hr] at hh ⊢; exact replaceSub_noHash _ hh

/-! ## `get_ident` -/

/-- `get_ident`'s `original` -/
def originalOf : Option Str → Str
  | some i => replaceSub i s%"r#" []
  | none => s%"???"

/-- what `get_ident` returns -/
theorem getIdent_ok (E : Ext) (i : Option Str) (attrs : List Attr) (ra : Option Str) (id : Id)
    (h : getIdent E i attrs ra = .ok id) :
    ∃ renamed, Rename.renameAllToCase E.U id.original ra = .ok renamed ∧
      id.original = originalOf i ∧
      id.renamed = (serdeRename E attrs).getD renamed := by
  unfold getIdent at h
  obtain ⟨renamed, h1, h2⟩ := (bind_eq_ok _ _ _).1 h
  clear h
  cases hs : serdeRename E attrs with
  | some s => rw [hs] at h2; simp at h2; subst h2; exact ⟨renamed, h1, by cases i <;> rfl, rfl⟩
  | none => rw [hs] at h2; simp at h2; subst h2; exact ⟨renamed, h1, by cases i <;> rfl, rfl⟩

/-- **explicit rename**: the wire name is the `serde(rename)` value, whatever the identifier -/
theorem getIdent_explicit (E : Ext) (i : Option Str) (attrs : List Attr) (ra : Option Str) (id : Id) (k : Str)
    (h : getIdent E i attrs ra = .ok id) (hk : serdeRename E attrs = some k) : id.renamed = k := by
  obtain ⟨_, _, _, h3⟩ := getIdent_ok E i attrs ra id h
  simpa [hk] using h3

/-- **`get_ident` computes serde's key**: with an explicit rename unconditionally, otherwise on
conventional identifiers, for every rule string (known, unknown or absent) -/
theorem getIdent_key (E : Ext) (hU : E.U.AsciiCorrect) (i : Str) (attrs : List Attr) (ra : Option Str)
    (id : Id) (h : getIdent E (some i) attrs ra = .ok id)
    (hs : IdentConv i ∨ (serdeRename E attrs).isSome = true) :
    C16.Agree (.ok id.renamed) (fieldKey E ra attrs i) := by
  obtain ⟨renamed, h1, h2, h3⟩ := getIdent_ok E (some i) attrs ra id h
  unfold fieldKey
  cases hk : serdeRename E attrs with
  | some k => rw [hk] at h3; simp at h3; rw [h3]; exact C16.agrees_ok _ _ rfl
  | none =>
    rw [hk] at h3; simp at h3
    have hc : IdentConv i := by
      rcases hs with hs | hs
      · exact hs
      · rw [hk] at hs; simp at hs
    simp only [originalOf] at h2
    rw [original_eq_stripRaw i hc] at h2
    rw [h2] at h1
    rw [h3]
    cases ra with
    | none =>
      simp only [Option.bind_none]
      rw [C16.no_rule] at h1
      cases h1; exact C16.agrees_ok _ _ rfl
    | some r =>
      simp only [Option.bind_some]
      cases hr : Rule.ofStr r with
      | none =>
        rw [C16.unknown_rule _ _ _ hr] at h1
        cases h1; exact C16.agrees_ok _ _ rfl
      | some rule =>
        have := C16.C16_field E.U hU r rule hr (stripRaw i) hc
        rw [h1] at this
        exact this

/-! ## `parse_field`, `parse_struct`, `parse_enum_variant`, `parse_enum` -/

theorem parseField_ident (E : Ext) (cf : Bool) (ra : Option Str) (f : Field) (rf : RustField)
    (h : parseField E cf ra f = .ok rf) : getIdent E f.ident f.attrs ra = .ok rf.id := by
  unfold parseField at h
  obtain ⟨ty, _, h2⟩ := (bind_eq_ok _ _ _).1 h
  split at h2
  · cases h2
  · obtain ⟨id, h3, h4⟩ := (bind_eq_ok _ _ _).1 h2
    cases h4
    exact h3

/-- the relation between a source field and its parsed identifier that C01 is about -/
def ParsedKey (E : Ext) (ra : Option Str) (f : Field) (id : Id) : Prop :=
  (∀ k, serdeRename E f.attrs = some k → id.renamed = k) ∧
  ((∃ i, f.ident = some i ∧ IdentConv i) ∨ (∃ i, f.ident = some i) ∧ (serdeRename E f.attrs).isSome = true →
    C16.Agree (.ok id.renamed) (fieldKeyOf E ra f))

theorem parseField_key (E : Ext) (hU : E.U.AsciiCorrect) (cf : Bool) (ra : Option Str) (f : Field)
    (rf : RustField) (h : parseField E cf ra f = .ok rf) : ParsedKey E ra f rf.id := by
  have hid := parseField_ident E cf ra f rf h
  refine ⟨fun k hk => getIdent_explicit E _ _ _ _ k hid hk, ?_⟩
  intro hs
  unfold fieldKeyOf
  rcases hs with ⟨i, hi, hc⟩ | ⟨⟨i, hi⟩, hr⟩
  · rw [hi] at hid ⊢
    exact getIdent_key E hU i f.attrs ra rf.id hid (Or.inl hc)
  · rw [hi] at hid ⊢
    exact getIdent_key E hU i f.attrs ra rf.id hid (Or.inr hr)

theorem parseFields_keys (E : Ext) (hU : E.U.AsciiCorrect) (ra : Option Str) (fs : List Field)
    (rfs : List RustField) (h : mapM' (parseField E true ra) fs = .ok rfs) :
    Forall₂ (fun f rf => ParsedKey E ra f rf.id) fs rfs :=
  forall₂_imp (fun f rf hf => parseField_key E hU true ra f rf hf) (mapM'_forall₂ _ fs rfs h)

theorem mkStruct_fields (E : Ext) (ident : Str) (attrs : List Attr) (gens : List GenericParam)
    (rfs : List RustField) (it : RustItem) (h : mkStruct E ident attrs gens rfs = .ok it) :
    ∃ rs, it = .struct rs ∧ rs.fields = rfs := by
  unfold mkStruct at h
  obtain ⟨id, _, h2⟩ := (bind_eq_ok _ _ _).1 h
  cases h2
  exact ⟨_, rfl, rfl⟩

theorem mkAlias_not_struct (E : Ext) (ident : Str) (attrs : List Attr) (gens : List GenericParam)
    (ty : RustType) (rs : RustStruct) : mkAlias E ident attrs gens ty ≠ .ok (.struct rs) := by
  intro h
  unfold mkAlias at h
  obtain ⟨id, _, h2⟩ := (bind_eq_ok _ _ _).1 h
  cases h2

theorem mkAlias_not_enum (E : Ext) (ident : Str) (attrs : List Attr) (gens : List GenericParam)
    (ty : RustType) (e : RustEnum) : mkAlias E ident attrs gens ty ≠ .ok (.enum e) := by
  intro h
  unfold mkAlias at h
  obtain ⟨id, _, h2⟩ := (bind_eq_ok _ _ _).1 h
  cases h2

/-- **structs**: the parsed fields are the kept source fields, each with serde's key (container rule) -/
theorem parseStruct_keys (E : Ext) (hU : E.U.AsciiCorrect) (targetOs : List Str) (attrs : List Attr)
    (ident : Str) (gens : List GenericParam) (fs : List Field) (rs : RustStruct)
    (h : parseStruct E targetOs attrs ident gens (.named fs) = .ok (.struct rs)) :
    Forall₂ (fun f rf => ParsedKey E (serdeRenameAll E attrs) f rf.id) (kept targetOs fs) rs.fields := by
  unfold parseStruct at h
  split at h
  · rename_i s _
    unfold serializedAlias at h
    obtain ⟨ty, _, h2⟩ := (bind_eq_ok _ _ _).1 h
    exact absurd h2 (mkAlias_not_struct _ _ _ _ _ _)
  · simp only at h
    obtain ⟨rfs, h1, h2⟩ := (bind_eq_ok _ _ _).1 h
    obtain ⟨rs', h3, h4⟩ := mkStruct_fields _ _ _ _ _ _ h2
    cases h3
    rw [h4]
    exact parseFields_keys E hU _ _ _ h1

/-- **struct variants**: the *variant's* `rename_all` governs its fields, not the enum's -/
theorem parseEnumVariant_keys (E : Ext) (hU : E.U.AsciiCorrect) (targetOs : List Str)
    (enumRa : Option Str) (v : Variant) (id : Id) (cs : List Str) (rfs : List RustField)
    (h : parseEnumVariant E targetOs enumRa v = .ok (.anonymousStruct id cs rfs)) :
    ∃ fs, v.fields = .named fs ∧
      Forall₂ (fun f rf => ParsedKey E (serdeRenameAll E v.attrs) f rf.id) (kept targetOs fs) rfs := by
  unfold parseEnumVariant at h
  obtain ⟨vid, _, h2⟩ := (bind_eq_ok _ _ _).1 h
  simp only at h2
  split at h2
  · cases h2
  · split at h2
    · cases h2
    · split at h2
      · cases h2
      · obtain ⟨ty, _, h4⟩ := (bind_eq_ok _ _ _).1 h2
        cases h4
  · rename_i fs hfs
    obtain ⟨rfs', h3, h4⟩ := (bind_eq_ok _ _ _).1 h2
    cases h4
    exact ⟨fs, hfs, parseFields_keys E hU _ _ _ h3⟩

/-- what C01 says about one variant -/
def VariantKeys (E : Ext) (targetOs : List Str) (v : Variant) (rv : RustEnumVariant) : Prop :=
  ∀ id cs rfs, rv = .anonymousStruct id cs rfs →
    ∃ fs, v.fields = .named fs ∧
      Forall₂ (fun f rf => ParsedKey E (serdeRenameAll E v.attrs) f rf.id) (kept targetOs fs) rfs

theorem enumShape_variants (E : Ext) (attrs : List Attr) (shared e : RustEnum)
    (h : enumShape E attrs shared = .ok (.enum e)) : e.variants = shared.variants := by
  unfold enumShape at h
  split at h
  · split at h
    · cases h
    · split at h
      · cases h
      · cases h; rfl
  · split at h
    · cases h
    · split at h
      · cases h
      · cases h; rfl

/-- **enums**: every kept variant, in order; each struct variant as in `parseEnumVariant_keys` -/
theorem parseEnum_keys (E : Ext) (hU : E.U.AsciiCorrect) (targetOs : List Str) (attrs : List Attr)
    (ident : Str) (gens : List GenericParam) (variants : List Variant) (e : RustEnum)
    (h : parseEnum E targetOs attrs ident gens variants = .ok (.enum e)) :
    Forall₂ (VariantKeys E targetOs)
      (variants.filter fun v => !isSkipped v.attrs targetOs) e.variants := by
  unfold parseEnum at h
  split at h
  · unfold serializedAlias at h
    obtain ⟨ty, _, h2⟩ := (bind_eq_ok _ _ _).1 h
    exact absurd h2 (mkAlias_not_enum _ _ _ _ _ _)
  · obtain ⟨vs, h1, h2⟩ := (bind_eq_ok _ _ _).1 h
    obtain ⟨id, _, h3⟩ := (bind_eq_ok _ _ _).1 h2
    rw [enumShape_variants _ _ _ _ h3]
    refine forall₂_imp ?_ (mapM'_forall₂ _ _ _ h1)
    intro v rv hv id cs rfs hrv
    subst hrv
    exact parseEnumVariant_keys E hU targetOs _ v id cs rfs hv

end TsV.C01

/-! ## serde's keys of in-scope fields lie in the key alphabet -/
namespace TsV.C01
open TsV TsV.Str TsV.Syn TsV.Parser TsV.Serde TsV.Outcome TsV.RenameLemmas

theorem fc_keyChar (c : Char) (h : fcChar c = true) : keyChar c = true := by
  simp only [fcChar, Bool.or_eq_true, beq_iff_eq] at h
  simp only [keyChar, Bool.or_eq_true, beq_iff_eq]
  rcases h with (h | h) | h
  · exact Or.inl (Or.inl (Or.inl (Or.inl h)))
  · exact Or.inl (Or.inl (Or.inr h))
  · exact Or.inl (Or.inr h)

theorem lower_upper_isUpper (c : Char) (h : isAsciiLower c = true) : isAsciiUpper (asciiUpper c) = true := by
  unfold isAsciiLower at h; split at h <;> first | decide | simp at h

theorem fc_upper_keyChar (c : Char) (h : fcChar c = true) : keyChar (asciiUpper c) = true := by
  simp only [fcChar, Bool.or_eq_true, beq_iff_eq] at h
  rcases h with (h | h) | h
  · simp [keyChar, lower_upper_isUpper c h]
  · rw [digit_upperId c h]; simp [keyChar, h]
  · subst h; decide

theorem upper_lower_isLower (c : Char) (h : isAsciiUpper c = true) : isAsciiLower (asciiLower c) = true := by
  unfold isAsciiUpper at h; split at h <;> first | decide | simp at h

theorem keyChar_lower (c : Char) (h : keyChar c = true) : keyChar (asciiLower c) = true := by
  simp only [keyChar, Bool.or_eq_true, beq_iff_eq] at h
  rcases h with (((h | h) | h) | h) | h
  · rw [lower_lowerId c h]; simp [keyChar, h]
  · simp [keyChar, upper_lower_isLower c h]
  · rw [digit_lowerId c h]; simp [keyChar, h]
  · subst h; decide
  · subst h; decide

theorem fieldConv_keyStr (s : Str) (h : C16.FieldConv s) : KeyStr s :=
  fun c hc => fc_keyChar c (h c hc)

theorem upper_keyStr (s : Str) (h : C16.FieldConv s) : KeyStr (toAsciiUpper s) := by
  intro c hc
  simp only [toAsciiUpper, List.mem_map] at hc
  obtain ⟨x, hx, rfl⟩ := hc
  exact fc_upper_keyChar x (h x hx)

theorem fieldPascalGo_keyStr (s : Str) (h : C16.FieldConv s) : ∀ cap, KeyStr (fieldPascalGo cap s) := by
  induction s with
  | nil => intro cap c hc; simp [fieldPascalGo] at hc
  | cons a t ih =>
    intro cap
    have ht : C16.FieldConv t := fun x hx => h x (by simp [hx])
    have ha := h a (by simp)
    simp only [fieldPascalGo]
    split
    · exact ih ht true
    · split
      · intro c hc
        simp only [List.mem_cons] at hc
        rcases hc with rfl | hc
        · exact fc_upper_keyChar a ha
        · exact ih ht false c hc
      · intro c hc
        simp only [List.mem_cons] at hc
        rcases hc with rfl | hc
        · exact fc_keyChar _ ha
        · exact ih ht false c hc

theorem kebab_keyStr (s : Str) (h : KeyStr s) : KeyStr (replaceChar s '_' ['-']) := by
  intro c hc
  simp only [replaceChar, List.mem_flatMap] at hc
  obtain ⟨x, hx, hc⟩ := hc
  split at hc
  · simp at hc; subst hc; decide
  · simp at hc; rw [hc]; exact h x hx

theorem applyField_keyStr (rule : Rule) (s v : Str) (hs : C16.FieldConv s)
    (h : applyField rule s = .ok v) : KeyStr v := by
  cases rule <;> simp only [applyField] at h
  case camel =>
    have hp := fieldPascalGo_keyStr s hs true
    unfold fieldPascal at h
    generalize fieldPascalGo true s = p at h hp
    cases p with
    | nil => simp [Serde.lowerFirst] at h
    | cons c rest =>
      simp only [Serde.lowerFirst] at h
      split at h
      · cases h
        intro x hx
        simp only [List.mem_cons] at hx
        rcases hx with rfl | hx
        · exact keyChar_lower c (hp c (by simp))
        · exact hp x (by simp [hx])
      · cases h
  all_goals cases h
  · exact fieldConv_keyStr s hs
  · exact fieldConv_keyStr s hs
  · exact upper_keyStr s hs
  · exact fieldPascalGo_keyStr s hs true
  · exact fieldConv_keyStr s hs
  · exact upper_keyStr s hs
  · exact kebab_keyStr s (fieldConv_keyStr s hs)
  · exact kebab_keyStr _ (upper_keyStr s hs)

/-- **serde's key of an in-scope field is over the key alphabet** -/
theorem fieldKey_keyStr (E : Ext) (ra : Option Str) (attrs : List Attr) (i k : Str) (hi : IdentConv i)
    (hr : ∀ k', serdeRename E attrs = some k' → KeyStr k') (h : fieldKey E ra attrs i = .ok k) : KeyStr k := by
  unfold fieldKey at h
  split at h
  · rename_i k' hk; cases h; exact hr _ hk
  · split at h
    · exact applyField_keyStr _ _ _ hi h
    · cases h; exact fieldConv_keyStr _ hi

theorem fieldKeyOf_keyStr (E : Ext) (ra : Option Str) (f : Field) (k : Str) (hf : FieldInScope E f)
    (h : fieldKeyOf E ra f = .ok k) : KeyStr k := by
  obtain ⟨⟨i, hi, hc⟩, hr⟩ := hf
  unfold fieldKeyOf at h
  rw [hi] at h
  exact fieldKey_keyStr E ra f.attrs i k hc hr h

/-- on keys without white space `str::trim` is the identity: typeshare's trimmed reading of
`serde(rename)` is serde's -/
theorem trim_id (U : UnicodeOps) (k : Str) (h : ∀ c ∈ k, U.isWhite c = false) : U.trim k = k := by
  have hd : ∀ l : Str, (∀ c ∈ l, U.isWhite c = false) → l.dropWhile U.isWhite = l := by
    intro l hl
    cases l with
    | nil => rfl
    | cons a t => simp [List.dropWhile, hl a (by simp)]
  unfold UnicodeOps.trim
  rw [hd k h, hd k.reverse (fun c hc => h c (by simpa using hc)), List.reverse_reverse]

end TsV.C01
