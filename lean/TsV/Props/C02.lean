import TsV.Lemmas.C02_Parse
import TsV.Lemmas.C02_TypeScript
import TsV.Lemmas.C02_Kotlin
import TsV.Lemmas.C02_Swift
import TsV.Lemmas.C02_Scala
import TsV.Lemmas.C02_Go
import TsV.Lemmas.C02_Python
/-!
# C02 — enum wire encoding (variant names, tag and content keys) equals serde's

*Specification*: `variantName?` (serde's name of a variant: `serde(rename)`, else the container's
`rename_all` rule applied by `RenameRule::apply_to_variant`, else the identifier) and the values of
`serde(tag = …)`, `serde(content = …)` (`Parser.getTagKey` / `getContentKey`).

*Parse half* (`ParseOK`): a parsed enum carries, per non-skipped source variant in source order,
exactly serde's name, and exactly serde's keys (none for a unit enum).

*Back-end half* (`LangOK`): each of the six back ends is read through its binding semantics
(`TS.wire`, `Kt.wire`, `Sw.wire`, `Sc.wire`, `Go.wire`, `Py.wire`: the cases the output declares with
the string each is serialised as, and every place a tag / content key is printed — for the
synthesised Swift and Go codecs via templates proved equal to the rendered text) and must be
`EnumWire.Correct`: one case per variant in order under `id.renamed` (`Names`), each variant a case
of its own (`Distinct`), every printed key the right one (`Keys`).

The pinned tree does not satisfy the back-end half at full strength: Python derives member names by
upper-casing (`FooBar`, `Foobar` ↦ `FOOBAR`), Go applies the configured acronym conversion to variant
identifiers (`UserId`, `UserID` ↦ `UserID` under `uppercase_acronyms = ["id"]`); two variants then
share one member / constant.  `Known` describes exactly those inputs.

Since the `fix:` commit 8f4a2d5 (`to_pascal_case`'s "all uppercase" test is `char::is_lowercase` of every
character) the Kotlin class name and the Swift case name of a variant depend on the Unicode tables of Rust
`std`; the back-end half therefore carries the hypothesis the parse half always had, that the tables are right
about ASCII (`AsciiCorrect`; for Kotlin the tables travel in `Kotlin.Cfg.U`).  Without it a table that calls
`o` a capital would make `FooBar` and `Foobar` one Kotlin class.
-/
namespace TsV.C02
open TsV TsV.Str TsV.Syn TsV.Parser TsV.Serde TsV.Lang

/-! ## the property -/

/-- the property's quantifier on a source enum: UpperCamelCase variant identifiers (pairwise
distinct, as rustc demands); any attributes, rules, renames, keys, payloads, generics -/
structure InScopeSrc (vs : List Variant) : Prop where
  camel : ∀ v ∈ vs, C16.UpperCamel v.ident
  distinct : (vs.map (·.ident)).Nodup

/-- **parse half**: names and keys of a parsed enum are serde's -/
def ParseOK (E : Ext) (T : List Str) (attrs : List Attr) (ident : Str) (gens : List GenericParam)
    (vs : List Variant) : Prop :=
  ∀ e, parseEnum E T attrs ident gens vs = .ok (.enum e) →
    -- one parsed variant per non-skipped source variant, in order, under serde's name
    ((e.variants.map fun v => some v.id.renamed) =
      (vs.filter fun v => !isSkipped v.attrs T).map (variantName? E (serdeRenameAll E attrs))) ∧
    -- a unit enum carries no keys, a data-carrying enum exactly serde's
    (e.variants.all variantIsUnit = true → e.keys = none) ∧
    (e.variants.all variantIsUnit = false →
      ∃ t c, getTagKey E attrs = some t ∧ getContentKey E attrs = some c ∧ e.keys = some (t, c))

/-- **back-end half**, one language: every output of `write_enum` is correct on the wire.
(`acronyms`: Go's `uppercase_acronyms`, the one configuration value the property depends on.) -/
def LangOK (L : TsV.Lang) (E : Ext) (acronyms : List Str) (e : RustEnum) : Prop :=
  match L with
  | .typescript => ∀ cfg st d st', TS.enumFacts cfg e st = .ok (d, st') → (TS.wire d).Correct e
  | .kotlin => ∀ cfg ds, cfg.U.AsciiCorrect → Kotlin.enumFacts cfg e = .ok ds → (Kt.wire ds).Correct e
  | .swift => ∀ cfg st structs se st',
      Swift.enumFacts E.U cfg e st = .ok (structs, se, st') → (Sw.wire se).Correct e
  | .scala => ∀ cfg se, Scala.enumFacts cfg e = .ok se → (Sc.wire se).Correct e
  | .go => ∀ (cfg : Go.Cfg) customStructs st d st', cfg.uppercaseAcronyms = acronyms →
      Go.enumFacts E.U cfg e customStructs st = .ok (d, st') → (Go.wire d).Correct e
  | .python => ∀ cfg st d st', Py.enumFacts E cfg e st = .ok (d, st') → (Py.wire d).Correct e

/-- the property at full strength -/
def C02_full : Prop :=
  (∀ (E : Ext), E.U.AsciiCorrect → ∀ T attrs ident gens vs, InScopeSrc vs → ParseOK E T attrs ident gens vs) ∧
  (∀ (E : Ext), E.U.AsciiCorrect → ∀ (acronyms : List Str) (e : RustEnum), InScopeEnum e → ∀ L, LangOK L E acronyms e)

/-! ## the known classes -/

/-- the inputs on which the pinned tree fails: two variants share one Python member name / one Go
constant name -/
def Known (L : TsV.Lang) (E : Ext) (acronyms : List Str) (e : RustEnum) : Prop :=
  match L with
  | .python => ¬ (Py.memberNames E e).Nodup
  | .go => ¬ (e.variants.map fun v => Go.convertAcronyms E.U acronyms v.id.original).Nodup
  | _ => False

instance (L : TsV.Lang) (E : Ext) (acronyms : List Str) (e : RustEnum) : Decidable (Known L E acronyms e) := by
  unfold Known; cases L <;> infer_instance

/-! ## parse half -/

/-- **the parser gives every variant serde's name and the enum serde's keys** -/
theorem C02_parse (E : Ext) (hU : E.U.AsciiCorrect) (T : List Str) (attrs : List Attr) (ident : Str)
    (gens : List GenericParam) (vs : List Variant) (hs : InScopeSrc vs) : ParseOK E T attrs ident gens vs := by
  intro e h
  have hsa := parseEnum_enum_noSerializedAs E T attrs ident gens vs e h
  obtain ⟨k1, k2⟩ := C08.parseEnum_keys E T attrs ident gens vs hsa e h
  exact ⟨parseEnum_names E hU T attrs ident gens vs e hs.camel h, fun hu => (k1 hu).2.2, k2⟩

/-- and hands the back ends an enum in their scope -/
theorem C02_parse_inScope (E : Ext) (hU : E.U.AsciiCorrect) (T : List Str) (attrs : List Attr) (ident : Str)
    (gens : List GenericParam) (vs : List Variant) (hs : InScopeSrc vs) (e : RustEnum)
    (h : parseEnum E T attrs ident gens vs = .ok (.enum e)) : InScopeEnum e :=
  parseEnum_inScope E hU T attrs ident gens vs e hs.camel hs.distinct h

/-! ## back-end half -/

/-- **outside the known classes every back end is correct on the wire** -/
theorem C02_backend (L : TsV.Lang) (E : Ext) (hU : E.U.AsciiCorrect) (acronyms : List Str) (e : RustEnum) (hs : InScopeEnum e)
    (hk : ¬ Known L E acronyms e) : LangOK L E acronyms e := by
  cases L with
  | typescript => intro cfg st d st' h; exact TS.correct cfg e hs st st' d h
  | kotlin => intro cfg ds hcU h; exact Kt.correct cfg hcU e hs ds h
  | swift => intro cfg st structs se st' h; exact Sw.correct E.U hU cfg e hs st st' structs se h
  | scala => intro cfg se h; exact Sc.correct cfg e hs se h
  | go =>
    intro cfg cs st d st' hac h
    simp only [Known, Classical.not_not] at hk
    exact Go.correct E.U cfg e cs st st' d (by rw [hac]; exact hk) h
  | python =>
    intro cfg st d st' h
    simp only [Known, Classical.not_not] at hk
    exact Py.correct E cfg e st st' d hk h

/-- **exact characterisation**: inside a known class *every* output fails the property (two cases
carry the same identifier) -/
theorem C02_known_fails_python (E : Ext) (e : RustEnum) (acronyms : List Str) (hk : Known .python E acronyms e)
    (cfg : Python.Cfg) (st st' : Python.St) (d : Py.EnumDecl) (h : Py.enumFacts E cfg e st = .ok (d, st')) :
    ¬ (Py.wire d).Correct e :=
  fun hc => Py.collide E cfg e st st' d hk h hc.distinct

theorem C02_known_fails_go (E : Ext) (e : RustEnum) (cfg : Go.Cfg) (hk : Known .go E cfg.uppercaseAcronyms e)
    (customStructs : List Str) (st st' : Go.Imports) (d : Go.EnumDecl)
    (h : Go.enumFacts E.U cfg e customStructs st = .ok (d, st')) : ¬ (Go.wire d).Correct e :=
  fun hc => Go.collide E.U cfg e customStructs st st' d hk h hc.distinct

/-- without `uppercase_acronyms` Go is never in its known class -/
theorem C02_go_no_acronyms (E : Ext) (e : RustEnum) (hs : InScopeEnum e) : ¬ Known .go E [] e := by
  simp only [Known, Classical.not_not]
  have : (e.variants.map fun v => Go.convertAcronyms E.U [] v.id.original) =
      (e.variants.map (·.id.original)).map Outcome.ok := by
    rw [List.map_map]; rfl
  rw [this]
  exact nodup_map_on _ _ hs.distinct fun a _ b _ hab => by cases hab; rfl

/-- Go inside its known class: names, order, number of cases and keys are still right — only
`Distinct` fails, and it fails exactly there -/
theorem C02_go_names_keys (E : Ext) (cfg : Go.Cfg) (e : RustEnum) (customStructs : List Str) (st st' : Go.Imports)
    (d : Go.EnumDecl) (h : Go.enumFacts E.U cfg e customStructs st = .ok (d, st')) :
    (Go.wire d).Names e ∧ (Go.wire d).Keys e ∧
      ((Go.wire d).Distinct ↔ ¬ Known .go E cfg.uppercaseAcronyms e) := by
  have f := Go.facts E.U cfg e customStructs st st' d h
  refine ⟨f.1, f.2.1, ?_⟩
  rw [Go.distinct_iff E.U cfg e customStructs st st' d h]
  simp [Known]

/-! ## the pinned tree does not satisfy the property at full strength -/

def exE : Ext := { U := .ascii, parseType := fun _ => none }

/-- `enum E { FooBar, Foobar }` as parsed -/
def pyWitness : RustEnum :=
  { keys := none, id := ⟨s%"E", s%"E", false⟩, genericTypes := [], comments := [],
    variants := [.unit ⟨s%"FooBar", s%"FooBar", false⟩ [], .unit ⟨s%"Foobar", s%"Foobar", false⟩ []],
    decorators := {}, isRecursive := false, isRedacted := false }

theorem pyWitness_inScope : InScopeEnum pyWitness := by
  constructor
  · intro v hv
    simp only [pyWitness, List.mem_cons, List.not_mem_nil, or_false] at hv
    rcases hv with rfl | rfl
    · exact ⟨'F', s%"ooBar", rfl, by decide, by decide, Or.inl ⟨'o', by decide, by decide⟩⟩
    · exact ⟨'F', s%"oobar", rfl, by decide, by decide, Or.inl ⟨'o', by decide, by decide⟩⟩
  · decide

theorem pyWitness_known : Known .python exE [] pyWitness := by decide

/-- Python writes `FOOBAR = "FooBar"` and `FOOBAR = "Foobar"`: two variants, one member -/
theorem pyWitness_output : ∃ d st', Py.enumFacts exE {} pyWitness {} = .ok (d, st') ∧
    (Py.wire d).cases = [⟨some s%"FOOBAR", some s%"FooBar"⟩, ⟨some s%"FOOBAR", some s%"Foobar"⟩] :=
  ⟨_, _, rfl, rfl⟩

theorem C02_not_full : ¬ C02_full := by
  intro h
  obtain ⟨d, st', hd, _⟩ := pyWitness_output
  exact C02_known_fails_python exE pyWitness [] pyWitness_known {} {} st' d hd
    (h.2 exE UnicodeOps.ascii_correct [] pyWitness pyWitness_inScope .python {} {} d st' hd)

/-- `enum E { UserId, UserID }` under `uppercase_acronyms = ["id"]`: one Go constant `EUserID` -/
def goWitness : RustEnum :=
  { pyWitness with
    variants := [.unit ⟨s%"UserId", s%"UserId", false⟩ [], .unit ⟨s%"UserID", s%"UserID", false⟩ []] }

theorem goWitness_known : Known .go exE [s%"id"] goWitness := by decide

theorem goWitness_output : ∃ d st', Go.enumFacts exE.U { uppercaseAcronyms := [s%"id"] } goWitness [] [] = .ok (d, st') ∧
    (Go.wire d).cases = [⟨some s%"EUserID", some s%"UserId"⟩, ⟨some s%"EUserID", some s%"UserID"⟩] :=
  ⟨_, _, rfl, rfl⟩

/-! ## the partial theorem -/

/-- **C02 outside the known classes**: the parser gives serde's names and keys, and every back end
whose input is not in its known class writes them correctly, one case per variant -/
theorem C02_partial :
    (∀ (E : Ext), E.U.AsciiCorrect → ∀ T attrs ident gens vs, InScopeSrc vs → ParseOK E T attrs ident gens vs) ∧
    (∀ (E : Ext), E.U.AsciiCorrect → ∀ (acronyms : List Str) (e : RustEnum), InScopeEnum e →
      ∀ L, ¬ Known L E acronyms e → LangOK L E acronyms e) :=
  ⟨fun E hU T attrs ident gens vs hs => C02_parse E hU T attrs ident gens vs hs,
   fun E hU acronyms e hs L hk => C02_backend L E hU acronyms e hs hk⟩

/-- **end to end**: whatever a back end's output says for an enum parsed from an in-scope source —
if it is `Correct` for the parsed enum (`C02_backend`) — its cases are, in order, the non-skipped
source variants under serde's names, and every key it prints is the value of serde's `tag` /
`content` attribute -/
theorem C02_end_to_end (E : Ext) (hU : E.U.AsciiCorrect) (T : List Str) (attrs : List Attr) (ident : Str)
    (gens : List GenericParam) (vs : List Variant) (hs : InScopeSrc vs) (e : RustEnum)
    (h : parseEnum E T attrs ident gens vs = .ok (.enum e)) (w : EnumWire) (hw : w.Correct e) :
    w.cases.map (·.wire) = (vs.filter fun v => !isSkipped v.attrs T).map (variantName? E (serdeRenameAll E attrs)) ∧
    ∀ k, ((Role.tag, k) ∈ w.holes → getTagKey E attrs = some k) ∧
         ((Role.content, k) ∈ w.holes → getContentKey E attrs = some k) := by
  obtain ⟨hn, hu, hd⟩ := C02_parse E hU T attrs ident gens vs hs e h
  refine ⟨hw.names.trans hn, ?_⟩
  intro k
  have hkeys := hw.keys
  unfold EnumWire.Keys at hkeys
  cases hall : e.variants.all variantIsUnit with
  | true =>
    rw [hu hall] at hkeys
    simp only at hkeys
    rw [hkeys]
    simp
  | false =>
    obtain ⟨t, c, ht, hc, hk⟩ := hd hall
    rw [hk] at hkeys
    simp only at hkeys
    constructor
    · intro hm
      rcases hkeys _ hm with h1 | h1
      · cases h1; exact ht
      · cases h1
    · intro hm
      rcases hkeys _ hm with h1 | h1
      · cases h1
      · cases h1; exact hc

/-! ## the ties between facts, templates and the text the model writes -/

/-- TypeScript / Go / Python: the fact records defined for this property render to exactly what the
model's `write_enum` writes (Kotlin, Swift and Scala models are defined through their fact records) -/
theorem ts_facts_render (cfg : TypeScript.Cfg) (e : RustEnum) (st : TypeScript.CustomMap) :
    TypeScript.writeEnum cfg e st = (TS.enumFacts cfg e st).bind fun (d, st) => .ok (TS.renderEnumDecl d, st) :=
  TS.writeEnum_eq cfg e st

theorem go_facts_render (U : UnicodeOps) (cfg : Go.Cfg) (e : RustEnum) (cs : List Str) (st : Go.Imports) :
    Go.writeEnum U cfg e cs st = (Go.enumFacts U cfg e cs st).bind fun (d, st) => .ok (Go.renderDecl d, st) :=
  Go.writeEnum_eq U cfg e cs st

theorem py_facts_render (E : Ext) (cfg : Python.Cfg) (e : RustEnum) (st : Python.St) :
    Python.writeEnum E cfg e st = (Py.enumFacts E cfg e st).bind fun (d, st) => .ok (Py.renderDecl d, st) :=
  Py.writeEnum_eq E cfg e st

/-- Swift: the `Codable` conformance (`ContainerCodingKeys`, `init(from:)`, `encode(to:)`) is the
template, and every one of its holes — `case tag, content`, `forKey: .tag` of the decoder, one or two
`forKey: .content` per payload decode arm, `forKey: .tag` (+ `forKey: .content`) per encode arm — is
filled from the record's two key fields -/
theorem swift_codec_template (a : Swift.AlgebraicCodable) :
    flat (Sw.codableSegs a) = Swift.renderCodable a ∧
    ∀ h ∈ holesOf (Sw.codableSegs a), h = (.tag, a.tagKey) ∨ h = (.content, a.contentKey) :=
  ⟨Sw.codable_flat a, Sw.codable_holes a⟩

/-- Go: the whole output for an algebraic enum is the template, whose holes are exactly these five -/
theorem go_codec_template (d : Go.GoAlgEnum) :
    flat (Go.algSegs d) = Go.renderAlgEnum d ∧
    holesOf (Go.algSegs d) =
      [(.tag, d.tagKey), (.tag, d.tagKey), (.content, d.contentKey), (.tag, d.tagKey), (.content, d.contentKey)] :=
  ⟨Go.alg_flat d, Go.alg_holes d⟩

/-- on the property's key alphabet a `{:?}` hole prints the key between plain double quotes -/
theorem debug_hole_plain (k : Str) (h : ∀ c ∈ k, plainChar c = true) :
    (Seg.hole .tag .debug k).text = ['"'] ++ k ++ ['"'] := debugStr_plain k h

/-! ## non-vacuity -/

/-- `#[serde(tag = "type", content = "content", rename_all = "camelCase")]
    enum E<T> { FooBar, #[serde(rename = "b-x")] Baz(Option<T>), Q1 { a: u8 }, #[serde(skip)] Gone }` -/
def exAttrs : List Attr :=
  [⟨.path [s%"typeshare"]⟩,
   ⟨.list [s%"serde"] true [.nameValue [s%"tag"] (some (.str s%"type")), .nameValue [s%"content"] (some (.str s%"content"))]⟩,
   ⟨.list [s%"serde"] true [.nameValue [s%"rename_all"] (some (.str s%"camelCase"))]⟩]

def exVs : List Variant :=
  [⟨[], s%"FooBar", .unit⟩,
   ⟨[⟨.list [s%"serde"] true [.nameValue [s%"rename"] (some (.str s%"b-x"))]⟩], s%"Baz",
     .unnamed [⟨[], none, .path [] s%"Option" [.path [] s%"T" []]⟩]⟩,
   ⟨[], s%"Q1", .named [⟨[], some s%"a", .path [] s%"u8" []⟩]⟩,
   ⟨[⟨.list [s%"serde"] true [.path [s%"skip"]]⟩], s%"Gone", .unit⟩]

example : InScopeSrc exVs := by
  constructor
  · intro v hv
    simp only [exVs, List.mem_cons, List.not_mem_nil, or_false] at hv
    rcases hv with rfl | rfl | rfl | rfl
    · exact ⟨'F', s%"ooBar", rfl, by decide, by decide, Or.inl ⟨'o', by decide, by decide⟩⟩
    · exact ⟨'B', s%"az", rfl, by decide, by decide, Or.inl ⟨'a', by decide, by decide⟩⟩
    · exact ⟨'Q', s%"1", rfl, by decide, by decide, Or.inr (by decide)⟩
    · exact ⟨'G', s%"one", rfl, by decide, by decide, Or.inl ⟨'o', by decide, by decide⟩⟩
  · decide

/-- serde's names of the three non-skipped variants -/
example : ((exVs.filter fun v => !isSkipped v.attrs []).map (variantName? exE (serdeRenameAll exE exAttrs))) =
    [some s%"fooBar", some s%"b-x", some s%"q1"] := by decide +kernel

/-- … and the parser's -/
example : (match parseEnum exE [] exAttrs s%"E" [.type s%"T"] exVs with
    | .ok (.enum e) => some (e.variants.map (·.id.renamed), e.keys)
    | _ => none) = some ([s%"fooBar", s%"b-x", s%"q1"], some (s%"type", s%"content")) := by decide +kernel

/-- the same enum as parsed -/
def exEnum : RustEnum :=
  { keys := some (s%"type", s%"content"), id := ⟨s%"E", s%"E", false⟩, genericTypes := [s%"T"], comments := [],
    variants := [.unit ⟨s%"FooBar", s%"fooBar", false⟩ [],
                 .tuple ⟨s%"Baz", s%"b-x", true⟩ [] (.option (.simple s%"T")),
                 .anonymousStruct ⟨s%"Q1", s%"q1", false⟩ []
                   [{ id := ⟨s%"a", s%"a", false⟩, ty := .prim .u8, comments := [], hasDefault := false, decorators := [] }]],
    decorators := {}, isRecursive := false, isRedacted := false }

theorem exEnum_inScope : InScopeEnum exEnum := by
  constructor
  · intro v hv
    simp only [exEnum, List.mem_cons, List.not_mem_nil, or_false] at hv
    rcases hv with rfl | rfl | rfl
    · exact ⟨'F', s%"ooBar", rfl, by decide, by decide, Or.inl ⟨'o', by decide, by decide⟩⟩
    · exact ⟨'B', s%"az", rfl, by decide, by decide, Or.inl ⟨'a', by decide, by decide⟩⟩
    · exact ⟨'Q', s%"1", rfl, by decide, by decide, Or.inr (by decide)⟩
  · decide

example : ¬ Known .python exE [] exEnum := by decide
example : ¬ Known .go exE [s%"id", s%"q"] exEnum := by decide

/-- what each back end's output says for `exEnum` (the cases and, in order, every key hole) -/
example : ∃ d st', TS.enumFacts {} exEnum [] = .ok (d, st') ∧ TS.wire d =
    { cases := [⟨none, some s%"fooBar"⟩, ⟨none, some s%"b-x"⟩, ⟨none, some s%"q1"⟩],
      holes := [(.tag, s%"type"), (.content, s%"content"), (.tag, s%"type"), (.content, s%"content"),
                (.tag, s%"type"), (.content, s%"content")] } := ⟨_, _, rfl, rfl⟩

example : ∃ ds, Kotlin.enumFacts {} exEnum = .ok ds ∧ Kt.wire ds =
    { cases := [⟨some s%"FooBar", some s%"fooBar"⟩, ⟨some s%"Baz", some s%"b-x"⟩, ⟨some s%"Q1", some s%"q1"⟩],
      holes := [(.content, s%"content"), (.content, s%"content")] } := ⟨_, rfl, rfl⟩

example : ∃ se, Scala.enumFacts {} exEnum = .ok se ∧ Sc.wire se =
    { cases := [⟨some s%"FooBar", some s%"fooBar"⟩, ⟨some s%"Baz", some s%"b-x"⟩, ⟨some s%"Q1", some s%"q1"⟩],
      holes := [(.content, s%"content"), (.content, s%"content")] } := ⟨_, rfl, rfl⟩

/-- Swift: `ContainerCodingKeys` (tag, content), `forKey: .type` in `init(from:)`, the decode arms of
the two payload cases (`Baz` is an `Option`: two content holes), then tag / content per encode arm -/
example : ∃ ss se st', Swift.enumFacts .ascii {} exEnum false = .ok (ss, se, st') ∧ Sw.wire se =
    { cases := [⟨some s%"fooBar", some s%"fooBar"⟩, ⟨some s%"baz", some s%"b-x"⟩, ⟨some s%"q1", some s%"q1"⟩],
      holes := [(.tag, s%"type"), (.content, s%"content"), (.tag, s%"type"),
                (.content, s%"content"), (.content, s%"content"), (.content, s%"content"),
                (.tag, s%"type"), (.tag, s%"type"), (.content, s%"content"), (.tag, s%"type"), (.content, s%"content")] } :=
  ⟨_, _, _, rfl, rfl⟩

example : ∃ d st', Go.enumFacts .ascii { uppercaseAcronyms := [s%"id", s%"q"] } exEnum [] [] = .ok (d, st') ∧ Go.wire d =
    { cases := [⟨some s%"ETypeVariantFooBar", some s%"fooBar"⟩, ⟨some s%"ETypeVariantBaz", some s%"b-x"⟩,
                ⟨some s%"ETypeVariantQ1", some s%"q1"⟩],
      holes := [(.tag, s%"type"), (.tag, s%"type"), (.content, s%"content"), (.tag, s%"type"), (.content, s%"content")] } :=
  ⟨_, _, rfl, rfl⟩

example : ∃ d st', Py.enumFacts exE {} exEnum {} = .ok (d, st') ∧ Py.wire d =
    { cases := [⟨some s%"ETypes.FOOBAR", some s%"fooBar"⟩, ⟨some s%"ETypes.B-X", some s%"b-x"⟩,
                ⟨some s%"ETypes.Q1", some s%"q1"⟩],
      holes := [(.tag, s%"type"), (.tag, s%"type"), (.content, s%"content"), (.tag, s%"type"), (.content, s%"content")] } :=
  ⟨_, _, rfl, rfl⟩

/-- a unit enum in Swift: the raw value is printed only where it differs from the case name -/
example : Sw.wire (match Swift.enumFacts .ascii {} pyWitness false with | .ok (_, se, _) => se | _ => default) =
    { cases := [⟨some s%"fooBar", some s%"FooBar"⟩, ⟨some s%"foobar", some s%"Foobar"⟩], holes := [] } := by
  decide +kernel

end TsV.C02
