import TsV.Lemmas.C12_Scala
/-!
# C12_ScalaMapped, lemmas — which entries of `type_mappings` Scala's `format_type` can see

`Scala::format_special_type` does not look at the table (unlike TypeScript / Go / Python); the table is
consulted for the *names* of a type expression only — the id of a `Simple` and the head of a `Generic`.
`names t` collects them; `formatType_agree` / `unsignedIn_agree`: two tables that agree on `names t` give
the same text and the same "prints an unsigned alias" answer.  A tree without names (`names t = []`: built
from primitives, `Vec`, `Option`, `HashMap`, arrays, slices) is therefore printed the same under every table.
-/
namespace TsV.C12_ScalaMapped
open TsV TsV.Lang TsV.Lang.Scala TsV.C12L.Scala TsV.Outcome

mutual
  /-- the user-type names of a type expression: the only keys `format_type` looks up for it -/
  def names : RustType → List Str
    | .simple id => [id]
    | .generic id ps => id :: namesList ps
    | .vec t | .array t _ | .slice t | .option t => names t
    | .hashMap k v => names k ++ names v
    | .prim _ => []
  def namesList : List RustType → List Str
    | [] => []
    | t :: ts => names t ++ namesList ts
end

mutual
  theorem formatType_agree (cfg cfg' : Cfg) (gens gens' : List Str) : ∀ t : RustType,
      (∀ n ∈ names t, mapGet cfg.typeMappings n = mapGet cfg'.typeMappings n) →
      formatType cfg gens t = formatType cfg' gens' t
    | .simple id, h => by simp only [formatType, h id (by simp [names])]
    | .generic id ps, h => by
      simp only [formatType, h id (by simp [names]),
        formatTypes_agree cfg cfg' gens gens' ps (fun n hn => h n (by simp [names, hn]))]
    | .vec r, h => by simp only [formatType, formatType_agree cfg cfg' gens gens' r (by simpa [names] using h)]
    | .array r _, h => by simp only [formatType, formatType_agree cfg cfg' gens gens' r (by simpa [names] using h)]
    | .slice r, h => by simp only [formatType, formatType_agree cfg cfg' gens gens' r (by simpa [names] using h)]
    | .option r, h => by simp only [formatType, formatType_agree cfg cfg' gens gens' r (by simpa [names] using h)]
    | .hashMap k v, h => by
      simp only [formatType, formatType_agree cfg cfg' gens gens' k (fun n hn => h n (by simp [names, hn])),
        formatType_agree cfg cfg' gens gens' v (fun n hn => h n (by simp [names, hn]))]
    | .prim p, _ => by simp only [formatType]
  theorem formatTypes_agree (cfg cfg' : Cfg) (gens gens' : List Str) : ∀ ts : List RustType,
      (∀ n ∈ namesList ts, mapGet cfg.typeMappings n = mapGet cfg'.typeMappings n) →
      formatTypes cfg gens ts = formatTypes cfg' gens' ts
    | [], _ => by simp only [formatTypes]
    | t :: ts, h => by
      simp only [formatTypes, formatType_agree cfg cfg' gens gens' t (fun n hn => h n (by simp [namesList, hn])),
        formatTypes_agree cfg cfg' gens gens' ts (fun n hn => h n (by simp [namesList, hn]))]
end

mutual
  theorem unsignedIn_agree (cfg cfg' : Cfg) : ∀ t : RustType,
      (∀ n ∈ names t, mapGet cfg.typeMappings n = mapGet cfg'.typeMappings n) →
      unsignedIn cfg t = unsignedIn cfg' t
    | .simple id, _ => by simp only [unsignedIn]
    | .generic id ps, h => by
      simp only [unsignedIn, h id (by simp [names]),
        unsignedInList_agree cfg cfg' ps (fun n hn => h n (by simp [names, hn]))]
    | .vec r, h => by simp only [unsignedIn, unsignedIn_agree cfg cfg' r (by simpa [names] using h)]
    | .array r _, h => by simp only [unsignedIn, unsignedIn_agree cfg cfg' r (by simpa [names] using h)]
    | .slice r, h => by simp only [unsignedIn, unsignedIn_agree cfg cfg' r (by simpa [names] using h)]
    | .option r, h => by simp only [unsignedIn, unsignedIn_agree cfg cfg' r (by simpa [names] using h)]
    | .hashMap k v, h => by
      simp only [unsignedIn, unsignedIn_agree cfg cfg' k (fun n hn => h n (by simp [names, hn])),
        unsignedIn_agree cfg cfg' v (fun n hn => h n (by simp [names, hn]))]
    | .prim p, _ => by simp only [unsignedIn]
  theorem unsignedInList_agree (cfg cfg' : Cfg) : ∀ ts : List RustType,
      (∀ n ∈ namesList ts, mapGet cfg.typeMappings n = mapGet cfg'.typeMappings n) →
      unsignedInList cfg ts = unsignedInList cfg' ts
    | [], _ => by simp only [unsignedInList]
    | t :: ts, h => by
      simp only [unsignedInList, unsignedIn_agree cfg cfg' t (fun n hn => h n (by simp [namesList, hn])),
        unsignedInList_agree cfg cfg' ts (fun n hn => h n (by simp [namesList, hn]))]
end

/-- a tree without names: printing reaches an unsigned primitive iff the scan does, under every table -/
theorem unsignedIn_of_no_names (cfg : Cfg) (t : RustType) (h : names t = []) : unsignedIn cfg t = usesUnsigned t := by
  rw [usesUnsigned_eq_unsignedIn { typeMappings := [] } rfl t]
  exact unsignedIn_agree cfg _ t (by rw [h]; intro n hn; cases hn)

end TsV.C12_ScalaMapped
