"""Generators of abstract annotated Rust files (type-directed, mostly valid) and of edge cases."""
import random
from syn_gen import *

RUST_KEYWORDS = {"as", "break", "const", "continue", "crate", "else", "enum", "extern", "false", "fn", "for", "if", "impl",
                 "in", "let", "loop", "match", "mod", "move", "mut", "pub", "ref", "return", "self", "Self", "static",
                 "struct", "super", "trait", "true", "type", "unsafe", "use", "where", "while", "async", "await", "dyn",
                 "abstract", "become", "box", "do", "final", "macro", "override", "priv", "typeof", "unsized", "virtual",
                 "yield", "try", "gen"}
NOT_RAWABLE = {"crate", "self", "Self", "super"}

FIELD_WORDS = ["id", "name", "user_id", "created_at", "value", "kind", "data", "items", "count", "address_line1", "x", "y",
               "a", "b1", "is_ok", "url", "foo_bar", "very_long_field_name", "n2", "meta_data", "_private", "a_b_c",
               # target-language keywords
               "type", "class", "default", "object", "func", "var", "val", "in", "is", "as", "fun", "package", "import",
               "interface", "enum", "struct", "protocol", "extension", "private", "public", "internal", "static",
               "switch", "case", "break", "continue", "return", "throw", "throws", "try", "catch", "self", "super",
               "nil", "true", "false", "let", "where", "while", "for", "if", "else", "guard", "defer", "repeat", "do",
               "None", "from", "global", "lambda", "pass", "raise", "with", "yield", "async", "await", "def", "del",
               "elif", "except", "finally", "nonlocal", "not", "or", "and", "assert", "this", "new", "null", "void",
               "typeof", "instanceof", "delete", "export", "extends", "function", "implements", "map", "chan", "go",
               "range", "select", "fallthrough", "goto", "when", "open", "override", "abstract", "final", "sealed",
               "implicit", "lazy", "match", "trait", "forSome", "operator", "inout", "init", "deinit", "subscript",
               "associatedtype", "fileprivate", "rethrows", "Protocol", "Type", "Any"]
TYPE_WORDS = ["Foo", "Bar", "Baz", "Item", "User", "Address", "Payload", "Colors", "Shape", "Url", "Id", "Wrapper",
              "Node", "Tree", "Config", "Options", "Event", "Kind", "Inner", "Outer", "Pair", "Page", "Status", "Money"]
VARIANT_WORDS = ["Red", "Green", "Blue", "FooBar", "Hello", "Number1", "AddressLine1", "Circle", "Square", "Ok1", "Some1",
                 "NotFound", "A", "B", "Z42", "VeryTasty", "Left", "Right", "Up", "Down", "Empty", "Full"]
RULES = ["lowercase", "UPPERCASE", "PascalCase", "camelCase", "snake_case", "SCREAMING_SNAKE_CASE", "kebab-case",
         "SCREAMING-KEBAB-CASE"]
PRIMS = ["bool", "char", "String", "str", "i8", "i16", "i32", "u8", "u16", "u32", "I54", "U53", "f32", "f64", "OffsetDateTime"]
SMART = ["Box", "Arc", "Rc", "Cow", "Cell", "RefCell", "Mutex", "RwLock", "Weak", "ArcWeak", "RcWeak"]
UNSUPPORTED = ["u64", "i64", "usize", "isize"]
RENAME_WORDS = ["renamed", "newName", "with-dash", "a-b", "Type", "_x", "kebab-case-name", "UPPER", "x1", "class", "type"]
DOC_WORDS = [" A doc line", " second", "no leading space", " has `code`", " trailing space ", " 日本語", " a / slash", " #hash"]
LANG_NAMES = ["typescript", "kotlin", "swift", "scala", "go", "python"]


def rust_ident(word):
    if word in RUST_KEYWORDS:
        return None if word in NOT_RAWABLE else "r#" + word
    return word


class Gen:
    def __init__(self, rng, **opts):
        self.rng = rng
        self.o = dict(p_rename=0.2, p_rename_all=0.35, p_skip=0.12, p_default=0.2, p_doc=0.3, p_cfg=0.0,
                      p_serialized_as=0.05, p_decorators=0.08, p_edge=0.0, p_unsupported=0.0, max_depth=4,
                      p_generic=0.2, p_noise=0.3, p_mod=0.2, multi_file=False, crates=(), p_const=0.25,
                      doc_alphabet=None, p_redacted=0.05, p_flatten=0.0, nonascii=0.0, p_type_decorators=0.08)
        self.o.update(opts)
        self.ext = {}        # serialized_as string -> type tree or None
        self.features = {}

    def hit(self, key):
        self.features[key] = self.features.get(key, 0) + 1

    def chance(self, key):
        return self.rng.random() < self.o[key]

    # ------------------------------------------------------------------ types
    def leaf_type(self, scope, budget=2):
        r = self.rng.random()
        if scope["generics"] and r < 0.15:
            return t_path(self.rng.choice(scope["generics"]))
        if scope["types"] and r < 0.5:
            name = self.rng.choice(scope["types"])
            quals = []
            if self.rng.random() < 0.15:
                quals = self.rng.choice([["crate"], ["super", "models"], ["self"], ["crate", "a", "b"]])
            g = scope.get("generic_types", {}).get(name, 0)
            if g and budget <= 0:
                return t_path("String")
            args = [self.type(scope, 1, budget - 1) for _ in range(g)] if g else []
            return t_path(name, args, quals)
        if r < 0.55:
            return ("tuple", [])
        if self.chance("p_unsupported"):
            self.hit("unsupported-leaf")
            if self.rng.random() < 0.3:
                return ("tuple", [t_path("String"), t_path("u8")])
            return t_path(self.rng.choice(UNSUPPORTED))
        p = self.rng.choice(PRIMS)
        quals = []
        if p in ("String", "OffsetDateTime", "I54", "U53") and self.rng.random() < 0.2:
            quals = {"String": ["std", "string"], "OffsetDateTime": ["time"], "I54": ["typeshare"], "U53": ["typeshare"]}[p]
        if p == "str":
            return ("ref", t_path("str"), False)
        return t_path(p, (), quals)

    def type(self, scope, depth=None, budget=2):
        if depth is None:
            depth = self.rng.randint(0, self.o["max_depth"])
        if self.chance("p_edge") and self.rng.random() < 0.15:
            self.hit("edge-type")
            return self.rng.choice([
                t_path("Vec"), t_path("Option"), t_path("HashMap", [t_path("String")]), t_path("Box"), t_path("HashMap"),
                t_path("Vec", [], [], lt=True), ("array", t_path("u8"), None), ("other", "fn(u8) -> u8"),
                ("other", "*const u8"), ("other", "(u8)"), ("other", "!"), ("other", "Box<dyn Fn()>") if False else ("other", "impl Copy"),
                ("array", t_path("u8"), 2**64), ("tuple", [t_path("u8")]), t_path("Vec", [t_path("u8"), t_path("u16")]),
                t_path("Rc", [t_path("u64")]), t_path("String", [t_path("u8")]), t_path("u8", [t_path("u8")])])
        if depth <= 0:
            return self.leaf_type(scope, budget)
        r = self.rng.random()
        sub = lambda: self.type(scope, depth - 1 if self.rng.random() < 0.7 else 0, budget)
        if r < 0.22:
            return t_path("Vec", [sub()], self.rng.choice([[], [], ["std", "vec"]]))
        if r < 0.42:
            return t_path("Option", [sub()], self.rng.choice([[], [], ["std", "option"]]))
        if r < 0.55:
            key = self.rng.choice([t_path("String"), t_path("String"), t_path("u32"), self.leaf_type(scope, budget)])
            return t_path("HashMap", [key, sub()], self.rng.choice([[], ["std", "collections"]]))
        if r < 0.67:
            sp = self.rng.choice(SMART)
            return t_path(sp, [sub()], [], lt=(sp == "Cow"))
        if r < 0.75:
            return ("array", sub(), self.rng.choice([0, 1, 2, 16, 32]))
        if r < 0.80:
            return ("ref", ("slice", sub()), False)
        if r < 0.85:
            return ("ref", sub(), self.rng.random() < 0.2)
        if r < 0.88:
            return ("slice", sub())
        return self.leaf_type(scope, budget)

    # ------------------------------------------------------------------ attributes
    def docs(self):
        out = []
        if not self.chance("p_doc"):
            return out
        for _ in range(self.rng.randint(1, 3)):
            if self.o["doc_alphabet"]:
                n = self.rng.randint(0, 4)
                text = "".join(self.rng.choice(self.o["doc_alphabet"]) for _ in range(n))
            else:
                text = self.rng.choice(DOC_WORDS)
            styles = ["attr"]
            if "\n" not in text and "\r" not in text and not text.startswith("/"):      # `////…` is an ordinary comment, not a doc
                styles.append("line")
                styles.append("line")
            if "*/" not in text and "/*" not in text and text[:1] in (" ", "a", "A", "n") and not text.endswith("/") and "\r" not in text:
                styles.append("block")
            out.append(doc_attr(text, self.rng.choice(styles)))
            self.hit("doc")
        return out

    def cfg_attrs(self):
        """one cfg attribute, sometimes two or three separate ones (their target_os names are pooled by the rule)"""
        out = [self.cfg_attr_meta()]
        while len(out) < 3 and self.rng.random() < 0.3:
            out.append(self.cfg_attr_meta())
            self.hit("cfg-multiple")
        return out

    def cfg_attr_meta(self):
        os_ = lambda: m_nv("target_os", lit_s(self.rng.choice(["ios", "android", "macos", "wasm32"])))
        r = self.rng.random()
        if r < 0.3:
            e = os_()
        elif r < 0.5:
            e = m_list("not", [os_()])
        elif r < 0.7:
            e = m_list("any", [os_(), os_()])
        elif r < 0.85:
            e = m_list("all", [m_nv("feature", lit_s("f")), m_list("not", [os_()])])
        else:
            e = m_nv("feature", lit_s("extra"))
        self.hit("cfg")
        return m_list("cfg", [e])

    def serde_pack(self, args):
        """spell a set of serde arguments as one merged or several split attributes, in random order"""
        self.rng.shuffle(args)
        if not args:
            return []
        if self.rng.random() < 0.5:
            return [m_list("serde", args)]
        return [m_list("serde", [a]) for a in args]

    def member_attrs(self, kind, scope):
        """attributes of a field / variant; returns (attrs, info)"""
        serde, ts, attrs = [], [], []
        info = {}
        if self.chance("p_rename"):
            serde.append(m_nv("rename", lit_s(self.rng.choice(RENAME_WORDS))))
            self.hit("rename")
        if self.chance("p_skip"):
            which = self.rng.random()
            if which < 0.45:
                serde.append(m_path("skip"))
            elif which < 0.9:
                ts.append(m_path("skip"))
            else:
                serde.append(m_path("skip_serializing"))     # not a skip for typeshare
            self.hit("skip")
        if kind == "field" and self.chance("p_default"):
            serde.append(self.rng.choice([m_path("default"), m_path("default"), m_nv("default", lit_s("some::path"))]))
            self.hit("default")
        if kind == "field" and self.chance("p_flatten"):
            serde.append(m_path("flatten"))
            self.hit("flatten")
        if kind == "field" and self.rng.random() < 0.1:
            serde.append(m_nv("skip_serializing_if", lit_s("Option::is_none")))
        if kind in ("field", "payload") and self.chance("p_serialized_as"):
            ts.append(m_nv("serialized_as", lit_s(self.serialized_as(scope))))
            self.hit("serialized_as")
        if kind == "field" and self.chance("p_decorators"):
            lang = self.rng.choice(LANG_NAMES + ["TypeScript", "SWIFT"])
            args = []
            for _ in range(self.rng.randint(0, 2)):
                if self.rng.random() < 0.5:
                    args.append(m_path(self.rng.choice(["readonly", "type", "optional"])))
                else:
                    args.append(m_nv(self.rng.choice(["type", "note"]), lit_s(self.rng.choice(["any", "string | undefined", "Custom"]))))
            ts.append(m_list(lang, args))
            self.hit("field-decorator")
        if kind == "field" and self.chance("p_edge") and self.rng.random() < 0.1:
            ts.append(m_list(self.rng.choice(["foo", "java", "type_script"]), [m_path("bar")]))
            self.hit("edge-unknown-typeshare-list")
        if kind == "field" and self.chance("p_edge") and self.rng.random() < 0.1:
            ts.append(m_list(self.rng.choice(LANG_NAMES), [m_list("nested", [m_path("x")])]))
            self.hit("edge-bad-decorator-args")
        if self.chance("p_cfg"):
            attrs += self.cfg_attrs()
        docs = self.docs()
        if kind == "variant-struct" and self.chance("p_rename_all"):
            serde.append(m_nv("rename_all", lit_s(self.rng.choice(RULES))))
        groups = self.serde_pack(serde) + ([m_list("typeshare", ts)] if ts else []) + attrs + docs
        self.rng.shuffle(groups)
        return groups

    def serialized_as(self, scope):
        if self.rng.random() < 0.08:
            s = self.rng.choice(["not a type(", "", "Vec<", "1abc"])
            self.ext[s] = None
            return s
        t = self.type(scope, self.rng.randint(0, 2))
        s = render_type(t)
        if self.rng.random() < 0.3:
            s = " " + s + "  "            # literal_to_string trims
        self.ext[s.strip()] = t
        return s

    def item_attrs(self, kind, scope, annotated=True):
        serde, ts, attrs = [], [], []
        spelled = "typeshare"
        if annotated:
            r = self.rng.random()
            if r < 0.8:
                attrs.append(m_path("typeshare"))
            elif r < 0.9:
                attrs.append(m_path("typeshare", "typeshare"))
            else:
                # arguments on the annotation itself
                args = []
                if kind != "const" and self.rng.random() < 0.5:
                    args.append(m_nv("swift", lit_s(self.rng.choice(["Equatable", "Equatable, Hashable", " Sendable ,Codable"]))))
                if kind != "const" and self.rng.random() < 0.3:
                    args.append(m_nv("kotlin", lit_s("JvmInline")))
                if kind != "const" and self.rng.random() < 0.2:
                    args.append(m_path("redacted"))
                attrs.append(m_list("typeshare", args))
                self.hit("typeshare-args")
        if kind in ("struct", "enum") and self.chance("p_rename_all"):
            serde.append(m_nv("rename_all", lit_s(self.rng.choice(RULES + ["bogus"] if self.rng.random() < 0.05 else RULES))))
            self.hit("rename_all")
        if kind != "const" and self.chance("p_rename"):
            serde.append(m_nv("rename", lit_s(self.rng.choice(["Renamed" + kind.capitalize(), "OtherName", "New-Name"]))))
            self.hit("item-rename")
        if kind != "const" and self.chance("p_type_decorators"):
            ts.append(m_nv(self.rng.choice(["swift", "kotlin", "swiftGenericConstraints"]),
                           lit_s(self.rng.choice(["Equatable", "Hashable, Identifiable", "T: Equatable", "Serializable"]))))
            self.hit("type-decorator")
        if kind != "const" and self.chance("p_redacted"):
            ts.append(m_path("redacted"))
        if kind in ("struct", "enum", "alias", "const") and self.chance("p_serialized_as") and self.rng.random() < 0.5:
            ts.append(m_nv("serialized_as", lit_s(self.serialized_as(scope))))
            self.hit("item-serialized_as")
        derive = [m_list("derive", [m_path("Serialize"), m_path("Deserialize")])] if self.rng.random() < 0.7 else []
        if self.chance("p_cfg"):
            attrs += self.cfg_attrs()
        groups = attrs + derive + self.serde_pack(serde) + ([m_list("typeshare", ts)] if ts else []) + self.docs()
        self.rng.shuffle(groups)
        return groups

    # ------------------------------------------------------------------ members
    def field_name(self, used):
        for _ in range(50):
            w = self.rng.choice(FIELD_WORDS)
            if self.rng.random() < self.o["nonascii"]:
                w = self.rng.choice(["é_field", "naïve", "straße", "ñ1", "__", "_1", "___x", "a__b"])
            ident = rust_ident(w)
            if ident and ident not in used:
                used.add(ident)
                return ident
        w = "f%d" % len(used)
        used.add(w)
        return w

    def named_fields(self, scope, maxn=5):
        used = set()
        n = self.rng.choice([0, 1, 1, 2, 2, 3, 4, maxn])
        return ("named", [field(self.member_attrs("field", scope), self.field_name(used), self.type(scope)) for _ in range(n)])

    # ------------------------------------------------------------------ items
    def generics(self):
        gs = []
        if self.chance("p_generic"):
            for name in self.rng.sample(["T", "U", "K"], self.rng.randint(1, 2)):
                gs.append(("ty", name))
            if self.rng.random() < 0.15:
                gs.append(("lt",))
        return gs

    def struct(self, name, scope, annotated=True):
        gs = self.generics()
        sc = dict(scope, generics=[g[1] for g in gs if g[0] == "ty"])
        r = self.rng.random()
        edge = self.chance("p_edge")
        if r < 0.8:
            fs = self.named_fields(sc)
        elif r < 0.93:
            n = 1
            if edge:
                n = self.rng.choice([0, 2, 3])
                self.hit("edge-tuple-struct-%d" % n)
            fs = ("unnamed", [field(self.member_attrs("payload", sc), None, self.type(sc)) for _ in range(n)])
        else:
            fs = ("unit",)
        return {"kind": "struct", "attrs": self.item_attrs("struct", sc, annotated), "ident": name, "generics": gs, "fields": fs}

    def enum(self, name, scope, annotated=True):
        gs = self.generics() if self.rng.random() < 0.5 else []
        sc = dict(scope, generics=[g[1] for g in gs if g[0] == "ty"])
        sc["types"] = scope["types"] + ([name] if self.rng.random() < 0.3 else [])
        algebraic = self.rng.random() < 0.55
        variants, used = [], set()
        for _ in range(self.rng.choice([0, 1, 2, 3, 3, 4, 5])):
            w = self.rng.choice(VARIANT_WORDS)
            if self.rng.random() < self.o["nonascii"]:
                w = self.rng.choice(["Éclair", "Über", "ÑAME"])
            if w in used:
                continue
            used.add(w)
            r = self.rng.random()
            if not algebraic or r < 0.35:
                fs = ("unit",)
                kind = "variant"
            elif r < 0.7:
                n = 1
                if self.chance("p_edge"):
                    n = self.rng.choice([0, 2])
                    self.hit("edge-tuple-variant-%d" % n)
                fs = ("unnamed", [field(self.member_attrs("payload", sc), None, self.type(sc)) for _ in range(n)])
                kind = "variant"
            else:
                fs = self.named_fields(sc, 3)
                kind = "variant-struct"
            variants.append({"attrs": self.member_attrs(kind, sc), "ident": w, "fields": fs})
        attrs = self.item_attrs("enum", sc, annotated)
        has_data = any(v["fields"][0] != "unit" for v in variants)
        keys = []
        want_tag = has_data
        if self.chance("p_edge"):
            want_tag = self.rng.random() < 0.5
            self.hit("edge-enum-keys")
        if want_tag:
            tag, content = self.rng.choice([("type", "content"), ("t", "c"), ("kind", "data"), ("type", "type_content"), ("tag", "value")])
            keys = [m_nv("tag", lit_s(tag)), m_nv("content", lit_s(content))]
            if self.chance("p_edge") and self.rng.random() < 0.5:
                keys = [self.rng.choice(keys)]
        attrs = attrs + self.serde_pack(keys)
        self.rng.shuffle(attrs)
        return {"kind": "enum", "attrs": attrs, "ident": name, "generics": gs, "variants": variants}

    def alias(self, name, scope, annotated=True):
        gs = self.generics() if self.rng.random() < 0.3 else []
        sc = dict(scope, generics=[g[1] for g in gs if g[0] == "ty"])
        return {"kind": "alias", "attrs": self.item_attrs("alias", sc, annotated), "ident": name, "generics": gs, "ty": self.type(sc)}

    def const(self, name, scope, annotated=True):
        """`init` is the literal when the initialiser is exactly one literal, else None"""
        ty = self.rng.choice([t_path("u32"), t_path("i32"), t_path("u8"), ("ref", t_path("str"), False), t_path("U53")])
        r = self.rng.random()
        if not self.chance("p_edge") or r < 0.3:
            v = self.rng.choice([0, 1, 42, 255, 1000000])
            suffix = self.rng.choice(["", "", "u32", "_u8"]) if ty[0] == "path" and ty[2] != "U53" else ""
            text, init = "%d%s" % (v, suffix), ("i", v, suffix.lstrip("_"))
        elif r < 0.45:
            text, init = "-5", None
            self.hit("edge-const-negative")
        elif r < 0.6:
            text, init = "1 + 2", None
            self.hit("edge-const-expr")
        elif r < 0.7:
            text, init = '"text"', ("s", "text")
            ty = ("ref", t_path("str"), False)
            self.hit("edge-const-str")
        elif r < 0.8:
            text, init = self.rng.choice(["OTHER", "f(3)", "(7)", "{ 1 }"]), None
            self.hit("edge-const-path")
        elif r < 0.9:
            text, init = "1.5", ("o", "1.5")
            ty = t_path("f32")
            self.hit("edge-const-float")
        else:
            text, init = self.rng.choice([("0x1F", ("i", 31, "")), ("340282366920938463463374607431768211455", ("i", 2**128 - 1, "")),
                                          ("1_000", ("i", 1000, ""))])
        if self.chance("p_edge") and self.rng.random() < 0.3:
            ty = self.rng.choice([t_path("Vec", [t_path("u8")]), t_path("Option", [t_path("u8")]), ("array", t_path("u8"), 2),
                                  t_path("Foo", [t_path("u8")]), t_path("u64")])
            self.hit("edge-const-type")
        return {"kind": "const", "attrs": self.item_attrs("const", scope, annotated), "ident": name.upper(), "ty": ty,
                "expr_text": text, "init": init}

    def use(self, crates):
        cr = self.rng.choice(list(crates) + ["std", "serde", "crate", "super", "self"])
        name = lambda: ("uname", self.rng.choice(TYPE_WORDS))
        r = self.rng.random()
        if r < 0.4:
            tree = ("upath", cr, name())
        elif r < 0.55:
            tree = ("upath", cr, ("upath", "models", name()))
        elif r < 0.75:
            tree = ("upath", cr, ("ugroup", [name(), ("upath", "sub", name()), name()]))
        elif r < 0.85:
            tree = ("upath", cr, ("uglob",))
        elif r < 0.92:
            tree = ("upath", cr, ("urename", self.rng.choice(TYPE_WORDS), "Alias"))
        else:
            tree = ("ugroup", [("upath", cr, name()), ("upath", self.rng.choice(list(crates) or ["other"]), name())])
        if self.chance("p_edge") and self.rng.random() < 0.3:
            tree = ("uname", "foo")
            self.hit("edge-use-bare")
        self.hit("use")
        return {"kind": "use", "tree": tree}

    # ------------------------------------------------------------------ files
    def file(self, names=None, extern_types=()):
        """one source file with items named `names` (fresh names drawn when None)"""
        rng = self.rng
        if names is None:
            names = rng.sample(TYPE_WORDS, rng.randint(1, 5))
        generic_types = {}
        scope = {"types": list(names) + list(extern_types), "generics": [], "generic_types": generic_types}
        items, kinds = [], {}
        for n in names:
            r = rng.random()
            kinds[n] = "struct" if r < 0.45 else "enum" if r < 0.75 else "alias" if r < 0.88 else "const"
            if kinds[n] == "const" and not self.chance("p_const"):
                kinds[n] = "struct"
        scope["types"] = [n for n in names if kinds[n] != "const"] + list(extern_types)
        for n in names:
            it = getattr(self, kinds[n])(n, scope)
            if it["kind"] in ("struct", "alias", "enum"):
                g = len([g for g in it["generics"] if g[0] == "ty"])
                if g:
                    generic_types[n] = g
            items.append(it)
            self.hit(kinds[n])
        # un-annotated noise
        out = []
        for it in items:
            if self.chance("p_noise"):
                noise = getattr(self, rng.choice(["struct", "enum", "alias"]))("Noise%d" % len(out), scope, annotated=False)
                out.append(noise)
                self.hit("noise")
            if self.chance("p_mod"):
                depth = rng.randint(1, 3)
                wrapped = it
                for d in range(depth):
                    if rng.random() < 0.7:
                        wrapped = {"kind": "mod", "attrs": [], "ident": "m%d" % d, "items": [wrapped]}
                    else:
                        wrapped = {"kind": "other", "ident": "f%d_%d" % (d, len(out)), "paths": [], "items": [wrapped]}
                out.append(wrapped)
                self.hit("nested")
            else:
                out.append(it)
        if self.o["multi_file"]:
            for _ in range(rng.randint(0, 3)):
                out.insert(rng.randint(0, len(out)), self.use(self.o["crates"]))
        fattrs = []
        if self.chance("p_cfg") and rng.random() < 0.3:
            fattrs += self.cfg_attrs()
        return {"attrs": fattrs, "items": out}

    def ext_sx(self):
        return [S("ext"), [[k, sx_type(v) if v is not None else None] for k, v in sorted(self.ext.items())]]
