import TsV.Props.C08
import TsV.Lemmas.TargetOs
/-!
# C08, skip look-alikes — only `serde(skip)` / `typeshare(skip)` take a member out of the rejection

C08 rejects an unsupported construct in a *non-skipped* member.  This module pins down what "skipped" is and
shows that nothing that merely looks like a skip marker changes the verdict.

* `IsSkipMarker a` (trusted reading of the property's "serde(skip)/typeshare(skip)"): the attribute is a list
  attribute `serde(..)` or `typeshare(..)` whose arguments parse and one of whose *direct* arguments is the bare
  path `skip`.
* `skipMarked_iff`, `isSkipped_iff`: the model's `is_skipped` is true exactly when some attribute of the member
  is such a marker, or `accept_target_os` rejects the member (`TsV.C13.member_level`).
* what is **not** a marker (`not_marker_*`): a name-value or bare-path attribute; a list attribute of any other
  path (`other(skip)`, `serde::x(skip)`); an unparsable argument list; and `serde(..)` / `typeshare(..)` none of
  whose direct arguments is the path `skip` — `skip_serializing`, `skip_deserializing`, `skipped` (other paths),
  `skip_serializing_if = ".."`, `skip = ".."` (name-values), `rename(skip)` (the path sits one level down).
* **monotonicity**: inserting, anywhere in a member's attribute list, an attribute that is not a marker and is
  not a `cfg(..)` attribute (`Neutral`; with no `--target-os` the second condition is void) leaves `isSkipped`
  unchanged (`isSkipped_insert`); a field that C08 holds responsible for a rejection (`Culprit`: not skipped, and
  unsupported type or `serde(flatten)`) stays responsible (`culprit_insert`; `culprit_insert_iff` when the
  attribute is not itself `serde(flatten)`), so the struct / struct variant / enum around it is still rejected
  (`struct_rejected_with_lookalike`, `variant_field_rejected_with_lookalike`, `variant_rejected_with_lookalike`).
-/
namespace TsV.C08_Lookalikes
open TsV TsV.Syn TsV.Parser TsV.C08

def kSkip : Str := s%"skip"

/-- **the skip marker**: `#[serde(.., skip, ..)]` or `#[typeshare(.., skip, ..)]` -/
def IsSkipMarker (a : Attr) : Prop :=
  ∃ segs args, a.val = .list segs true args ∧ (segs = [kSerde] ∨ segs = [kTypeshare]) ∧ Meta.path [kSkip] ∈ args

/-! ## `is_skipped` is exactly "has a marker, or excluded by the target list" -/

theorem hasPathArg_iff (a : Attr) (ident name : Str) :
    hasPathArg a ident name = true ↔ ∃ segs args, a.val = .list segs true args ∧ segs = [ident] ∧ Meta.path [name] ∈ args := by
  unfold hasPathArg getMetaItems
  obtain ⟨v⟩ := a
  cases v with
  | path s => simp
  | nameValue s l => simp
  | list segs parsed args =>
    cases parsed with
    | false => simp
    | true =>
      by_cases hs : segs = [ident]
      · subst hs
        simp only [beq_self_eq_true, if_true, List.any_eq_true, Meta.list.injEq, true_and]
        constructor
        · rintro ⟨m, hm, h⟩
          cases m with
          | path p => simp only [beq_iff_eq] at h; subst h; exact ⟨_, _, ⟨rfl, rfl⟩, rfl, hm⟩
          | nameValue _ _ => simp at h
          | list _ _ _ => simp at h
        · rintro ⟨_, _, ⟨rfl, rfl⟩, _, hm⟩
          exact ⟨_, hm, by simp⟩
      · have : (segs == [ident]) = false := by simpa using hs
        simp only [this, Bool.false_eq_true, if_false, List.any_nil, Meta.list.injEq, true_and]
        constructor
        · intro h; cases h
        · rintro ⟨_, _, ⟨rfl, _⟩, h, _⟩; exact absurd h hs

theorem isSkipMarker_iff (a : Attr) :
    (hasPathArg a kSerde kSkip || hasPathArg a kTypeshare kSkip) = true ↔ IsSkipMarker a := by
  rw [Bool.or_eq_true, hasPathArg_iff, hasPathArg_iff]
  constructor
  · rintro (⟨s, ar, h1, h2, h3⟩ | ⟨s, ar, h1, h2, h3⟩)
    · exact ⟨s, ar, h1, .inl h2, h3⟩
    · exact ⟨s, ar, h1, .inr h2, h3⟩
  · rintro ⟨s, ar, h1, h2 | h2, h3⟩
    · exact .inl ⟨s, ar, h1, h2, h3⟩
    · exact .inr ⟨s, ar, h1, h2, h3⟩

/-- the `skip` half of `is_skipped` -/
theorem skipMarked_iff (attrs : List Attr) : skipMarked attrs = true ↔ ∃ a ∈ attrs, IsSkipMarker a := by
  unfold skipMarked
  simp only [List.any_eq_true]
  constructor
  · rintro ⟨a, ha, h⟩; exact ⟨a, ha, (isSkipMarker_iff a).1 h⟩
  · rintro ⟨a, ha, h⟩; exact ⟨a, ha, (isSkipMarker_iff a).2 h⟩

/-- **`is_skipped`, exactly** -/
theorem isSkipped_iff (attrs : List Attr) (T : List Str) :
    isSkipped attrs T = true ↔ (∃ a ∈ attrs, IsSkipMarker a) ∨ TargetOs.accept attrs T = some false := by
  unfold isSkipped
  rw [Bool.or_eq_true, skipMarked_iff]
  obtain ⟨b, hb⟩ := Option.isSome_iff_exists.mp (TargetOs.accept_isSome attrs T)
  rw [hb]; cases b <;> simp

/-- without `--target-os`, a member is skipped iff it carries a marker -/
theorem isSkipped_no_targets (attrs : List Attr) : isSkipped attrs [] = true ↔ ∃ a ∈ attrs, IsSkipMarker a := by
  rw [isSkipped_iff]; simp [TargetOs.accept]

/-! ## the look-alikes -/

theorem not_marker_path (segs : List Str) : ¬ IsSkipMarker ⟨.path segs⟩ := by
  rintro ⟨_, _, h, _⟩; cases h

/-- `#[skip = ".."]`, `#[serde = ".."]` … -/
theorem not_marker_nameValue (segs : List Str) (v : Option Lit) : ¬ IsSkipMarker ⟨.nameValue segs v⟩ := by
  rintro ⟨_, _, h, _⟩; cases h

/-- `skip` as the argument of another attribute: `#[other(skip)]`, `#[serde::x(skip)]`, `#[cfg_attr(x, skip)]` -/
theorem not_marker_other_attribute (segs : List Str) (p : Bool) (args : List Meta)
    (h1 : segs ≠ [kSerde]) (h2 : segs ≠ [kTypeshare]) : ¬ IsSkipMarker ⟨.list segs p args⟩ := by
  rintro ⟨_, _, h, hs, _⟩
  cases h
  rcases hs with hs | hs
  · exact h1 hs
  · exact h2 hs

/-- arguments that are not a comma-separated meta list -/
theorem not_marker_unparsed (segs : List Str) (args : List Meta) : ¬ IsSkipMarker ⟨.list segs false args⟩ := by
  rintro ⟨_, _, h, _⟩; cases h

/-- `serde(..)` / `typeshare(..)` without the bare path `skip` among its direct arguments -/
theorem not_marker_without_skip_path (segs : List Str) (p : Bool) (args : List Meta)
    (h : ∀ m ∈ args, m.segs ≠ [kSkip] ∨ (∃ s v, m = .nameValue s v) ∨ (∃ s q l, m = .list s q l)) :
    ¬ IsSkipMarker ⟨.list segs p args⟩ := by
  rintro ⟨_, _, he, _, hm⟩
  cases he
  rcases h _ hm with h | ⟨_, _, h⟩ | ⟨_, _, _, h⟩
  · exact h rfl
  · cases h
  · cases h

/-- the exact form for a parsed `serde` / `typeshare` list -/
theorem marker_list_iff (segs : List Str) (args : List Meta) :
    IsSkipMarker ⟨.list segs true args⟩ ↔ (segs = [kSerde] ∨ segs = [kTypeshare]) ∧ Meta.path [kSkip] ∈ args := by
  constructor
  · rintro ⟨_, _, he, hs, hm⟩; cases he; exact ⟨hs, hm⟩
  · rintro ⟨hs, hm⟩; exact ⟨_, _, rfl, hs, hm⟩

/-- the look-alikes the check plants, none of which skips (kernel-checked on the model's `is_skipped`) -/
def serdeList (args : List Meta) : Attr := ⟨.list [kSerde] true args⟩
def lookalikes : List Attr :=
  [serdeList [.path [s%"skip_serializing"]],
   serdeList [.path [s%"skip_deserializing"]],
   serdeList [.path [s%"skip_serializing"], .path [s%"skip_deserializing"]],
   serdeList [.nameValue [s%"skip_serializing_if"] (some (.str s%"Option::is_none"))],
   serdeList [.nameValue [s%"skip"] (some (.str s%"yes"))],
   serdeList [.path [s%"skipped"]],
   serdeList [.path [s%"serde", s%"skip"]],
   serdeList [.list [s%"rename"] true [.path [s%"skip"]]],
   ⟨.list [s%"typeshare"] true [.path [s%"skip_serializing"]]⟩,
   ⟨.list [s%"other"] true [.path [s%"skip"]]⟩,
   ⟨.list [s%"serde", s%"x"] true [.path [s%"skip"]]⟩,
   ⟨.list [kSerde] false []⟩,
   ⟨.path [s%"skip"]⟩,
   ⟨.nameValue [s%"skip"] none⟩]

theorem lookalikes_do_not_skip : lookalikes.all (fun a => !isSkipped [a] []) = true := by decide +kernel

/-- and the two markers do, alone or among other arguments -/
theorem markers_skip :
    isSkipped [serdeList [.path [kSkip]]] [] = true ∧
    isSkipped [⟨.list [kTypeshare] true [.path [kSkip]]⟩] [] = true ∧
    isSkipped [serdeList [.path [s%"default"], .path [kSkip], .nameValue [s%"rename"] (some (.str s%"x"))]] [] = true := by
  decide +kernel

/-! ## monotonicity -/

/-- an attribute that cannot change whether a member is skipped: not a marker, and not a `cfg(..)` attribute
(irrelevant without `--target-os`) -/
structure Neutral (T : List Str) (a : Attr) : Prop where
  notMarker : ¬ IsSkipMarker a
  notCfg : T = [] ∨ TargetOs.cfgItems a = []

theorem skipMarked_insert (pre post : List Attr) (a : Attr) (h : ¬ IsSkipMarker a) :
    skipMarked (pre ++ a :: post) = skipMarked (pre ++ post) := by
  have ha : (hasPathArg a kSerde kSkip || hasPathArg a kTypeshare kSkip) = false := by
    cases hb : (hasPathArg a kSerde kSkip || hasPathArg a kTypeshare kSkip) with
    | false => rfl
    | true => exact absurd ((isSkipMarker_iff a).1 hb) h
  unfold skipMarked
  simp only [List.any_append, List.any_cons]
  have ha' : (hasPathArg a kSerde s%"skip" || hasPathArg a kTypeshare s%"skip") = false := ha
  rw [ha', Bool.false_or]

theorem accept_insert (pre post : List Attr) (a : Attr) (T : List Str) (h : T = [] ∨ TargetOs.cfgItems a = []) :
    TargetOs.accept (pre ++ a :: post) T = TargetOs.accept (pre ++ post) T := by
  rcases h with rfl | h
  · simp [TargetOs.accept]
  · unfold TargetOs.accept TargetOs.yielded
    simp [List.flatMap_append, h]

/-- **adding a neutral attribute anywhere does not change `is_skipped`** -/
theorem isSkipped_insert (pre post : List Attr) (a : Attr) (T : List Str) (h : Neutral T a) :
    isSkipped (pre ++ a :: post) T = isSkipped (pre ++ post) T := by
  unfold isSkipped
  rw [skipMarked_insert pre post a h.notMarker, accept_insert pre post a T h.notCfg]

/-- the field C08 holds responsible: not skipped, and of unsupported (effective) type or flattened -/
def Culprit (E : Ext) (T : List Str) (f : Field) : Prop :=
  isSkipped f.attrs T = false ∧ (BadType E f.attrs f.ty ∨ serdeFlatten f.attrs = true)

/-- the attribute does not override the member's type (`typeshare(serialized_as = "..")`) -/
def NoOverride (E : Ext) (a : Attr) : Prop := getNameValueMetaItems E [a] s%"serialized_as" kTypeshare = []

/-- the field with one more attribute -/
def withAttr (f : Field) (pre post : List Attr) (a : Attr) : Field := { f with attrs := pre ++ a :: post }

theorem getSerializedAsType_insert (E : Ext) (pre post : List Attr) (a : Attr) (h : NoOverride E a) :
    getSerializedAsType E (pre ++ a :: post) = getSerializedAsType E (pre ++ post) := by
  unfold NoOverride getNameValueMetaItems at h
  simp only [List.flatMap_cons, List.flatMap_nil, List.append_nil] at h
  unfold getSerializedAsType getNameValueMetaItems
  simp only [List.flatMap_append, List.flatMap_cons, h, List.nil_append]

theorem serdeFlatten_insert (pre post : List Attr) (a : Attr) :
    serdeFlatten (pre ++ a :: post) = (serdeFlatten (pre ++ post) || hasPathArg a kSerde s%"flatten") := by
  unfold serdeFlatten serdeAttr
  simp only [List.any_append, List.any_cons]
  cases List.any pre _ <;> cases List.any post _ <;> cases hasPathArg a kSerde s%"flatten" <;> rfl

theorem badType_insert (E : Ext) (pre post : List Attr) (a : Attr) (ty : SynType) (h : NoOverride E a) :
    BadType E (pre ++ a :: post) ty ↔ BadType E (pre ++ post) ty := by
  unfold BadType effectiveType
  rw [getSerializedAsType_insert E pre post a h]

/-- **a culprit stays a culprit** when a neutral, non-overriding attribute is added to it -/
theorem culprit_insert (E : Ext) (T : List Str) (f : Field) (pre post : List Attr) (a : Attr)
    (hf : f.attrs = pre ++ post) (hn : Neutral T a) (ho : NoOverride E a) (h : Culprit E T f) :
    Culprit E T (withAttr f pre post a) := by
  obtain ⟨hs, hb⟩ := h
  rw [hf] at hs hb
  refine ⟨by simpa [withAttr, isSkipped_insert pre post a T hn] using hs, ?_⟩
  rcases hb with hb | hb
  · exact .inl ((badType_insert E pre post a f.ty ho).2 hb)
  · exact .inr (by simp [withAttr, serdeFlatten_insert, hb])

/-- … and nothing becomes a culprit by it, unless the added attribute is `serde(flatten)` itself -/
theorem culprit_insert_iff (E : Ext) (T : List Str) (f : Field) (pre post : List Attr) (a : Attr)
    (hf : f.attrs = pre ++ post) (hn : Neutral T a) (ho : NoOverride E a)
    (hfl : hasPathArg a kSerde s%"flatten" = false) :
    Culprit E T (withAttr f pre post a) ↔ Culprit E T f := by
  unfold Culprit
  simp only [withAttr, isSkipped_insert pre post a T hn, badType_insert E pre post a f.ty ho, serdeFlatten_insert, hfl,
    Bool.or_false, hf]

/-- C08's rejection of a struct, in terms of the culprit -/
theorem culprit_rejects_struct (E : Ext) (T : List Str) (attrs : List Attr) (ident : Str)
    (gens : List GenericParam) (fs : List Field) (hsa : getSerializedAsType E attrs = none)
    (f : Field) (hf : f ∈ fs) (h : Culprit E T f) :
    (parseStruct E T attrs ident gens (.named fs)).isOk = false :=
  parseStruct_rejects_field E T attrs ident gens fs hsa f hf h.1 h.2

/-- **the struct is still rejected** with a look-alike on the offending field -/
theorem struct_rejected_with_lookalike (E : Ext) (T : List Str) (attrs : List Attr) (ident : Str)
    (gens : List GenericParam) (before after : List Field) (f : Field) (pre post : List Attr) (a : Attr)
    (hsa : getSerializedAsType E attrs = none) (hf : f.attrs = pre ++ post)
    (hn : Neutral T a) (ho : NoOverride E a) (h : Culprit E T f) :
    (parseStruct E T attrs ident gens (.named (before ++ withAttr f pre post a :: after))).isOk = false :=
  culprit_rejects_struct E T attrs ident gens _ hsa _ (by simp) (culprit_insert E T f pre post a hf hn ho h)

/-- **the struct variant is still rejected** with a look-alike on the offending field -/
theorem variant_field_rejected_with_lookalike (E : Ext) (T : List Str) (ra : Option Str) (va : List Attr) (vi : Str)
    (before after : List Field) (f : Field) (pre post : List Attr) (a : Attr)
    (hf : f.attrs = pre ++ post) (hn : Neutral T a) (ho : NoOverride E a) (h : Culprit E T f) :
    (parseEnumVariant E T ra ⟨va, vi, .named (before ++ withAttr f pre post a :: after)⟩).isOk = false := by
  have hc := culprit_insert E T f pre post a hf hn ho h
  exact parseVariant_rejects E T ra _ (.inr ⟨_, withAttr f pre post a, rfl, by simp, hc.1, hc.2⟩)

/-- **the enum is still rejected** with a look-alike on the offending variant: whatever C08 rejects a
non-skipped variant for (several payloads, an unsupported payload, an unsupported or flattened field) is
independent of the variant's own attributes, and the variant is as little skipped as before -/
theorem variant_rejected_with_lookalike (E : Ext) (T : List Str) (attrs : List Attr) (ident : Str)
    (gens : List GenericParam) (before after : List Variant) (vpre vpost : List Attr) (vi : Str) (vf : Fields)
    (a : Attr) (hsa : getSerializedAsType E attrs = none) (hn : Neutral T a)
    (hskip : isSkipped (vpre ++ vpost) T = false)
    (h : (∃ fs, vf = .unnamed fs ∧ (fs.length > 1 ∨ ∃ f rest, fs = f :: rest ∧ BadType E f.attrs f.ty)) ∨
         (∃ fs f, vf = .named fs ∧ f ∈ fs ∧ Culprit E T f)) :
    (parseEnum E T attrs ident gens (before ++ ⟨vpre ++ a :: vpost, vi, vf⟩ :: after)).isOk = false := by
  refine parseEnum_rejects_variant E T attrs ident gens _ hsa ⟨vpre ++ a :: vpost, vi, vf⟩ (by simp) ?_ ?_
  · simpa [isSkipped_insert vpre vpost a T hn] using hskip
  · rcases h with h | ⟨fs, f, h1, h2, h3⟩
    · exact .inl h
    · exact .inr ⟨fs, f, h1, h2, h3.1, h3.2⟩

/-! ## non-vacuity -/

def exE : Ext := { U := .ascii, parseType := fun _ => none }
/-- `pub big: u64` -/
def bigField : Field := ⟨[], some s%"big", .path [] s%"u64" []⟩
/-- `#[serde(skip_serializing_if = "Option::is_none")]` -/
def sif : Attr := serdeList [.nameValue [s%"skip_serializing_if"] (some (.str s%"Option::is_none"))]

example : Culprit exE [] bigField := ⟨by decide +kernel, .inl (.int64 _ _ _ (by decide))⟩
example : Neutral [] sif :=
  ⟨not_marker_without_skip_path _ _ _ (by intro m hm; simp at hm; subst hm; exact .inr (.inl ⟨_, _, rfl⟩)), .inl rfl⟩
example : Neutral [s%"ios"] sif :=
  ⟨not_marker_without_skip_path _ _ _ (by intro m hm; simp at hm; subst hm; exact .inr (.inl ⟨_, _, rfl⟩)), .inr rfl⟩
example : NoOverride exE sif := by unfold NoOverride; decide +kernel
/-- the conclusion of `struct_rejected_with_lookalike` on the witness, and the contrast with the real marker -/
example : (parseStruct exE [] [] s%"S" [] (.named [withAttr bigField [] [] sif])).isOk = false := by decide +kernel
example : (parseStruct exE [] [] s%"S" [] (.named [withAttr bigField [] [] (serdeList [.path [kSkip]])])).isOk = true := by
  decide +kernel

end TsV.C08_Lookalikes
