import TsV.Lemmas.C15
/-!
# C15 — documentation text is carried only inside comments of the generated code

The parser turns the `#[doc = ".."]` strings of an item (`///`, `/** */` and `#[doc]` all arrive in that
form) into comment entries: `Parser.parseCommentAttrs` = `entries` ∘ `Parser.docStrings` — each string
trimmed, split at `\n`, `\r\n` and lone `\r`, every line trimmed.  Every back end prints the entries of a
type, field, variant, struct-variant field or alias through one comment renderer (`TypeScript.comments`,
`Kotlin.comments`, `Swift.comments`, `Scala.comments`, `Go.comments`, `Python.docstring`,
`Python.hashComments`); TypeScript writes `*/` as `*\/`, the Python docstring writer `"""` as `\"\"\"`.
`Lemmas/C15_Spec.lean` gives the trusted side: the comment lexers of the six languages, the renderers
with the origin of every character (`renderT`), `contained` (the lexer, started in `code`, is in a comment
state before and after every character that stems from the doc text, and is back in `code` at the end of
the block), the decidable predicate `Bad` on one string handed to a renderer, and `KnownScalaSub`.

* `C15_full`: for every list of `#[doc]` strings as the parser receives them, for every renderer, at every
  indentation, the rendered block is contained.
* Six of the seven renderers have the property outright (`C15_all_but_scala`; TypeScript and the Python
  docstring even for arbitrary strings handed to the renderer: `C15_typescript`, `C15_pyDoc`).
* One residual class (`KnownScalaSub`): Scala's scanner also ends a `//` comment at U+001A, at which the
  parser does not split.  `C15_not_full` is the witness, `C15_exact` the exact characterisation
  (`C15_partial` / `C15_converse` its two directions), `C15_no_sub` the reading on the raw doc strings.
* `C15_iff` is the exact characterisation at renderer level (arbitrary strings handed to a renderer): a
  block is contained **iff** none of its strings is `Bad`; `C15_entries_single_line` (no entry produced by
  the parser contains `\n` or `\r`) is what discharges `Bad` for the line-comment renderers.
-/
namespace TsV.C15
open TsV TsV.Lang

/-- the property at full strength: whatever the `#[doc]` strings of an item contain, the block that the
parser's entries are rendered to is contained — in all seven renderers of the six back ends, at every
indentation -/
def C15_full : Prop :=
  ∀ (sty : Style) (U : UnicodeOps) (indent : Nat) (docs : List Str),
    contained sty U indent (entries U docs) = true

/-! ## the objects of the statement are the model's -/

/-- the comment entries of an item are `entries` of the string values of its `doc` attributes -/
theorem C15_parser (E : Ext) (attrs : List Syn.Attr) :
    Parser.parseCommentAttrs E attrs = entries E.U (Parser.docStrings attrs) := rfl

/-- forgetting the origin tags gives byte for byte the text the back-end model writes (which the
correspondence compares with the real generator) -/
theorem C15_render (sty : Style) (U : UnicodeOps) (indent : Nat) (docs : List Str) :
    erase (renderT sty U indent docs) = render sty U indent docs :=
  erase_renderT sty U indent docs

/-- … and the characters tagged "doc text" are exactly the entries as the printer writes them, in order
(Swift strips trailing white space; TypeScript writes `*/` as `*\/`, the Python docstring writer `\` as
`\\` and then `"""` as `\"\"\"` — the inserted backslashes count as doc text) -/
theorem C15_tags (sty : Style) (U : UnicodeOps) (indent : Nat) (docs : List Str) :
    docChars (renderT sty U indent docs) = docs.flatMap (written sty U) :=
  docChars_renderT sty U indent docs

/-- the escaping functions of the model are Rust's `str::replace`; Python (since the `fix:` commit
af54d85): `v.replace('\\', "\\\\").replace("\"\"\"", "\\\"\\\"\\\"")` — backslashes doubled first -/
theorem C15_escape_is_replace (c : Str) :
    TypeScript.escapeDoc c = Str.replaceSub c s%"*/" s%"*\\/" ∧
    Python.escapeDoc c =
      Str.replaceSub (Str.replaceSub c s%"\\" s%"\\\\") s%"\"\"\"" s%"\\\"\\\"\\\"" :=
  ⟨ts_escape_eq_replace c, py_escape_eq_replace c⟩

/-- splitting loses nothing but the line breaks -/
theorem C15_lines_keep_text (s : Str) :
    (Parser.docLines s).flatten = s.filter fun c => !(c = '\n' || c = '\r') :=
  docLines_flatten s

/-! ## renderer level: exact characterisation for arbitrary strings handed to a renderer -/

/-- a block of strings is carried inside the comment **iff** none of the strings is `Bad` -/
theorem C15_iff (sty : Style) (U : UnicodeOps) (indent : Nat) (cs : List Str) :
    contained sty U indent cs = true ↔ ∀ c ∈ cs, Bad sty U c = false := by
  rw [contained_eq]; simp

theorem C15_renderer_partial (sty : Style) (U : UnicodeOps) (indent : Nat) (cs : List Str)
    (h : ∀ c ∈ cs, Bad sty U c = false) : contained sty U indent cs = true :=
  (C15_iff sty U indent cs).2 h

/-- one `Bad` string anywhere in the block breaks it -/
theorem C15_renderer_converse (sty : Style) (U : UnicodeOps) (indent : Nat) (cs : List Str) (c : Str)
    (hc : c ∈ cs) (hb : Bad sty U c = true) : contained sty U indent cs = false := by
  cases h : contained sty U indent cs with
  | false => rfl
  | true => have := (C15_iff sty U indent cs).1 h c hc; rw [hb] at this; exact Bool.noConfusion this

/-- TypeScript: no string is `Bad` — `*/` never reaches the output, line breaks are harmless in `/** */` -/
theorem Bad_typescript (U : UnicodeOps) (c : Str) : Bad .typescript U c = false := Bad_typescript_never U c

/-- Python docstrings: no string is `Bad` — the written text has no unescaped `"""`, whatever
backslashes and quotes surround the escaped ones -/
theorem Bad_pyDoc (U : UnicodeOps) (c : Str) : Bad .pyDoc U c = false := Bad_pyDoc_never U c

/-- the line-comment renderers: exactly the strings with a character that ends a line comment -/
theorem Bad_line_comment (U : UnicodeOps) (c : Str) :
    (Bad .kotlin U c = true ↔ ∃ x ∈ c, x = '\n' ∨ x = '\r') ∧
    (Bad .go U c = true ↔ '\n' ∈ c) ∧
    (Bad .pyHash U c = true ↔ ∃ x ∈ c, x = '\n' ∨ x = '\r') := by
  simp [Bad, kotlinSyntax, goSyntax, pyEol]

/-- the TypeScript renderer and the Python docstring renderer are safe for **every** list of strings -/
theorem C15_typescript (U : UnicodeOps) (indent : Nat) (cs : List Str) :
    contained .typescript U indent cs = true :=
  C15_renderer_partial _ U indent cs fun c _ => Bad_typescript U c

theorem C15_pyDoc (U : UnicodeOps) (indent : Nat) (cs : List Str) :
    contained .pyDoc U indent cs = true :=
  C15_renderer_partial _ U indent cs fun c _ => Bad_pyDoc U c

/-- the witnesses of the repaired defects, and text that would be dangerous without the escaping -/
example : contained .typescript UnicodeOps.ascii 0 [s%"a */ b"] = true := by decide
example : contained .typescript UnicodeOps.ascii 1 [s%"**/", s%"*/*/ /* x", s%"a\nb // c *", s%"/"] = true := by decide
example : render .typescript UnicodeOps.ascii 0 [s%"a */ b"] = s%"/** a *\\/ b */\n" := by decide
example : contained .pyDoc UnicodeOps.ascii 1 [s%"a \"\"\" b"] = true := by decide
example : contained .pyDoc UnicodeOps.ascii 1
    [s%"\"\"\"\"\"", s%"\\\"\"\"", s%"\\\\\"\"\"\"", s%"say \"hi\"", s%"a\\", s%"x */\ny", s%"\"\"\"\\"] = true := by
  decide
example : render .pyDoc UnicodeOps.ascii 0 [s%"a \"\"\" b"] = s%"\"\"\"\na \\\"\\\"\\\" b\n\"\"\"\n" := by decide
-- backslashes are doubled (the witnesses of the repaired finding `python-docstring-escape`: `\N`, `C:\Users\x`)
example : render .pyDoc UnicodeOps.ascii 0 [s%"\\N", s%"see C:\\Users\\x"] =
    s%"\"\"\"\n\\\\N\nsee C:\\\\Users\\\\x\n\"\"\"\n" := by decide
-- `\"""` is written `\\\"\"\"`: an escaped backslash, then three escaped quotes
example : Python.escapeDoc s%"\\\"\"\"" = s%"\\\\\\\"\\\"\\\"" := by decide

/-- the line-comment renderers themselves still rely on single-line input: handed a string with a line
break they are not contained — which is why the statement is about the parser's entries -/
theorem renderer_needs_single_lines :
    contained .kotlin UnicodeOps.ascii 0 [s%"a\nb"] = false ∧
    contained .swift UnicodeOps.ascii 0 [s%"a\nb"] = false ∧
    contained .scala UnicodeOps.ascii 0 [s%"a\nb"] = false ∧
    contained .go UnicodeOps.ascii 0 [s%"a\nb"] = false ∧
    contained .pyHash UnicodeOps.ascii 0 [s%"a\nb"] = false := by decide

/-- the hypotheses of `C15_renderer_partial` are met by text that is dangerous for the *other* languages:
`*/`, `/*`, `//`, `#`, back-ticks, quotes and a trailing backslash are harmless in `///` lines -/
example : ∀ c ∈ [s%"a */ b /* c // d", s%"# `x` \"\"\" ''' \\"], Bad .kotlin UnicodeOps.ascii c = false := by
  decide
/-- … and of `C15_renderer_converse`: the `Bad` string need not be the first one -/
example : s%"x\ny" ∈ [s%"fine", s%"x\ny"] ∧ Bad .go UnicodeOps.ascii s%"x\ny" = true := by decide

/-! ## parser level: the statement of the property -/

/-- no entry produced by the parser contains a line break -/
theorem C15_entries_single_line (U : UnicodeOps) (docs : List Str) :
    ∀ e ∈ entries U docs, ∀ x ∈ e, x ≠ '\n' ∧ x ≠ '\r' := by
  intro e he x hx
  have := entries_no_break U docs e he
  simp only [List.any_eq_false] at this
  simpa [isBreak] using this x hx

/-- … so on the parser's entries `Bad` is false except for U+001A under Scala -/
theorem C15_entries_Bad (sty : Style) (U : UnicodeOps) (docs : List Str) (e : Str) (he : e ∈ entries U docs) :
    Bad sty U e = (sty == .scala && e.any isSub) :=
  Bad_of_no_break sty U e (entries_no_break U docs e he)

/-- exact characterisation: the block is contained **iff** we are not in the residual class -/
theorem C15_exact (sty : Style) (U : UnicodeOps) (indent : Nat) (docs : List Str) :
    contained sty U indent (entries U docs) = true ↔ KnownScalaSub sty U docs = false := by
  rw [contained_entries]; simp

/-- outside the residual class the property holds -/
theorem C15_partial (sty : Style) (U : UnicodeOps) (indent : Nat) (docs : List Str)
    (h : KnownScalaSub sty U docs = false) : contained sty U indent (entries U docs) = true :=
  (C15_exact sty U indent docs).2 h

/-- … and inside it, it fails -/
theorem C15_converse (sty : Style) (U : UnicodeOps) (indent : Nat) (docs : List Str)
    (h : KnownScalaSub sty U docs = true) : contained sty U indent (entries U docs) = false := by
  rw [contained_entries, h]; rfl

/-- TypeScript, Kotlin, Swift, Go and both Python renderers have the property at full strength -/
theorem C15_all_but_scala (sty : Style) (hs : sty ≠ .scala) (U : UnicodeOps) (indent : Nat) (docs : List Str) :
    contained sty U indent (entries U docs) = true :=
  C15_partial sty U indent docs (by cases sty <;> first | exact absurd rfl hs | rfl)

/-- Scala has it for all doc strings without U+001A -/
theorem C15_no_sub (sty : Style) (U : UnicodeOps) (indent : Nat) (docs : List Str)
    (h : ∀ d ∈ docs, ∀ x ∈ d, x.toNat ≠ 0x1A) : contained sty U indent (entries U docs) = true := by
  apply C15_partial
  have h' : ∀ d ∈ docs, d.any isSub = false := fun d hd => by
    simp only [List.any_eq_false]
    intro x hx; simpa [isSub] using h d hd x hx
  have := entries_any U docs h'
  unfold KnownScalaSub
  rw [Bool.and_eq_false_iff]; right
  simp only [List.any_eq_false]
  intro e he; simp [this e he]

/-- the residual class is not empty: a doc string with U+001A in the middle, rendered by Scala -/
theorem witness_scala_sub : contained .scala UnicodeOps.ascii 0 (entries UnicodeOps.ascii [s%"a\x1ab"]) = false := by
  decide

theorem C15_not_full : ¬ C15_full := fun h => by
  have := h .scala UnicodeOps.ascii 0 [s%"a\x1ab"]
  rw [witness_scala_sub] at this
  exact Bool.noConfusion this

/-- the hypotheses of `C15_partial` / `C15_no_sub` are met by the witnesses of the three repaired defects
and by everything else the property lists -/
example : ∀ sty, KnownScalaSub sty UnicodeOps.ascii
    [s%"a\nb", s%" x\r\ny\rz ", s%"a */ b", s%"a \"\"\" b", s%"''' \\ # ` // /*"] = false := by
  intro sty; cases sty <;> decide
example : ∀ d ∈ [s%"a\nb", s%"a */ b", s%"a \"\"\" b"], ∀ x ∈ d, x.toNat ≠ 0x1A := by decide
/-- what the parser makes of them -/
example : entries UnicodeOps.ascii [s%" a\nb ", s%" x\r\n  y\rz ", s%"", s%"p\n\nq"]
    = [s%"a", s%"b", s%"x", s%"y", s%"z", s%"", s%"p", s%"", s%"q"] := by decide
example : contained .kotlin UnicodeOps.ascii 0 (entries UnicodeOps.ascii [s%"a\nb"]) = true := by decide
example : render .kotlin UnicodeOps.ascii 0 (entries UnicodeOps.ascii [s%"a\nb"]) = s%"/// a\n/// b\n" := by decide
example : contained .pyHash UnicodeOps.ascii 0 (entries UnicodeOps.ascii [s%"a\r\nb"]) = true := by decide
/-- … and of `C15_converse` -/
example : KnownScalaSub .scala UnicodeOps.ascii [s%"fine", s%"a\x1ab"] = true := by decide

/-! ## a contained block is invisible to the lexer -/

/-- after a contained block the lexer is back in `code`: the text that follows the block is lexed as
if the block were not there (TypeScript, Kotlin, Swift, Scala, Go) -/
theorem C15_transparent_c (S : CSyntax) (t : TStr)
    (h : containedIn (cStep S) CSt.inComment .code t = true) (post : Str) :
    (erase t ++ post).foldl (cStep S) .code = post.foldl (cStep S) .code := by
  rw [List.foldl_append, ← final_eq_foldl, containedIn_final _ _ _ _ h]

/-- the same for Python -/
theorem C15_transparent_py (t : TStr)
    (h : containedIn pyStep PSt.inComment .code t = true) (post : Str) :
    (erase t ++ post).foldl pyStep .code = post.foldl pyStep .code := by
  rw [List.foldl_append, ← final_eq_foldl, containedIn_final _ _ _ _ h]

example : containedIn (cStep goSyntax) CSt.inComment .code
    (renderT .go UnicodeOps.ascii 1 [s%"doc */ \"x\""]) = true := by decide

/-! ## every documentable position goes through these renderers

`EmbedsBlock blk r`: as a function of the doc strings `cs` of one position, the rendered declaration
`r cs` is `pre ++ blk cs ++ post` for fixed `pre`, `post` — the doc strings enter the text only as the
comment block, verbatim, at one place.  One lemma per fact record that has a `comments` field. -/

def EmbedsBlock (blk r : List Str → Str) : Prop := ∃ pre post, ∀ cs, r cs = pre ++ (blk cs ++ post)

theorem embeds_prefix (blk r : List Str → Str) (h : ∀ cs, r cs = blk cs ++ r []) : EmbedsBlock blk r :=
  ⟨[], r [], fun cs => by simpa using h cs⟩
theorem embeds_suffix (blk r : List Str → Str) (h : ∀ cs, r cs = r [] ++ blk cs) : EmbedsBlock blk r :=
  ⟨r [], [], fun cs => by simpa using h cs⟩

/-! ### TypeScript (`/** */`; type-level and variant-level positions are written by `writeStruct`,
`writeAlias`, `writeEnum`, `writeVariant` as `comments 0 x.comments ++ …` / `nl ++ comments 1 v.comments ++ …`) -/
theorem ts_field (f : TypeScript.TsField) :
    EmbedsBlock (TypeScript.comments 1) fun cs => TypeScript.renderField { f with comments := cs } :=
  embeds_prefix _ _ fun cs => by simp [TypeScript.renderField, TypeScript.comments]

/-! ### Kotlin (`///`) -/
theorem kt_param (p : Kotlin.KtParam) :
    EmbedsBlock (Kotlin.comments 1) fun cs => Kotlin.renderParam { p with comments := cs } :=
  embeds_prefix _ _ fun cs => by simp [Kotlin.renderParam, Kotlin.comments]
theorem kt_entry (p : Kotlin.KtEntry) :
    EmbedsBlock (Kotlin.comments 1) fun cs => Kotlin.renderEntry { p with comments := cs } :=
  embeds_prefix _ _ fun cs => by simp [Kotlin.renderEntry, Kotlin.comments]
theorem kt_case (p : Kotlin.KtCase) :
    EmbedsBlock (Kotlin.comments 1) fun cs => Kotlin.renderCase { p with comments := cs } :=
  embeds_prefix _ _ fun cs => by simp [Kotlin.renderCase, Kotlin.comments]
/-- all six kinds of Kotlin declarations start with the comment block of the type -/
theorem kt_decl (d : Kotlin.KtDecl) : ∃ cs post, Kotlin.renderDecl d = Kotlin.comments 0 cs ++ post := by
  cases d <;> exact ⟨_, _, by simp only [Kotlin.renderDecl, List.append_assoc]; rfl⟩

/-! ### Swift (`///`, trailing white space stripped) -/
theorem sw_prop (U : UnicodeOps) (p : Swift.StoredProp) :
    EmbedsBlock (Swift.comments U 1) fun cs => Swift.renderProp U { p with comments := cs } :=
  embeds_prefix _ _ fun cs => by simp [Swift.renderProp, Swift.comments]
theorem sw_struct (U : UnicodeOps) (s : Swift.SwiftStruct) :
    EmbedsBlock (Swift.comments U 0) fun cs => Swift.renderStruct U { s with comments := cs } :=
  ⟨nl, (Swift.renderStruct U { s with comments := [] }).drop 1, fun cs => by
    simp [Swift.renderStruct, Swift.comments, nl]⟩
theorem sw_unit_case (U : UnicodeOps) (c : Swift.EnumCase) :
    EmbedsBlock (Swift.comments U 1) fun cs => Swift.renderUnitCase U { c with comments := cs } :=
  embeds_prefix _ _ fun cs => by simp [Swift.renderUnitCase, Swift.comments]
theorem sw_algebraic_case (U : UnicodeOps) (c : Swift.EnumCase) :
    EmbedsBlock (Swift.comments U 1) fun cs => Swift.renderAlgebraicCase U { c with comments := cs } :=
  embeds_prefix _ _ fun cs => by simp [Swift.renderAlgebraicCase, Swift.comments]
theorem sw_enum (U : UnicodeOps) (e : Swift.SwiftEnum) :
    EmbedsBlock (Swift.comments U 0) fun cs => Swift.renderEnum U { e with comments := cs } :=
  embeds_prefix _ _ fun cs => by simp [Swift.renderEnum, Swift.comments]

/-! ### Scala (`//`) -/
theorem sc_param (p : Scala.ScParam) :
    EmbedsBlock (Scala.comments 1) fun cs => Scala.renderParam { p with comments := cs } :=
  embeds_prefix _ _ fun cs => by simp [Scala.renderParam, Scala.comments]
theorem sc_class (c : Scala.ScClass) :
    EmbedsBlock (Scala.comments 0) fun cs => Scala.renderClass { c with comments := cs } :=
  embeds_prefix _ _ fun cs => by simp [Scala.renderClass, Scala.comments]
theorem sc_alias (a : Scala.ScAlias) :
    EmbedsBlock (Scala.comments 0) fun cs => Scala.renderAlias { a with comments := cs } :=
  embeds_prefix _ _ fun cs => by simp [Scala.renderAlias, Scala.comments]
theorem sc_case (c : Scala.ScCase) :
    EmbedsBlock (Scala.comments 1) fun cs => Scala.renderCase { c with comments := cs } :=
  embeds_prefix _ _ fun cs => by simp [Scala.renderCase, Scala.comments]
theorem sc_enum (e : Scala.ScEnum) :
    EmbedsBlock (Scala.comments 0) fun cs => Scala.renderEnum { e with comments := cs } :=
  ⟨e.inner.flatMap Scala.renderClass, _, fun cs => by simp only [Scala.renderEnum, List.append_assoc]; rfl⟩

/-! ### Go (`//`; the algebraic enum `renderAlgEnum` writes `comments 0 e.comments` after the structs of the
struct variants and `comments 1 v.comments` in front of every constant, `renderUnitEnum` likewise) -/
theorem go_field (f : Go.GoField) :
    EmbedsBlock (Go.comments 1) fun cs => Go.renderField { f with comments := cs } :=
  embeds_prefix _ _ fun cs => by simp [Go.renderField, Go.comments]
theorem go_struct (d : Go.GoStruct) :
    EmbedsBlock (Go.comments 0) fun cs => Go.renderStruct { d with comments := cs } :=
  embeds_prefix _ _ fun cs => by simp [Go.renderStruct, Go.comments]
theorem go_alias (a : Go.GoAlias) :
    EmbedsBlock (Go.comments 0) fun cs => Go.renderAlias { a with comments := cs } :=
  embeds_prefix _ _ fun cs => by simp [Go.renderAlias, Go.comments]
theorem go_unit_enum (e : Go.GoUnitEnum) :
    EmbedsBlock (Go.comments 0) fun cs => Go.renderUnitEnum { e with comments := cs } :=
  embeds_prefix _ _ fun cs => by simp [Go.renderUnitEnum, Go.comments]

/-! ### Python (docstrings after the declaration line; `#` lines in front of a union alias) -/
theorem py_field (f : Python.PyField) :
    EmbedsBlock (Python.docstring 1) fun cs => Python.renderField { f with comments := cs } :=
  embeds_suffix _ _ fun cs => by simp [Python.renderField, Python.docstring]
theorem py_alias (a : Python.PyAlias) :
    EmbedsBlock (Python.docstring 0) fun cs => Python.renderAlias { a with comments := cs } :=
  embeds_suffix _ _ fun cs => by simp [Python.renderAlias, Python.docstring]
theorem py_class (c : Python.PyClass) :
    EmbedsBlock (Python.docstring 1) fun cs => Python.renderClass { c with comments := cs } :=
  ⟨s%"class " ++ c.name ++ s%"(" ++
      (if c.generics.isEmpty then s%"BaseModel"
       else s%"BaseModel, Generic[" ++ Str.intercalate s%", " c.generics ++ s%"]") ++ s%"):\n",
   (if c.modelConfig then s%"    model_config = ConfigDict(populate_by_name=True)\n\n" else []) ++
      (c.fields.flatMap Python.renderField) ++ (if c.fields.isEmpty then s%"    pass" else []) ++ nl,
   fun cs => by simp [Python.renderClass]⟩
theorem py_enum_class (c : Python.PyEnumClass) :
    EmbedsBlock (Python.docstring 1) fun cs => Python.renderEnumClass { c with comments := cs } :=
  ⟨s%"class " ++ c.name ++ s%"(str, Enum):\n", _, fun cs => by simp only [Python.renderEnumClass, List.append_assoc]; rfl⟩
theorem py_variant (v : Python.PyVariant) :
    EmbedsBlock (Python.docstring 1) fun cs => Python.renderVariant { v with comments := cs } :=
  ⟨s%"class " ++ v.className ++ s%"(BaseModel):\n", _, fun cs => by simp only [Python.renderVariant, List.append_assoc]; rfl⟩
theorem py_union (u : Python.PyUnion) :
    EmbedsBlock (Python.hashComments 0) fun cs => Python.renderUnion { u with comments := cs } :=
  ⟨(u.inner.flatMap Python.renderClass) ++ s%"class " ++ u.typesName ++ s%"(str, Enum):\n" ++
    Str.intercalate nl (u.tags.map fun m => s%"    " ++ m.name ++ s%" = \"" ++ m.wire ++ s%"\"") ++ nl ++ nl ++
    (u.variants.flatMap Python.renderVariant), _,
   fun cs => by simp only [Python.renderUnion, List.append_assoc]; rfl⟩
/-! the members of a unit enum (`PyMember`) get `docstring 1 m.comments` after their line inside
`renderEnumClass`; `tags` of a union carry no doc strings -/

end TsV.C15
