import TsV.Lemmas.C05_Inj
import TsV.Lemmas.C05_InjGo
import TsV.Lemmas.C05_Struct
/-!
# C05 — `show L` is injective up to leaf kinds (TypeScript, Kotlin, Swift, Scala, Python)

`show L t` is the rendering of a bracket term `desugar L t` (`show_eq_render`); bracket terms are
uniquely readable (`Inj.render_inj`); `desugar L` has a left inverse up to leaf kinds (`resugar`).
-/
namespace TsV.C05L
open TsV TsV.C05L.Inj

/-- the back ends covered by the losslessness theorem -/
def Covered (L : TsV.Lang) : Prop := L = .typescript ∨ L = .kotlin ∨ L = .scala ∨ L = .python ∨ L = .swift

def grOf : TsV.Lang → Gr
  | .typescript => ⟨'<', '>', '[', [']']⟩
  | .kotlin => ⟨'<', '>', '?', []⟩
  | .swift => ⟨'<', '>', '?', []⟩
  | _ => ⟨'[', ']', '?', []⟩

theorem grOf_ok (L : TsV.Lang) : (grOf L).OK := by
  cases L <;> constructor <;> decide

def kwSeq : TsV.Lang → Str
  | .kotlin => s%"List" | .scala => s%"Vector" | .python => s%"List" | _ => []
def kwMap : TsV.Lang → Str
  | .typescript => s%"Record" | .kotlin => s%"HashMap" | .scala => s%"Map" | .python => s%"Dict"
  | .go => s%"map" | .swift => []
def kwOpt : TsV.Lang → Str
  | .scala => s%"Option" | .python => s%"Optional" | _ => []

/-- the container names a user type applied to arguments must not be called -/
def keywords (L : TsV.Lang) : List Str := [kwSeq L, kwMap L, kwOpt L]

def bump : Tm → Tm
  | .leaf n k => .leaf n (k + 1)
  | .app n a as k => .app n a as (k + 1)
  | .tup a as k => .tup a as (k + 1)
  | .dict a b k => .dict a b (k + 1)

mutual
  /-- a target type expression as a bracket term -/
  def desugar (L : TsV.Lang) : TTy → Tm
    | .prim n => .leaf n 0
    | .param n => .leaf n 0
    | .mapped n => .leaf n 0
    | .user n [] => .leaf n 0
    | .user n (a :: as) => .app n (desugar L a) (desugarList L as) 0
    | .seq t =>
      (match L with
      | .typescript => bump (desugar L t)
      | .swift => .tup (desugar L t) [] 0
      | _ => .app (kwSeq L) (desugar L t) [] 0)
    | .fixedSeq t n =>
      (match L, n with
      | .typescript, m + 1 => .tup (desugar L t) (List.replicate m (desugar L t)) 0
      | _, _ => .app (kwSeq L) (desugar L t) [] 0)
    | .map k v =>
      (match L with
      | .swift => .dict (desugar L k) (desugar L v) 0
      | _ => .app (kwMap L) (desugar L k) [desugar L v] 0)
    | .opt t =>
      (match L with
      | .typescript => desugar L t
      | .kotlin => bump (desugar L t)
      | .swift => bump (desugar L t)
      | _ => .app (kwOpt L) (desugar L t) [] 0)
  def desugarList (L : TsV.Lang) : List TTy → List Tm
    | [] => []
    | t :: ts => desugar L t :: desugarList L ts
end

mutual
  /-- the trees the theorem speaks about: no `mapped` node, names are identifiers, a user type with
  arguments is not called like a container of the target language, and only the constructors the
  translation produces for `L` (TypeScript: no `opt`, tuples of positive length; `fixedSeq` only in
  TypeScript and Go) -/
  def WF (L : TsV.Lang) : TTy → Prop
    | .prim n => NameOK n
    | .param n => NameOK n
    | .mapped _ => False
    | .user n args => NameOK n ∧ (args ≠ [] → n ∉ keywords L) ∧ WFl L args
    | .seq t => WF L t
    | .fixedSeq t n => hasFixed L = true ∧ (L = .typescript → n ≠ 0) ∧ WF L t
    | .map k v => WF L k ∧ WF L v
    | .opt t => L ≠ .typescript ∧ WF L t
  def WFl (L : TsV.Lang) : List TTy → Prop
    | [] => True
    | t :: ts => WF L t ∧ WFl L ts
end

mutual
  /-- forget which kind of leaf a name is -/
  def erase : TTy → TTy
    | .prim n => .prim n
    | .param n => .prim n
    | .mapped n => .mapped n
    | .user n [] => .prim n
    | .user n (a :: as) => .user n (erase a :: eraseList as)
    | .seq t => .seq (erase t)
    | .fixedSeq t n => .fixedSeq (erase t) n
    | .map k v => .map (erase k) (erase v)
    | .opt t => .opt (erase t)
  def eraseList : List TTy → List TTy
    | [] => []
    | t :: ts => erase t :: eraseList ts
end

theorem covered_fixed (L : TsV.Lang) (hL : Covered L) (h : hasFixed L = true) : L = .typescript := by
  rcases hL with rfl | rfl | rfl | rfl | rfl <;> simp [hasFixed] at h ⊢

/-! ## `show` is `render ∘ desugar` -/

def tailStr : List Str → Str
  | [] => []
  | x :: xs => ',' :: ' ' :: (x ++ tailStr xs)

theorem intercalate_cons (x : Str) : ∀ xs : List Str, Str.intercalate s%", " (x :: xs) = x ++ tailStr xs
  | [] => by simp [Str.intercalate, tailStr]
  | y :: ys => by
    have := intercalate_cons y ys
    simp only [Str.intercalate, tailStr, this]
    simp

theorem posts_snoc (g : Gr) : ∀ k, posts g (k + 1) = posts g k ++ g.post
  | 0 => by simp [posts]
  | k + 1 => by
    have := posts_snoc g k
    simp only [posts] at this ⊢
    rw [this, ← List.append_assoc, this]

theorem render_bump (g : Gr) (t : Tm) : render g (bump t) = render g t ++ g.post := by
  cases t <;> simp [bump, render, posts_snoc]

theorem renderTail_replicate (g : Gr) (d : Tm) : ∀ m,
    renderTail g (List.replicate m d) = tailStr (List.replicate m (render g d))
  | 0 => by simp [renderTail, tailStr]
  | m + 1 => by simp [List.replicate_succ, renderTail, tailStr, renderTail_replicate g d m]

mutual
theorem show_eq_render (L : TsV.Lang) (hL : Covered L) : ∀ t : TTy, WF L t →
    «show» L t = render (grOf L) (desugar L t)
  | .prim n, _ => by simp [«show», desugar, render, posts]
  | .param n, _ => by simp [«show», desugar, render, posts]
  | .mapped n, h => by simp [WF] at h
  | .user n [], _ => by simp [«show», desugar, render, posts]
  | .user n (a :: as), h => by
    simp only [WF, WFl] at h
    have h1 := show_eq_render L hL a h.2.2.1
    have h2 := showTail_eq L hL as h.2.2.2
    simp only [«show», showAll, List.isEmpty_cons, Bool.false_eq_true, if_false, intercalate_cons, desugar,
      render, posts, h1, h2]
    rcases hL with rfl | rfl | rfl | rfl | rfl <;> simp [brOpen, brClose, grOf]
  | .seq t, h => by
    simp only [WF] at h
    have h1 := show_eq_render L hL t h
    rcases hL with rfl | rfl | rfl | rfl | rfl <;>
      simp [«show», desugar, render_bump, render, renderTail, posts, h1, grOf, Gr.post, kwSeq]
  | .fixedSeq t n, h => by
    simp only [WF] at h
    obtain ⟨hf, hn, h⟩ := h
    obtain rfl := covered_fixed L hL hf
    have hn := hn rfl
    have h1 := show_eq_render .typescript hL t h
    cases n with
    | zero => exact absurd rfl hn
    | succ m =>
      simp [«show», desugar, render, posts, List.replicate_succ, intercalate_cons, renderTail_replicate, h1, grOf]
  | .map k v, h => by
    simp only [WF] at h
    have h1 := show_eq_render L hL k h.1
    have h2 := show_eq_render L hL v h.2
    rcases hL with rfl | rfl | rfl | rfl | rfl <;>
      simp [«show», desugar, render, renderTail, posts, h1, h2, grOf, kwMap]
  | .opt t, h => by
    simp only [WF] at h
    have h1 := show_eq_render L hL t h.2
    rcases hL with rfl | rfl | rfl | rfl | rfl
    · exact absurd rfl h.1
    · simp [«show», desugar, render_bump, h1, grOf, Gr.post]
    · simp [«show», desugar, render, renderTail, posts, h1, grOf, kwOpt]
    · simp [«show», desugar, render, renderTail, posts, h1, grOf, kwOpt]
    · simp [«show», desugar, render_bump, h1, grOf, Gr.post]
theorem showTail_eq (L : TsV.Lang) (hL : Covered L) : ∀ ts : List TTy, WFl L ts →
    tailStr (showAll L ts) = renderTail (grOf L) (desugarList L ts)
  | [], _ => by simp [showAll, tailStr, desugarList, renderTail]
  | t :: ts, h => by
    simp only [WFl] at h
    simp [showAll, tailStr, desugarList, renderTail, show_eq_render L hL t h.1, showTail_eq L hL ts h.2]
end

/-! ## well-formedness is preserved -/

theorem nameOK_of_decide (n : Str) (h : (n ≠ [] ∧ ∀ ch ∈ n, special ch = false)) : NameOK n := h

theorem wft_bump (t : Tm) (h : WFt t) : WFt (bump t) := by
  cases t <;> simpa [bump, WFt] using h

theorem wfts_replicate (d : Tm) (h : WFt d) : ∀ m, WFts (List.replicate m d)
  | 0 => by simp [WFts]
  | m + 1 => by simp [List.replicate_succ, WFts, h, wfts_replicate d h m]

theorem kw_ok (L : TsV.Lang) (hL : Covered L) :
    (L ≠ .typescript → L ≠ .swift → NameOK (kwSeq L)) ∧ (L ≠ .swift → NameOK (kwMap L)) ∧
      (L = .scala ∨ L = .python → NameOK (kwOpt L)) := by
  rcases hL with rfl | rfl | rfl | rfl | rfl <;> simp [NameOK, kwSeq, kwMap, kwOpt, special]

mutual
theorem wft_desugar (L : TsV.Lang) (hL : Covered L) : ∀ t : TTy, WF L t → WFt (desugar L t)
  | .prim n, h => by simpa [WF, desugar, WFt] using h
  | .param n, h => by simpa [WF, desugar, WFt] using h
  | .mapped n, h => by simp [WF] at h
  | .user n [], h => by simp only [WF] at h; simpa [desugar, WFt] using h.1
  | .user n (a :: as), h => by
    simp only [WF, WFl] at h
    simp only [desugar, WFt]
    exact ⟨h.1, wft_desugar L hL a h.2.2.1, wfts_desugar L hL as h.2.2.2⟩
  | .seq t, h => by
    simp only [WF] at h
    have h1 := wft_desugar L hL t h
    have hk := kw_ok L hL
    rcases hL with rfl | rfl | rfl | rfl | rfl
    · simpa [desugar] using wft_bump _ h1
    · simp only [desugar, WFt, WFts]; exact ⟨hk.1 (by decide) (by decide), h1, trivial⟩
    · simp only [desugar, WFt, WFts]; exact ⟨hk.1 (by decide) (by decide), h1, trivial⟩
    · simp only [desugar, WFt, WFts]; exact ⟨hk.1 (by decide) (by decide), h1, trivial⟩
    · simp only [desugar, WFt, WFts]; exact ⟨h1, trivial⟩
  | .fixedSeq t n, h => by
    simp only [WF] at h
    obtain ⟨hf, hn, h⟩ := h
    obtain rfl := covered_fixed L hL hf
    have hn := hn rfl
    have h1 := wft_desugar .typescript hL t h
    cases n with
    | zero => exact absurd rfl hn
    | succ m => simp only [desugar, WFt]; exact ⟨h1, wfts_replicate _ h1 m⟩
  | .map k v, h => by
    simp only [WF] at h
    have h1 := wft_desugar L hL k h.1
    have h2 := wft_desugar L hL v h.2
    have hk := kw_ok L hL
    rcases hL with rfl | rfl | rfl | rfl | rfl
    · simp only [desugar, WFt, WFts]; exact ⟨hk.2.1 (by decide), h1, h2, trivial⟩
    · simp only [desugar, WFt, WFts]; exact ⟨hk.2.1 (by decide), h1, h2, trivial⟩
    · simp only [desugar, WFt, WFts]; exact ⟨hk.2.1 (by decide), h1, h2, trivial⟩
    · simp only [desugar, WFt, WFts]; exact ⟨hk.2.1 (by decide), h1, h2, trivial⟩
    · simp only [desugar, WFt]; exact ⟨h1, h2⟩
  | .opt t, h => by
    simp only [WF] at h
    have h1 := wft_desugar L hL t h.2
    have hk := kw_ok L hL
    rcases hL with rfl | rfl | rfl | rfl | rfl
    · exact absurd rfl h.1
    · simpa [desugar] using wft_bump _ h1
    · simp only [desugar, WFt, WFts]; exact ⟨hk.2.2 (.inl rfl), h1, trivial⟩
    · simp only [desugar, WFt, WFts]; exact ⟨hk.2.2 (.inr rfl), h1, trivial⟩
    · simpa [desugar] using wft_bump _ h1
theorem wfts_desugar (L : TsV.Lang) (hL : Covered L) : ∀ ts : List TTy, WFl L ts → WFts (desugarList L ts)
  | [], _ => by simp [desugarList, WFts]
  | t :: ts, h => by
    simp only [WFl] at h
    simp only [desugarList, WFts]
    exact ⟨wft_desugar L hL t h.1, wfts_desugar L hL ts h.2⟩
end

/-! ## a left inverse of `desugar` up to leaf kinds -/

/-- what one postfix mark means -/
def wrapPost (L : TsV.Lang) (t : TTy) : TTy :=
  match L with
  | .typescript => .seq t
  | _ => .opt t

def wrapN (L : TsV.Lang) : Nat → TTy → TTy
  | 0, t => t
  | k + 1, t => wrapPost L (wrapN L k t)

mutual
  def resugar (L : TsV.Lang) : Tm → TTy
    | .leaf n k => wrapN L k (.prim n)
    | .app n a as k => wrapN L k
        (if n = kwSeq L then .seq (resugar L a)
         else if n = kwOpt L then .opt (resugar L a)
         else if n = kwMap L then
           (match resugarList L as with
            | [b] => .map (resugar L a) b
            | bs => .user n (resugar L a :: bs))
         else .user n (resugar L a :: resugarList L as))
    | .tup a as k => wrapN L k
        (match L with
         | .swift => .seq (resugar L a)
         | _ => .fixedSeq (resugar L a) (as.length + 1))
    | .dict a b k => wrapN L k (.map (resugar L a) (resugar L b))
  def resugarList (L : TsV.Lang) : List Tm → List TTy
    | [] => []
    | t :: ts => resugar L t :: resugarList L ts
end

theorem resugar_bump (L : TsV.Lang) (t : Tm) : resugar L (bump t) = wrapPost L (resugar L t) := by
  cases t <;> simp [bump, resugar, wrapN]

mutual
theorem resugar_desugar (L : TsV.Lang) (hL : Covered L) : ∀ t : TTy, WF L t →
    resugar L (desugar L t) = erase t
  | .prim n, _ => by simp [desugar, resugar, wrapN, erase]
  | .param n, _ => by simp [desugar, resugar, wrapN, erase]
  | .mapped n, h => by simp [WF] at h
  | .user n [], _ => by simp [desugar, resugar, wrapN, erase]
  | .user n (a :: as), h => by
    simp only [WF, WFl] at h
    have hk := h.2.1 (by simp)
    simp only [keywords, List.mem_cons, List.not_mem_nil, or_false, not_or] at hk
    simp only [desugar, resugar, wrapN, erase, hk.1, hk.2.1, hk.2.2, if_false,
      resugar_desugar L hL a h.2.2.1, resugarList_desugar L hL as h.2.2.2]
  | .seq t, h => by
    simp only [WF] at h
    have h1 := resugar_desugar L hL t h
    rcases hL with rfl | rfl | rfl | rfl | rfl <;>
      simp [desugar, resugar_bump, resugar, wrapN, wrapPost, erase, h1]
  | .fixedSeq t n, h => by
    simp only [WF] at h
    obtain ⟨hf, hn, h⟩ := h
    obtain rfl := covered_fixed L hL hf
    have hn := hn rfl
    have h1 := resugar_desugar .typescript hL t h
    cases n with
    | zero => exact absurd rfl hn
    | succ m => simp [desugar, resugar, wrapN, erase, h1]
  | .map k v, h => by
    simp only [WF] at h
    have h1 := resugar_desugar L hL k h.1
    have h2 := resugar_desugar L hL v h.2
    rcases hL with rfl | rfl | rfl | rfl | rfl <;>
      simp [desugar, resugar, resugarList, wrapN, erase, h1, h2, kwSeq, kwMap, kwOpt]
  | .opt t, h => by
    simp only [WF] at h
    have h1 := resugar_desugar L hL t h.2
    rcases hL with rfl | rfl | rfl | rfl | rfl
    · exact absurd rfl h.1
    · simp [desugar, resugar_bump, wrapPost, erase, h1]
    · simp [desugar, resugar, wrapN, erase, h1, kwSeq, kwOpt]
    · simp [desugar, resugar, wrapN, erase, h1, kwSeq, kwOpt]
    · simp [desugar, resugar_bump, wrapPost, erase, h1]
theorem resugarList_desugar (L : TsV.Lang) (hL : Covered L) : ∀ ts : List TTy, WFl L ts →
    resugarList L (desugarList L ts) = eraseList ts
  | [], _ => by simp [desugarList, resugarList, eraseList]
  | t :: ts, h => by
    simp only [WFl] at h
    simp [desugarList, resugarList, eraseList, resugar_desugar L hL t h.1, resugarList_desugar L hL ts h.2]
end

/-- **losslessness**: equal texts come from trees of equal structure and equal names -/
theorem show_injective (L : TsV.Lang) (hL : Covered L) (a b : TTy) (ha : WF L a) (hb : WF L b)
    (h : «show» L a = «show» L b) : erase a = erase b := by
  rw [show_eq_render L hL a ha, show_eq_render L hL b hb] at h
  have := render_inj (grOf L) (grOf_ok L) _ _ (wft_desugar L hL a ha) (wft_desugar L hL b hb) h
  rw [← resugar_desugar L hL a ha, ← resugar_desugar L hL b hb, this]

/-! ## the translation produces well-formed trees -/

mutual
  /-- Rust types whose translation the losslessness theorem covers: no node is replaced by a type
  mapping, printed names are identifiers, a generic user type is not called like a container of the
  target language, TypeScript arrays are not empty -/
  def RWF (L : TsV.Lang) (c : TCfg) (gens : List Str) : RustType → Prop
    | t@(.simple id) => lookup L c t = none ∧ NameOK id ∧ NameOK (userName L c gens id)
    | t@(.generic id ps) => lookup L c t = none ∧ NameOK (userName L c gens id) ∧
        userName L c gens id ∉ keywords L ∧ RWFl L c gens ps
    | t@(.vec r) => lookup L c t = none ∧ RWF L c gens r
    | t@(.slice r) => lookup L c t = none ∧ RWF L c gens r
    | t@(.array r n) => lookup L c t = none ∧ (L = .typescript → n ≠ 0) ∧ RWF L c gens r
    | t@(.option r) => lookup L c t = none ∧ RWF L c gens r
    | t@(.hashMap k v) => lookup L c t = none ∧ RWF L c gens k ∧ RWF L c gens v
    | t@(.prim _) => lookup L c t = none
  def RWFl (L : TsV.Lang) (c : TCfg) (gens : List Str) : List RustType → Prop
    | [] => True
    | t :: ts => RWF L c gens t ∧ RWFl L c gens ts
end

theorem prim_nameOK (L : TsV.Lang) (p : Prim) (n : Str) (h : primTarget L p = .ok n) :
    NameOK n := by
  cases L <;> cases p <;>
    simp [primTarget, Lang.Kotlin.formatPrim, Lang.Go.primType] at h <;> subst h <;> simp [NameOK, special]

mutual
theorem translate_wf (L : TsV.Lang) (c : TCfg) (gens : List Str) :
    ∀ (t : RustType) (T : TTy), RWF L c gens t → translate L c gens t = .ok T → WF L T
  | .simple id, T, h, e => by
    simp only [RWF] at h
    simp only [translate, withMap, h.1, Outcome.ok.injEq] at e
    subst e
    split
    · simpa [WF] using h.2.1
    · simp [WF, WFl, h.2.2]
  | .generic id ps, T, h, e => by
    simp only [RWF] at h
    simp only [translate, withMap, h.1, bind_ok_iff, Outcome.ok.injEq] at e
    obtain ⟨args, hargs, rfl⟩ := e
    simp only [WF]
    exact ⟨h.2.1, fun _ => h.2.2.1, translateList_wf L c gens ps args h.2.2.2 hargs⟩
  | .vec r, T, h, e => by
    simp only [RWF] at h
    simp only [translate, withMap, h.1, bind_ok_iff, Outcome.ok.injEq] at e
    obtain ⟨x, hx, rfl⟩ := e
    simpa [WF] using translate_wf L c gens r x h.2 hx
  | .slice r, T, h, e => by
    simp only [RWF] at h
    simp only [translate, withMap, h.1, bind_ok_iff, Outcome.ok.injEq] at e
    obtain ⟨x, hx, rfl⟩ := e
    simpa [WF] using translate_wf L c gens r x h.2 hx
  | .array r n, T, h, e => by
    simp only [RWF] at h
    simp only [translate, withMap, h.1, bind_ok_iff, Outcome.ok.injEq] at e
    obtain ⟨x, hx, rfl⟩ := e
    have hw := translate_wf L c gens r x h.2.2 hx
    by_cases hf : hasFixed L = true
    · simp only [hf, if_true, WF]; exact ⟨trivial, h.2.1, hw⟩
    · simpa [hf, WF] using hw
  | .option r, T, h, e => by
    simp only [RWF] at h
    simp only [translate, withMap, h.1, bind_ok_iff, Outcome.ok.injEq] at e
    obtain ⟨x, hx, rfl⟩ := e
    have hw := translate_wf L c gens r x h.2 hx
    split
    · exact hw
    · rename_i hd
      simp only [WF]
      refine ⟨?_, hw⟩
      intro hts
      subst hts
      simp [dropsOption] at hd
  | .hashMap k v, T, h, e => by
    simp only [RWF] at h
    simp only [translate, withMap, h.1] at e
    split at e
    · simp at e
    · simp only [bind_ok_iff, Outcome.ok.injEq] at e
      obtain ⟨a, ha, b, hb, rfl⟩ := e
      simp only [WF]
      exact ⟨translate_wf L c gens k a h.2.1 ha, translate_wf L c gens v b h.2.2 hb⟩
  | .prim p, T, h, e => by
    simp only [RWF] at h
    simp only [translate, withMap, h, bind_ok_iff, Outcome.ok.injEq] at e
    obtain ⟨n, hn, rfl⟩ := e
    simpa [WF] using prim_nameOK L p n hn
theorem translateList_wf (L : TsV.Lang) (c : TCfg) (gens : List Str) :
    ∀ (ts : List RustType) (Ts : List TTy), RWFl L c gens ts → translateList L c gens ts = .ok Ts → WFl L Ts
  | [], Ts, _, e => by simp [translateList] at e; subst e; simp [WFl]
  | t :: ts, Ts, h, e => by
    simp only [RWFl] at h
    simp only [translateList, bind_ok_iff, Outcome.ok.injEq] at e
    obtain ⟨x, hx, xs, hxs, rfl⟩ := e
    simp only [WFl]
    exact ⟨translate_wf L c gens t x h.1 hx, translateList_wf L c gens ts xs h.2 hxs⟩
end

/-! ## Go -/

open TsV.C05L.InjGo in
mutual
  def desugarGo : TTy → GTm
    | .prim n => .leaf n
    | .param n => .leaf n
    | .mapped n => .leaf n
    | .user n [] => .leaf n
    | .user n (a :: as) => .app n (desugarGo a) (desugarGoList as)
    | .seq t => .pre .slice (desugarGo t)
    | .fixedSeq t n => .pre (.arr n) (desugarGo t)
    | .map k v => .mp (desugarGo k) (desugarGo v)
    | .opt t => .pre .ptr (desugarGo t)
  def desugarGoList : List TTy → List GTm
    | [] => []
    | t :: ts => desugarGo t :: desugarGoList ts
end

open TsV.C05L.InjGo in
mutual
  def resugarGo : GTm → TTy
    | .leaf n => .prim n
    | .app n a as => .user n (resugarGo a :: resugarGoList as)
    | .mp k v => .map (resugarGo k) (resugarGo v)
    | .pre .slice t => .seq (resugarGo t)
    | .pre .ptr t => .opt (resugarGo t)
    | .pre (.arr n) t => .fixedSeq (resugarGo t) n
  def resugarGoList : List GTm → List TTy
    | [] => []
    | t :: ts => resugarGo t :: resugarGoList ts
end

mutual
theorem show_eq_renderGo : ∀ t : TTy, WF .go t → «show» .go t = InjGo.render (desugarGo t)
  | .prim n, _ => by simp [«show», desugarGo, InjGo.render]
  | .param n, _ => by simp [«show», desugarGo, InjGo.render]
  | .mapped n, h => by simp [WF] at h
  | .user n [], _ => by simp [«show», desugarGo, InjGo.render]
  | .user n (a :: as), h => by
    simp only [WF, WFl] at h
    have h1 := show_eq_renderGo a h.2.2.1
    have h2 := showTail_eqGo as h.2.2.2
    simp [«show», showAll, intercalate_cons, desugarGo, InjGo.render, h1, h2, brOpen, brClose]
  | .seq t, h => by
    simp only [WF] at h
    simp [«show», desugarGo, InjGo.render, InjGo.renderMark, show_eq_renderGo t h]
  | .fixedSeq t n, h => by
    simp only [WF] at h
    simp [«show», desugarGo, InjGo.render, InjGo.renderMark, show_eq_renderGo t h.2.2]
  | .map k v, h => by
    simp only [WF] at h
    simp [«show», desugarGo, InjGo.render, show_eq_renderGo k h.1, show_eq_renderGo v h.2]
  | .opt t, h => by
    simp only [WF] at h
    simp [«show», desugarGo, InjGo.render, InjGo.renderMark, show_eq_renderGo t h.2]
theorem showTail_eqGo : ∀ ts : List TTy, WFl .go ts →
    tailStr (showAll .go ts) = InjGo.renderTail (desugarGoList ts)
  | [], _ => by simp [showAll, tailStr, desugarGoList, InjGo.renderTail]
  | t :: ts, h => by
    simp only [WFl] at h
    simp [showAll, tailStr, desugarGoList, InjGo.renderTail, show_eq_renderGo t h.1, showTail_eqGo ts h.2]
end

mutual
theorem wfg_desugarGo : ∀ t : TTy, WF .go t → InjGo.WFg (desugarGo t)
  | .prim n, h => by simpa [WF, desugarGo, InjGo.WFg] using h
  | .param n, h => by simpa [WF, desugarGo, InjGo.WFg] using h
  | .mapped n, h => by simp [WF] at h
  | .user n [], h => by simp only [WF] at h; simpa [desugarGo, InjGo.WFg] using h.1
  | .user n (a :: as), h => by
    simp only [WF, WFl] at h
    have hk := h.2.1 (by simp)
    simp only [keywords, kwMap, List.mem_cons, List.not_mem_nil, or_false, not_or] at hk
    simp only [desugarGo, InjGo.WFg]
    exact ⟨h.1, hk.2.1, wfg_desugarGo a h.2.2.1, wfgs_desugarGo as h.2.2.2⟩
  | .seq t, h => by simp only [WF] at h; simpa [desugarGo, InjGo.WFg] using wfg_desugarGo t h
  | .fixedSeq t n, h => by simp only [WF] at h; simpa [desugarGo, InjGo.WFg] using wfg_desugarGo t h.2.2
  | .map k v, h => by
    simp only [WF] at h
    simp only [desugarGo, InjGo.WFg]
    exact ⟨wfg_desugarGo k h.1, wfg_desugarGo v h.2⟩
  | .opt t, h => by simp only [WF] at h; simpa [desugarGo, InjGo.WFg] using wfg_desugarGo t h.2
theorem wfgs_desugarGo : ∀ ts : List TTy, WFl .go ts → InjGo.WFgs (desugarGoList ts)
  | [], _ => by simp [desugarGoList, InjGo.WFgs]
  | t :: ts, h => by
    simp only [WFl] at h
    simp only [desugarGoList, InjGo.WFgs]
    exact ⟨wfg_desugarGo t h.1, wfgs_desugarGo ts h.2⟩
end

mutual
theorem resugar_desugarGo : ∀ t : TTy, WF .go t → resugarGo (desugarGo t) = erase t
  | .prim n, _ => by simp [desugarGo, resugarGo, erase]
  | .param n, _ => by simp [desugarGo, resugarGo, erase]
  | .mapped n, h => by simp [WF] at h
  | .user n [], _ => by simp [desugarGo, resugarGo, erase]
  | .user n (a :: as), h => by
    simp only [WF, WFl] at h
    simp [desugarGo, resugarGo, erase, resugar_desugarGo a h.2.2.1, resugarList_desugarGo as h.2.2.2]
  | .seq t, h => by simp only [WF] at h; simp [desugarGo, resugarGo, erase, resugar_desugarGo t h]
  | .fixedSeq t n, h => by simp only [WF] at h; simp [desugarGo, resugarGo, erase, resugar_desugarGo t h.2.2]
  | .map k v, h => by
    simp only [WF] at h
    simp [desugarGo, resugarGo, erase, resugar_desugarGo k h.1, resugar_desugarGo v h.2]
  | .opt t, h => by simp only [WF] at h; simp [desugarGo, resugarGo, erase, resugar_desugarGo t h.2]
theorem resugarList_desugarGo : ∀ ts : List TTy, WFl .go ts → resugarGoList (desugarGoList ts) = eraseList ts
  | [], _ => by simp [desugarGoList, resugarGoList, eraseList]
  | t :: ts, h => by
    simp only [WFl] at h
    simp [desugarGoList, resugarGoList, eraseList, resugar_desugarGo t h.1, resugarList_desugarGo ts h.2]
end

theorem show_injective_go (a b : TTy) (ha : WF .go a) (hb : WF .go b)
    (h : «show» .go a = «show» .go b) : erase a = erase b := by
  rw [show_eq_renderGo a ha, show_eq_renderGo b hb] at h
  have := InjGo.renderG_inj _ _ (wfg_desugarGo a ha) (wfg_desugarGo b hb) h
  rw [← resugar_desugarGo a ha, ← resugar_desugarGo b hb, this]

/-- **losslessness, all six back ends** -/
theorem show_injective_all (L : TsV.Lang) (a b : TTy) (ha : WF L a) (hb : WF L b)
    (h : «show» L a = «show» L b) : erase a = erase b := by
  cases L with
  | go => exact show_injective_go a b ha hb h
  | typescript => exact show_injective _ (.inl rfl) a b ha hb h
  | kotlin => exact show_injective _ (.inr (.inl rfl)) a b ha hb h
  | scala => exact show_injective _ (.inr (.inr (.inl rfl))) a b ha hb h
  | python => exact show_injective _ (.inr (.inr (.inr (.inl rfl)))) a b ha hb h
  | swift => exact show_injective _ (.inr (.inr (.inr (.inr rfl)))) a b ha hb h

end TsV.C05L
