"""C16 — rename_all case conversion agrees with serde_derive's algorithm (rename.rs, parser.rs)."""
import contextlib, itertools, re, unicodedata
from common import *

RULES = ["lowercase", "UPPERCASE", "PascalCase", "camelCase", "snake_case", "SCREAMING_SNAKE_CASE",
         "kebab-case", "SCREAMING-KEBAB-CASE"]
UNKNOWN = ["Camel_Snake", "lower-case", ""]
REPS = ["a", "B", "1", "_", "é", "É"]
# UpperCamelCase names without an ASCII lower-case letter (the repaired class ascii-allcaps-test-on-unicode-names) ...
ALLCAPS_REPAIRED_IDENTS = ["ΑλφαΒήτα", "ΟδόςA", "ÖßÉé", "ЖукМир", "BéB", "ÉéB"]
# ... and names that really are all capitals (no lower-case letter of any script: the open class allcaps-special-case)
ALLCAPS_OPEN_IDENTS = ["ΟΔΟΣ", "ÉB"]
DICTIONARY = ["foo_bar", "FooBar", "Hello", "Number1", "AddressLine1", "URL", "TOTP", "id", "ID", "user_id", "userID",
              "HTTPServer", "x", "X", "a1", "A1", "a_1", "_private", "__", "_", "type", "r#type", "fooBAR", "Foo_Bar",
              "foo__bar", "trailing_", "IOError", "i32", "Vec2D", "snake_case_name", "SCREAMING_SNAKE", "kebab",
              "éclair", "Éclair", "straße", "ǅ", "naïve_field", "MyÉnum", "A", "Z42", "VeryTasty", "outcome",
              "very_tasty", "a", "z42", "B2B", "eTag", "iOS", "macOS", "x86_64", "OK", "Ok", "NaN"] + \
             [chr(i) for i in range(1, 128)] + ["x" + chr(i) + "Y" for i in range(33, 127)] + \
             [w for w in ALLCAPS_REPAIRED_IDENTS + ALLCAPS_OPEN_IDENTS if not set(w) <= set("aB1_éÉ")]

FIELD_CONV = re.compile(r"^[a-z0-9_]+$")


def upper_camel(s, facts=None):
    """the variant identifiers the property quantifies over: UpperCamelCase - a capital, then letters and digits, not all
    capitals (a lower-case letter somewhere, or nothing but digits after the capital).  ASCII by the regular expressions; with
    `facts` (rows of `unicode_table`: char::is_uppercase / is_lowercase of Rust std, by character) also over other scripts:
    `Éé`, `BéB`, `ΑλφαΒήτα` are UpperCamelCase, `ÉB`, `ΟΔΟΣ` are all capitals (class `allcaps-special-case`).  "All capitals"
    is typeshare's own test since the fix 8f4a2d5: no character with char::is_lowercase."""
    if re.fullmatch(r"[A-Z][A-Za-z0-9]*", s):
        return bool(re.search(r"[a-z]", s)) or bool(re.fullmatch(r"[A-Z][0-9]*", s))
    if facts is None or not s or not all(ch.isalnum() for ch in s) or any(ord(ch) > 127 and ch not in facts for ch in s):
        return False
    upper = lambda ch: "A" <= ch <= "Z" if ord(ch) < 128 else bool(facts[ch][1])
    if not upper(s[0]):
        return False
    return not rust_all_uppercase(s, facts) or not any(upper(ch) for ch in s[1:])


def norm(a, who):
    if "panic" in a:
        return {"panic": "byte-slice"}
    return a


def strings(check):
    maxlen = 7 if check.thorough else 5
    out = []
    for n in range(1, maxlen + 1):
        for t in itertools.product(REPS, repeat=n):
            out.append("".join(t))
    return out, maxlen


def run(check):
    strs_, maxlen = strings(check)
    allstrs = strs_ + DICTIONARY
    check.rule = ("every string of length 1..%d over the class representatives {a,B,1,_,é,É} (%d strings) plus a %d-word "
                  "dictionary, x 8 rules (+%d unknown rules) x {field, variant}; compared: typeshare rename_all_to_case "
                  "(hook) vs model, vendored serde_derive case.rs vs Serde model; non-trivial = the string contains a "
                  "word boundary (underscore, case change or non-ASCII letter)" % (maxlen, len(strs_), len(DICTIONARY), len(UNKNOWN)))
    mreq, rreq, meta = [], [], []
    for s_ in allstrs:
        for rule in RULES + UNKNOWN:
            mreq.append([S("rename"), rule, s_])
            rreq.append({"op": "rename", "rule": rule, "s": s_})
            meta.append(("ts", rule, s_))
            if rule in RULES:
                for pos in ("field", "variant"):
                    mreq.append([S("serde"), S(pos), rule, s_])
                    rreq.append({"op": "serde", "pos": pos, "rule": rule, "s": s_})
                    meta.append((pos, rule, s_))
    # the public RenameExt functions directly
    for s_ in DICTIONARY + strs_[:3000]:
        for f in ("camel", "pascal", "snake", "screaming_snake", "kebab", "screaming_kebab"):
            mreq.append([S("renameext"), S(f), s_])
            rreq.append({"op": "renameext", "f": f, "s": s_})
            meta.append(("ext", f, s_))
    mans, rans = model(mreq), runner(rreq)
    facts = {r[0]: r for r in unicode_table({ch for s_ in allstrs + ALLCAPS_REPAIRED_IDENTS + ALLCAPS_OPEN_IDENTS for ch in s_ if ord(ch) > 127})}
    impl_ts, impl_serde, model_ts, model_serde = {}, {}, {}, {}
    mismatches = []
    for (kind, rule, s_), ma, ra, rq in zip(meta, mans, rans, rreq):
        who = "typeshare" if kind in ("ts", "ext") else "serde"
        ma, ra = norm(ma, who), norm(ra, who)
        boundary = bool(re.search(r"_|[a-z1][A-Z]|[A-Z][a-z]|[^\x00-\x7f]", s_))
        check.saw((kind, rule, s_), nontrivial=boundary)
        check.count(kind)
        if kind == "ts":
            impl_ts[(rule, s_)], model_ts[(rule, s_)] = ra, ma
        elif kind in ("field", "variant"):
            impl_serde[(kind, rule, s_)], model_serde[(kind, rule, s_)] = ra, ma
        if ma != ra:
            mismatches.append((kind, rule, s_, ma, ra, rq))
    for s_ in ("foo_bar", "FooBar", "URL", "éB_1"):
        check.sample({"string": s_, "rule": "camelCase", "typeshare": impl_ts[("camelCase", s_)],
                      "serde_field": impl_serde[("field", "camelCase", s_)],
                      "serde_variant": impl_serde[("variant", "camelCase", s_)]})

    # --- the property on the implementation (oracle), used when the correspondence breaks
    def newly_failing():
        out = []
        for (rule, s_), got in impl_ts.items():
            if rule not in RULES:
                if got != {"ok": s_}:
                    out.append(("unknown-rule", rule, s_, got, {"ok": s_}))
                continue
            for pos, scope in (("field", FIELD_CONV.match(s_)), ("variant", upper_camel(s_, facts))):
                want = impl_serde[(pos, rule, s_)]
                if "panic" in want:
                    continue        # serde_derive itself fails (compile error in the user's crate): nothing to agree with
                if got != want and (scope or model_ts[(rule, s_)] == model_serde[(pos, rule, s_)]):
                    out.append((pos, rule, s_, got, want))
        out.sort(key=lambda t: (len(t[2]), t[2]))
        return out

    if mismatches:
        fails = newly_failing()
        ts_broken = any(k in ("ts", "ext") for k, *_ in mismatches)
        if fails and ts_broken:
            pos, rule, s_, got, want = fails[0]
            check.violation("rename_all %s on %s %r gives %s, serde_derive gives %s" % (rule, pos, s_, got, want),
                            case={"position": pos, "rule": rule, "ident": s_}, impl=got, model=want, failing_input=True)
        else:
            kind, rule, s_, ma, ra, rq = mismatches[0]
            check.violation("%s differs from its model on %r / %s" % ("typeshare" if kind in ("ts", "ext") else "vendored serde case.rs", s_, rule),
                            case=rq, impl=ra, model=ma, failing_input=False,
                            broken="correspondence %s (theorems TsV.C16.*)" % kind)

    # --- known findings: stored witnesses, replayed on the implementation
    # (the class allcaps-special-case = names without a lower-case letter of any script: `URL`, and `ΟΔΟΣ` as well)
    witnesses = {
        "allcaps-special-case": [("variant", "camelCase", "URL")] + [("variant", "snake_case", w) for w in ALLCAPS_OPEN_IDENTS],
        "snake-splits-fields": [("field", "snake_case", "fooBar")],
        "pascal-on-variant-with-underscore": [("variant", "PascalCase", "Foo_Bar")],
    }
    for kid, ws in witnesses.items():
        for pos, rule, s_ in ws:
            got = impl_ts.get((rule, s_)) or norm(runner([{"op": "rename", "rule": rule, "s": s_}])[0], "typeshare")
            want = impl_serde.get((pos, rule, s_)) or norm(runner([{"op": "serde", "pos": pos, "rule": rule, "s": s_}])[0], "serde")
            if kid == "allcaps-special-case" and not rust_all_uppercase(s_, facts):
                raise InfraError("the stored witness %r of allcaps-special-case has a lower-case letter: it is not in the class" % s_)
            if got != want:
                check.known(kid, {"position": pos, "rule": rule, "ident": s_, "typeshare": got, "serde": want})
    # --- repaired classes: their stored witnesses must give serde's name now; a difference means the defect has returned
    repaired = {
        "unicode-case-mapping": ("7d1c05f", [("variant", "lowercase", "É"), ("variant", "lowercase", "Éclair"),
                                             ("variant", "UPPERCASE", "MyÉnum"), ("field", "UPPERCASE", "éclair"),
                                             ("field", "UPPERCASE", "straße"), ("variant", "UPPERCASE", "ǅ")]),
        # "all uppercase" was `to_ascii_uppercase() == name`: every name without an *ASCII* lower-case letter
        "ascii-allcaps-test-on-unicode-names": ("8f4a2d5", [("variant", r, w) for w in ALLCAPS_REPAIRED_IDENTS
                                                            for r in ("snake_case", "PascalCase", "SCREAMING_SNAKE_CASE", "kebab-case",
                                                                      "SCREAMING-KEBAB-CASE")]),
    }
    for kid, (commit, ws) in repaired.items():
        for pos, rule, s_ in ws:
            got = impl_ts.get((rule, s_)) or norm(runner([{"op": "rename", "rule": rule, "s": s_}])[0], "typeshare")
            want = impl_serde.get((pos, rule, s_)) or norm(runner([{"op": "serde", "pos": pos, "rule": rule, "s": s_}])[0], "serde")
            check.saw(("repaired", kid, pos, rule, s_))
            check.count("repaired-witness")
            if got != want and not any(v["failing_input_found"] for v in check.violations):
                check.violation("the repaired class %s (fix %s) has returned: rename_all %s on %s %r gives %s, serde_derive gives %s"
                                % (kid, commit, rule, pos, s_, got, want),
                                case={"position": pos, "rule": rule, "ident": s_}, impl=got, model=want, failing_input=True)
    if not check.has_failing():
        ident_part(check, impl_serde)
        if not check.has_failing():
            backend_part(check)
        if not check.has_failing():
            backend_unicode_part(check)
    n_div = sum(1 for (rule, s_), got in impl_ts.items() if rule in RULES
                for pos in ("field", "variant") if "panic" not in impl_serde[(pos, rule, s_)] and got != impl_serde[(pos, rule, s_)])
    check.extra["divergences_from_serde_outside_conventional_names"] = n_div
    check.exhaustive = True
    check.extra["exhaustive_scope"] = "strings of length <= %d over 6 class representatives" % maxlen
    check.assumptions += ["Unicode case mapping (char::is_uppercase for the snake/kebab family; str::to_lowercase/uppercase are no longer used by rename_all_to_case since 7d1c05f) is a parameter of the model; its table for the alphabet is computed by Rust std on every run",
                          "serde's algorithm is the vendored serde_derive 1.0.214 internals/case.rs, compiled unchanged into the runner"]


def backend_part(check):
    """the names the rules give must also be the names each back end *writes*: one struct and one struct variant per rule, multi-word
    fields first and a single-word field last, through all six generators; judged with C01's extractors (the key each declaration
    binds) against the python reading of serde's rule"""
    import c01, l2
    from syn_gen import m_path, m_nv, m_list, lit_s, t_path, field
    from gen import Gen
    ts = [m_path("typeshare")]
    reqs, meta = [], []
    g = Gen(check.rng)
    for rule in RULES:
        ra = [m_list("serde", [m_nv("rename_all", lit_s(rule))])]
        # the languages with a date type bind the key of a date field a second time (TypeScript's reviver; Python's translation
        # functions): those fields come last but one
        fs = lambda dates=False: ("named", [field([], w, t_path("u8")) for w in ("first_name", "created_by_user", "x2_value")]
                                  + ([field([], w, t_path("OffsetDateTime")) for w in ("last_seen_at", "deleted_at")] if dates else [])
                                  + [field([], "age", t_path("u8"))])
        mk = lambda dates: {"attrs": [], "items": [
            {"kind": "struct", "attrs": ts + ra, "ident": "Person", "generics": [], "fields": fs(dates)},
            {"kind": "enum", "attrs": ts + [m_list("serde", [m_nv("tag", lit_s("t")), m_nv("content", lit_s("c"))])], "ident": "Ev", "generics": [],
             "variants": [{"attrs": list(ra), "ident": "Made", "fields": fs(dates)}, {"attrs": [], "ident": "Gone", "fields": ("unit",)}]}]}
        f = {"attrs": [], "items": [
            {"kind": "struct", "attrs": ts + ra, "ident": "Person", "generics": [], "fields": fs()},
            {"kind": "enum", "attrs": ts + [m_list("serde", [m_nv("tag", lit_s("t")), m_nv("content", lit_s("c"))])], "ident": "Ev", "generics": [],
             "variants": [{"attrs": list(ra), "ident": "Made", "fields": fs()}, {"attrs": [], "ident": "Gone", "fields": ("unit",)}]}]}
        for lang in LANGS:
            cfg = {"package": "proto" if lang == "go" else "com.example", "type_mappings": {}, "version_header": False, "prefix": "", "module_name": ""}
            for ff in [f] + ([mk(True)] if lang in ("typescript", "go", "python") else []):
                m, r, texts = l2.requests(lang, cfg, [{"crate": "", "file_name": "out", "path": "src/lib.rs", "file": ff}], g)
                reqs.append(r)
                meta.append((rule, lang, cfg, ff, texts[0]))
    for (rule, lang, cfg, f, src), a in zip(meta, runner(reqs)):
        check.saw(("backend", rule, lang), nontrivial=True)
        check.count("backend-level")
        probs, n = c01.oracle(lang, cfg, f, l2.norm(a))
        if probs:
            check.violation("rename_all %s: the %s back end does not write the names the rule gives: %s" % (rule, lang, probs[0]),
                            case={"source": src, "rule": rule, "lang": lang}, impl=a, failing_input=True)
            return


def ident_part(check, impl_serde):
    """through parser::parse: the name a field / variant gets under each rule - incl. identifiers written as raw identifiers
    (`r#type`, `r#Match`), whose `r#` serde strips *before* applying the rule - against the model and against the vendored
    serde case.rs applied to the identifier without `r#`"""
    from syn_gen import m_path, m_nv, m_list, lit_s, t_path, field
    from gen import Gen
    import l1
    fields = ["user_id", "r#type", "r#match", "r#fn", "created_at", "r#async", "x", "r#loop_count"]
    variants = ["FooBar", "r#Match", "r#Type", "Ok", "r#LoopCount", "A"]
    ts = [m_path("typeshare")]
    reqs, meta = [], []
    # where the container carries the rule: alone; in a second / third serde attribute; after other arguments of the same
    # attribute; with foreign attributes in between (serde_derive reads all serde attributes of the container)
    def layouts(rule):
        ra = m_nv("rename_all", lit_s(rule))
        other = m_list("serde", [m_path("deny_unknown_fields")])
        bound = m_list("serde", [m_nv("bound", lit_s(""))])
        derive = m_list("derive", [m_path("Debug"), m_path("Clone")])
        return [[m_list("serde", [ra])],
                [other, m_list("serde", [ra])],
                [other, derive, bound, m_list("serde", [ra])],
                [m_list("serde", [m_path("deny_unknown_fields"), m_nv("bound", lit_s("")), ra])],
                [m_list("serde", [ra]), other]]
    for rule, ra in [(None, [])] + [(r, l) for r in RULES for l in layouts(r)]:
        f = {"attrs": [], "items": [
            {"kind": "struct", "attrs": ts + ra, "ident": "S", "generics": [],
             "fields": ("named", [field([], w, t_path("u8")) for w in fields])},
            {"kind": "enum", "attrs": ts + ra, "ident": "E", "generics": [],
             "variants": [{"attrs": [], "ident": w, "fields": ("unit",)} for w in variants]},
            # struct-variant fields follow the *variant's* rule; an enum-wide `rename_all_fields` (which typeshare does not read) of
            # another rule must not displace it
            {"kind": "enum", "attrs": ts + [m_list("serde", [m_nv("tag", lit_s("t")), m_nv("content", lit_s("c")),
                                                              m_nv("rename_all_fields", lit_s("SCREAMING-KEBAB-CASE" if rule != "SCREAMING-KEBAB-CASE" else "camelCase"))])],
             "ident": "F", "generics": [],
             "variants": [{"attrs": list(ra), "ident": "Sv", "fields": ("named", [field([], w, t_path("u8")) for w in fields])}]}]}
        m, r, text = l1.requests(f, Gen(check.rng))
        reqs.append((m, r))
        meta.append((rule, text))
    names = set(w.replace("r#", "") for w in fields + variants)
    sreq = [{"op": "serde", "pos": pos, "rule": rule, "s": w.replace("r#", "")}
            for rule in RULES for pos, ws in (("field", fields), ("variant", variants)) for w in ws]
    sans = iter(runner(sreq))
    want = {}
    for rule in RULES:
        for pos, ws in (("field", fields), ("variant", variants)):
            for w in ws:
                want[(rule, pos, w)] = next(sans)
    mans, rans, diffs = l1.compare(reqs)
    for (rule, text), ma, ra in zip(meta, mans, rans):
        check.saw(("ident", rule), nontrivial=rule is not None)
        check.count("ident-level")
        d = ra.get("ok") or {}
        got = {}
        for st in d.get("structs", []):
            for w, fl in zip(fields, st["fields"]):
                got[("field", w)] = fl["id"]["r"]
        for en in d.get("enums", []):
            if en["id"]["o"] == "F":
                if rule:
                    for w, fl in zip(fields, en["variants"][0].get("fields", [])):
                        got[("field", w + " (struct-variant field, enum has rename_all_fields)")] = fl["id"]["r"]
                continue
            for w, v in zip(variants, en["variants"]):
                got[("variant", w)] = v["id"]["r"]
        for (pos, w), g in sorted(got.items()):
            w0 = w.split(" (")[0]
            exp = want[(rule, pos, w0)].get("ok") if rule else w0.replace("r#", "")
            if exp is not None and g != exp:
                check.violation("rename_all %s on %s `%s`: typeshare names it %r, serde_derive %r" % (rule, pos, w, g, exp),
                                case={"source": text, "rule": rule, "position": pos, "ident": w}, impl=g, model=exp, failing_input=True)
                return
    if diffs:
        i = diffs[0]
        check.violation("parser::parse differs from the model on identifiers under rename_all %s: %s" % (meta[i][0], l1.first_diff(mans[i], rans[i])),
                        case={"source": meta[i][1]}, impl=rans[i], model=mans[i], failing_input=False,
                        broken="correspondence L1 getIdent (theorems TsV.C16.C16_field / C16_variant via C01/C02 parse halves)")


# ----------------------------------------------------------------------------- non-ASCII identifiers through the six back ends

def _hex(s, i, n):
    """the n hex digits at s[i:i+n] as a number, or None"""
    h = s[i:i + n]
    return int(h, 16) if len(h) == n and re.fullmatch(r"[0-9A-Fa-f]+", h) else None


def literal_value(lang, body):
    """the string a double-quoted literal with the given body (the text between the quotes, as generated) denotes in `lang` -
    each language by its own escape rules - or None where the body is not a well-formed literal of that language (the compiler
    rejects the file; for a Go struct tag reflect's tag lookup fails and encoding/json falls back to the Go field name).
    TypeScript: ES2015 string literals (\\n \\xHH \\uHHHH \\u{H..} and the identity escape); Kotlin: \\t \\b \\n \\r \\' \\" \\\\ \\$ \\uHHHH, `$name` /
    `${` start a template; Swift: \\0 \\\\ \\t \\n \\r \\" \\' \\u{1-8 hex}, `\\(` starts an interpolation; Scala: \\b \\t \\n \\f \\r \\" \\' \\\\ \\uHHHH;
    Go: strconv.Unquote of an interpreted literal (\\a \\b \\f \\n \\r \\t \\v \\\\ \\" \\ooo \\xHH \\uHHHH \\UHHHHHHHH); Python: the str escapes,
    an unknown escape keeps its backslash"""
    simple = {"typescript": {"n": "\n", "r": "\r", "t": "\t", "b": "\b", "f": "\f", "v": "\v"},
              "kotlin": {"t": "\t", "b": "\b", "n": "\n", "r": "\r", "'": "'", '"': '"', "\\": "\\", "$": "$"},
              "swift": {"0": "\0", "\\": "\\", "t": "\t", "n": "\n", "r": "\r", '"': '"', "'": "'"},
              "scala": {"b": "\b", "t": "\t", "n": "\n", "f": "\f", "r": "\r", '"': '"', "'": "'", "\\": "\\"},
              "go": {"a": "\a", "b": "\b", "f": "\f", "n": "\n", "r": "\r", "t": "\t", "v": "\v", "\\": "\\", '"': '"'},
              "python": {"\n": "", "\\": "\\", "'": "'", '"': '"', "a": "\a", "b": "\b", "f": "\f", "n": "\n", "r": "\r", "t": "\t",
                         "v": "\v"}}[lang]
    units, i = [], 0           # code points; TypeScript: UTF-16 code units, Go: bytes of escapes are kept as latin-1 marks below

    def put(cp):
        if lang == "typescript" and cp > 0xFFFF:
            cp -= 0x10000
            units.extend([0xD800 + (cp >> 10), 0xDC00 + (cp & 0x3FF)])
        else:
            units.append(cp)

    while i < len(body):
        ch = body[i]
        if ch == '"' or ch == "\n" and lang != "python":
            return None
        if ch == "$" and lang == "kotlin" and i + 1 < len(body) and (body[i + 1] == "{" or ("a" + body[i + 1]).isidentifier()):
            return None
        if ch != "\\":
            put(ord(ch))
            i += 1
            continue
        if i + 1 >= len(body):
            return None
        c = body[i + 1]
        if c in simple:
            for x in simple[c]:
                put(ord(x))
            i += 2
        elif c == "u" and lang in ("typescript", "swift") and body[i + 2:i + 3] == "{":
            j = body.find("}", i + 3)
            digits = body[i + 3:j] if j > 0 else ""
            if not re.fullmatch(r"[0-9A-Fa-f]+", digits) or (lang == "swift" and len(digits) > 8) or int(digits, 16) > 0x10FFFF \
                    or (lang == "swift" and 0xD800 <= int(digits, 16) < 0xE000):
                return None
            put(int(digits, 16))
            i = j + 1
        elif c == "u" and lang != "swift":
            cp = _hex(body, i + 2, 4)
            if cp is None or (lang == "go" and 0xD800 <= cp < 0xE000):
                return None
            put(cp)
            i += 6
        elif c == "U" and lang in ("go", "python"):
            cp = _hex(body, i + 2, 8)
            if cp is None or cp > 0x10FFFF or (lang == "go" and 0xD800 <= cp < 0xE000):
                return None
            put(cp)
            i += 10
        elif c == "x" and lang in ("typescript", "go", "python"):
            cp = _hex(body, i + 2, 2)
            if cp is None:
                return None
            put(cp)           # (a Go \xHH is a byte; the keys looked at here never need one above 7f)
            i += 4
        elif c in "01234567" and lang in ("go", "python"):
            m = re.match(r"[0-7]{3}" if lang == "go" else r"[0-7]{1,3}", body[i + 1:])
            if not m or int(m.group(0), 8) > 255 and lang == "go":
                return None
            put(int(m.group(0), 8))
            i += 1 + len(m.group(0))
        elif c == "0" and lang == "typescript" and not body[i + 2:i + 3].isdigit():
            put(0)
            i += 2
        elif c == "N" and lang == "python":
            m = re.match(r"\{([^}]+)\}", body[i + 2:])
            try:
                put(ord(unicodedata.lookup(m.group(1))))
            except (AttributeError, KeyError):
                return None
            i += 2 + len(m.group(0))
        elif lang == "python":
            put(ord("\\"))
            i += 1
        elif lang == "typescript" and not c.isdigit():
            put(ord(c))       # identity escape
            i += 2
        else:
            return None
    if lang == "typescript":
        return b"".join(u.to_bytes(2, "little") for u in units).decode("utf-16-le", "surrogatepass")
    return "".join(map(chr, units))


NOT_A_LITERAL = re.compile(r"^<not a well-formed (\w+) string literal: (.*)>$", re.S)


def read_literal(lang, body):
    v = literal_value(lang, body)
    if v is None:
        # (ext_go cuts the tag's options off after decoding: cut them here, where the whole text is kept)
        return "<not a well-formed %s string literal: %s>" % (lang, body.split(",")[0] if lang == "go" else body)
    return v


@contextlib.contextmanager
def exact_literals(lang):
    """C01's and C02's extractors read every string literal of the generated text with one lenient decoder for all six languages
    (`\\x` -> `x`; json.loads), and C01's TypeScript extractor takes ASCII property names only: enough for the keys those checks
    generate.  For the duration of the block they read a literal by the rules of the language it is written in (`literal_value`)
    and accept any ECMAScript identifier as an unquoted property name."""
    import c01, c02
    saved = (c01.debug_unescape, c01.ts_key, c02.unq)

    def ts_key(name):
        if name.startswith('"'):
            return read_literal("typescript", name[1:-1])
        ok = all(ch in "$\u200c\u200d" or ("a" + ch).isidentifier() for ch in name)
        return name if ok else "<not a property name: %s>" % name
    c01.debug_unescape = lambda body: read_literal(lang, body)
    c01.ts_key = ts_key
    c02.unq = lambda quoted: read_literal(lang, quoted[1:-1])
    try:
        yield
    finally:
        c01.debug_unescape, c01.ts_key, c02.unq = saved


# words by class; all in NFC (rustc normalises identifiers to NFC, so only NFC identifiers are the same identifier for serde_derive
# and for typeshare).  The case facts the scope below needs are read from Rust std through the runner, not from this table.
W_ASCII = ["total", "nr", "x", "id", "v2", "max", "line1", "2fa"]
W_LOWER = ["café", "straße", "größe", "señal", "naïve", "ǆem", "ıssız", "ſtern", "αβγ", "имя", "𐐨𐐩", "õ", "ªb", "éé", "münze2"]
W_CASELESS = ["名前", "שם", "中", "𠮷", "ক", "ǅem"]                  # no case at all; ǅ is a title-case letter
W_UPPER = ["É", "Ärger", "𝒳", "Ñu", "xΣ"]                          # unconventional in a field name
W_MARK = ["q\u0308", "x\u0301y", "\u0995\u09cd\u0995", "g\u0308b", "v2\u0303"]     # combining marks without a precomposed form
V_ASCII = ["Total", "Nr", "X", "Id", "V2", "Max"]
V_ASCII_INITIAL = ["Café", "Straße", "Größe", "Señal", "Naïve", "Xé", "Münze2"]
V_UPPER = ["École", "Ägypten", "Ñandú", "Ǆungla", "Σίγμα", "Ярлык", "İstanbul", "ẞharp", "𐐀𐐨", "𝒳ray", "Ör", "Éé"]
V_CASELESS = ["名前", "שם", "中", "𠮷", "ǅem"]
for _w in W_ASCII + W_LOWER + W_CASELESS + W_UPPER + W_MARK + V_ASCII + V_ASCII_INITIAL + V_UPPER + V_CASELESS:
    assert unicodedata.normalize("NFC", _w) == _w, _w
MARK_FINDING = "combining-mark-debug-escaped"


def backend_unicode_part(check):
    """dimension: the *letters* of the identifiers the rules are applied to, carried through the generated text.  Field identifiers of
    1-3 words joined by `_` and variant identifiers of 1-3 capitalised words, the words drawn from classes: ASCII, non-ASCII
    lower-case (é ß ǆ ı ſ α я ª, outside the BMP 𐐨), upper-case (É Ǆ Σ Я İ ẞ 𐐀 𝒳), title-case ǅ, caseless (名 ש 中 𠮷 ক) and - for fields,
    in declarations of their own - combining marks without a precomposed form (q̈ x́ ক্ ẓ̇: std's Debug formatting writes those as
    `\\u{..}`); under all eight rules; on a struct, on a struct variant (its own rule), on the variants of a unit enum and of a
    tagged enum (unit / tuple / struct variants); through all six generators, with a date field for the languages that bind the key of
    one a second time.  Demanded: the key each generated declaration binds - C01's / C02's extractors, every string literal read by the
    rules of the language it is written in - is serde_derive's name for that identifier (vendored case.rs through the runner).  In
    scope: fields without an upper-case letter, UpperCamelCase variants that are not all capitals (no lower-case letter of any
    script: typeshare's own test since the fix 8f4a2d5; before it "no ASCII lower-case letter"); an identifier outside
    (an upper-case letter in a field) is judged under the rules where typeshare's function agrees with serde's; where serde_derive
    itself fails (camelCase on a non-ASCII initial) there is no name to agree with.  The letter files also go through the model
    (byte-exact)."""
    import c01, c02, l2
    from syn_gen import m_path, m_nv, m_list, lit_s, t_path, field
    from gen import Gen
    rng = check.rng
    g = Gen(rng)
    per_rule, mark_files = (120, 6) if check.thorough else (4, 1)
    facts = {r[0]: r for r in unicode_table({ch for w in W_LOWER + W_CASELESS + W_UPPER + W_MARK + V_ASCII_INITIAL + V_UPPER + V_CASELESS
                                             for ch in w if ord(ch) > 127})}
    upper = lambda ch: ch.isupper() if ord(ch) < 128 else bool(facts[ch][1])

    def field_scope(s):
        return not any(upper(ch) for ch in s)

    def variant_scope(s):
        # not all capitals = a lower-case letter of any script (char::is_lowercase from the runner's table), or no capital after
        # the first letter
        lower0 = s[0].islower() if ord(s[0]) < 128 else bool(facts[s[0]][2])
        return "_" not in s and not lower0 and (not rust_all_uppercase(s, facts) or not any(upper(ch) for ch in s[1:]))

    def field_ident(rule, special, used):
        """1-3 words, at least one from `special`; under camelCase the first letter is ASCII (serde_derive slices one byte off)"""
        for _ in range(200):
            n = rng.choice([1, 2, 2, 3])
            words = [rng.choice(special)] + [rng.choice(rng.choice([W_ASCII, W_LOWER, W_CASELESS])) for _ in range(n - 1)]
            rng.shuffle(words)
            if rule == "camelCase" and ord(words[0][0]) > 127:
                words.insert(0, rng.choice(W_ASCII[:-1]))
            if words[0][0].isdigit():
                words.reverse()
            if words[0][0].isdigit():
                continue
            s = ("__" if rng.random() < 0.06 else "_").join(words) + ("_" if rng.random() < 0.04 else "")
            if s not in used and s.replace("_", "").upper() not in {u.replace("_", "").upper() for u in used}:
                used.add(s)
                return s
        raise InfraError("no fresh field identifier")

    def variant_ident(rule, used):
        for _ in range(200):
            n = rng.choice([1, 2, 2, 3])
            words = [rng.choice(rng.choice([V_UPPER, V_ASCII_INITIAL, V_CASELESS]))] + \
                    [rng.choice(rng.choice([V_ASCII, V_UPPER, V_ASCII_INITIAL, V_CASELESS])) for _ in range(n - 1)]
            rng.shuffle(words)
            if rule == "camelCase" and ord(words[0][0]) > 127:
                words.insert(0, rng.choice(V_ASCII + V_ASCII_INITIAL))
            s = "".join(words)
            if variant_scope(s) and s.upper() not in {u.upper() for u in used}:
                used.add(s)
                return s
        raise InfraError("no fresh variant identifier")

    ts = [m_path("typeshare")]
    cases = []
    for rule in RULES:
        ra = [m_list("serde", [m_nv("rename_all", lit_s(rule))])]
        for k in range(per_rule + mark_files):
            marks = k >= per_rule                 # the last file(s) of every rule: fields with combining marks
            used = set()
            special = W_MARK if marks else W_LOWER + W_CASELESS
            sfields = [field_ident(rule, special, used) for _ in range(2 if marks else rng.choice([3, 4]))] + \
                      ([] if marks else [field_ident(rule, W_UPPER, used)]) + [rng.choice(["age", "n"])]
            vfields = [field_ident(rule, special, used) for _ in range(rng.choice([1, 2]))] + \
                      ([] if marks or rng.random() < 0.5 else [field_ident(rule, W_UPPER, used)])
            date = field_ident(rule, special, used)
            used = set()
            unit_vs = [variant_ident(rule, used) for _ in range(rng.choice([2, 3]))]
            used = set()
            tagged_vs = [variant_ident(rule, used) for _ in range(3)]
            fl = lambda ws: [field([], w, t_path("u8")) for w in ws]

            def mk(dated):
                pf = fl(sfields[:-1]) + ([field([], date, t_path("OffsetDateTime"))] if dated else []) + fl(sfields[-1:])
                return {"attrs": [], "items": [
                    {"kind": "struct", "attrs": ts + ra, "ident": "Person", "generics": [], "fields": ("named", pf)},
                    {"kind": "enum", "attrs": ts + ra, "ident": "Col", "generics": [],
                     "variants": [{"attrs": [], "ident": v, "fields": ("unit",)} for v in unit_vs]},
                    {"kind": "enum", "attrs": ts + ra + [m_list("serde", [m_nv("tag", lit_s("t")), m_nv("content", lit_s("c"))])], "ident": "Ev",
                     "generics": [],
                     "variants": [{"attrs": list(ra), "ident": tagged_vs[0], "fields": ("named", fl(vfields))},
                                  {"attrs": [], "ident": tagged_vs[1], "fields": ("unit",)},
                                  {"attrs": [], "ident": tagged_vs[2], "fields": ("unnamed", [field([], None, t_path("u8"))])}]}]}
            for lang in LANGS:
                dated = lang in ("typescript", "go", "python")
                cfg = {"package": "proto" if lang == "go" else "com.example", "type_mappings": {}, "version_header": False,
                       "prefix": rng.choice(["", "", "OP"]) if lang in ("kotlin", "swift") else "", "module_name": ""}
                f = mk(dated)
                m, r, texts = l2.requests(lang, cfg, [{"crate": "", "file_name": "out", "path": "src/lib.rs", "file": f}], g)
                cases.append(dict(rule=rule, lang=lang, cfg=cfg, file=f, m=m, r=r, src=texts[0], marks=marks, k=k,
                                  fields=[("struct", ("Person",), sfields[:-1] + ([date] if dated else []) + sfields[-1:]),
                                          ("variant", ("Ev", tagged_vs[0], 0), vfields)],
                                  enums=[("Col", True, unit_vs, "u" * len(unit_vs)), ("Ev", False, tagged_vs, "sut")]))
    # serde_derive's names and typeshare's function, for every (position, rule, identifier) used
    wanted = sorted({(pos, c["rule"], w) for c in cases
                     for pos, ws in [("field", [w for _, _, ws in c["fields"] for w in ws]), ("variant", [v for _, _, vs, _ in c["enums"] for v in vs])]
                     for w in ws})
    ans = runner([x for pos, rule, w in wanted for x in ({"op": "serde", "pos": pos, "rule": rule, "s": w}, {"op": "rename", "rule": rule, "s": w})])
    serde, judged = {}, {}
    for i, (pos, rule, w) in enumerate(wanted):
        want, got = ans[2 * i], ans[2 * i + 1]
        scope = field_scope(w) if pos == "field" else variant_scope(w)
        serde[(pos, rule, w)] = want.get("ok")
        judged[(pos, rule, w)] = "ok" in want and (scope or got == want)
        check.count("unicode-ident:%s-%s" % (pos, "serde_derive-fails" if "ok" not in want else "in-scope" if scope else
                                             "unconventional-agreeing" if got == want else "unconventional-differing"))
        if scope and "ok" in want and got != want:
            check.violation("rename_all %s on %s %r gives %s, serde_derive gives %s" % (rule, pos, w, got, want),
                            case={"position": pos, "rule": rule, "ident": w}, impl=got, model=want, failing_input=True)
            return
    mcases = [c for c in cases if not c["marks"]]
    names = set()
    for c in mcases:
        if c["lang"] == "python":
            names |= l2.names_of(c["file"])
    mans = dict(zip(map(id, mcases), (l2.norm(a) for a in model([c["m"] for c in mcases], names=names))))
    rans = [l2.norm(a) for a in runner([c["r"] for c in cases])]
    first_diff, mark_witness, keys = None, None, 0
    for c, ra in zip(cases, rans):
        rule, lang, cfg = c["rule"], c["lang"], c["cfg"]
        check.saw(("backend-unicode", rule, lang, c["k"], c["src"]), nontrivial=True)
        check.count("backend-unicode-%s" % ("marks" if c["marks"] else "letters"))
        problems = []               # (text, key read from the output or None, serde's name or None)
        if not isinstance(ra.get("ok"), dict):
            problems.append(("the %s generator does not generate at all: %s" % (lang, str(ra)[:300]), None, None))
        else:
            text = "\n".join(ra["ok"][k] for k in sorted(ra["ok"]))
            with exact_literals(lang):
                try:
                    got = c01.EXTRACT[lang](text)
                    rev, _ = c01.ts_reviver_problems(text) if lang == "typescript" else ([], 0)
                except Exception as ex:
                    got, rev = {}, ["the extractor fails on the text: %r" % ex]
                exps = []
                for name, unit, vs, kinds in c["enums"]:
                    exps.append(dict(name=name, unit=unit, tag=None if unit else "t", content=None if unit else "c",
                                     variants=[dict(ident=v, kind=kd, wire=serde[("variant", rule, v)], opt=False) for v, kd in zip(vs, kinds)]))
                    keys += len(vs)
                bad = c02.oracle(lang, cfg, text, exps)
            problems += [(p, None, None) for p in rev]
            for kind, names_, idents in c["fields"]:
                d = c01.decl_name(lang, cfg, kind, names_)
                if d not in got or len(got[d]) != len(idents):
                    problems.append(("%s: %s" % (d, "no such declaration" if d not in got else "binds %d fields %r, the source has %d: %r"
                                                 % (len(got[d]), got[d], len(idents), idents)), None, None))
                    continue
                for i, (w, key) in enumerate(zip(idents, got[d])):
                    want = serde[("field", rule, w)]
                    if not judged[("field", rule, w)] or (lang == "scala" and "-" in want):
                        continue                # Scala carries no key binding: a key with a dash is outside (as in C01)
                    if lang in ("swift", "python"):
                        key = read_literal(lang, key)       # those two extractors hand the body of the literal on as written
                    keys += 1
                    if key != want:
                        lit = NOT_A_LITERAL.match(key)
                        problems.append(("%s %s field %d (`%s`) %s; serde_derive's name is %r"
                                         % (lang, d, i, w, "is bound to JSON key %r" % key if not lit else "carries the key literal \"%s\", which is "
                                            "not a well-formed %s string literal (no key is bound by it)" % (lit.group(2), lang), want), key, want))
            for name in sorted(bad):
                problems += [("enum %s: %s" % (name, msg), None, None) for _, msg in bad[name]]
        if c["marks"] and problems and mark_class(lang, problems):
            check.count("inside-class:" + MARK_FINDING)
            mark_witness = mark_witness or {"lang": lang, "rule": rule, "source": c["src"], "problems": [p[0] for p in problems[:3]]}
            continue
        if problems:
            check.violation("rename_all %s with non-ASCII letters in the identifiers: the %s back end does not write the names serde_derive "
                            "computes: %s" % (rule, lang, problems[0][0]),
                            case={"lang": lang, "rule": rule, "config": cfg, "source": c["src"], "problems": [p[0] for p in problems[:6]],
                                  "serde_derive_names": {"%s %s" % (pos, w): serde[(pos, rule, w)] for pos, ws in
                                                         [("field", [w for _, _, ws in c["fields"] for w in ws]),
                                                          ("variant", [v for _, _, vs, _ in c["enums"] for v in vs])] for w in ws},
                                  "request": c["r"]},
                            impl=ra, model=mans.get(id(c)), failing_input=True)
            return
        if not c["marks"] and mans[id(c)] != ra and first_diff is None:
            first_diff = (c, mans[id(c)], ra)
    check.count("backend-unicode keys judged", keys)
    check.rule += ("; back ends on non-ASCII identifiers: %d files per rule of fields / variants built from word classes {ASCII, non-ASCII lower, "
                   "upper, title-case, caseless, outside the BMP, combining marks} x 8 rules x 6 languages, key bound by each declaration "
                   "(string literals read by the rules of the target language) vs serde_derive's name" % (per_rule + mark_files))
    check.assumptions.append("which string a generated literal denotes in its language is tools/c16.py `literal_value` (escape rules of ES2015, "
                             "Kotlin, Swift, Scala, Go strconv.Unquote / struct tags, Python str), written from the language references; the "
                             "target compilers are not run")
    if mark_witness and not check.known(MARK_FINDING, mark_witness):
        # not (yet) an `open:` line of KNOWN_FINDINGS.txt: kept visible in the evidence
        check.notes.append("candidate finding %s (Kotlin / Scala / Go write a combining mark of a name as Rust's `\\u{..}`, which is no "
                           "escape of those languages): %s" % (MARK_FINDING, json.dumps(mark_witness, ensure_ascii=False)[:1500]))
    if first_diff:
        c, ma, ra = first_diff
        d = None
        if "ok" in ma and "ok" in ra:
            for k in ra["ok"]:
                d = d or l2.text_diff(ma["ok"].get(k, ""), ra["ok"][k])
        check.violation("the %s generator differs from the model on identifiers with non-ASCII letters under rename_all %s (the oracle finds the "
                        "implementation's names correct): %s" % (c["lang"], c["rule"], d or (str(ma)[:200] + " vs " + str(ra)[:200])),
                        case={"lang": c["lang"], "rule": c["rule"], "config": c["cfg"], "source": c["src"], "request": c["r"]}, impl=ra, model=ma,
                        failing_input=False, broken="correspondence L2 parse+generate_types on non-ASCII identifiers (theorems TsV.C16.C16_field / "
                                                    "C16_variant carried to the text by C01_backend_* / C02_backend)")


def mark_class(lang, problems):
    """are all the problems of this case the one class: a back end whose language has no `\\u{..}` escape (Kotlin, Scala, Go) wrote a
    combining mark of the name the way Rust's Debug formatting does - and the literal would be serde's name if `\\u{..}` were read
    the Rust way?"""
    if lang not in ("kotlin", "scala", "go"):
        return False
    for _, key, want in problems:
        lit = NOT_A_LITERAL.match(key or "")
        if not lit:
            return False
        escaped = re.findall(r"\\u\{([0-9a-f]+)\}", lit.group(2))
        rust = re.sub(r"\\u\{([0-9a-f]+)\}", lambda x: chr(int(x.group(1), 16)), lit.group(2))
        if not escaped or rust != want or not all(unicodedata.category(chr(int(h, 16))).startswith("M") for h in escaped):
            return False
    return True
