import TsV.Lemmas.C10_Files_PyLex
import TsV.Lemmas.C10_Files_Common
import TsV.Lemmas.C03_Emission_Python
import TsV.Model.Lang.Python
/-!
# C10, Python — every declaration and every file the model writes is closed for `C10LexPy`

`formatType_ok` … `writeItem_ok`: the rendered text is a neutral piece and the printer state keeps
the invariant `StOk` (the recorded modules / identifiers are dotted names, the recorded type variables
are identifiers) — the state is printed in the header of the file.
-/
namespace TsV.C10Files.Py
open TsV TsV.Lang TsV.C10Lex TsV.Lang.Python TsV.C03E TsV.C10Files

/-- every type mapping maps to a balanced string -/
def CfgOk (cfg : Cfg) : Prop := ∀ p ∈ cfg.typeMappings, C10LexPy.wellBracketedPy p.2 = true

instance (cfg : Cfg) : Decidable (CfgOk cfg) := by unfold CfgOk; infer_instance

theorem CfgOk.mapped {cfg : Cfg} (H : CfgOk cfg) {k v : Str} (h : mapGet cfg.typeMappings k = some v) : NBp v := by
  obtain ⟨p, hp, rfl⟩ := mapGet_mem h
  exact nbp_of_wb (H p hp)

/-- the one assumption on `convert_case`'s snake-casing: names over `[A-Za-z0-9_-]` stay such names -/
def SnakeOk (E : Ext) : Prop := ∀ s, KeyStr s → KeyStr (E.snakeCase s)

/-! ## the printer state -/

structure StOk (st : Python.St) : Prop where
  imports : ∀ p ∈ st.imports, Dotted p.1 ∧ ∀ i ∈ p.2, Dotted i
  typeVars : ∀ n ∈ st.typeVars, IdentStr n

theorem stOk_empty : StOk {} := ⟨fun _ h => by simp at h, fun _ h => by simp at h⟩

def Pres (st st' : Python.St) : Prop := StOk st → StOk st'
theorem Pres.refl (st : Python.St) : Pres st st := id
theorem Pres.trans {a b c : Python.St} (h1 : Pres a b) (h2 : Pres b c) : Pres a c := fun h => h2 (h1 h)

theorem impInsert_ok {m i : Str} (hm : Dotted m) (hi : Dotted i) : ∀ {l : List (Str × List Str)},
    (∀ p ∈ l, Dotted p.1 ∧ ∀ x ∈ p.2, Dotted x) → ∀ p ∈ impInsert l m i, Dotted p.1 ∧ ∀ x ∈ p.2, Dotted x
  | [], _ => by
    intro p hp
    simp only [impInsert, List.mem_singleton] at hp
    subst hp
    exact ⟨hm, by intro x hx; simp only [List.mem_singleton] at hx; subst hx; exact hi⟩
  | (k, v) :: rest, h => by
    have hkv := h (k, v) (by simp)
    have hr : ∀ p ∈ rest, Dotted p.1 ∧ ∀ x ∈ p.2, Dotted x := fun p hp => h p (by simp [hp])
    simp only [impInsert]
    split
    · intro p hp
      simp only [List.mem_cons] at hp
      rcases hp with rfl | hp
      · refine ⟨hkv.1, ?_⟩
        intro x hx
        rcases TsV.C12L.mem_insertSorted_iff.1 hx with rfl | hx
        · exact hi
        · exact hkv.2 x hx
      · exact hr p hp
    · split
      · intro p hp
        simp only [List.mem_cons] at hp
        rcases hp with rfl | rfl | hp
        · exact ⟨hm, by intro x hx; simp only [List.mem_singleton] at hx; subst hx; exact hi⟩
        · exact hkv
        · exact hr p hp
      · intro p hp
        simp only [List.mem_cons] at hp
        rcases hp with rfl | hp
        · exact hkv
        · exact impInsert_ok hm hi hr p hp

theorem addImport_pres (st : Python.St) (m i : Str) (hm : Dotted m) (hi : Dotted i) : Pres st (addImport st m i) :=
  fun h => ⟨impInsert_ok hm hi h.imports, h.typeVars⟩

theorem addTypeVar_pres (st : Python.St) (n : Str) (hn : IdentStr n) : Pres st (addTypeVar st n) := by
  intro h
  have h1 := addImport_pres st kTyping s%"TypeVar" (by decide) (by decide) h
  refine ⟨h1.imports, ?_⟩
  intro x hx
  simp only [addTypeVar, setInsert] at hx
  rcases TsV.C12L.mem_insertSorted_iff.1 hx with rfl | hx
  · exact hn
  · exact h1.typeVars x hx

theorem foldl_addTypeVar_pres : ∀ (gs : List Str) (st : Python.St), (∀ g ∈ gs, IdentStr g) →
    Pres st (gs.foldl addTypeVar st)
  | [], st, _ => Pres.refl st
  | g :: gs, st, h => by
    simp only [List.foldl_cons]
    exact (addTypeVar_pres st g (h g (by simp))).trans (foldl_addTypeVar_pres gs _ fun x hx => h x (by simp [hx]))

theorem addImports_pres (st : Python.St) (tp : Str) : Pres st (addImports st tp) := by
  unfold addImports
  split
  · exact addImport_pres _ _ _ (by decide) (by decide)
  · split
    · exact addImport_pres _ _ _ (by decide) (by decide)
    · exact Pres.refl st

theorem addCustom_pres (st : Python.St) (t : Str) : Pres st (addCustom st t) := fun h => ⟨h.imports, h.typeVars⟩

/-- the `datetime` import added before the header is written (`fix:` commit bfc37c3) -/
theorem addDatetimeImport_pres (st : Python.St) : Pres st (addDatetimeImport st) := by
  unfold addDatetimeImport
  split
  · exact addImport_pres _ _ _ (by decide) (by decide)
  · exact Pres.refl st

/-! ## types -/

theorem special_ok {cfg : Cfg} (H : CfgOk cfg) (t : RustType) (st : Python.St) (k : Python.St → Outcome (Str × Python.St))
    (s : Str) (st' : Python.St) (hk : ∀ s st', k st = .ok (s, st') → NBp s ∧ Pres st st')
    (h : special cfg t st k = .ok (s, st')) : NBp s ∧ Pres st st' := by
  unfold special at h
  split at h
  · rename_i m hm
    simp only [Outcome.ok.injEq, Prod.mk.injEq] at h
    obtain ⟨rfl, rfl⟩ := h
    refine ⟨H.mapped hm, ?_⟩
    split
    · exact addCustom_pres st _
    · exact Pres.refl st
  · exact hk s st' h

theorem wrap_nbp (pre : Str) (hpre : ∀ stk, Run pre ⟨.code, stk⟩ ⟨.code, '[' :: stk⟩) {x : Str} (hx : NBp x) :
    NBp (pre ++ x ++ s%"]") := by
  intro stk
  have r3 : Run s%"]" ⟨.code, '[' :: stk⟩ ⟨.code, stk⟩ := rfl
  exact ((hpre stk).append (hx _)).append r3

mutual
  theorem formatType_ok {cfg : Cfg} (H : CfgOk cfg) (gens : List Str) :
      ∀ (t : RustType) (st : Python.St) (s : Str) (st' : Python.St), TypeOk t →
        formatType cfg gens t st = .ok (s, st') → NBp s ∧ Pres st st'
    | .simple id, st, s, st', ht, h => by
      simp only [formatType, formatSimple, Outcome.ok.injEq, Prod.mk.injEq] at h
      obtain ⟨rfl, rfl⟩ := h
      refine ⟨?_, addImports_pres st id⟩
      cases hm : mapGet cfg.typeMappings id with
      | some m => simpa [hm] using H.mapped hm
      | none => simpa [hm] using (KeyStr.nbp (ht id (by simp [typeNames])))
    | .generic id ps, st, s, st', ht, h => by
      simp only [formatType] at h
      split at h
      · rename_i m hm
        simp only [Outcome.ok.injEq, Prod.mk.injEq] at h
        obtain ⟨rfl, rfl⟩ := h
        exact ⟨H.mapped hm, addImports_pres st id⟩
      · rename_i hnone
        split at h
        · rename_i strs st1 hs
          simp only [formatSimple, Outcome.ok.injEq, Prod.mk.injEq] at h
          obtain ⟨rfl, rfl⟩ := h
          have hps : TypesOk ps := fun n hn => ht n (by simp [typeNames, hn])
          obtain ⟨hall, hpres⟩ := formatTypes_ok H gens ps _ strs st1 hps hs
          refine ⟨NBp.append ?_ (NBp.bracketSuffix strs hall),
            ((addImports_pres st id).trans hpres).trans (addImports_pres st1 id)⟩
          simpa [hnone] using (KeyStr.nbp (ht id (by simp [typeNames])))
        · cases h
        · cases h
    | .vec r, st, s, st', ht, h => by
      simp only [formatType] at h
      refine special_ok H _ st _ s st' ?_ h
      intro s2 st2 hk
      obtain ⟨a, b, ha, hf⟩ := obind_pair_ok hk
      simp only [Outcome.ok.injEq, Prod.mk.injEq] at hf
      obtain ⟨rfl, rfl⟩ := hf
      obtain ⟨hn, hp⟩ := formatType_ok H gens r _ a b (by simpa [TypeOk, typeNames] using ht) ha
      exact ⟨wrap_nbp s%"List[" (fun _ => rfl) hn, (addImport_pres st _ _ (by decide) (by decide)).trans hp⟩
    | .slice r, st, s, st', ht, h => by
      simp only [formatType] at h
      refine special_ok H _ st _ s st' ?_ h
      intro s2 st2 hk
      obtain ⟨a, b, ha, hf⟩ := obind_pair_ok hk
      simp only [Outcome.ok.injEq, Prod.mk.injEq] at hf
      obtain ⟨rfl, rfl⟩ := hf
      obtain ⟨hn, hp⟩ := formatType_ok H gens r _ a b (by simpa [TypeOk, typeNames] using ht) ha
      exact ⟨wrap_nbp s%"List[" (fun _ => rfl) hn, (addImport_pres st _ _ (by decide) (by decide)).trans hp⟩
    | .array r n, st, s, st', ht, h => by
      simp only [formatType] at h
      refine special_ok H _ st _ s st' ?_ h
      intro s2 st2 hk
      obtain ⟨a, b, ha, hf⟩ := obind_pair_ok hk
      simp only [Outcome.ok.injEq, Prod.mk.injEq] at hf
      obtain ⟨rfl, rfl⟩ := hf
      obtain ⟨hn, hp⟩ := formatType_ok H gens r _ a b (by simpa [TypeOk, typeNames] using ht) ha
      exact ⟨wrap_nbp s%"List[" (fun _ => rfl) hn, (addImport_pres st _ _ (by decide) (by decide)).trans hp⟩
    | .option r, st, s, st', ht, h => by
      simp only [formatType] at h
      refine special_ok H _ st _ s st' ?_ h
      intro s2 st2 hk
      obtain ⟨a, b, ha, hf⟩ := obind_pair_ok hk
      simp only [Outcome.ok.injEq, Prod.mk.injEq] at hf
      obtain ⟨rfl, rfl⟩ := hf
      obtain ⟨hn, hp⟩ := formatType_ok H gens r _ a b (by simpa [TypeOk, typeNames] using ht) ha
      exact ⟨wrap_nbp s%"Optional[" (fun _ => rfl) hn, (addImport_pres st _ _ (by decide) (by decide)).trans hp⟩
    | .hashMap k v, st, s, st', ht, h => by
      simp only [formatType] at h
      refine special_ok H _ st _ s st' ?_ h
      intro s3 st3 hk
      have core : ((formatType cfg gens k (addImport st kTyping s%"Dict")).bind fun (ks, st) =>
            (formatType cfg gens v st).bind fun (vs, st) =>
              Outcome.ok (s%"Dict[" ++ ks ++ s%", " ++ vs ++ s%"]", st)) = .ok (s3, st3) → NBp s3 ∧ Pres st st3 := by
        intro hc
        obtain ⟨ks, st4, hks, hc⟩ := obind_pair_ok hc
        obtain ⟨vs, st5, hvs, hc⟩ := obind_pair_ok hc
        simp only [Outcome.ok.injEq, Prod.mk.injEq] at hc
        obtain ⟨rfl, rfl⟩ := hc
        obtain ⟨hkn, hkp⟩ := formatType_ok H gens k _ ks st4 (fun n hn => ht n (by simp [typeNames, hn])) hks
        obtain ⟨hvn, hvp⟩ := formatType_ok H gens v st4 vs _ (fun n hn => ht n (by simp [typeNames, hn])) hvs
        refine ⟨?_, ((addImport_pres st _ _ (by decide) (by decide)).trans hkp).trans hvp⟩
        intro stk
        have r1 : Run s%"Dict[" ⟨.code, stk⟩ ⟨.code, '[' :: stk⟩ := rfl
        have r3 : Run s%", " ⟨.code, '[' :: stk⟩ ⟨.code, '[' :: stk⟩ := rfl
        have r5 : Run s%"]" ⟨.code, '[' :: stk⟩ ⟨.code, stk⟩ := rfl
        exact (((r1.append (hkn _)).append r3).append (hvn _)).append r5
      split at hk
      · split at hk
        · cases hk
        · exact core hk
      · exact core hk
    | .prim p, st, s, st', _, h => by
      simp only [formatType] at h
      refine special_ok H _ st _ s st' ?_ h
      intro s2 st2 hk
      cases p <;> simp only [Outcome.ok.injEq, Prod.mk.injEq] at hk <;> obtain ⟨rfl, rfl⟩ := hk <;>
        first
        | exact ⟨fun _ => rfl, Pres.refl st⟩
        | exact ⟨fun _ => rfl, addImport_pres st _ _ (by decide) (by decide)⟩
  theorem formatTypes_ok {cfg : Cfg} (H : CfgOk cfg) (gens : List Str) :
      ∀ (ts : List RustType) (st : Python.St) (ss : List Str) (st' : Python.St), TypesOk ts →
        formatTypes cfg gens ts st = .ok (ss, st') → (∀ s ∈ ss, NBp s) ∧ Pres st st'
    | [], st, ss, st', _, h => by
      simp only [formatTypes, Outcome.ok.injEq, Prod.mk.injEq] at h
      obtain ⟨rfl, rfl⟩ := h
      exact ⟨by simp, Pres.refl st⟩
    | t :: ts, st, ss, st', ht, h => by
      simp only [formatTypes] at h
      obtain ⟨a, st1, ha, h⟩ := obind_pair_ok h
      obtain ⟨as, st2, has, h⟩ := obind_pair_ok h
      simp only [Outcome.ok.injEq, Prod.mk.injEq] at h
      obtain ⟨rfl, rfl⟩ := h
      obtain ⟨h1, p1⟩ := formatType_ok H gens t st a st1 (fun n hn => ht n (by simp [typeNamesList, hn])) ha
      obtain ⟨h2, p2⟩ := formatTypes_ok H gens ts st1 as _ (fun n hn => ht n (by simp [typeNamesList, hn])) has
      refine ⟨?_, p1.trans p2⟩
      intro s hs
      simp only [List.mem_cons] at hs
      rcases hs with rfl | hs
      · exact h1
      · exact h2 s hs
end


/-! ## scopes -/

def DocsOk (cs : List Str) : Prop := ∀ c ∈ cs, '\n' ∉ c
instance (cs : List Str) : Decidable (DocsOk cs) := by unfold DocsOk; infer_instance

/-- the lexer argument of the scope structures only constrains type overrides, which the Python back
end does not read -/
def P0 : LexCfg := ⟨false, false⟩

abbrev FieldOk := FieldScope Lang.python P0 DocsOk
abbrev StructOk := StructScope Lang.python P0 DocsOk
abbrev AliasOk := AliasScope DocsOk
abbrev VariantOk := VariantScope Lang.python P0 DocsOk
abbrev EnumOk := EnumScope Lang.python P0 DocsOk
abbrev ItemOk := ItemScope Lang.python P0 DocsOk

/-! ## fields -/

def StrChars (s : Str) : Prop := ∀ c ∈ s, strChar c = true

theorem KeyStr.strChars {s : Str} (h : KeyStr s) : StrChars s := fun c hc => keyChar_strChar c (h c hc)

structure PyFieldOk (f : PyField) : Prop where
  name : NBp f.name
  alias : ∀ a, f.alias = some a → StrChars a
  ty : NBp f.ty
  default : ∀ d, f.default = some d → NBp d

/-- the `= Field(…)` suffix of a field line -/
def fieldSuffix (alias default : Option Str) : Str :=
  let decorators :=
    (match alias with | some a => [s%"alias=\"" ++ a ++ s%"\""] | none => []) ++
    (match default with | some d => [s%"default=" ++ d] | none => [])
  if decorators.isEmpty then [] else s%" = Field(" ++ Str.intercalate s%", " decorators ++ s%")"

theorem fieldSuffix_nbp (alias default : Option Str) (ha : ∀ a, alias = some a → StrChars a)
    (hd : ∀ d, default = some d → NBp d) : NBp (fieldSuffix alias default) := by
  cases alias with
  | none =>
    cases default with
    | none => exact NBp.nil
    | some d =>
      have e : fieldSuffix none (some d) = s%" = Field" ++ (s%"(" ++ (s%"default=" ++ d) ++ s%")") := by
        simp [fieldSuffix, Str.intercalate]
      rw [e]
      exact NBp.append (by nbp_lit) (NBp.paren (NBp.append (by nbp_lit) (hd d rfl)))
  | some a =>
    cases default with
    | none =>
      have e : fieldSuffix (some a) none = s%" = Field(alias=" ++ (s%"\"" ++ a ++ s%"\"" ++ (')' :: [])) := by
        simp [fieldSuffix, Str.intercalate]
      rw [e]
      intro stk
      have r1 : Run s%" = Field(alias=" ⟨.code, stk⟩ ⟨.code, '(' :: stk⟩ := rfl
      exact r1.append (run_quoted_then a (ha a rfl) ')' [] (by decide) _ _ rfl)
    | some d =>
      have e : fieldSuffix (some a) (some d) =
          s%" = Field(alias=" ++ (s%"\"" ++ a ++ s%"\"" ++ (',' :: (s%" default=" ++ d ++ s%")"))) := by
        simp [fieldSuffix, Str.intercalate]
      rw [e]
      intro stk
      have r1 : Run s%" = Field(alias=" ⟨.code, stk⟩ ⟨.code, '(' :: stk⟩ := rfl
      have r2 : Run (',' :: (s%" default=" ++ d ++ s%")")) ⟨.code, '(' :: stk⟩ ⟨.code, stk⟩ := by
        have q1 : Run s%", default=" ⟨.code, '(' :: stk⟩ ⟨.code, '(' :: stk⟩ := rfl
        have q3 : Run s%")" ⟨.code, '(' :: stk⟩ ⟨.code, stk⟩ := rfl
        have := (q1.append (hd d rfl _)).append q3
        simpa using this
      exact r1.append (run_quoted_then a (ha a rfl) ',' _ (by decide) _ _ r2)

theorem renderField_eq (f : PyField) : renderField f =
    s%"    " ++ f.name ++ s%": " ++ f.ty ++ fieldSuffix f.alias f.default ++ nl ++ docstring 1 f.comments := rfl

theorem renderField_nbp (f : PyField) (h : PyFieldOk f) : NBp (renderField f) := by
  rw [renderField_eq]
  nbp_pieces
  · nbp_lit
  · exact h.name
  · nbp_lit
  · exact h.ty
  · exact fieldSuffix_nbp _ _ h.alias h.default
  · exact NBp.nl
  · exact docstring_nbp 1 _

theorem propertyAwareRename_key (E : Ext) (hS : SnakeOk E) {name : Str} (h : KeyStr name) :
    KeyStr (propertyAwareRename E name) := by
  unfold propertyAwareRename
  simp only
  split
  · exact KeyStr.append h (by decide)
  · exact hS name h

theorem jsonTranslation_names {t : Str} {c : CustomFns} (h : jsonTranslation t = some c) :
    IdentStr c.deserializationName ∧ IdentStr c.serializationName := by
  unfold jsonTranslation at h
  split at h
  · cases h; exact ⟨by decide, by decide⟩
  · split at h
    · cases h; exact ⟨by decide, by decide⟩
    · cases h

theorem Pres.ite {st x y : Python.St} {c : Prop} [Decidable c] (h1 : Pres st x) (h2 : Pres st y) :
    Pres st (if c then x else y) := by split <;> assumption

theorem addImport3_pres (st : Python.St) (m1 i1 m2 i2 m3 i3 : Str) (h1 : Dotted m1) (h1' : Dotted i1) (h2 : Dotted m2)
    (h2' : Dotted i2) (h3 : Dotted m3) (h3' : Dotted i3) :
    Pres st (addImport (addImport (addImport st m1 i1) m2 i2) m3 i3) :=
  ((addImport_pres _ _ _ h1 h1').trans (addImport_pres _ _ _ h2 h2')).trans (addImport_pres _ _ _ h3 h3')

theorem addCommonImports_pres (st : Python.St) (a b c : Bool) : Pres st (addCommonImports st a b c) := by
  unfold addCommonImports
  simp only
  have hY : Pres st (if a = true then addImport st kTyping s%"Optional" else st) :=
    Pres.ite (addImport_pres _ _ _ (by decide) (by decide)) (Pres.refl st)
  have hX := Pres.ite (c := b = true)
    (hY.trans (addImport3_pres _ kPydantic s%"BeforeValidator" kPydantic s%"PlainSerializer" kTyping s%"Annotated"
      (by decide) (by decide) (by decide) (by decide) (by decide) (by decide))) hY
  exact Pres.ite (hX.trans (addImport_pres _ _ _ (by decide) (by decide))) hX

theorem fieldFacts_ok (E : Ext) (hS : SnakeOk E) {cfg : Cfg} (H : CfgOk cfg) (gens : List Str) (f : RustField)
    (hf : FieldOk f) (st : Python.St) (pf : PyField) (st' : Python.St)
    (h : fieldFacts E cfg gens f st = .ok (pf, st')) : PyFieldOk pf ∧ Pres st st' := by
  unfold fieldFacts at h
  simp only at h
  obtain ⟨pythonType, st1, hty, h⟩ := obind_pair_ok h
  obtain ⟨htn, htp⟩ := formatType_ok H gens f.ty st pythonType st1 hf.ty hty
  have hname := propertyAwareRename_key E hS (IdentStr.key hf.original)
  have hopt : NBp (if (!f.ty.isOptional && f.hasDefault) = true then s%"Optional[" ++ pythonType ++ s%"]" else pythonType) := by
    split
    · exact wrap_nbp s%"Optional[" (fun _ => rfl) htn
    · exact htn
  cases hc : jsonTranslation pythonType with
  | none =>
    simp only [hc, Outcome.ok.injEq, Prod.mk.injEq] at h
    obtain ⟨rfl, rfl⟩ := h
    refine ⟨⟨KeyStr.nbp hname, ?_, hopt, ?_⟩, htp.trans (addCommonImports_pres _ _ _ _)⟩
    · intro a ha
      simp only at ha
      split at ha
      · cases ha; exact KeyStr.strChars hf.key
      · cases ha
    · intro d hd
      simp only at hd
      split at hd
      · cases hd; nbp_lit
      · cases hd
  | some c =>
    simp only [hc, Outcome.ok.injEq, Prod.mk.injEq] at h
    obtain ⟨rfl, rfl⟩ := h
    obtain ⟨hn1, hn2⟩ := jsonTranslation_names hc
    refine ⟨⟨KeyStr.nbp hname, ?_, ?_, ?_⟩, (htp.trans (addCommonImports_pres _ _ _ _)).trans (addCustom_pres _ _)⟩
    · intro a ha
      simp only at ha
      split at ha
      · cases ha; exact KeyStr.strChars hf.key
      · cases ha
    · simp only
      intro stk
      have r1 : Run s%"Annotated[" ⟨.code, stk⟩ ⟨.code, '[' :: stk⟩ := rfl
      have r2 := hopt ('[' :: stk)
      have r3 : Run s%", BeforeValidator(" ⟨.code, '[' :: stk⟩ ⟨.code, '(' :: '[' :: stk⟩ := rfl
      have r4 := IdentStr.nbp hn1 ('(' :: '[' :: stk)
      have r5 : Run s%"), PlainSerializer(" ⟨.code, '(' :: '[' :: stk⟩ ⟨.code, '(' :: '[' :: stk⟩ := rfl
      have r6 := IdentStr.nbp hn2 ('(' :: '[' :: stk)
      have r7 : Run s%")]" ⟨.code, '(' :: '[' :: stk⟩ ⟨.code, stk⟩ := rfl
      exact (((((r1.append r2).append r3).append r4).append r5).append r6).append r7
    · intro d hd
      simp only at hd
      split at hd
      · cases hd; nbp_lit
      · cases hd

theorem fieldsFacts_ok (E : Ext) (hS : SnakeOk E) {cfg : Cfg} (H : CfgOk cfg) (gens : List Str) :
    ∀ (fs : List RustField) (st : Python.St) (pfs : List PyField) (st' : Python.St), (∀ f ∈ fs, FieldOk f) →
      fieldsFacts E cfg gens fs st = .ok (pfs, st') → (∀ pf ∈ pfs, PyFieldOk pf) ∧ Pres st st'
  | [], st, pfs, st', _, h => by
    simp only [fieldsFacts, Outcome.ok.injEq, Prod.mk.injEq] at h
    obtain ⟨rfl, rfl⟩ := h
    exact ⟨by simp, Pres.refl st⟩
  | f :: fs, st, pfs, st', hf, h => by
    simp only [fieldsFacts] at h
    obtain ⟨pf, st1, hpf, h⟩ := obind_pair_ok h
    obtain ⟨rest, st2, hrest, h⟩ := obind_pair_ok h
    simp only [Outcome.ok.injEq, Prod.mk.injEq] at h
    obtain ⟨rfl, rfl⟩ := h
    obtain ⟨h1, p1⟩ := fieldFacts_ok E hS H gens f (hf f (by simp)) st pf st1 hpf
    obtain ⟨h2, p2⟩ := fieldsFacts_ok E hS H gens fs st1 rest _ (fun g hg => hf g (by simp [hg])) hrest
    refine ⟨?_, p1.trans p2⟩
    intro x hx
    simp only [List.mem_cons] at hx
    rcases hx with rfl | hx
    · exact h1
    · exact h2 x hx

/-! ## classes -/

structure PyClassOk (c : PyClass) : Prop where
  name : NBp c.name
  generics : ∀ g ∈ c.generics, IdentStr g
  fields : ∀ f ∈ c.fields, PyFieldOk f

theorem renderClass_nbp (c : PyClass) (h : PyClassOk c) : NBp (renderClass c) := by
  unfold renderClass
  intro stk
  have r1 : Run s%"class " ⟨.code, stk⟩ ⟨.code, stk⟩ := rfl
  have r2 := h.name stk
  have r3 : Run s%"(" ⟨.code, stk⟩ ⟨.code, '(' :: stk⟩ := rfl
  have r4 : NBp (if c.generics.isEmpty then s%"BaseModel"
      else s%"BaseModel, Generic[" ++ Str.intercalate s%", " c.generics ++ s%"]") := by
    split
    · nbp_lit
    · exact wrap_nbp s%"BaseModel, Generic[" (fun _ => rfl)
        (NBp.intercalate _ nbp_commaSep _ fun g hg => IdentStr.nbp (h.generics g hg))
  have r5 : Run s%"):\n" ⟨.code, '(' :: stk⟩ ⟨.code, stk⟩ := rfl
  have r6 := docstring_nbp 1 c.comments stk
  have r7 : NBp (if c.modelConfig then s%"    model_config = ConfigDict(populate_by_name=True)\n\n" else []) := by
    split
    · nbp_lit
    · exact NBp.nil
  have r8 := NBp.flatMap renderField c.fields (fun f hf => renderField_nbp f (h.fields f hf)) stk
  have r9 : NBp (if c.fields.isEmpty then s%"    pass" else []) := by
    split
    · nbp_lit
    · exact NBp.nil
  have r10 : Run nl ⟨.code, stk⟩ ⟨.code, stk⟩ := rfl
  exact ((((((((r1.append r2).append r3).append (r4 _)).append r5).append r6).append (r7 _)).append r8).append (r9 _)).append r10

theorem structFacts_ok (E : Ext) (hS : SnakeOk E) {cfg : Cfg} (H : CfgOk cfg) (rs : RustStruct) (hs : StructOk rs)
    (st : Python.St) (c : PyClass) (st' : Python.St) (h : structFacts E cfg rs st = .ok (c, st')) :
    PyClassOk c ∧ Pres st st' := by
  unfold structFacts at h
  simp only at h
  obtain ⟨fields, st1, hf, h⟩ := obind_pair_ok h
  simp only [Outcome.ok.injEq, Prod.mk.injEq] at h
  obtain ⟨rfl, rfl⟩ := h
  obtain ⟨hfs, hp⟩ := fieldsFacts_ok E hS H rs.genericTypes rs.fields _ fields _ (fun f hf => hs.fields f hf) hf
  refine ⟨⟨KeyStr.nbp hs.name, hs.generics, hfs⟩, Pres.trans ?_ hp⟩
  have h1 : Pres st (rs.genericTypes.foldl addTypeVar (addImport st kPydantic s%"BaseModel")) :=
    (addImport_pres _ _ _ (by decide) (by decide)).trans (foldl_addTypeVar_pres _ _ hs.generics)
  have h2 := Pres.ite (c := rs.genericTypes.isEmpty = true) h1 (h1.trans (addImport_pres _ kTyping s%"Generic" (by decide) (by decide)))
  exact Pres.ite (h2.trans (addImport_pres _ _ _ (by decide) (by decide))) h2


/-! ## aliases and constants -/

theorem upperStr_key (U : UnicodeOps) (hU : U.AsciiCorrect) {s : Str} (h : KeyStr s) : KeyStr (U.upperStr s) := by
  have hasc : ∀ c ∈ s, c.toNat < 128 := by
    intro c hc
    have := h c hc
    simp only [keyChar, Bool.or_eq_true, beq_iff_eq] at this
    rcases this with h1 | rfl
    · exact identChar_ascii c h1
    · decide
  rw [RenameLemmas.upperStr_ascii U hU s hasc]
  intro c hc
  simp only [Str.toAsciiUpper, List.mem_map] at hc
  obtain ⟨d, hd, rfl⟩ := hc
  exact keyChar_upper d (h d hd)

theorem writeAlias_ok {cfg : Cfg} (H : CfgOk cfg) (a : RustTypeAlias) (ha : AliasOk a) (st : Python.St) (text : Str)
    (st' : Python.St) (h : ((aliasFacts cfg a st).bind fun (pa, st) => Outcome.ok (renderAlias pa, st)) = .ok (text, st')) :
    NBp text ∧ Pres st st' := by
  obtain ⟨pa, st1, hpa, h⟩ := obind_pair_ok h
  simp only [Outcome.ok.injEq, Prod.mk.injEq] at h
  obtain ⟨rfl, rfl⟩ := h
  unfold aliasFacts at hpa
  obtain ⟨ty, st2, hty, hpa⟩ := obind_pair_ok hpa
  simp only [Outcome.ok.injEq, Prod.mk.injEq] at hpa
  obtain ⟨rfl, rfl⟩ := hpa
  obtain ⟨hn, hp⟩ := formatType_ok H a.genericTypes a.ty st ty st2 ha.ty hty
  refine ⟨?_, hp.trans (foldl_addTypeVar_pres _ _ ha.generics)⟩
  unfold renderAlias
  nbp_pieces
  · exact KeyStr.nbp ha.renamed
  · nbp_lit
  · exact hn
  · nbp_lit
  · exact docstring_nbp 0 _

theorem writeConst_ok (E : Ext) (hU : E.U.AsciiCorrect) {cfg : Cfg} (H : CfgOk cfg) (c : RustConst) (hc : ConstScope c)
    (st : Python.St) (text : Str) (st' : Python.St)
    (h : ((constFacts E cfg c st).bind fun (pc, st) => Outcome.ok (renderConst pc, st)) = .ok (text, st')) :
    NBp text ∧ Pres st st' := by
  obtain ⟨pc, st1, hpc, h⟩ := obind_pair_ok h
  simp only [Outcome.ok.injEq, Prod.mk.injEq] at h
  obtain ⟨rfl, rfl⟩ := h
  unfold constFacts at hpc
  obtain ⟨ty, st2, hty, hpc⟩ := obind_pair_ok hpc
  simp only [Outcome.ok.injEq, Prod.mk.injEq] at hpc
  obtain ⟨rfl, rfl⟩ := hpc
  obtain ⟨hn, hp⟩ := formatType_ok H [] c.ty st ty _ hc.ty hty
  refine ⟨?_, hp⟩
  unfold renderConst
  nbp_pieces
  · exact IdentStr.nbp (upperStr_ident E.U hU (toSnake_ident E.U hc.name))
  · nbp_lit
  · exact hn
  · nbp_lit
  · exact natToStr_nbp _
  · exact NBp.nl

/-! ## unit enums -/

theorem replaceChar_id {s : Str} {c : Char} (r : Str) (h : c ∉ s) : Str.replaceChar s c r = s := by
  induction s with
  | nil => rfl
  | cons x t ih =>
    have hx : x ≠ c := fun e => h (by simp [e])
    have := ih (fun hm => h (by simp [hm]))
    simp only [Str.replaceChar, List.flatMap_cons, hx, if_false] at this ⊢
    rw [this]; rfl

theorem KeyStr.no_quote {s : Str} (h : KeyStr s) : '"' ∉ s := by
  intro hm; have := h _ hm; revert this; decide

/-- `    NAME = "wire"\n` -/
theorem memberLine_nbp (name wire : Str) (hn : NBp name) (hw : StrChars wire) :
    NBp (s%"    " ++ name ++ s%" = \"" ++ wire ++ s%"\"\n") := by
  have e : s%"    " ++ name ++ s%" = \"" ++ wire ++ s%"\"\n" =
      s%"    " ++ name ++ s%" = " ++ (s%"\"" ++ wire ++ s%"\"" ++ ('\n' :: [])) := by simp
  rw [e]
  intro stk
  have r1 : Run s%"    " ⟨.code, stk⟩ ⟨.code, stk⟩ := rfl
  have r3 : Run s%" = " ⟨.code, stk⟩ ⟨.code, stk⟩ := rfl
  exact ((r1.append (hn stk)).append r3).append (run_quoted_then wire hw '\n' [] (by decide) stk _ rfl)

structure PyMemberOk (m : PyMember) : Prop where
  name : NBp m.name
  wire : KeyStr m.wire

theorem renderEnumClass_nbp (c : PyEnumClass) (hn : NBp c.name) (hm : ∀ m ∈ c.members, PyMemberOk m) :
    NBp (renderEnumClass c) := by
  unfold renderEnumClass
  nbp_pieces
  · nbp_lit
  · exact hn
  · nbp_lit
  · exact docstring_nbp 1 _
  · split
    · nbp_lit
    · apply NBp.flatMap
      intro m hmm
      have hmo := hm m hmm
      rw [replaceChar_id _ (KeyStr.no_quote hmo.wire)]
      exact NBp.append (memberLine_nbp m.name m.wire hmo.name (KeyStr.strChars hmo.wire)) (docstring_nbp 1 _)

theorem unitMembers_ok (E : Ext) (hU : E.U.AsciiCorrect) : ∀ (vs : List RustEnumVariant) (ms : List PyMember),
    (∀ v ∈ vs, VariantOk v) → unitMembers E vs = .ok ms → ∀ m ∈ ms, PyMemberOk m
  | [], ms, _, h => by simp only [unitMembers] at h; cases h; simp
  | .unit id cs :: vs, ms, hv, h => by
    simp only [unitMembers] at h
    obtain ⟨rest, hr, h⟩ := obind_ok h
    cases h
    intro m hm
    simp only [List.mem_cons] at hm
    rcases hm with rfl | hm
    · have hvo := hv (.unit id cs) (by simp)
      exact ⟨IdentStr.nbp (upperStr_ident E.U hU hvo.2.1), hvo.2.2⟩
    · exact unitMembers_ok E hU vs rest (fun w hw => hv w (by simp [hw])) hr m hm
  | .tuple _ _ _ :: _, ms, _, h => by simp [unitMembers] at h
  | .anonymousStruct _ _ _ :: _, ms, _, h => by simp [unitMembers] at h

/-! ## the classes of the struct variants -/

theorem innerFacts_ok (E : Ext) (hS : SnakeOk E) {cfg : Cfg} (H : CfgOk cfg) (e : RustEnum) (he : EnumOk e) :
    ∀ (l : List (Id × List RustField)) (st : Python.St) (cs : List PyClass) (st' : Python.St),
    (∀ p ∈ l, IdentStr p.1.original ∧ ∀ f ∈ p.2, FieldOk f) →
    innerFacts E cfg e l st = .ok (cs, st') → (∀ c ∈ cs, PyClassOk c) ∧ Pres st st'
  | [], st, cs, st', _, h => by
    simp only [innerFacts, Outcome.ok.injEq, Prod.mk.injEq] at h
    obtain ⟨rfl, rfl⟩ := h
    exact ⟨by simp, Pres.refl st⟩
  | (id, fs) :: rest, st, cs, st', hl, h => by
    simp only [innerFacts] at h
    obtain ⟨c, st1, hc, h⟩ := obind_pair_ok h
    obtain ⟨cs', st2, hcs, h⟩ := obind_pair_ok h
    simp only [Outcome.ok.injEq, Prod.mk.injEq] at h
    obtain ⟨rfl, rfl⟩ := h
    obtain ⟨hid, hfs⟩ := hl (id, fs) (by simp)
    obtain ⟨h1, p1⟩ := structFacts_ok E hS H _ ⟨anonymousStruct_docs e _ _ fs hid he.original,
      KeyStr.append (KeyStr.append he.renamed (IdentStr.key hid)) (by decide : KeyStr s%"Inner"),
      fun g hg => he.generics g (anonymousStruct_generics e _ _ fs g hg), hfs⟩ st c st1 hc
    obtain ⟨h2, p2⟩ := innerFacts_ok E hS H e he rest st1 cs' _ (fun p hp => hl p (by simp [hp])) hcs
    refine ⟨?_, p1.trans p2⟩
    intro x hx
    simp only [List.mem_cons] at hx
    rcases hx with rfl | hx
    · exact h1
    · exact h2 x hx

/-! ## algebraic enums -/

structure PyVariantOk (v : PyVariant) : Prop where
  className : NBp v.className
  tagKey : NBp v.tagKey
  tagLiteral : NBp v.tagLiteral
  contentKey : NBp v.contentKey
  contentType : ∀ t, v.contentType = some t → NBp t

theorem renderVariant_nbp (v : PyVariant) (h : PyVariantOk v) : NBp (renderVariant v) := by
  unfold renderVariant
  intro stk
  have r1 : Run s%"class " ⟨.code, stk⟩ ⟨.code, stk⟩ := rfl
  have r3 : Run s%"(BaseModel):\n" ⟨.code, stk⟩ ⟨.code, stk⟩ := rfl
  have r4 := docstring_nbp 1 v.comments stk
  have r5 : Run s%"    " ⟨.code, stk⟩ ⟨.code, stk⟩ := rfl
  have r7 : Run s%": Literal[" ⟨.code, stk⟩ ⟨.code, '[' :: stk⟩ := rfl
  have r9 : Run s%"] = " ⟨.code, '[' :: stk⟩ ⟨.code, stk⟩ := rfl
  have r11 : Run nl ⟨.code, stk⟩ ⟨.code, stk⟩ := rfl
  have r12 : NBp (match v.contentType with
      | none => []
      | some t => s%"    " ++ v.contentKey ++ s%": " ++ t ++ nl) := by
    split
    · exact NBp.nil
    · rename_i t ht
      nbp_pieces
      · nbp_lit
      · exact h.contentKey
      · nbp_lit
      · exact h.contentType t ht
      · exact NBp.nl
  exact ((((((((((r1.append (h.className _)).append r3).append r4).append r5).append (h.tagKey _)).append r7).append
    (h.tagLiteral _)).append r9).append (h.tagLiteral _)).append r11).append (r12 _) |>.append r11

theorem tagMemberName_key (E : Ext) (hU : E.U.AsciiCorrect) (hS : SnakeOk E) {s : Str} (h : KeyStr s) :
    KeyStr (tagMemberName E s) := upperStr_key E.U hU (hS s h)

theorem variantFacts_ok (E : Ext) (hU : E.U.AsciiCorrect) (hS : SnakeOk E) {cfg : Cfg} (H : CfgOk cfg) (e : RustEnum)
    (he : EnumOk e) (tag content : Str) (htag : IdentStr tag) (hcontent : KeyStr content) (v : RustEnumVariant)
    (hv : VariantOk v) (st : Python.St) (pv : PyVariant) (st' : Python.St)
    (h : variantFacts E cfg e tag content v st = .ok (pv, st')) : PyVariantOk pv ∧ Pres st st' := by
  have hcls : NBp (e.id.renamed ++ v.id.original) := KeyStr.nbp (KeyStr.append he.renamed (IdentStr.key hv.original))
  have hlit : NBp (e.id.renamed ++ s%"Types." ++ tagMemberName E v.id.renamed) := by
    refine Dotted.nbp ?_
    intro c hc
    simp only [List.mem_append] at hc
    rcases hc with (hc | hc) | hc
    · simp [dottedChar, he.renamed c hc]
    · revert c; decide
    · simp [dottedChar, tagMemberName_key E hU hS hv.renamed c hc]
  have hlitp := addImport_pres st kTyping s%"Literal" (by decide) (by decide)
  unfold variantFacts at h
  cases v with
  | unit id cs =>
    simp only [Outcome.ok.injEq, Prod.mk.injEq] at h
    obtain ⟨rfl, rfl⟩ := h
    exact ⟨⟨hcls, IdentStr.nbp htag, hlit, KeyStr.nbp hcontent, by intro t ht; cases ht⟩, hlitp⟩
  | tuple id cs ty =>
    simp only at h
    obtain ⟨t, st1, ht, h⟩ := obind_pair_ok h
    simp only [Outcome.ok.injEq, Prod.mk.injEq] at h
    obtain ⟨rfl, rfl⟩ := h
    obtain ⟨hn, hp⟩ := formatType_ok H e.genericTypes ty st t st1 hv.2.2.2 ht
    exact ⟨⟨hcls, IdentStr.nbp htag, hlit, KeyStr.nbp hcontent, by intro t' ht'; cases ht'; exact hn⟩,
      hp.trans (addImport_pres _ _ _ (by decide) (by decide))⟩
  | anonymousStruct id cs fs =>
    simp only [Outcome.ok.injEq, Prod.mk.injEq] at h
    obtain ⟨rfl, rfl⟩ := h
    refine ⟨⟨hcls, IdentStr.nbp htag, hlit, KeyStr.nbp hcontent, ?_⟩, hlitp⟩
    intro t ht; cases ht
    exact KeyStr.nbp (KeyStr.append (KeyStr.append he.renamed (IdentStr.key hv.2.1)) (by decide : KeyStr s%"Inner"))

theorem variantsFacts_ok (E : Ext) (hU : E.U.AsciiCorrect) (hS : SnakeOk E) {cfg : Cfg} (H : CfgOk cfg) (e : RustEnum)
    (he : EnumOk e) (tag content : Str) (htag : IdentStr tag) (hcontent : KeyStr content) :
    ∀ (vs : List RustEnumVariant) (st : Python.St) (pvs : List PyVariant) (st' : Python.St), (∀ v ∈ vs, VariantOk v) →
      variantsFacts E cfg e tag content vs st = .ok (pvs, st') → (∀ pv ∈ pvs, PyVariantOk pv) ∧ Pres st st'
  | [], st, pvs, st', _, h => by
    simp only [variantsFacts, Outcome.ok.injEq, Prod.mk.injEq] at h
    obtain ⟨rfl, rfl⟩ := h
    exact ⟨by simp, Pres.refl st⟩
  | v :: vs, st, pvs, st', hv, h => by
    simp only [variantsFacts] at h
    obtain ⟨pv, st1, hpv, h⟩ := obind_pair_ok h
    obtain ⟨rest, st2, hrest, h⟩ := obind_pair_ok h
    simp only [Outcome.ok.injEq, Prod.mk.injEq] at h
    obtain ⟨rfl, rfl⟩ := h
    obtain ⟨h1, p1⟩ := variantFacts_ok E hU hS H e he tag content htag hcontent v (hv v (by simp)) st pv st1 hpv
    obtain ⟨h2, p2⟩ := variantsFacts_ok E hU hS H e he tag content htag hcontent vs st1 rest _
      (fun w hw => hv w (by simp [hw])) hrest
    refine ⟨?_, p1.trans p2⟩
    intro x hx
    simp only [List.mem_cons] at hx
    rcases hx with rfl | hx
    · exact h1
    · exact h2 x hx

structure PyUnionOk (u : PyUnion) : Prop where
  name : NBp u.name
  docs : DocsOk u.comments
  inner : ∀ c ∈ u.inner, PyClassOk c
  typesName : NBp u.typesName
  tags : ∀ m ∈ u.tags, PyMemberOk m
  variants : ∀ v ∈ u.variants, PyVariantOk v

/-- the lines of the `…Types` enumeration, each with its line break -/
theorem tagLines_nbp (tags : List PyMember) (h : ∀ m ∈ tags, PyMemberOk m) :
    NBp (Str.intercalate nl (tags.map fun m => s%"    " ++ m.name ++ s%" = \"" ++ m.wire ++ s%"\"") ++ nl) := by
  cases htags : tags with
  | nil => exact NBp.nl
  | cons m ms =>
    rw [← htags, intercalate_nl _ (by simp [htags])]
    apply NBp.flatMap
    intro x hx
    simp only [List.mem_map] at hx
    obtain ⟨m', hm', rfl⟩ := hx
    have hmo := h m' hm'
    have e : s%"    " ++ m'.name ++ s%" = \"" ++ m'.wire ++ s%"\"" ++ nl = s%"    " ++ m'.name ++ s%" = \"" ++ m'.wire ++ s%"\"\n" := by
      simp [nl]
    rw [e]
    exact memberLine_nbp m'.name m'.wire hmo.name (KeyStr.strChars hmo.wire)

theorem renderUnion_eq (u : PyUnion) : renderUnion u =
    (u.inner.flatMap renderClass) ++ s%"class " ++ u.typesName ++ s%"(str, Enum):\n" ++
    (Str.intercalate nl (u.tags.map fun m => s%"    " ++ m.name ++ s%" = \"" ++ m.wire ++ s%"\"") ++ nl) ++ nl ++
    (u.variants.flatMap renderVariant) ++ hashComments 0 u.comments ++
    (match u.variants with
     | [v] => u.name ++ s%" = " ++ v.className ++ nl
     | vs => u.name ++ s%" = Union[" ++ Str.intercalate s%", " (vs.map (·.className)) ++ s%"]" ++ nl) := by
  obtain ⟨name, comments, inner, typesName, tags, variants⟩ := u
  unfold renderUnion
  simp only [List.append_assoc]
  match variants with
  | [] => rfl
  | [v] => rfl
  | v :: w :: r => rfl

theorem renderUnion_nbp (u : PyUnion) (h : PyUnionOk u) : NBp (renderUnion u) := by
  rw [renderUnion_eq]
  have hlast : NBp (match u.variants with
     | [v] => u.name ++ s%" = " ++ v.className ++ nl
     | vs => u.name ++ s%" = Union[" ++ Str.intercalate s%", " (vs.map (·.className)) ++ s%"]" ++ nl) := by
    split
    · rename_i v hv
      nbp_pieces
      · exact h.name
      · nbp_lit
      · exact (h.variants v (by simp [hv])).className
      · exact NBp.nl
    · refine NBp.append (NBp.append h.name (wrap_nbp s%" = Union[" (fun _ => rfl) ?_) |> fun x => by
        simpa [List.append_assoc] using x) NBp.nl
      refine NBp.intercalate _ nbp_commaSep _ ?_
      intro x hx
      simp only [List.mem_map] at hx
      obtain ⟨v, hv, rfl⟩ := hx
      exact (h.variants v hv).className
  intro stk
  have r1 := NBp.flatMap renderClass u.inner (fun c hc => renderClass_nbp c (h.inner c hc)) stk
  have r2 : Run s%"class " ⟨.code, stk⟩ ⟨.code, stk⟩ := rfl
  have r4 : Run s%"(str, Enum):\n" ⟨.code, stk⟩ ⟨.code, stk⟩ := rfl
  have r5 := tagLines_nbp u.tags h.tags stk
  have r6 : Run nl ⟨.code, stk⟩ ⟨.code, stk⟩ := rfl
  have r7 := NBp.flatMap renderVariant u.variants (fun v hv => renderVariant_nbp v (h.variants v hv)) stk
  have r8 := hashComments_nbp 0 _ h.docs stk
  exact (((((((r1.append r2).append (h.typesName stk)).append r4).append r5).append r6).append r7).append r8).append (hlast stk)


theorem unionFacts_ok (E : Ext) (hU : E.U.AsciiCorrect) (hS : SnakeOk E) {cfg : Cfg} (H : CfgOk cfg) (e : RustEnum)
    (he : EnumOk e) (tag content : Str) (hk : e.keys = some (tag, content)) (st : Python.St) (u : PyUnion)
    (st' : Python.St) (h : unionFacts E cfg e tag content st = .ok (u, st')) : PyUnionOk u ∧ Pres st st' := by
  unfold unionFacts at h
  obtain ⟨inner, st1, hin, h⟩ := obind_pair_ok h
  simp only at h
  obtain ⟨variants, st2, hvs, h⟩ := obind_pair_ok h
  simp only [Outcome.ok.injEq, Prod.mk.injEq] at h
  obtain ⟨rfl, rfl⟩ := h
  obtain ⟨hi, pi⟩ := innerFacts_ok E hS H e he _ st inner st1 (structVariants_scope e he) hin
  obtain ⟨hv, pv⟩ := variantsFacts_ok E hU hS H e he tag content (he.tag _ hk) (he.content _ hk) e.variants _ variants st2
    he.variants hvs
  refine ⟨⟨KeyStr.nbp he.renamed, he.docs, hi, KeyStr.nbp (KeyStr.append he.renamed (by decide : KeyStr s%"Types")), ?_, hv⟩, ?_⟩
  · intro m hm
    simp only [List.mem_map] at hm
    obtain ⟨v, hvm, rfl⟩ := hm
    exact ⟨KeyStr.nbp (tagMemberName_key E hU hS (he.variants v hvm).renamed), (he.variants v hvm).renamed⟩
  · have h1 : Pres st1 (addImport (addImport (e.genericTypes.foldl addTypeVar st1) kPydantic s%"BaseModel") s%"enum" s%"Enum") :=
      ((foldl_addTypeVar_pres _ _ he.generics).trans (addImport_pres _ _ _ (by decide) (by decide))).trans
        (addImport_pres _ _ _ (by decide) (by decide))
    exact ((pi.trans h1).trans pv).trans (Pres.ite (Pres.refl _) (addImport_pres _ _ _ (by decide) (by decide)))

/-- **Python enums** (unit enums as `(str, Enum)` classes; algebraic enums as the classes of the
struct variants, the `…Types` enumeration, one class per variant and the union alias) -/
theorem writeEnum_ok (E : Ext) (hU : E.U.AsciiCorrect) (hS : SnakeOk E) {cfg : Cfg} (H : CfgOk cfg) (e : RustEnum)
    (he : EnumOk e) (st : Python.St) (text : Str) (st' : Python.St) (h : writeEnum E cfg e st = .ok (text, st')) :
    NBp text ∧ Pres st st' := by
  unfold writeEnum at h
  split at h
  · obtain ⟨inner, st1, hin, h⟩ := obind_pair_ok h
    simp only at h
    obtain ⟨members, hm, h⟩ := obind_ok h
    simp only [Outcome.ok.injEq, Prod.mk.injEq] at h
    obtain ⟨rfl, rfl⟩ := h
    obtain ⟨hi, pi⟩ := innerFacts_ok E hS H e he _ st inner st1 (structVariants_scope e he) hin
    refine ⟨NBp.append (NBp.flatMap _ _ fun c hc => renderClass_nbp c (hi c hc)) ?_,
      pi.trans (addImport_pres _ _ _ (by decide) (by decide))⟩
    exact renderEnumClass_nbp { name := e.id.renamed, comments := e.comments, members := members } (KeyStr.nbp he.renamed)
      (unitMembers_ok E hU e.variants members he.variants hm)
  · rename_i tag content hk
    obtain ⟨u, st1, hu, h⟩ := obind_pair_ok h
    simp only [Outcome.ok.injEq, Prod.mk.injEq] at h
    obtain ⟨rfl, rfl⟩ := h
    obtain ⟨huo, hp⟩ := unionFacts_ok E hU hS H e he tag content hk st u _ hu
    exact ⟨renderUnion_nbp u huo, hp⟩

theorem writeItem_ok (E : Ext) (hU : E.U.AsciiCorrect) (hS : SnakeOk E) {cfg : Cfg} (H : CfgOk cfg) (it : RustItem)
    (hs : ItemOk it) (st : Python.St) (text : Str) (st' : Python.St) (h : writeItem E cfg it st = .ok (text, st')) :
    NBp text ∧ Pres st st' := by
  cases it with
  | struct s =>
    simp only [writeItem, writeStruct] at h
    obtain ⟨c, st1, hc, h⟩ := obind_pair_ok h
    simp only [Outcome.ok.injEq, Prod.mk.injEq] at h
    obtain ⟨rfl, rfl⟩ := h
    obtain ⟨hco, hp⟩ := structFacts_ok E hS H s hs st c _ hc
    exact ⟨renderClass_nbp c hco, hp⟩
  | «enum» e => exact writeEnum_ok E hU hS H e hs st text st' h
  | alias a => exact writeAlias_ok H a hs st text st' h
  | const c => exact writeConst_ok E hU H c hs st text st' h

/-! ## the file header -/

theorem dotted_tri (v : Str) (h : Dotted v) (stk : List Char) : Run v ⟨.tri '"', stk⟩ ⟨.tri '"', stk⟩ := by
  induction v with
  | nil => rfl
  | cons c t ih =>
    have hc := h c (by simp)
    have h1 : c ≠ '\\' := by intro e; subst e; revert hc; decide
    have h2 : c ≠ '"' := by intro e; subst e; revert hc; decide
    have := ih (fun d hd => h d (by simp [hd]))
    unfold Run at *
    simpa [C10LexPy.scan, C10LexPy.step, h1, h2] using this

theorem beginFile_nbp (cfg : Cfg) (hv : ∀ v, cfg.versionHeader = some v → Dotted v) : NBp (beginFile cfg) := by
  unfold beginFile
  split
  · rename_i v hv'
    intro stk
    have r1 : Run s%"\"\"\"\n Generated by typeshare " ⟨.code, stk⟩ ⟨.tri '"', stk⟩ := rfl
    have r3 : Run s%"\n\"\"\"\n" ⟨.tri '"', stk⟩ ⟨.code, stk⟩ := rfl
    exact (r1.append (dotted_tri v (hv v hv') stk)).append r3
  · exact NBp.nil

theorem typeVarLine_nbp (n : Str) (h : IdentStr n) : NBp (n ++ s%" = TypeVar(\"" ++ n ++ s%"\")") := by
  have e : n ++ s%" = TypeVar(\"" ++ n ++ s%"\")" = n ++ s%" = TypeVar(" ++ (s%"\"" ++ n ++ s%"\"" ++ (')' :: [])) := by simp
  rw [e]
  intro stk
  have r2 : Run s%" = TypeVar(" ⟨.code, stk⟩ ⟨.code, '(' :: stk⟩ := rfl
  exact ((IdentStr.nbp h stk).append r2).append
    (run_quoted_then n (KeyStr.strChars (IdentStr.key h)) ')' [] (by decide) _ _ rfl)

theorem writeAllImports_nbp (st : Python.St) (h : StOk st) : NBp (writeAllImports st) := by
  unfold writeAllImports
  simp only
  nbp_pieces
  · nbp_lit
  · refine NBp.intercalate _ NBp.nl _ ?_
    intro x hx
    have hx' := (List.mem_mergeSort).1 hx
    simp only [List.mem_map] at hx'
    obtain ⟨⟨m, ids⟩, hp, rfl⟩ := hx'
    obtain ⟨hm, hids⟩ := h.imports _ hp
    nbp_pieces
    · nbp_lit
    · exact Dotted.nbp hm
    · nbp_lit
    · exact NBp.intercalate _ nbp_commaSep _ fun i hi => Dotted.nbp (hids i hi)
  · nbp_lit
  · split
    · exact NBp.nl
    · refine NBp.append (NBp.intercalate _ NBp.nl _ ?_) (by nbp_lit)
      intro x hx
      simp only [List.mem_map] at hx
      obtain ⟨n, hn, rfl⟩ := hx
      exact typeVarLine_nbp n (h.typeVars n hn)

theorem bytesFns_nbp : NBp (bytesFns.serializationContent ++ s%"\n\n" ++ bytesFns.deserializationContent ++ nl ++ nl) :=
  nbp_of_wb (by decide +kernel)
theorem datetimeFns_nbp :
    NBp (datetimeFns.serializationContent ++ s%"\n\n" ++ datetimeFns.deserializationContent ++ nl ++ nl) :=
  nbp_of_wb (by decide +kernel)

theorem writeCustomFns_nbp (st : Python.St) : NBp (writeCustomFns st) := by
  unfold writeCustomFns
  apply NBp.flatMap
  intro c hc
  simp only [List.mem_filterMap] at hc
  obtain ⟨t, _, ht⟩ := hc
  unfold jsonTranslation at ht
  split at ht
  · cases ht; exact bytesFns_nbp
  · split at ht
    · cases ht; exact datetimeFns_nbp
    · cases ht

/-! ## the whole file -/

theorem generate_ok (E : Ext) (hU : E.U.AsciiCorrect) (hS : SnakeOk E) {cfg : Cfg} (H : CfgOk cfg)
    (hv : ∀ v, cfg.versionHeader = some v → Dotted v) (d : ParsedData)
    (hitems : ∀ it ∈ TsV.C12L.itemsOf d, ItemOk it) (st0 : Python.St) (h0 : StOk st0) (text : Str) (st : Python.St)
    (h : generate E cfg d st0 = .ok (text, st)) : NBp text ∧ StOk st := by
  obtain ⟨items, blocks, st1, ho, hth, rfl, rfl⟩ := TsV.C03E.Py.generate_blocks E cfg d st0 text _ h
  obtain ⟨hb, hst1⟩ := Threaded.inv (P := StOk) (Q := NBp) hth h0 (fun it hit s b s' hs hw =>
    let r := writeItem_ok E hU hS H it (hitems it (mem_of_generateOrder ho hit)) s b s' hw
    ⟨r.1, r.2 hs⟩)
  have hst := addDatetimeImport_pres st1 hst1
  exact ⟨(((beginFile_nbp cfg hv).append (writeAllImports_nbp _ hst)).append (writeCustomFns_nbp _)).append
    (NBp.flatten _ hb), hst⟩

def JobsOk (jobs : List (Str × ParsedData × Option Pipeline.ScopedCrateTypes)) : Prop :=
  ∀ j ∈ jobs, ∀ it ∈ TsV.C12L.itemsOf j.2.1, ItemOk it

theorem generateFrom_ok (E : Ext) (hU : E.U.AsciiCorrect) (hS : SnakeOk E) {cfg : Cfg} (H : CfgOk cfg)
    (hv : ∀ v, cfg.versionHeader = some v → Dotted v) :
    ∀ (jobs : List (Str × ParsedData × Option Pipeline.ScopedCrateTypes)) (st0 : Python.St), StOk st0 → JobsOk jobs →
      ∀ outs, generateFrom E cfg jobs st0 = .ok outs → ∀ o ∈ outs, NBp o.2
  | [], _, _, _, outs, h => by simp only [generateFrom] at h; cases h; simp
  | (crate, d, imps) :: rest, st0, h0, hj, outs, h => by
    simp only [generateFrom] at h
    obtain ⟨text, st, hg, h⟩ := obind_pair_ok h
    obtain ⟨outs', ho, h⟩ := obind_ok h
    cases h
    obtain ⟨hnb, hst⟩ := generate_ok E hU hS H hv d (hj (crate, d, imps) (by simp)) st0 h0 text st hg
    intro o hoo
    rcases List.mem_cons.1 hoo with rfl | hoo
    · exact hnb
    · exact generateFrom_ok E hU hS H hv rest st hst (fun j hjm => hj j (by simp [hjm])) outs' ho o hoo

end TsV.C10Files.Py
