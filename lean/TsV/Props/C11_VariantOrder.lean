import TsV.Lemmas.C11_VariantOrder
/-!
# C11_VariantOrder — the dependencies of a tagged enum do not depend on the order of its variants

C11: "definitions are emitted dependencies-first".  `Props/C11_Coverage.lean` ties the graph handed to `toposort_impl`
to the program's reference relation (`coverage`: every reference is an edge; `edge_sound`: every edge is a chain of
references).  This module is the corollary for the **variant list** of an algebraic enum: a walk that stopped at the
first unit variant, looked only at the first payload, or let a unit / struct variant between two payloads end the loop
would lose references depending on where a payload stands.

* `SamePayloads vs vs'`: the payload variants (tuple and struct variants) of the two lists are a permutation of each
  other; unit variants may be added, removed or moved freely (a `#[typeshare(skip)]`ped variant is not in the parsed
  list at all, so it is covered as "removed").
* `refs_same_set`: the names the enum refers to are the same *set*; `units_contribute_nothing`: dropping every unit
  variant leaves the very same list.
* for a program `items` whose item `i` is the enum and the program `items.set i (enum with variants vs')`
  (`permuted_similar`): `refers_same` — the reference relation is the same relation; `reference_is_edge` — every reference
  of the original order is an edge of the graph built for the permuted program (and vice versa, the statement is
  symmetric in `vs`, `vs'`); `edge_is_reference_chain` — every edge of the permuted program's graph is a chain of
  references of the original one.  So the two edge relations are squeezed between the same two relations.
* `behind_units`: a payload reference behind any number of unit variants (and in front of anything) is an edge.
* `order_same`: end to end, `C11_order` holds for the permuted program under the hypotheses on the original one.

* `edge_iff_refers`: the row of an item without generic parameters of its own (every struct, enum, const and plain alias) is
  *exactly* its direct references off the diagonal — `get_dependencies` records nothing transitive, because the nested call
  after a push finds the name in `seen`; `edges_same` / `enum_edges_same`: **`deps (rearranged variants) = deps variants` as
  sets** — in the graphs of the two programs these rows have the same edges `k → j`, `j ≠ k`.

Not covered: the diagonal (a self-edge `i → i` appears when the enum mentions itself at least twice — the trailing
`seen.remove` quirk; an evaluation of 1600 small programs incl. self-referential ones found no dependence on the order
there either) and the rows of generic aliases (their `generic_types` loop walks other items).  Nothing is false on the
model.  `tools/c11.py: variant_mix_part` checks the implementation.
-/
namespace TsV.C11_VariantOrder
open TsV TsV.Deps TsV.Topsort TsV.C11

/-- same payload variants up to order; unit variants anywhere -/
def SamePayloads (vs vs' : List RustEnumVariant) : Prop := (vs.filter isPayload).Perm (vs'.filter isPayload)

theorem samePayloads_of_perm {vs vs' : List RustEnumVariant} (h : vs.Perm vs') : SamePayloads vs vs' := h.filter _

/-- unit variants in front, between and behind change nothing -/
theorem samePayloads_units (us ws : List RustEnumVariant) (hu : ∀ u ∈ us, isPayload u = false)
    (hw : ∀ w ∈ ws, isPayload w = false) (a b : List RustEnumVariant) :
    SamePayloads (a ++ b) (us ++ a ++ ws ++ b) := by
  unfold SamePayloads
  have e1 : us.filter isPayload = [] := List.filter_eq_nil_iff.2 (fun u h => by simp [hu u h])
  have e2 : ws.filter isPayload = [] := List.filter_eq_nil_iff.2 (fun u h => by simp [hw u h])
  simp [List.filter_append, e1, e2]

/-- the types an enum mentions are the same up to order -/
theorem itemTypes_same (e : RustEnum) (vs' : List RustEnumVariant) (h : SamePayloads e.variants vs') :
    (itemTypes (.enum { e with variants := vs' })).Perm (itemTypes (.enum e)) := by
  obtain hk | ⟨k, hk⟩ : e.keys = none ∨ ∃ k, e.keys = some k := by cases e.keys <;> simp
  · rw [itemTypes_enum_unit e hk, itemTypes_enum_unit { e with variants := vs' } hk]
  · rw [itemTypes_enum e k hk, itemTypes_enum { e with variants := vs' } k hk]
    show (vs'.flatMap variantTypes).Perm (e.variants.flatMap variantTypes)
    rw [← flatMap_filter_payload vs', ← flatMap_filter_payload e.variants]
    exact (h.symm).flatMap_right _

/-- **the names an enum refers to do not depend on the order of its variants** (as a set) -/
theorem refs_same_set (e : RustEnum) (vs' : List RustEnumVariant) (h : SamePayloads e.variants vs') (x : Str) :
    x ∈ refsItem (.enum { e with variants := vs' }) ↔ x ∈ refsItem (.enum e) :=
  SameShape.refs (a := .enum e) (a' := .enum { e with variants := vs' }) ⟨rfl, itemTypes_same e vs' h, rfl⟩ x

/-- dropping every unit variant leaves the same reference list -/
theorem units_contribute_nothing (e : RustEnum) :
    refsItem (.enum { e with variants := e.variants.filter isPayload }) = refsItem (.enum e) := by
  unfold refsItem
  obtain hk | ⟨k, hk⟩ : e.keys = none ∨ ∃ k, e.keys = some k := by cases e.keys <;> simp
  · rw [itemTypes_enum_unit e hk, itemTypes_enum_unit { e with variants := e.variants.filter isPayload } hk]
  · rw [itemTypes_enum e k hk, itemTypes_enum { e with variants := e.variants.filter isPayload } k hk]
    show ((e.variants.filter isPayload).flatMap variantTypes).flatMap refsType = _
    rw [flatMap_filter_payload]

/-! ## the program with the variants of one enum rearranged -/

theorem permuted_similar {items : List RustItem} {i : Nat} {e : RustEnum} (hi : items[i]? = some (.enum e))
    (vs' : List RustEnumVariant) (h : SamePayloads e.variants vs') :
    Similar items (items.set i (.enum { e with variants := vs' })) :=
  similar_set hi ⟨rfl, itemTypes_same e vs' h, rfl⟩

/-- the reference relation of the whole program is the same relation -/
theorem refers_same {items : List RustItem} {i : Nat} {e : RustEnum} (hi : items[i]? = some (.enum e))
    (vs' : List RustEnumVariant) (h : SamePayloads e.variants vs') (a b : Nat) :
    Refers (items.set i (.enum { e with variants := vs' })) a b ↔ Refers items a b :=
  (permuted_similar hi vs' h).refers a b

/-- **every reference of the enum (and of every other item) is an edge of the graph of the rearranged program** -/
theorem reference_is_edge {items : List RustItem} {i : Nat} {e : RustEnum} (hi : items[i]? = some (.enum e))
    (vs' : List RustEnumVariant) (h : SamePayloads e.variants vs') (g' : List (List Nat))
    (hd : NamesDistinct items) (hdepth : DepthOk items)
    (hg : Deps.graph (items.set i (.enum { e with variants := vs' })) = some g')
    (a b : Nat) (hr : Refers items a b) (hab : a ≠ b) : Edge g' a b :=
  have S := permuted_similar hi vs' h
  coverage _ g' (S.namesDistinct hd) (S.depthOk hdepth) hg a b ((S.refers a b).2 hr) hab

/-- every edge of the graph of the rearranged program is a chain of references of the original one -/
theorem edge_is_reference_chain {items : List RustItem} {i : Nat} {e : RustEnum} (hi : items[i]? = some (.enum e))
    (vs' : List RustEnumVariant) (h : SamePayloads e.variants vs') (g' : List (List Nat)) (hgu : GenericsUsed items)
    (hg : Deps.graph (items.set i (.enum { e with variants := vs' })) = some g')
    (a b : Nat) (he : Edge g' a b) : RefReach items a b :=
  have S := permuted_similar hi vs' h
  S.reach (edge_sound _ g' (S.genericsUsed hgu) hg a b he)

/-- **a payload reference behind any number of unit variants is an edge**: the enum's variants are `pre ++ [V(ty)] ++ post`
(`pre`, `post` arbitrary — all unit variants, say), `ty` mentions item `j` at any depth -/
theorem behind_units {items : List RustItem} {i j : Nat} {e : RustEnum} {b : RustItem} (k : Str × Str)
    (hi : items[i]? = some (.enum e)) (hk : e.keys = some k) (hj : items[j]? = some b)
    (pre post : List RustEnumVariant) (vid : Id) (cs : List Str) (ty : RustType)
    (hv : e.variants = pre ++ [.tuple vid cs ty] ++ post) (hx : b.originalName ∈ refsType ty)
    (g : List (List Nat)) (hd : NamesDistinct items) (hdepth : DepthOk items) (hg : Deps.graph items = some g)
    (hij : i ≠ j) : Edge g i j := by
  refine coverage items g hd hdepth hg i j (refers_iff.2 ⟨_, b, hi, hj, ?_⟩) hij
  refine mem_refsItem.2 ⟨ty, ?_, hx⟩
  rw [itemTypes_enum e k hk, hv]
  simp [variantTypes]

/-- the same for a field of a struct variant -/
theorem behind_units_struct {items : List RustItem} {i j : Nat} {e : RustEnum} {b : RustItem} (k : Str × Str)
    (hi : items[i]? = some (.enum e)) (hk : e.keys = some k) (hj : items[j]? = some b)
    (pre post : List RustEnumVariant) (vid : Id) (cs : List Str) (fs : List RustField) (f : RustField) (hf : f ∈ fs)
    (hv : e.variants = pre ++ [.anonymousStruct vid cs fs] ++ post) (hx : b.originalName ∈ refsType f.ty)
    (g : List (List Nat)) (hd : NamesDistinct items) (hdepth : DepthOk items) (hg : Deps.graph items = some g)
    (hij : i ≠ j) : Edge g i j := by
  refine coverage items g hd hdepth hg i j (refers_iff.2 ⟨_, b, hi, hj, ?_⟩) hij
  refine mem_refsItem.2 ⟨f.ty, ?_, hx⟩
  rw [itemTypes_enum e k hk, hv]
  simp only [List.flatMap_append, List.flatMap_cons, List.flatMap_nil, List.append_nil, variantTypes, List.mem_append,
    List.mem_map]
  exact Or.inl (Or.inr ⟨f, hf, rfl⟩)

/-- end to end: the rearranged program is ordered dependencies-first under the hypotheses on the original program -/
theorem order_same {items : List RustItem} {i : Nat} {e : RustEnum} (hi : items[i]? = some (.enum e))
    (vs' : List RustEnumVariant) (h : SamePayloads e.variants vs')
    (hd : NamesDistinct items) (hdepth : DepthOk items) (hgu : GenericsUsed items) (hac : AcyclicRefs items) :
    Ordered (items.set i (.enum { e with variants := vs' })) :=
  have S := permuted_similar hi vs' h
  C11_order _ (S.namesDistinct hd) (S.depthOk hdepth) (S.genericsUsed hgu) (fun a r => hac a (S.reach r))

/-! ## the rows of the graph, exactly -/

/-- **the row of an item without generic parameters of its own is its direct references**: for `j ≠ i`, `i → j` is an
edge iff item `i` mentions the name of item `j` (the edge relation of such a row is not transitive: the nested
`get_dependencies` call after a push finds the name in `seen` and returns) -/
theorem edge_iff_refers (items : List RustItem) (g : List (List Nat)) (hd : NamesDistinct items) (hdepth : DepthOk items)
    (hg : Deps.graph items = some g) (i : Nat) (it : RustItem) (hi : items[i]? = some it)
    (hgen : itemGenerics it = []) (j : Nat) (hij : i ≠ j) : Edge g i j ↔ Refers items i j := by
  constructor
  · rintro ⟨deps, hdeps, hj⟩
    obtain ⟨deps', hdeps', hmap⟩ := graph_row hg hi
    rw [hdeps] at hdeps'; cases hdeps'
    obtain ⟨dep, hdep, hval⟩ := mapM_mem _ _ _ hmap j hj
    cases hl : lookup items dep with
    | none => simp [hl] at hval
    | some thing =>
      simp only [hl, Option.bind_some] at hval
      obtain ⟨c, hc, hcn⟩ := getIndex_spec hval
      refine refers_iff.2 ⟨it, c, hi, hc, ?_⟩
      rw [hcn, lookup_name hl]
      exact depsItem_direct items _ it hgen dep hdep
  · intro hr
    exact coverage items g hd hdepth hg i j hr hij

/-- **`deps (rearranged variants) = deps variants` as sets** (off the diagonal): in the graphs built for the two programs,
the row of the enum — and the row of every other item without generic parameters of its own — has the same edges -/
theorem edges_same {items : List RustItem} {i : Nat} {e : RustEnum} (hi : items[i]? = some (.enum e))
    (vs' : List RustEnumVariant) (h : SamePayloads e.variants vs') (g g' : List (List Nat))
    (hd : NamesDistinct items) (hdepth : DepthOk items) (hg : Deps.graph items = some g)
    (hg' : Deps.graph (items.set i (.enum { e with variants := vs' })) = some g')
    (k : Nat) (it : RustItem) (hk : items[k]? = some it) (hgen : itemGenerics it = []) (j : Nat) (hkj : k ≠ j) :
    Edge g' k j ↔ Edge g k j := by
  have S := permuted_similar hi vs' h
  obtain ⟨it', hk', hs⟩ := S.get hk
  rw [edge_iff_refers _ g' (S.namesDistinct hd) (S.depthOk hdepth) hg' k it' hk' (by rw [hs.gens]; exact hgen) j hkj,
    edge_iff_refers items g hd hdepth hg k it hk hgen j hkj]
  exact S.refers k j

/-- in particular the row of the enum itself -/
theorem enum_edges_same {items : List RustItem} {i : Nat} {e : RustEnum} (hi : items[i]? = some (.enum e))
    (vs' : List RustEnumVariant) (h : SamePayloads e.variants vs') (g g' : List (List Nat))
    (hd : NamesDistinct items) (hdepth : DepthOk items) (hg : Deps.graph items = some g)
    (hg' : Deps.graph (items.set i (.enum { e with variants := vs' })) = some g') (j : Nat) (hij : i ≠ j) :
    Edge g' i j ↔ Edge g i j :=
  edges_same hi vs' h g g' hd hdepth hg hg' i _ hi rfl j hij

/-! ## example: `enum B { U1, V(C), U2, S { x: [C; 2] }, U3, W(D) }` against `enum B { W(D), S { .. }, V(C) }` -/
open Ex

def vsLong : List RustEnumVariant :=
  [.unit (mkId s%"U1") [], .tuple (mkId s%"V") [] (.simple s%"C"), .unit (mkId s%"U2") [],
   .anonymousStruct (mkId s%"S") [] [fld s%"x" (.array (.simple s%"C") 2)], .unit (mkId s%"U3") [],
   .tuple (mkId s%"W") [] (.simple s%"D")]
def vsShort : List RustEnumVariant :=
  [.tuple (mkId s%"W") [] (.simple s%"D"),
   .anonymousStruct (mkId s%"S") [] [fld s%"x" (.array (.simple s%"C") 2)], .tuple (mkId s%"V") [] (.simple s%"C")]

def progLong : List RustItem := [enm s%"B" vsLong, strct s%"C" [], strct s%"D" []]
def progShort : List RustItem := [enm s%"B" vsShort, strct s%"C" [], strct s%"D" []]

/-- the two variant lists have the same payloads (the witness permutation is explicit) -/
theorem example_samePayloads : SamePayloads vsLong vsShort := by
  show List.Perm [vsLong[1], vsLong[3], vsLong[5]] [vsLong[5], vsLong[3], vsLong[1]]
  exact ((List.Perm.swap _ _ _).trans ((List.Perm.swap _ _ _).cons _)).trans (List.Perm.swap _ _ _)

/-- both orders: the enum depends on `C` and on `D` (the rows of the graph list the same indices) -/
example : Deps.graph progLong = some [[1, 1, 2], [], []] ∧ Deps.graph progShort = some [[2, 1, 1], [], []] := by
  decide +kernel

example : progShort = progLong.set 0 (enm s%"B" vsShort) := rfl

/-- the hypotheses of `order_same` on a concrete program, and its conclusion for the rearranged one -/
example : Ordered progShort :=
  order_same (items := progLong) (i := 0) rfl vsShort example_samePayloads (by decide) (by decide) (by decide)
    (acyclic_of_rank progLong (fun i => 3 - i) (by decide))

end TsV.C11_VariantOrder
