import TsV.Model.Generate
import TsV.Lemmas.Outcome
import TsV.Lemmas.Order
import TsV.Props.C11
/-!
# C12 — helpers shared by the per-language lemma files
-/
namespace TsV.C12L
open TsV

/-- `.bind` form of `Outcome.bind_eq_ok` -/
theorem bind_ok_iff {α β} (x : Outcome α) (f : α → Outcome β) (b : β) :
    x.bind f = .ok b ↔ ∃ a, x = .ok a ∧ f a = .ok b := by
  cases x with
  | ok a => exact ⟨fun h => ⟨a, rfl, h⟩, fun ⟨a', h1, h2⟩ => by cases h1; exact h2⟩
  | err e => exact ⟨fun h => (by cases h), fun ⟨_, h1, _⟩ => (by cases h1)⟩
  | panic s => exact ⟨fun h => (by cases h), fun ⟨_, h1, _⟩ => (by cases h1)⟩

/-- the element is in the set after `insertSorted` (the order is total on `Str`) -/
theorem mem_insertSorted_self (x : Str) : ∀ l : List Str, x ∈ Parser.insertSorted Str.lt x l
  | [] => by simp [Parser.insertSorted]
  | y :: ys => by
    simp only [Parser.insertSorted]
    split
    · simp
    · split
      · exact List.mem_cons_of_mem _ (mem_insertSorted_self x ys)
      · rename_i h1 h2
        have : x = y := Order.eq_of_not_lt x y (by simpa using h1) (by simpa using h2)
        simp [this]

theorem mem_insertSorted_of_mem {x y : Str} : ∀ {l : List Str}, y ∈ l → y ∈ Parser.insertSorted Str.lt x l
  | [], h => by simp at h
  | z :: zs, h => by
    simp only [Parser.insertSorted]
    split
    · exact List.mem_cons_of_mem _ h
    · split
      · rcases List.mem_cons.1 h with rfl | h
        · simp
        · exact List.mem_cons_of_mem _ (mem_insertSorted_of_mem h)
      · exact h

theorem mem_insertSorted_iff {x y : Str} : ∀ {l : List Str}, y ∈ Parser.insertSorted Str.lt x l ↔ y = x ∨ y ∈ l
  | [] => by simp [Parser.insertSorted]
  | z :: zs => by
    simp only [Parser.insertSorted]
    split
    · simp
    · split
      · simp only [List.mem_cons, mem_insertSorted_iff (l := zs)]
        constructor
        · rintro (h | h | h)
          · exact Or.inr (Or.inl h)
          · exact Or.inl h
          · exact Or.inr (Or.inr h)
        · rintro (h | h | h)
          · exact Or.inr (Or.inl h)
          · exact Or.inl h
          · exact Or.inr (Or.inr h)
      · rename_i h1 h2
        have : x = z := Order.eq_of_not_lt x z (by simpa using h1) (by simpa using h2)
        subst this
        simp only [List.mem_cons]
        constructor
        · intro h; exact Or.inr h
        · rintro (h | h)
          · exact Or.inl h
          · exact h


theorem infix_mid {a b : Str} (x y : Str) (h : a <:+: b) : a <:+: x ++ b ++ y := by
  obtain ⟨p, q, rfl⟩ := h
  exact ⟨x ++ p, q ++ y, by simp [List.append_assoc]⟩

theorem infix_intercalate {a : Str} (sep : Str) : ∀ (l : List Str), (∃ s ∈ l, a <:+: s) → a <:+: Str.intercalate sep l
  | [], h => by obtain ⟨s, hs, _⟩ := h; simp at hs
  | [x], h => by
    obtain ⟨s, hs, hi⟩ := h
    simp only [List.mem_singleton] at hs
    subst hs
    simpa [Str.intercalate] using hi
  | x :: y :: rest, h => by
    obtain ⟨s, hs, hi⟩ := h
    simp only [Str.intercalate]
    rcases List.mem_cons.1 hs with rfl | hs
    · have := infix_mid [] (sep ++ Str.intercalate sep (y :: rest)) hi
      simpa [List.append_assoc] using this
    · have := infix_intercalate sep (y :: rest) ⟨s, hs, hi⟩
      have := infix_mid (x ++ sep) [] this
      simpa [List.append_assoc] using this

/-- the items of one output file, in the order `generate_types` chains them before `topsort` -/
def itemsOf (d : ParsedData) : List RustItem :=
  d.aliases.map .alias ++ d.structs.map .struct ++ d.enums.map .enum ++ d.consts.map .const

/-- `topsort` only reorders (C11) -/
theorem generateOrder_perm (d : ParsedData) (items : List RustItem)
    (h : Pipeline.generateOrder d = some items) : items.Perm (itemsOf d) := by
  unfold Pipeline.generateOrder Deps.topsort at h
  simp only [Option.bind_eq_bind, Option.bind_eq_some_iff] at h
  obtain ⟨g, _, order, _, h3⟩ := h
  exact TsV.C11.sortByIndices_perm _ _ _ h3

/-- a file with one item whose dependency list is empty: `topsort` returns it (used for witnesses;
`toposort_impl::inner` is defined by well-founded recursion, so `decide` cannot evaluate it) -/
theorem topsort_single (it : RustItem) (h : Deps.graph [it] = some [[]]) : Deps.topsort [it] = some [it] := by
  unfold Deps.topsort
  rw [h]
  have : Topsort.toposort [[]] = some [0] := by
    simp [Topsort.toposort, Topsort.inner, List.range, List.range.loop]
  simp only [Option.bind_eq_bind, Option.bind_some, this]
  rfl

theorem any_perm {α} {l₁ l₂ : List α} (h : l₁.Perm l₂) (p : α → Bool) : l₁.any p = l₂.any p := by
  rw [Bool.eq_iff_iff]
  simp only [List.any_eq_true]
  exact ⟨fun ⟨x, hx, hp⟩ => ⟨x, h.subset hx, hp⟩, fun ⟨x, hx, hp⟩ => ⟨x, h.symm.subset hx, hp⟩⟩

end TsV.C12L
