"""C10 oracles: recognisers for the declaration subset typeshare emits, one per target language.

`check(lang, text)` returns `(None, notes)` when `text` is accepted, `(Reject, notes)` otherwise.
Python is parsed by CPython itself (`ast.parse`) and then checked for declaration shape; the other five are
tokenised (comments, string literals, raw strings, back-tick identifiers) and parsed by recursive descent.

Keyword policy (the property demands escaping only where the back end promises it, Swift and Python):
  * Swift: a bare reserved word is rejected wherever an identifier is declared (type / member / case / generic
    parameter names), as an `init` label only for `inout`, `var`, `let`, in type position when it is a lower-case
    reserved word; after a `.` every word is accepted.
  * Python: CPython decides.
  * TypeScript, Kotlin, Scala, Go: a reserved word in identifier position is *accepted* and recorded in `notes`.
"""
import ast
import re
import unicodedata

SWIFT_RESERVED = {
    "associatedtype", "class", "deinit", "enum", "extension", "fileprivate", "func", "import", "init", "inout",
    "internal", "let", "operator", "private", "protocol", "public", "rethrows", "static", "struct", "subscript",
    "typealias", "var", "break", "case", "continue", "default", "defer", "do", "else", "fallthrough", "for", "guard",
    "if", "in", "repeat", "return", "switch", "where", "while", "as", "Any", "catch", "false", "is", "nil", "super",
    "self", "Self", "throw", "throws", "true", "try", "precedencegroup"}
NOTE_WORDS = {
    "kotlin": {"as", "break", "class", "continue", "do", "else", "false", "for", "fun", "if", "in", "interface", "is",
               "null", "object", "package", "return", "super", "this", "throw", "true", "try", "typealias", "typeof",
               "val", "var", "when", "while"},
    "scala": {"abstract", "case", "catch", "class", "def", "do", "else", "extends", "false", "final", "finally", "for",
              "forSome", "if", "implicit", "import", "lazy", "match", "new", "null", "object", "override", "package",
              "private", "protected", "return", "sealed", "super", "this", "throw", "trait", "try", "true", "type",
              "val", "var", "while", "with", "yield"},
    "go": {"break", "case", "chan", "const", "continue", "default", "defer", "else", "fallthrough", "for", "func", "go",
           "goto", "if", "import", "interface", "map", "package", "range", "return", "select", "struct", "switch",
           "type", "var"},
    "typescript": {"break", "case", "catch", "class", "const", "continue", "debugger", "default", "delete", "do", "else",
                   "enum", "export", "extends", "false", "finally", "for", "function", "if", "import", "in",
                   "instanceof", "new", "null", "return", "super", "switch", "this", "throw", "true", "try", "typeof",
                   "var", "void", "while", "with"},
    "swift": set(),
}


class Reject(Exception):
    def __init__(self, what, tok=None):
        self.what = what
        self.tok = tok
        Exception.__init__(self, what)

    def describe(self):
        if self.tok is None:
            return self.what
        return "%s at line %d near %r" % (self.what, self.tok[2], self.tok[1])


# --------------------------------------------------------------------------------------------- lexer

LEX = {
    "typescript": dict(nested=False, quotes="\"'`", raw_backtick=False, backtick_id=False, triple=False),
    "kotlin": dict(nested=True, quotes="\"", raw_backtick=False, backtick_id=True, triple=True, char_lit=True),
    "swift": dict(nested=True, quotes="\"", raw_backtick=False, backtick_id=True, triple=True),
    "scala": dict(nested=True, quotes="\"", raw_backtick=False, backtick_id=True, triple=True, char_lit=False),
    "go": dict(nested=False, quotes="\"", raw_backtick=True, backtick_id=False, triple=False, char_lit=True),
}


# Identifier alphabets, per language.  ASCII: letters, `_`, digits inside (as before; `$` stays punctuation: no back end
# writes it into a name).  Beyond ASCII each language has its own rule; where a language's specification and its reference
# implementation differ, the recogniser takes the union (it must never demand more than the language does):
#   Go          letter = Unicode categories Lu Ll Lt Lm Lo (and `_`), unicode_digit = Nd; nothing else - no marks (Mn Mc), no
#               letter numbers (Nl), no connectors but `_`                                   (Go spec, "Identifiers", "Letters and digits")
#   Kotlin      Letter = Lu Ll Lt Lm Lo Nl, UnicodeDigit = Nd                             (Kotlin spec, grammar `Identifier`; the
#               JFlex lexer has Character.isLetter / isDigit: a subset of it)
#   Scala       letter = Lu Ll Lt Lm Lo Nl (`$`, `_`), digit = 0-9 in the specification; the scanner continues an identifier
#               with Character.isUnicodeIdentifierPart: also Nd Mn Mc Pc Other_ID_Start Other_ID_Continue   (union of the two)
#   TypeScript  IdentifierStart = ID_Start, IdentifierPart = ID_Continue, ZWNJ, ZWJ        (ECMAScript "Names and Keywords";
#               ID_Start = L* Nl Other_ID_Start, ID_Continue = that + Mn Mc Nd Pc Other_ID_Continue, minus Pattern_Syntax)
#   Swift       identifier-head / identifier-character code point ranges                   (The Swift Programming Language,
#               "Lexical Structure")
#   Python      CPython's own tokenizer decides (python_check)
_LETTER = ("Lu", "Ll", "Lt", "Lm", "Lo")
_OTHER_ID_START = set("\u1885\u1886\u2118\u212e\u309b\u309c")
_OTHER_ID_CONTINUE = set("\u00b7\u0387\u19da\u200c\u200d\u30fb\uff65") | {chr(x) for x in range(0x1369, 0x1372)}
_SWIFT_HEAD = [(0xA8, 0xA8), (0xAA, 0xAA), (0xAD, 0xAD), (0xAF, 0xAF), (0xB2, 0xB5), (0xB7, 0xBA), (0xBC, 0xBE), (0xC0, 0xD6),
               (0xD8, 0xF6), (0xF8, 0xFF), (0x100, 0x2FF), (0x370, 0x167F), (0x1681, 0x180D), (0x180F, 0x1DBF), (0x1E00, 0x1FFF),
               (0x200B, 0x200D), (0x202A, 0x202E), (0x203F, 0x2040), (0x2054, 0x2054), (0x2060, 0x206F), (0x2070, 0x20CF),
               (0x2100, 0x218F), (0x2460, 0x24FF), (0x2776, 0x2793), (0x2C00, 0x2DFF), (0x2E80, 0x2FFF), (0x3004, 0x3007),
               (0x3021, 0x302F), (0x3031, 0x303F), (0x3040, 0xD7FF), (0xF900, 0xFD3D), (0xFD40, 0xFDCF), (0xFDF0, 0xFE1F),
               (0xFE30, 0xFE44), (0xFE47, 0xFFFD)] + [(p * 0x10000, p * 0x10000 + 0xFFFD) for p in range(1, 15)]
_SWIFT_MORE = [(0x300, 0x36F), (0x1DC0, 0x1DFF), (0x20D0, 0x20FF), (0xFE20, 0xFE2F)]


def _in(ranges, c):
    o = ord(c)
    return any(a <= o <= b for a, b in ranges)


def id_start(lang, c):
    """may `c` start an identifier of `lang`?"""
    if c.isascii():
        return c == "_" or c.isalpha()
    cat = unicodedata.category(c)
    if lang == "go":
        return cat in _LETTER
    if lang in ("kotlin", "scala"):
        return cat in _LETTER or cat == "Nl"
    if lang == "typescript":
        return (cat in _LETTER or cat == "Nl" or c in _OTHER_ID_START) and c != "\u2e2f"
    if lang == "swift":
        return _in(_SWIFT_HEAD, c)
    return c.isalpha()


def id_part(lang, c):
    """may `c` continue an identifier of `lang`?"""
    if c.isascii():
        return c == "_" or c.isalnum()
    if id_start(lang, c):
        return True
    cat = unicodedata.category(c)
    if lang in ("go", "kotlin"):
        return cat == "Nd"
    if lang == "scala":
        return cat in ("Nd", "Mn", "Mc", "Pc") or c in _OTHER_ID_CONTINUE or c in _OTHER_ID_START
    if lang == "typescript":
        return cat in ("Nd", "Mn", "Mc", "Pc") or c in _OTHER_ID_CONTINUE
    if lang == "swift":
        return _in(_SWIFT_MORE, c)
    return c.isalnum()


def is_identifier(lang, s):
    """is `s` (outside back-ticks) spelled like an identifier of `lang`?  (keywords are not looked at)"""
    if lang == "python":
        return s.isidentifier()
    return s != "" and id_start(lang, s[0]) and all(id_part(lang, c) for c in s[1:])


def describe_char(c):
    return "U+%04X %s (category %s)" % (ord(c), unicodedata.name(c, "unnamed"), unicodedata.category(c))


STRAY_IS_LEXICAL_ERROR = ("go", "kotlin", "typescript")


def lex(lang, text):
    """tokens: (kind, text, line) with kind in id | bid | str | raw | num | nl | p | eof.
    Comments and blanks vanish; an unterminated comment / string literal is rejected."""
    cfg = LEX[lang]
    eol = "\n" if lang == "go" else "\n\r\u2028\u2029" if lang == "typescript" else "\n\r"
    toks = []
    i, n, line = 0, len(text), 1
    while i < n:
        c = text[i]
        if c == "\n" or (c in eol and not (c == "\r" and text[i + 1:i + 2] == "\n")):
            # a lone carriage return ends a line (and a line comment) in every one of these languages but Go
            toks.append(("nl", "\n", line))
            line += 1
            i += 1
        elif c in " \t\r":
            i += 1
        elif text.startswith("//", i):
            while i < n and text[i] not in eol:
                i += 1
        elif text.startswith("/*", i):
            start = line
            depth = 1
            i += 2
            while i < n and depth:
                if text.startswith("*/", i):
                    depth -= 1
                    i += 2
                elif cfg["nested"] and text.startswith("/*", i):
                    depth += 1
                    i += 2
                else:
                    if text[i] == "\n":
                        line += 1
                    i += 1
            if depth:
                raise Reject("unterminated block comment", ("p", "/*", start))
        elif cfg.get("triple") and text.startswith('"""', i):
            j = text.find('"""', i + 3)
            if j < 0:
                raise Reject("unterminated raw string literal", ("p", '"""', line))
            line += text.count("\n", i, j)
            toks.append(("str", text[i:j + 3], line))
            i = j + 3
        elif c in cfg["quotes"] or (c == "'" and cfg.get("char_lit")):
            j = i + 1
            while True:
                if j >= n or text[j] == "\n":
                    raise Reject("unterminated string literal", ("str", text[i:j], line))
                if text[j] == "\\":
                    j += 2
                    continue
                if text[j] == c:
                    break
                j += 1
            toks.append(("str", text[i:j + 1], line))
            i = j + 1
        elif c == "`" and cfg["raw_backtick"]:
            j = text.find("`", i + 1)
            if j < 0:
                raise Reject("unterminated raw string literal", ("raw", text[i:i + 20], line))
            toks.append(("raw", text[i:j + 1], line))
            line += text.count("\n", i, j)
            i = j + 1
        elif c == "`" and cfg["backtick_id"]:
            j = i + 1
            while j < n and text[j] not in "`\n":
                j += 1
            if j >= n or text[j] != "`" or j == i + 1:
                raise Reject("unterminated or empty back-tick identifier", ("bid", text[i:j], line))
            toks.append(("bid", text[i + 1:j], line))
            i = j + 1
        elif id_start(lang, c):
            j = i + 1
            while j < n and id_part(lang, text[j]):
                j += 1
            toks.append(("id", text[i:j], line))
            i = j
        elif c in "0123456789":
            j = i + 1
            while j < n and (text[j] in "._" or (text[j].isascii() and text[j].isalnum())):
                j += 1
            toks.append(("num", text[i:j], line))
            i = j
        elif not c.isascii() and lang == "typescript" and (unicodedata.category(c) == "Zs" or c == "\ufeff"):
            i += 1                       # ECMAScript white space
        elif not c.isascii() and lang in STRAY_IS_LEXICAL_ERROR:
            # Go, Kotlin and ECMAScript have no token that such a character could be part of (outside comments and literals):
            # "invalid character U+0301 in identifier" / "illegal character".  Swift and Scala have operator identifiers over
            # symbol characters, so there the character stays a token of its own and the parser decides.
            prev = toks[-1] if toks and toks[-1][0] == "id" and toks[-1][2] == line else None
            raise Reject("%s %s" % (describe_char(c), "cannot continue the %s identifier `%s`" % (lang, prev[1]) if prev
                                    else "can neither start a %s identifier nor is it punctuation" % lang), ("p", c, line))
        else:
            toks.append(("p", c, line))
            i += 1
    toks.append(("eof", "", line))
    return toks


# --------------------------------------------------------------------------------------------- parser base

class Parser:
    OPEN = {"(": ")", "[": "]", "{": "}"}

    def __init__(self, lang, text):
        self.lang = lang
        self.t = lex(lang, text)
        self.i = 0
        self.notes = []

    # raw position helpers
    def _skip(self):
        j = self.i
        while self.t[j][0] == "nl":
            j += 1
        return j

    def peek(self, k=0):
        j = self._skip()
        for _ in range(k):
            j += 1
            while self.t[j][0] == "nl":
                j += 1
        return self.t[min(j, len(self.t) - 1)]

    def next(self):
        j = self._skip()
        tok = self.t[j]
        if tok[0] != "eof":
            self.i = j + 1
        else:
            self.i = j
        return tok

    def at(self, text, kind=None):
        tok = self.peek()
        return tok[1] == text and tok[0] in ((kind,) if kind else ("id", "p"))

    def at_seq(self, *texts):
        return all(self.peek(k)[1] == x and self.peek(k)[0] in ("id", "p") for k, x in enumerate(texts))

    def eat(self, text):
        if self.at(text):
            self.next()
            return True
        return False

    def expect(self, *texts):
        for x in texts:
            tok = self.peek()
            if not (tok[1] == x and tok[0] in ("id", "p")):
                raise Reject("expected `%s`" % x, tok)
            self.next()

    def need_nl(self):
        """the next raw token must end the line (or close the enclosing block)"""
        tok = self.t[self.i]
        if tok[0] in ("nl", "eof") or (tok[0] == "p" and tok[1] in "})"):
            return
        raise Reject("expected end of line", tok)

    def eof(self):
        return self.peek()[0] == "eof"

    def string(self):
        tok = self.peek()
        if tok[0] != "str":
            raise Reject("expected a string literal", tok)
        return self.next()

    def number(self):
        tok = self.peek()
        if tok[0] != "num":
            raise Reject("expected a number", tok)
        return self.next()

    def ident(self, role="name"):
        """an identifier in a *declaring* position"""
        tok = self.peek()
        if tok[0] == "bid":
            return self.next()
        if tok[0] != "id":
            raise Reject("expected an identifier (%s)" % role, tok)
        if self.lang == "swift":
            if role == "label":
                if tok[1] in ("inout", "var", "let"):
                    raise Reject("keyword `%s` used as an argument label" % tok[1], tok)
            elif role == "member":
                pass
            elif role == "type":
                if tok[1] in SWIFT_RESERVED and tok[1][0].islower():
                    raise Reject("unescaped keyword `%s` in type position" % tok[1], tok)
            elif tok[1] in SWIFT_RESERVED:
                raise Reject("unescaped keyword `%s` used as an identifier (%s)" % (tok[1], role), tok)
        elif tok[1] in NOTE_WORDS[self.lang] and role != "member":
            self.notes.append((role, tok[1]))
        return self.next()

    def word(self, text):
        """a fixed keyword of the template"""
        tok = self.peek()
        if tok[0] != "id" or tok[1] != text:
            raise Reject("expected `%s`" % text, tok)
        return self.next()

    def soup(self, close, strict=False):
        """balanced token soup up to (and including) the closer that matches an already consumed opener"""
        stack = [close]
        prev = None
        # words after which an operand may follow without an operator (expression / statement keywords)
        PREFIX_WORDS = {"new", "typeof", "return", "if", "else", "const", "let", "var", "instanceof", "in", "of", "as", "throw",
                        "case", "delete", "void", "await", "yield", "function"}
        while stack:
            tok = self.next()
            if tok[0] == "eof":
                raise Reject("unclosed `%s`" % {")": "(", "]": "[", "}": "{"}[stack[-1]], tok)
            operand = tok[0] in ("str", "raw", "num", "id", "bid")
            if strict and operand and prev is not None and prev[0] in ("str", "raw", "num", "id", "bid") and not (
                    (prev[0] == "id" and prev[1] in PREFIX_WORDS) or (tok[0] == "id" and tok[1] in PREFIX_WORDS)):
                # two operands next to each other with no operator between them (e.g. `key === ""created-at""`)
                raise Reject("two adjacent operands %r %r" % (prev[1], tok[1]), tok)
            if tok[0] != "nl":
                prev = tok
            if tok[0] != "p":
                continue
            if tok[1] in self.OPEN:
                stack.append(self.OPEN[tok[1]])
            elif tok[1] in ")]}":
                if tok[1] != stack[-1]:
                    raise Reject("mismatched `%s`" % tok[1], tok)
                stack.pop()

    def dotted(self, role="name"):
        self.ident(role)
        while self.at("."):
            self.next()
            self.ident("member")

    def type_args(self, close):
        """the type arguments after an already consumed `<` / `[`: at least one (no target language has an empty type-argument list)"""
        if self.at(close):
            raise Reject("empty type-argument list `%s%s` after a type name" % ({">": "<", "]": "["}[close], close), self.peek())
        self.comma_list(self.type, close)

    def comma_list(self, item, close):
        """item (`,` item)* close — at least one item"""
        item()
        while self.eat(","):
            item()
        self.expect(close)


# --------------------------------------------------------------------------------------------- TypeScript

class TS(Parser):
    def file(self):
        while self.at("import"):
            self.next()
            self.expect("{")
            self.comma_list(lambda: self.ident("import"), "}")
            self.word("from")
            self.string()
            self.expect(";")
        while not self.eof():
            self.word("export")
            tok = self.peek()
            if tok[1] == "interface":
                self.next()
                self.ident("interface")
                self.tparams()
                self.expect("{")
                self.members("}")
            elif tok[1] == "type":
                self.next()
                self.ident("type alias")
                self.tparams()
                self.expect("=")
                self.type()
                self.expect(";")
            elif tok[1] == "enum":
                self.next()
                self.ident("enum")
                self.expect("{")
                while not self.at("}"):
                    self.ident("member")
                    self.expect("=")
                    self.string()
                    self.expect(",")
                self.expect("}")
            elif tok[1] == "const":
                self.next()
                self.ident("const")
                if self.eat(":"):
                    self.type()
                    self.expect("=")
                    self.number()
                    self.expect(";")
                else:
                    # the reviver / replacer helpers: an arrow function, kept as balanced soup
                    self.expect("=", "(")
                    self.soup(")", strict=True)
                    self.expect(":")
                    self.type()
                    self.expect("=", ">", "{")
                    self.soup("}", strict=True)
                    self.expect(";")
            else:
                raise Reject("expected interface / type / enum / const", tok)

    def tparams(self):
        if self.eat("<"):
            self.comma_list(lambda: self.ident("type parameter"), ">")

    def propname(self):
        if self.peek()[0] == "str":
            self.next()
        else:
            self.ident("member")

    def members(self, close):
        """property signatures up to the closer; `;` or `,` terminated"""
        while not self.at(close):
            if self.at("readonly") and self.peek(1)[1] not in (":", "?"):
                self.next()
            self.propname()
            self.eat("?")
            self.expect(":")
            self.type()
            if not (self.eat(";") or self.eat(",")):
                if not self.at(close):
                    raise Reject("expected `;`", self.peek())
        self.expect(close)

    def type(self):
        self.eat("|")
        self.postfix()
        while self.at("|") or self.at("&"):
            self.next()
            self.postfix()

    def postfix(self):
        self.primary()
        while self.at_seq("[", "]"):
            self.next()
            self.next()

    def primary(self):
        tok = self.peek()
        if tok[0] in ("str", "num"):
            self.next()
        elif tok[1] == "[" and tok[0] == "p":
            self.next()
            if not self.eat("]"):
                self.comma_list(self.type, "]")
        elif tok[1] == "{" and tok[0] == "p":
            self.next()
            self.members("}")
        elif tok[1] == "(" and tok[0] == "p":
            self.next()
            self.type()
            self.expect(")")
        elif tok[0] == "id":
            self.next()
            while self.at("."):
                self.next()
                self.ident("member")
            if self.eat("<"):
                self.type_args(">")
        else:
            raise Reject("expected a type", tok)


# --------------------------------------------------------------------------------------------- Kotlin

class Kotlin(Parser):
    def file(self):
        if self.at("package"):
            self.next()
            self.dotted("package")
            self.need_nl()
        while self.at("import"):
            self.next()
            self.dotted("import")
            self.need_nl()
        while not self.eof():
            self.decl()

    def annotations(self):
        while self.at("@"):
            self.next()
            self.dotted("annotation")
            if self.eat("("):
                self.string()
                self.expect(")")

    def tparams(self):
        if self.eat("<"):
            self.comma_list(lambda: self.ident("type parameter"), ">")

    def type(self):
        self.ident("type")
        while self.at("."):
            self.next()
            self.ident("member")
        if self.eat("<"):
            self.type_args(">")
        while self.eat("?"):
            pass

    def param(self):
        self.annotations()
        if self.at("private"):
            self.next()
        self.word("val")
        self.ident("parameter")
        self.expect(":")
        self.type()
        if self.eat("="):
            self.word("null")

    def body_opt(self):
        if self.eat("{"):
            self.soup("}")

    def decl(self):
        self.annotations()
        tok = self.peek()
        if tok[1] == "typealias":
            self.next()
            self.ident("typealias")
            self.tparams()
            self.expect("=")
            self.type()
            self.need_nl()
        elif tok[1] == "value":
            self.next()
            self.word("class")
            self.ident("class")
            self.expect("(")
            self.param()
            self.expect(")")
            self.body_opt()
            self.need_nl()
        elif tok[1] == "object":
            self.next()
            self.ident("object")
            self.need_nl()
        elif tok[1] == "data":
            self.next()
            self.word("class")
            self.ident("class")
            self.tparams()
            self.expect("(")
            self.comma_list(self.param, ")")
            self.body_opt()
            self.need_nl()
        elif tok[1] == "enum":
            self.next()
            self.word("class")
            self.ident("class")
            self.tparams()
            self.expect("(")
            self.param()
            self.expect(")", "{")
            while not self.at("}"):
                self.annotations()
                self.ident("enum entry")
                self.expect("(")
                self.string()
                self.expect(")", ",")
            self.expect("}")
            self.need_nl()
        elif tok[1] == "sealed":
            self.next()
            self.word("class")
            self.ident("class")
            self.tparams()
            self.expect("{")
            while not self.at("}"):
                self.annotations()
                if self.at("object"):
                    self.next()
                    self.ident("object")
                else:
                    self.word("data")
                    self.word("class")
                    self.ident("class")
                    self.tparams()
                    self.expect("(")
                    self.word("val")
                    self.ident("parameter")
                    self.expect(":")
                    self.type()
                    self.expect(")")
                self.expect(":")
                self.type()
                self.expect("(", ")")
                self.need_nl()
            self.expect("}")
            self.need_nl()
        else:
            raise Reject("expected a declaration", tok)


# --------------------------------------------------------------------------------------------- Swift

class Swift(Parser):
    def file(self):
        while self.at("import"):
            self.next()
            self.ident("import")
            self.need_nl()
        while not self.eof():
            self.word("public")
            tok = self.peek()
            if tok[1] == "struct":
                self.struct()
            elif tok[1] == "typealias":
                self.next()
                self.ident("typealias")
                if self.eat("<"):
                    self.comma_list(lambda: self.ident("generic parameter"), ">")
                self.expect("=")
                self.type()
                self.need_nl()
            elif tok[1] in ("enum", "indirect"):
                self.enum()
            else:
                raise Reject("expected struct / enum / typealias", tok)

    def generic_clause(self):
        if self.eat("<"):
            def gp():
                self.ident("generic parameter")
                self.expect(":")
                self.type()
                while self.eat("&"):
                    self.type()
            self.comma_list(gp, ">")

    def conformances(self):
        self.expect(":")
        self.type()
        while self.eat(","):
            self.type()

    def type(self):
        if self.eat("["):
            self.type()
            if self.eat(":"):
                self.type()
            self.expect("]")
        else:
            self.ident("type")
            while self.at("."):
                self.next()
                self.ident("member")
            if self.eat("<"):
                self.type_args(">")
        while self.eat("?"):
            pass

    def coding_keys(self):
        self.word("enum")
        self.word("CodingKeys")
        self.conformances()
        self.expect("{")
        self.word("case")

        def ck():
            self.ident("case")
            if self.eat("="):
                self.string()
        ck()
        while self.eat(","):
            ck()
        self.expect("}")

    def struct(self):
        self.word("struct")
        self.ident("struct")
        self.generic_clause()
        self.conformances()
        self.expect("{")
        while self.at_seq("public", "let"):
            self.next()
            self.next()
            self.ident("property")
            self.expect(":")
            self.type()
            self.need_nl()
        if self.at("enum"):
            self.coding_keys()
        if self.at("}"):
            # `public struct CodableVoid: Codable {}`
            self.next()
            return
        self.word("public")
        self.word("init")
        self.expect("(")
        if not self.eat(")"):
            def par():
                self.ident("label")
                self.expect(":")
                self.type()
            self.comma_list(par, ")")
        self.expect("{")
        while not self.at("}"):
            self.word("self")
            self.expect(".")
            self.ident("member")
            self.expect("=")
            self.ident("expression")
            self.need_nl()
        self.expect("}")
        self.expect("}")

    def enum(self):
        if self.at("indirect"):
            self.next()
        self.word("enum")
        self.ident("enum")
        self.generic_clause()
        self.conformances()
        self.expect("{")
        while self.at("case"):
            self.next()
            self.ident("case")
            if self.eat("="):
                self.string()
            elif self.eat("("):
                self.type()
                self.expect(")")
            self.need_nl()
        if self.at_seq("enum", "CodingKeys"):
            self.coding_keys()
        if self.at("private"):
            self.next()
            self.word("enum")
            self.word("ContainerCodingKeys")
            self.conformances()
            self.expect("{")
            self.word("case")
            self.ident("case")
            self.expect(",")
            self.ident("case")
            self.expect("}")
            self.word("public")
            self.word("init")
            self.expect("(")
            self.soup(")")
            self.word("throws")
            self.expect("{")
            self.soup("}")
            self.word("public")
            self.word("func")
            self.word("encode")
            self.expect("(")
            self.soup(")")
            self.word("throws")
            self.expect("{")
            self.soup("}")
        self.expect("}")
        self.need_nl()


# --------------------------------------------------------------------------------------------- Scala

class Scala(Parser):
    def file(self):
        if self.at("package") and self.peek(1)[1] != "object":
            save = self.i
            self.next()
            self.dotted("package")
            if self.at("{"):
                self.i = save         # it was the package block
            else:
                self.need_nl()
        if self.at_seq("package", "object"):
            self.next()
            self.next()
            self.ident("package object")
            self.expect("{")
            while not self.at("}"):
                self.alias()
            self.expect("}")
        if self.at("package"):
            self.next()
            self.ident("package")
            self.expect("{")
            while not self.at("}"):
                self.decl()
            self.expect("}")
        if not self.eof():
            raise Reject("unexpected text after the package block", self.peek())

    def tparams(self):
        if self.eat("["):
            self.comma_list(lambda: self.ident("type parameter"), "]")

    def type(self):
        self.ident("type")
        while self.at("."):
            self.next()
            self.ident("member")
        if self.eat("["):
            self.type_args("]")

    def alias(self):
        self.word("type")
        self.ident("type alias")
        self.tparams()
        self.expect("=")
        self.type()
        self.need_nl()

    def param(self):
        self.ident("parameter")
        self.expect(":")
        self.type()
        if self.eat("="):
            tok = self.peek()
            if tok[0] == "id" and tok[1] != "_":
                self.next()
            else:
                raise Reject("`%s` is not a default-value expression" % tok[1], tok)

    def klass(self):
        if self.at("class"):
            self.next()
            self.ident("class")
            self.word("extends")
            self.type()
            self.need_nl()
        else:
            self.word("case")
            self.word("class")
            self.ident("class")
            self.tparams()
            self.expect("(")
            self.comma_list(self.param, ")")
            self.need_nl()

    def decl(self):
        if self.at("sealed"):
            self.next()
            self.word("trait")
            self.ident("trait")
            self.tparams()
            self.expect("{")
            self.word("def")
            self.ident("def")
            self.expect(":")
            self.type()
            self.expect("}")
            self.word("object")
            self.ident("object")
            self.expect("{")
            while not self.at("}"):
                self.word("case")
                if self.at("object"):
                    self.next()
                    self.ident("object")
                else:
                    self.word("class")
                    self.ident("class")
                    self.tparams()
                    self.expect("(")
                    self.param()
                    self.expect(")")
                self.word("extends")
                self.type()
                self.expect("{")
                self.word("val")
                self.ident("val")
                self.expect(":")
                self.type()
                self.expect("=")
                self.string()
                self.expect("}")
            self.expect("}")
        else:
            self.klass()


# --------------------------------------------------------------------------------------------- Go

class Go(Parser):
    def file(self):
        self.word("package")
        self.ident("package")
        self.need_nl()
        while self.at("import"):
            self.next()
            if self.eat("("):
                while not self.at(")"):
                    self.string()
                    self.need_nl()
                self.expect(")")
            else:
                self.string()
            self.need_nl()
        while not self.eof():
            tok = self.peek()
            if tok[1] == "type":
                self.next()
                self.ident("type")
                if self.at("[") and self.peek(2)[1] == "any":
                    self.next()

                    def tp():
                        self.ident("type parameter")
                        self.word("any")
                    self.comma_list(tp, "]")
                if self.at_seq("struct", "{") and self.peek(2)[1] != "}":
                    self.next()
                    self.next()
                    self.fields()
                else:
                    self.type()
                self.need_nl()
            elif tok[1] == "const":
                self.next()
                if self.eat("("):
                    while not self.at(")"):
                        self.ident("const")
                        self.type()
                        self.expect("=")
                        self.string()
                        self.need_nl()
                    self.expect(")")
                else:
                    self.ident("const")
                    self.type()
                    self.expect("=")
                    self.number()
                self.need_nl()
            elif tok[1] == "func":
                self.next()
                if self.eat("("):
                    self.soup(")")
                self.ident("func")
                self.expect("(")
                self.soup(")")
                # result: everything up to the body's brace, on the same line
                while not self.at("{"):
                    t = self.t[self.i]
                    if t[0] in ("nl", "eof"):
                        raise Reject("function without a body", t)
                    if t[1] == "(" and t[0] == "p":
                        self.next()
                        self.soup(")")
                    elif t[1] == "interface" or t[1] == "struct":
                        self.type()
                    else:
                        self.next()
                self.expect("{")
                self.soup("}")
                self.need_nl()
            else:
                raise Reject("expected type / const / func", tok)

    def fields(self):
        while not self.at("}"):
            self.ident("field")
            self.type()
            if self.t[self.i][0] == "raw":
                self.next()
            self.need_nl()
        self.expect("}")

    def type(self):
        tok = self.peek()
        if tok[0] == "p" and tok[1] == "[":
            self.next()
            if not self.eat("]"):
                self.number()
                self.expect("]")
            self.type()
        elif tok[0] == "p" and tok[1] == "*":
            self.next()
            self.type()
        elif tok[1] == "map" and self.peek(1)[1] == "[":
            self.next()
            self.next()
            self.type()
            self.expect("]")
            self.type()
        elif tok[1] in ("struct", "interface") and self.peek(1)[1] == "{":
            self.next()
            self.next()
            if tok[1] == "struct":
                self.fields()
            else:
                self.expect("}")
        else:
            self.ident("type")
            if self.at("."):
                self.next()
                self.ident("member")
            if self.t[self.i][1] == "[" and self.t[self.i][0] == "p" and self.peek(1)[1] == "]" and self.peek(1)[0] == "p":
                # `[]` belongs in front of an element type; behind a type name it can only be an instantiation without arguments
                raise Reject("empty type-argument list `[]` after a type name", self.peek(1))
            if self.t[self.i][1] == "[" and self.t[self.i][0] == "p" and self.peek(1)[1] != "]" and self.peek(1)[0] != "num":
                self.next()
                self.comma_list(self.type, "]")


# --------------------------------------------------------------------------------------------- Python

def python_check(text):
    try:
        tree = ast.parse(text)
    except SyntaxError as e:
        return Reject("CPython: %s" % e.msg, ("p", (e.text or "").strip()[:60], e.lineno or 0))
    except ValueError as e:
        return Reject("CPython: %s" % e, ("p", "", 0))

    def is_doc(st):
        return isinstance(st, ast.Expr) and isinstance(st.value, ast.Constant) and isinstance(st.value.value, str)

    # doc strings: the only backslash sequences typeshare writes are a doubled backslash and backslash-quote
    # (TsV.C10.python_docstring_escapes_repaired, `C10PyDoc.pyEscapesOk`); anything else is an escape sequence the doc text
    # smuggled into the (non-raw) literal, which CPython rejects (backslash + x / u / U / N) or only warns about (backslash + s)
    for st in tree.body:
        for d in ([st] if is_doc(st) else [b for b in st.body if is_doc(b)] if isinstance(st, ast.ClassDef) else []):
            seg = ast.get_source_segment(text, d) or ""
            i = 0
            while i < len(seg):
                if seg[i] == "\\":
                    if i + 1 >= len(seg) or seg[i + 1] not in "\\\"":
                        return Reject("doc string contains the backslash sequence `%s` (neither `\\\\` nor `\\\"`)" % seg[i:i + 2],
                                      ("p", seg[i:i + 2], d.lineno))
                    i += 2
                else:
                    i += 1

    for st in tree.body:
        if is_doc(st) or isinstance(st, (ast.ImportFrom, ast.FunctionDef)):
            continue
        if isinstance(st, ast.Assign):
            if len(st.targets) == 1 and isinstance(st.targets[0], ast.Name):
                continue
            return Reject("assignment target is not a name (a declaration must define an identifier)",
                          ("p", ast.get_source_segment(text, st.targets[0]) or "", st.lineno))
        if isinstance(st, ast.AnnAssign):
            if isinstance(st.target, ast.Name) and st.simple:
                continue
            return Reject("annotated target is not a name", ("p", "", st.lineno))
        if isinstance(st, ast.ClassDef):
            for b in st.body:
                if is_doc(b) or isinstance(b, ast.Pass):
                    continue
                if isinstance(b, ast.AnnAssign) and isinstance(b.target, ast.Name):
                    continue
                if isinstance(b, ast.Assign) and len(b.targets) == 1 and isinstance(b.targets[0], ast.Name):
                    continue
                return Reject("class member is not a field declaration", ("p", ast.get_source_segment(text, b) or "", b.lineno))
            continue
        return Reject("top-level statement %s is not a declaration" % type(st).__name__, ("p", "", st.lineno))
    return None


# --------------------------------------------------------------------------------------------- entry point

PARSERS = {"typescript": TS, "kotlin": Kotlin, "swift": Swift, "scala": Scala, "go": Go}


def check(lang, text):
    """(None | Reject, notes)"""
    if lang == "python":
        return python_check(text), []
    p = None
    try:
        p = PARSERS[lang](lang, text)
        p.file()
        return None, p.notes
    except Reject as r:
        return r, (p.notes if p else [])
    except RecursionError:
        return Reject("recogniser recursion limit"), []


if __name__ == "__main__":
    import sys
    lang = sys.argv[1]
    for path in sys.argv[2:]:
        r, notes = check(lang, open(path, encoding="utf-8").read())
        print(path, "OK" if r is None else "REJECT " + r.describe())
