import TsV.Model.Lang.Kotlin
import TsV.Lemmas.C04_Common
/-!
# C04 for the Kotlin back end (`write_element`, kotlin.rs:432-472)
-/
namespace TsV.C04.Kt
open TsV TsV.Lang TsV.Lang.Kotlin TsV.C04

/-! ## binding semantics (trusted specification)

Kotlin's idiom for an optional constructor parameter is a nullable type with default `null`:
`val x: T? = null`.  `KtParam.dflt` is the text after the type: `? = null` completes the idiom by
itself; ` = null` completes it when the printed type already ends in `?`. -/

def isOptional (p : KtParam) : Bool :=
  p.dflt == s%"? = null" || (p.dflt == s%" = null" && endsWith p.ty s%"?")

/-- the type without the marker -/
def stripOptional (p : KtParam) : Str :=
  if p.dflt == s%" = null" && endsWith p.ty s%"?" then p.ty.dropLast else p.ty

/-! ## `format_type` on `Option` -/

theorem formatType_option (cfg : Cfg) (gens : List Str) (r : RustType) :
    formatType cfg gens (.option r) = (formatType cfg gens r).bind fun s => .ok (s ++ s%"?") := by
  rw [formatType]
  cases formatType cfg gens r <;> rfl

theorem formatType_option_ok {cfg : Cfg} {gens : List Str} {r : RustType} {t : Str}
    (h : formatType cfg gens (.option r) = .ok t) :
    ∃ s, formatType cfg gens r = .ok s ∧ t = s ++ s%"?" := by
  rw [formatType_option] at h
  obtain ⟨s, hs, h⟩ := bind_ok h
  exact ⟨s, hs, by simpa using h.symm⟩

/-! ## one field -/

theorem paramFacts_ok {cfg : Cfg} {gens : List Str} {rsn priv : Bool} {f : RustField} {p : KtParam}
    (h : paramFacts cfg gens rsn priv f = .ok p) :
    p.dflt = defaultSuffix f ∧
    (match typeOverride f .kotlin with
     | some t => p.ty = t
     | none => formatType cfg gens f.ty = .ok p.ty) := by
  unfold paramFacts at h
  obtain ⟨ty, hty, h⟩ := bind_ok h
  simp only [Outcome.ok.injEq] at h
  subst h
  refine ⟨rfl, ?_⟩
  cases ho : typeOverride f .kotlin with
  | some t => rw [ho] at hty; simp at hty; simp [hty]
  | none => rw [ho] at hty; simpa using hty

theorem defaultSuffix_option (f : RustField) (h : f.ty.isOptional = true) : defaultSuffix f = s%" = null" := by
  simp [defaultSuffix, h]

theorem defaultSuffix_default (f : RustField) (h : f.ty.isOptional = false) (hd : f.hasDefault = true) :
    defaultSuffix f = s%"? = null" := by
  simp [defaultSuffix, h, hd]

theorem defaultSuffix_required (f : RustField) (h : f.ty.isOptional = false) (hd : f.hasDefault = false) :
    defaultSuffix f = [] := by
  simp [defaultSuffix, h, hd]

/-- **Kotlin, one field** (no `kotlin(type = …)` override): the parameter is `T? = null` exactly
when the field is `Option<_>` or has `serde(default)`, and without the marker the type is the
translation of the `Option`-stripped Rust type -/
theorem field {cfg : Cfg} {gens : List Str} {rsn priv : Bool} {f : RustField} {p : KtParam}
    (hov : typeOverride f .kotlin = none) (h : paramFacts cfg gens rsn priv f = .ok p) :
    isOptional p = opt f ∧ formatType cfg gens (stripOption f.ty) = .ok (stripOptional p) := by
  obtain ⟨hd, ht⟩ := paramFacts_ok h
  rw [hov] at ht
  simp only at ht
  by_cases ho : f.ty.isOptional = true
  · obtain ⟨r, hr⟩ := (isOptional_iff _).1 ho
    rw [hr] at ht
    obtain ⟨s, hs, hts⟩ := formatType_option_ok ht
    have hdf := defaultSuffix_option f ho
    rw [hdf] at hd
    refine ⟨?_, ?_⟩
    · simp [isOptional, hd, hts, endsWith, opt, ho]
    · simp [stripOptional, hd, hts, endsWith, hr, stripOption, hs]
  · have ho' : f.ty.isOptional = false := by simpa using ho
    rw [stripOption_of_not_optional _ ho']
    cases hdef : f.hasDefault with
    | true =>
      rw [defaultSuffix_default f ho' hdef] at hd
      refine ⟨by simp [isOptional, hd, opt, hdef], ?_⟩
      have : stripOptional p = p.ty := by simp [stripOptional, hd]
      rw [this]; exact ht
    | false =>
      rw [defaultSuffix_required f ho' hdef] at hd
      refine ⟨by simp [isOptional, hd, opt, hdef, ho'], ?_⟩
      have : stripOptional p = p.ty := by simp [stripOptional, hd]
      rw [this]; exact ht

/-- with a `kotlin(type = "t")` override the text `t` replaces the translated type *including* the
`?` that `Option` would have contributed; the `serde(default)` marker is still appended -/
theorem field_override {cfg : Cfg} {gens : List Str} {rsn priv : Bool} {f : RustField} {p : KtParam} {t : Str}
    (hov : typeOverride f .kotlin = some t) (h : paramFacts cfg gens rsn priv f = .ok p) :
    p.ty = t ∧
    isOptional p = ((f.hasDefault && !f.ty.isOptional) || (f.ty.isOptional && endsWith t s%"?")) := by
  obtain ⟨hd, ht⟩ := paramFacts_ok h
  rw [hov] at ht
  simp only at ht
  refine ⟨ht, ?_⟩
  cases ho : f.ty.isOptional <;> cases hdef : f.hasDefault <;>
    simp [isOptional, hd, defaultSuffix, ho, hdef, ht]

/-! ## every field of a struct, of a struct variant; payloads; aliases -/

/-- the fact record belongs to the field -/
def FieldGen (cfg : Cfg) (gens : List Str) (f : RustField) (p : KtParam) : Prop :=
  ∃ rsn priv, paramFacts cfg gens rsn priv f = .ok p

theorem paramsFacts_pointwise (cfg : Cfg) (gens : List Str) (rsn : Bool) :
    ∀ (fs : List RustField) (ps : List KtParam), paramsFacts cfg gens rsn fs = .ok ps →
      Pointwise (FieldGen cfg gens) fs ps := by
  intro fs
  induction fs with
  | nil => intro ps h; simp [paramsFacts] at h; subst h; exact .nil
  | cons f t ih =>
    intro ps h
    simp only [paramsFacts] at h
    obtain ⟨p, hp, h⟩ := bind_ok h
    obtain ⟨rest, hrest, h⟩ := bind_ok h
    simp only [Outcome.ok.injEq] at h
    subst h
    exact .cons ⟨rsn, false, hp⟩ (ih rest hrest)

/-- the constructor parameters of a declaration -/
def params : KtDecl → List KtParam
  | .dataClass _ _ _ ps _ => ps
  | .valueClass _ _ p _ => [p]
  | _ => []

/-- **every field of every struct** has its parameter, in order -/
theorem struct_fields {cfg : Cfg} {rs : RustStruct} {d : KtDecl} (h : structFacts cfg rs = .ok d) :
    Pointwise (FieldGen cfg rs.genericTypes) rs.fields (params d) := by
  unfold structFacts at h
  split at h
  · rename_i he
    simp only [Outcome.ok.injEq] at h
    subst h
    have : rs.fields = [] := by simpa using he
    rw [this]; exact .nil
  · obtain ⟨ps, hps, h⟩ := bind_ok h
    simp only [Outcome.ok.injEq] at h
    subst h
    exact paramsFacts_pointwise _ _ _ _ _ hps

theorem structsFacts_pointwise (cfg : Cfg) : ∀ (ss : List RustStruct) (ds : List KtDecl),
    structsFacts cfg ss = .ok ds → Pointwise (fun s d => structFacts cfg s = .ok d) ss ds := by
  intro ss
  induction ss with
  | nil => intro ds h; simp [structsFacts] at h; subst h; exact .nil
  | cons s t ih =>
    intro ds h
    simp only [structsFacts] at h
    obtain ⟨d, hd, h⟩ := bind_ok h
    obtain ⟨rest, hrest, h⟩ := bind_ok h
    simp only [Outcome.ok.injEq] at h
    subst h
    exact .cons hd (ih rest hrest)

/-- **every field of every struct variant**: the helper classes come first, one per struct
variant in order, and their parameters belong to the variant's fields -/
theorem variant_fields {cfg : Cfg} {e : RustEnum} {ds : List KtDecl} (h : enumFacts cfg e = .ok ds) :
    ∃ inners last, ds = inners ++ [last] ∧
      Pointwise (fun (v : Id × List RustField) d => ∃ gens, Pointwise (FieldGen cfg gens) v.2 (params d))
        (structVariants e) inners := by
  unfold enumFacts at h
  obtain ⟨inners, hin, h⟩ := bind_ok h
  have hpw := structsFacts_pointwise cfg _ _ hin
  have hres : Pointwise (fun (v : Id × List RustField) d => ∃ gens, Pointwise (FieldGen cfg gens) v.2 (params d))
      (structVariants e) inners := by
    unfold innerStructs at hpw
    refine Pointwise.imp ?_ (Pointwise.of_map_left _ hpw)
    rintro ⟨id, fields⟩ d hd
    exact ⟨_, struct_fields hd⟩
  cases hk : e.keys with
  | none =>
    rw [hk] at h
    simp only [Outcome.ok.injEq] at h
    exact ⟨inners, _, h.symm, hres⟩
  | some kc =>
    obtain ⟨tag, content⟩ := kc
    rw [hk] at h
    simp only at h
    obtain ⟨cases, _, h⟩ := bind_ok h
    simp only [Outcome.ok.injEq] at h
    exact ⟨inners, _, h.symm, hres⟩

/-- **newtype-variant payload**: the marker lives in the type — the payload is printed as the
translation of the payload type (so `Option<T>` gives `T?`, by `formatType_option`) -/
theorem payload {cfg : Cfg} {e : RustEnum} {ck : Str} {id : Id} {cs : List Str} {ty : RustType} {c : KtCase}
    (h : caseFacts cfg e ck (.tuple id cs ty) = .ok c) :
    ∃ t, c.payload = .content ck t ∧ formatType cfg e.genericTypes ty = .ok t := by
  unfold caseFacts at h
  simp only at h
  obtain ⟨t, ht, h⟩ := bind_ok h
  simp only [Outcome.ok.injEq] at h
  subst h
  exact ⟨t, rfl, ht⟩

/-- **alias** (`type X = …` and newtype structs): a `typealias` of the translated type; with the
`JvmInline` decorator, a value class whose single parameter follows the field rule -/
theorem alias {cfg : Cfg} {a : RustTypeAlias} {d : KtDecl} (h : aliasFacts cfg a = .ok d) :
    (isInline a.decorators = false ∧ ∃ ty, d = .typeAlias a.comments (cfg.pfx ++ a.id.renamed)
        (genericSuffix a.genericTypes) ty ∧ formatType cfg a.genericTypes a.ty = .ok ty) ∨
    (isInline a.decorators = true ∧ ∃ p, params d = [p] ∧
        isOptional p = a.ty.isOptional ∧ formatType cfg [] (stripOption a.ty) = .ok (stripOptional p)) := by
  unfold aliasFacts at h
  split at h
  · rename_i hi
    right
    obtain ⟨p, hp, h⟩ := bind_ok h
    simp only [Outcome.ok.injEq] at h
    subst h
    have := field (f := valueField a.ty) (by simp [typeOverride, valueField]) hp
    exact ⟨hi, p, rfl, by simpa [opt, valueField] using this.1, by simpa [valueField] using this.2⟩
  · rename_i hi
    left
    obtain ⟨ty, hty, h⟩ := bind_ok h
    simp only [Outcome.ok.injEq] at h
    exact ⟨by simpa using hi, ty, h.symm, hty⟩

end TsV.C04.Kt
