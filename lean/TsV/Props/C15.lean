import TsV.Lemmas.C15
/-!
# C15 — documentation text is carried only inside comments of the generated code

Every back end prints the doc strings of a type, field, variant, struct-variant field or alias
through one comment renderer (`TypeScript.comments`, `Kotlin.comments`, `Swift.comments`,
`Scala.comments`, `Go.comments`, `Python.docstring`, `Python.hashComments`).  `Lemmas/C15_Spec.lean`
gives the trusted side: the comment lexers of the six languages, the renderers with the origin of
every character (`renderT`), `contained` (the lexer, started in `code`, is in a comment state before
and after every character that stems from the doc text, and is back in `code` at the end of the
block) and the decidable predicate `Bad` on one doc string.

* `C15_full`: every block of doc strings is contained, for every renderer.
* The pinned tree does not satisfy it (`C15_not_full`, one witness per renderer): a doc string with a
  line break leaves a `///`, `//` or `#` comment; `*/` ends a TypeScript block comment; an unescaped
  `"""` ends a Python docstring.
* `C15_iff`: the exact characterisation — a block is contained **iff** none of its strings is `Bad`;
  `C15_partial` / `C15_converse` are its two directions.
-/
namespace TsV.C15
open TsV TsV.Lang

/-- the property at full strength: whatever the doc strings contain, in all seven renderers of the six
back ends, at every indentation -/
def C15_full : Prop :=
  ∀ (sty : Style) (U : UnicodeOps) (indent : Nat) (docs : List Str), contained sty U indent docs = true

/-! ## the tagged renderers are the model's renderers -/

/-- forgetting the origin tags gives byte for byte the text the back-end model writes (which the
correspondence compares with the real generator) -/
theorem C15_render (sty : Style) (U : UnicodeOps) (indent : Nat) (docs : List Str) :
    erase (renderT sty U indent docs) = render sty U indent docs :=
  erase_renderT sty U indent docs

/-- … and the characters tagged "doc text" are exactly the doc strings as the printer writes them, in
order (only Swift changes them: trailing white space is stripped) -/
theorem C15_tags (sty : Style) (U : UnicodeOps) (indent : Nat) (docs : List Str) :
    docChars (renderT sty U indent docs) = docs.flatMap (written sty U) :=
  docChars_renderT sty U indent docs

/-! ## the pinned tree does not have the property: one witness per renderer -/

/-- `/** a */ b */`: the text after `*/` is TypeScript code -/
theorem witness_typescript : contained .typescript UnicodeOps.ascii 0 [s%"a */ b"] = false := by decide
/-- `#[doc = "a\nb"]` / a block doc comment: the second line is Kotlin code -/
theorem witness_kotlin : contained .kotlin UnicodeOps.ascii 0 [s%"a\nb"] = false := by decide
theorem witness_swift : contained .swift UnicodeOps.ascii 0 [s%"a\nb"] = false := by decide
theorem witness_scala : contained .scala UnicodeOps.ascii 0 [s%"a\nb"] = false := by decide
theorem witness_go : contained .go UnicodeOps.ascii 0 [s%"a\nb"] = false := by decide
/-- `a """ b` ends the docstring; the printer's closing `"""` then opens a string that is never closed -/
theorem witness_pyDoc : contained .pyDoc UnicodeOps.ascii 1 [s%"a \"\"\" b"] = false := by decide
theorem witness_pyHash : contained .pyHash UnicodeOps.ascii 0 [s%"a\nb"] = false := by decide

theorem C15_not_full : ¬ C15_full := fun h => by
  have := h .typescript UnicodeOps.ascii 0 [s%"a */ b"]
  rw [witness_typescript] at this
  exact Bool.noConfusion this

/-- no renderer has the property -/
theorem C15_fails_everywhere (sty : Style) :
    ∃ U indent docs, contained sty U indent docs = false := by
  cases sty
  · exact ⟨_, _, _, witness_typescript⟩
  · exact ⟨_, _, _, witness_kotlin⟩
  · exact ⟨_, _, _, witness_swift⟩
  · exact ⟨_, _, _, witness_scala⟩
  · exact ⟨_, _, _, witness_go⟩
  · exact ⟨_, _, _, witness_pyDoc⟩
  · exact ⟨_, _, _, witness_pyHash⟩

/-! ## exact characterisation -/

/-- a block of doc strings is carried inside the comment **iff** none of the strings is `Bad` -/
theorem C15_iff (sty : Style) (U : UnicodeOps) (indent : Nat) (docs : List Str) :
    contained sty U indent docs = true ↔ ∀ c ∈ docs, Bad sty U c = false := by
  rw [contained_eq]; simp

/-- outside the known classes the property holds -/
theorem C15_partial (sty : Style) (U : UnicodeOps) (indent : Nat) (docs : List Str)
    (h : ∀ c ∈ docs, Bad sty U c = false) : contained sty U indent docs = true :=
  (C15_iff sty U indent docs).2 h

/-- … and inside them it fails: one `Bad` string anywhere in the block breaks it -/
theorem C15_converse (sty : Style) (U : UnicodeOps) (indent : Nat) (docs : List Str) (c : Str)
    (hc : c ∈ docs) (hb : Bad sty U c = true) : contained sty U indent docs = false := by
  cases h : contained sty U indent docs with
  | false => rfl
  | true => have := (C15_iff sty U indent docs).1 h c hc; rw [hb] at this; exact Bool.noConfusion this

/-- the hypotheses of `C15_partial` are met by text that is dangerous for the *other* languages:
`*/`, `/*`, `//`, `#`, back-ticks, quotes and a trailing backslash are harmless in `///` lines -/
example : ∀ c ∈ [s%"a */ b /* c // d", s%"# `x` \"\"\" ''' \\"], Bad .kotlin UnicodeOps.ascii c = false := by
  decide
/-- line breaks, `//`, a trailing `*` and a leading `/` are harmless in `/** */` -/
example : ∀ c ∈ [s%"a\nb // c *", s%"/ \"\"\" \\"], Bad .typescript UnicodeOps.ascii c = false := by decide
/-- a trailing `"`, a trailing `\`, `*/`, line breaks and an *escaped* `\"""` are harmless in a docstring -/
example : ∀ c ∈ [s%"say \"hi\"", s%"a\\", s%"x */\ny", s%"\\\"\"\""], Bad .pyDoc UnicodeOps.ascii c = false := by
  decide
example : contained .pyDoc UnicodeOps.ascii 1 [s%"say \"hi\"", s%"a\\", s%"x */\ny", s%"\\\"\"\""] = true := by
  decide
/-- … and of `C15_converse`: the `Bad` string need not be the first one -/
example : s%"x\ny" ∈ [s%"fine", s%"x\ny"] ∧ Bad .go UnicodeOps.ascii s%"x\ny" = true := by decide

/-! ## reading `Bad` -/

/-- the line-comment back ends: exactly the strings with a character that ends a line comment -/
theorem Bad_line_comment (U : UnicodeOps) (c : Str) :
    (Bad .kotlin U c = true ↔ ∃ x ∈ c, x = '\n' ∨ x = '\r') ∧
    (Bad .go U c = true ↔ '\n' ∈ c) ∧
    (Bad .pyHash U c = true ↔ ∃ x ∈ c, x = '\n' ∨ x = '\r') := by
  simp [Bad, kotlinSyntax, goSyntax, pyEol]

/-- TypeScript: exactly the strings containing `*/` -/
theorem Bad_typescript (U : UnicodeOps) (c : Str) :
    Bad .typescript U c = Str.containsSub c s%"*/" := rfl

/-- Python docstrings: a string without `"""` is never bad … -/
theorem Bad_pyDoc_needs_triple_quote (U : UnicodeOps) (c : Str)
    (h : Str.containsSub c s%"\"\"\"" = false) : Bad .pyDoc U c = false := by
  cases hb : Bad .pyDoc U c with
  | false => rfl
  | true => rw [unescaped_imp_contains c false hb] at h; exact Bool.noConfusion h

/-- … and without backslashes `Bad` is exactly "contains `\"\"\"`" -/
theorem Bad_pyDoc_no_backslash (U : UnicodeOps) (c : Str) (h : ∀ x ∈ c, x ≠ '\\') :
    Bad .pyDoc U c = Str.containsSub c s%"\"\"\"" :=
  unescaped_eq_contains c h

example : Str.containsSub s%"ends with a quote\"" s%"\"\"\"" = false := by decide
example : ∀ x ∈ s%"a \"\"\" b", x ≠ '\\' := by decide

/-! ## a contained block is invisible to the lexer -/

/-- after a contained block the lexer is back in `code`: the text that follows the block is lexed as
if the block were not there (TypeScript, Kotlin, Swift, Scala, Go) -/
theorem C15_transparent_c (S : CSyntax) (t : TStr)
    (h : containedIn (cStep S) CSt.inComment .code t = true) (post : Str) :
    (erase t ++ post).foldl (cStep S) .code = post.foldl (cStep S) .code := by
  rw [List.foldl_append, ← final_eq_foldl, containedIn_final _ _ _ _ h]

/-- the same for Python -/
theorem C15_transparent_py (t : TStr)
    (h : containedIn pyStep PSt.inComment .code t = true) (post : Str) :
    (erase t ++ post).foldl pyStep .code = post.foldl pyStep .code := by
  rw [List.foldl_append, ← final_eq_foldl, containedIn_final _ _ _ _ h]

example : containedIn (cStep goSyntax) CSt.inComment .code
    (renderT .go UnicodeOps.ascii 1 [s%"doc */ \"x\""]) = true := by decide

/-! ## every documentable position goes through these renderers

`EmbedsBlock blk r`: as a function of the doc strings `cs` of one position, the rendered declaration
`r cs` is `pre ++ blk cs ++ post` for fixed `pre`, `post` — the doc strings enter the text only as the
comment block, verbatim, at one place.  One lemma per fact record that has a `comments` field. -/

def EmbedsBlock (blk r : List Str → Str) : Prop := ∃ pre post, ∀ cs, r cs = pre ++ (blk cs ++ post)

theorem embeds_prefix (blk r : List Str → Str) (h : ∀ cs, r cs = blk cs ++ r []) : EmbedsBlock blk r :=
  ⟨[], r [], fun cs => by simpa using h cs⟩
theorem embeds_suffix (blk r : List Str → Str) (h : ∀ cs, r cs = r [] ++ blk cs) : EmbedsBlock blk r :=
  ⟨r [], [], fun cs => by simpa using h cs⟩

/-! ### TypeScript (`/** */`; type-level and variant-level positions are written by `writeStruct`,
`writeAlias`, `writeEnum`, `writeVariant` as `comments 0 x.comments ++ …` / `nl ++ comments 1 v.comments ++ …`) -/
theorem ts_field (f : TypeScript.TsField) :
    EmbedsBlock (TypeScript.comments 1) fun cs => TypeScript.renderField { f with comments := cs } :=
  embeds_prefix _ _ fun cs => by simp [TypeScript.renderField, TypeScript.comments]

/-! ### Kotlin (`///`) -/
theorem kt_param (p : Kotlin.KtParam) :
    EmbedsBlock (Kotlin.comments 1) fun cs => Kotlin.renderParam { p with comments := cs } :=
  embeds_prefix _ _ fun cs => by simp [Kotlin.renderParam, Kotlin.comments]
theorem kt_entry (p : Kotlin.KtEntry) :
    EmbedsBlock (Kotlin.comments 1) fun cs => Kotlin.renderEntry { p with comments := cs } :=
  embeds_prefix _ _ fun cs => by simp [Kotlin.renderEntry, Kotlin.comments]
theorem kt_case (p : Kotlin.KtCase) :
    EmbedsBlock (Kotlin.comments 1) fun cs => Kotlin.renderCase { p with comments := cs } :=
  embeds_prefix _ _ fun cs => by simp [Kotlin.renderCase, Kotlin.comments]
/-- all six kinds of Kotlin declarations start with the comment block of the type -/
theorem kt_decl (d : Kotlin.KtDecl) : ∃ cs post, Kotlin.renderDecl d = Kotlin.comments 0 cs ++ post := by
  cases d <;> exact ⟨_, _, by simp only [Kotlin.renderDecl, List.append_assoc]; rfl⟩

/-! ### Swift (`///`, trailing white space stripped) -/
theorem sw_prop (U : UnicodeOps) (p : Swift.StoredProp) :
    EmbedsBlock (Swift.comments U 1) fun cs => Swift.renderProp U { p with comments := cs } :=
  embeds_prefix _ _ fun cs => by simp [Swift.renderProp, Swift.comments]
theorem sw_struct (U : UnicodeOps) (s : Swift.SwiftStruct) :
    EmbedsBlock (Swift.comments U 0) fun cs => Swift.renderStruct U { s with comments := cs } :=
  ⟨nl, (Swift.renderStruct U { s with comments := [] }).drop 1, fun cs => by
    simp [Swift.renderStruct, Swift.comments, nl]⟩
theorem sw_unit_case (U : UnicodeOps) (c : Swift.EnumCase) :
    EmbedsBlock (Swift.comments U 1) fun cs => Swift.renderUnitCase U { c with comments := cs } :=
  embeds_prefix _ _ fun cs => by simp [Swift.renderUnitCase, Swift.comments]
theorem sw_algebraic_case (U : UnicodeOps) (c : Swift.EnumCase) :
    EmbedsBlock (Swift.comments U 1) fun cs => Swift.renderAlgebraicCase U { c with comments := cs } :=
  embeds_prefix _ _ fun cs => by simp [Swift.renderAlgebraicCase, Swift.comments]
theorem sw_enum (U : UnicodeOps) (e : Swift.SwiftEnum) :
    EmbedsBlock (Swift.comments U 0) fun cs => Swift.renderEnum U { e with comments := cs } :=
  embeds_prefix _ _ fun cs => by simp [Swift.renderEnum, Swift.comments]

/-! ### Scala (`//`) -/
theorem sc_param (p : Scala.ScParam) :
    EmbedsBlock (Scala.comments 1) fun cs => Scala.renderParam { p with comments := cs } :=
  embeds_prefix _ _ fun cs => by simp [Scala.renderParam, Scala.comments]
theorem sc_class (c : Scala.ScClass) :
    EmbedsBlock (Scala.comments 0) fun cs => Scala.renderClass { c with comments := cs } :=
  embeds_prefix _ _ fun cs => by simp [Scala.renderClass, Scala.comments]
theorem sc_alias (a : Scala.ScAlias) :
    EmbedsBlock (Scala.comments 0) fun cs => Scala.renderAlias { a with comments := cs } :=
  embeds_prefix _ _ fun cs => by simp [Scala.renderAlias, Scala.comments]
theorem sc_case (c : Scala.ScCase) :
    EmbedsBlock (Scala.comments 1) fun cs => Scala.renderCase { c with comments := cs } :=
  embeds_prefix _ _ fun cs => by simp [Scala.renderCase, Scala.comments]
theorem sc_enum (e : Scala.ScEnum) :
    EmbedsBlock (Scala.comments 0) fun cs => Scala.renderEnum { e with comments := cs } :=
  ⟨e.inner.flatMap Scala.renderClass, _, fun cs => by simp only [Scala.renderEnum, List.append_assoc]; rfl⟩

/-! ### Go (`//`; the algebraic enum `renderAlgEnum` writes `comments 0 e.comments` after the structs of the
struct variants and `comments 1 v.comments` in front of every constant, `renderUnitEnum` likewise) -/
theorem go_field (f : Go.GoField) :
    EmbedsBlock (Go.comments 1) fun cs => Go.renderField { f with comments := cs } :=
  embeds_prefix _ _ fun cs => by simp [Go.renderField, Go.comments]
theorem go_struct (d : Go.GoStruct) :
    EmbedsBlock (Go.comments 0) fun cs => Go.renderStruct { d with comments := cs } :=
  embeds_prefix _ _ fun cs => by simp [Go.renderStruct, Go.comments]
theorem go_alias (a : Go.GoAlias) :
    EmbedsBlock (Go.comments 0) fun cs => Go.renderAlias { a with comments := cs } :=
  embeds_prefix _ _ fun cs => by simp [Go.renderAlias, Go.comments]
theorem go_unit_enum (e : Go.GoUnitEnum) :
    EmbedsBlock (Go.comments 0) fun cs => Go.renderUnitEnum { e with comments := cs } :=
  embeds_prefix _ _ fun cs => by simp [Go.renderUnitEnum, Go.comments]

/-! ### Python (docstrings after the declaration line; `#` lines in front of a union alias) -/
theorem py_field (f : Python.PyField) :
    EmbedsBlock (Python.docstring 1) fun cs => Python.renderField { f with comments := cs } :=
  embeds_suffix _ _ fun cs => by simp [Python.renderField, Python.docstring]
theorem py_alias (a : Python.PyAlias) :
    EmbedsBlock (Python.docstring 0) fun cs => Python.renderAlias { a with comments := cs } :=
  embeds_suffix _ _ fun cs => by simp [Python.renderAlias, Python.docstring]
theorem py_class (c : Python.PyClass) :
    EmbedsBlock (Python.docstring 1) fun cs => Python.renderClass { c with comments := cs } :=
  ⟨s%"class " ++ c.name ++ s%"(" ++
      (if c.generics.isEmpty then s%"BaseModel"
       else s%"BaseModel, Generic[" ++ Str.intercalate s%", " c.generics ++ s%"]") ++ s%"):\n",
   (if c.modelConfig then s%"    model_config = ConfigDict(populate_by_name=True)\n\n" else []) ++
      (c.fields.flatMap Python.renderField) ++ (if c.fields.isEmpty then s%"    pass" else []) ++ nl,
   fun cs => by simp [Python.renderClass]⟩
theorem py_enum_class (c : Python.PyEnumClass) :
    EmbedsBlock (Python.docstring 1) fun cs => Python.renderEnumClass { c with comments := cs } :=
  ⟨s%"class " ++ c.name ++ s%"(str, Enum):\n", _, fun cs => by simp only [Python.renderEnumClass, List.append_assoc]; rfl⟩
theorem py_variant (v : Python.PyVariant) :
    EmbedsBlock (Python.docstring 1) fun cs => Python.renderVariant { v with comments := cs } :=
  ⟨s%"class " ++ v.className ++ s%"(BaseModel):\n", _, fun cs => by simp only [Python.renderVariant, List.append_assoc]; rfl⟩
theorem py_union (u : Python.PyUnion) :
    EmbedsBlock (Python.hashComments 0) fun cs => Python.renderUnion { u with comments := cs } :=
  ⟨(u.inner.flatMap Python.renderClass) ++ s%"class " ++ u.typesName ++ s%"(str, Enum):\n" ++
    Str.intercalate nl (u.tags.map fun m => s%"    " ++ m.name ++ s%" = \"" ++ m.wire ++ s%"\"") ++ nl ++ nl ++
    (u.variants.flatMap Python.renderVariant), _,
   fun cs => by simp only [Python.renderUnion, List.append_assoc]; rfl⟩
/-! the members of a unit enum (`PyMember`) get `docstring 1 m.comments` after their line inside
`renderEnumClass`; `tags` of a union carry no doc strings -/

end TsV.C15
