import TsV.Lemmas.C01_Reviver_Tie
import TsV.Lemmas.C12_TypeScript
/-!
# C01, second binding — the keys of TypeScript's `ReviverFunc`

TypeScript binds JSON keys a second time: `end_file` writes a `ReviverFunc` whose `Date` clause
lists `key === "k"` for the keys recorded in `types_for_custom_json_translation` (model:
`CustomMap`; `Lang.TypeScript.reviverDate (keysOf st "Date")` is the clause, `reviver_clause`).

* `C01_Reviver` (**soundness**, full strength): every key recorded for a custom-translated type at
  the end of a file was recorded when the file began (the same `TypeScript` value is reused for the
  crates of a run) or is the wire name `id.renamed` of a field of this file whose property line —
  printed in the file, carrying that key (`tf.name = propertyName k`, so `boundKey tf = k` on the key
  alphabet, cf. `C01.C01_typescript`) — has exactly that printed type.
* `C01_Reviver_listed_iff` (**exact content**): a key is listed iff some field added it and no
  *reset* of that type happened afterwards (or it was there before the file and no reset happened at
  all).  Resets are computed by `resetsOf`: a special Rust type whose display the configuration maps
  to a custom-translated type re-inserts an empty set in `format_special_type`.
* `C01_Reviver_complete`: without resets (decidable on the steps of the file; in particular when no
  mapping targets `Date` / `Uint8Array`, `NoCustomTarget`) every field printed with a
  custom-translated type is listed.  `C01_Reviver_not_complete`: with `"Vec<u8>" ↦ "Date"` the list
  loses the `Date` field printed before the mapped one.
* run level: `C01_Reviver_run` — in a multi-file run the keys listed in the module of a crate come
  from the fields of that module *or of a module generated before it*;
  `C01_Reviver_not_file_local` — they need not come from the module itself.
-/
namespace TsV.C01_Reviver
open TsV TsV.Lang TsV.Lang.TypeScript TsV.C01R TsV.C01

/-! ## trusted reading of the reviver -/

/-- the keys the `Date` clause of the reviver names (`key === "k"`) -/
def reviverKeys (st : CustomMap) : List Str := keysOf st s%"Date"

/-- which values the `Date` clause `reviverDate ids` converts: with an empty list there is no
`&& (key === …)` condition at all, every date-shaped string is converted -/
def Revives (ids : List Str) (k : Str) : Prop := ids = [] ∨ k ∈ ids

instance (ids : List Str) (k : Str) : Decidable (Revives ids k) := by unfold Revives; infer_instance

/-- the `Date` clause of the footer is `reviverDate` of the recorded keys (and the footer is
written), whenever `Date` has an entry -/
theorem reviver_clause (st : CustomMap) (h : s%"Date" ∈ C12L.TypeScript.keys st) :
    (reviverDate (reviverKeys st), replacerDate) ∈ C12L.TypeScript.clauses st ∧
    ∃ pre, endFile st = pre ++
      s%"export const ReviverFunc = (key: string, value: unknown): unknown => {\n    " ++
      Str.intercalate s%"\n    " ((C12L.TypeScript.clauses st).map (·.1)) ++
      s%"\n    return value;\n};\n\nexport const ReplacerFunc = (key: string, value: unknown): unknown => {\n    " ++
      Str.intercalate s%"\n    " ((C12L.TypeScript.clauses st).map (·.2)) ++ s%"\n    return value;\n};\n" :=
  C12L.TypeScript.endFile_provides st s%"Date" h (by decide)

/-! ## the steps of a file -/

/-- `steps` is the printer's walk over the file generated for `d` from state `st0`, ending in `st` -/
def FileSteps (cfg : Cfg) (d : ParsedData) (st0 : CustomMap) (steps : List Step) (st : CustomMap) : Prop :=
  ∃ items, Pipeline.generateOrder d = some items ∧ itemsSteps cfg items st0 = .ok (steps, st)

/-- a successful `generate` has its steps: same final state, every property line printed, every
field step made by `fieldFacts` (so it carries the field's wire name), the state is the trace of the
steps' events, and the footer written for that state ends the text -/
theorem generate_steps (U : UnicodeOps) (cfg : Cfg) (d : ParsedData) (imports : Option Pipeline.ScopedCrateTypes)
    (st0 : CustomMap) (text : Str) (st : CustomMap) (h : generate U cfg d imports st0 = .ok (text, st)) :
    ∃ steps, FileSteps cfg d st0 steps st ∧ Printed steps text ∧ (∀ s ∈ steps, StepOk cfg s) ∧
      st = run st0 (eventsOf cfg steps) ∧ ∃ pre, text = pre ++ endFile st := by
  unfold generate at h
  cases ho : Pipeline.generateOrder d with
  | none => simp [ho] at h
  | some items =>
    simp only [ho] at h
    obtain ⟨body, st1, hb, h⟩ := bindPair h
    simp only [Outcome.ok.injEq, Prod.mk.injEq] at h
    obtain ⟨rfl, rfl⟩ := h
    obtain ⟨steps, hs, hp⟩ := writeItems_steps U cfg items st0 st1 body hb
    refine ⟨steps, ⟨items, ho, hs⟩, ?_, itemsSteps_stepOk cfg items st0 st1 steps hs,
      itemsSteps_state cfg items st0 st1 steps hs, ⟨_, rfl⟩⟩
    intro f tf hm
    exact infix_left _ (infix_right _ (hp f tf hm))

/-- the steps are a function of the input -/
theorem fileSteps_unique {cfg : Cfg} {d : ParsedData} {st0 : CustomMap} {s1 s2 : List Step} {a b : CustomMap}
    (h1 : FileSteps cfg d st0 s1 a) (h2 : FileSteps cfg d st0 s2 b) : s1 = s2 ∧ a = b := by
  obtain ⟨i1, ho1, hs1⟩ := h1
  obtain ⟨i2, ho2, hs2⟩ := h2
  rw [ho1] at ho2
  cases ho2
  rw [hs1] at hs2
  simp only [Outcome.ok.injEq, Prod.mk.injEq] at hs2
  exact hs2

/-! ## soundness -/

/-- "`k` is the key of a field of the file whose printed type is `t`": a field step with that wire
name and printed type, whose property line is in the text and carries the key -/
def DeclaredIn (steps : List Step) (text : Str) (t k : Str) : Prop :=
  ∃ f tf, Step.field f tf ∈ steps ∧ tf.ty = t ∧ f.id.renamed = k ∧ tf.name = propertyName k ∧
    renderField tf <:+: text

/-- **C01_Reviver at full strength**: for every configuration, input, import list and initial
printer state, every key recorded for a translated type `t` (for `t = "Date"`: every key the reviver
lists) was recorded before the file or is declared in the file by a property of printed type `t` -/
def C01_Reviver_full : Prop :=
  ∀ (U : UnicodeOps) (cfg : Cfg) (d : ParsedData) (imports : Option Pipeline.ScopedCrateTypes)
    (st0 : CustomMap) (text : Str) (st : CustomMap),
    generate U cfg d imports st0 = .ok (text, st) →
    ∃ steps, FileSteps cfg d st0 steps st ∧
      ∀ t k, k ∈ keysOf st t → k ∈ keysOf st0 t ∨ DeclaredIn steps text t k

theorem C01_Reviver : C01_Reviver_full := by
  intro U cfg d imports st0 text st h
  obtain ⟨steps, hfs, hp, hok, hst, _⟩ := generate_steps U cfg d imports st0 text st h
  refine ⟨steps, hfs, ?_⟩
  intro t k hk
  rw [hst] at hk
  rcases mem_run_sound t k _ _ hk with hk | hk
  · exact Or.inl hk
  · obtain ⟨f, tf, hm, hty, hren, _⟩ := add_mem_eventsOf hk
    refine Or.inr ⟨f, tf, hm, hty, hren, ?_, hp f tf hm⟩
    rw [← hren]
    exact (hok _ hm).1

/-- single-file mode / the first module of a run (`st0 = []`): every key the reviver lists is
declared in this file by a `Date` property -/
theorem C01_Reviver_first (U : UnicodeOps) (cfg : Cfg) (d : ParsedData) (imports : Option Pipeline.ScopedCrateTypes)
    (text : Str) (st : CustomMap) (h : generate U cfg d imports [] = .ok (text, st)) :
    ∃ steps, FileSteps cfg d [] steps st ∧ ∀ k ∈ reviverKeys st, DeclaredIn steps text s%"Date" k := by
  obtain ⟨steps, hfs, hs⟩ := C01_Reviver U cfg d imports [] text st h
  refine ⟨steps, hfs, fun k hk => ?_⟩
  rcases hs _ k hk with h0 | h0
  · simp [keysOf, cmGet] at h0
  · exact h0

/-- on the key alphabet the declaring property binds exactly the listed key (C01's binding semantics) -/
theorem declared_binds {steps : List Step} {text t k : Str} (h : DeclaredIn steps text t k) (hk : KeyStr k) :
    ∃ f tf, Step.field f tf ∈ steps ∧ tf.ty = t ∧ TypeScript.boundKey tf = k ∧ f.id.renamed = k ∧
      renderField tf <:+: text := by
  obtain ⟨f, tf, hm, hty, hren, hname, hinf⟩ := h
  exact ⟨f, tf, hm, hty, TypeScript.boundKey_of_name tf k hname hk, hren, hinf⟩

/-! ## exact content, completeness -/

/-- **exact content of the list**: with `evs` the events of the file's steps, `k` is recorded for `t`
at the end iff it was recorded before and `t` was never reset, or a field added it and `t` was not
reset afterwards -/
theorem C01_Reviver_listed_iff (U : UnicodeOps) (cfg : Cfg) (d : ParsedData) (imports : Option Pipeline.ScopedCrateTypes)
    (st0 : CustomMap) (text : Str) (st : CustomMap) (h : generate U cfg d imports st0 = .ok (text, st)) :
    ∃ steps, FileSteps cfg d st0 steps st ∧ ∀ t k,
      (k ∈ keysOf st t ↔
        (k ∈ keysOf st0 t ∧ Ev.reset t ∉ eventsOf cfg steps) ∨
        ∃ pre post, eventsOf cfg steps = pre ++ Ev.add t k :: post ∧ Ev.reset t ∉ post) := by
  obtain ⟨steps, hfs, _, _, hst, _⟩ := generate_steps U cfg d imports st0 text st h
  refine ⟨steps, hfs, fun t k => ?_⟩
  rw [hst]
  exact mem_run_iff t k _ _

/-- where the events come from: an `add` is a field printed with a custom-translated type, under its
wire name; a `reset` is a special Rust type (of a field without a type override, of a tuple payload,
an alias target or a const) that the configuration maps to the custom-translated type -/
theorem events_origin (cfg : Cfg) (steps : List Step) :
    (∀ t k, Ev.add t k ∈ eventsOf cfg steps ↔
      ∃ f tf, Step.field f tf ∈ steps ∧ tf.ty = t ∧ f.id.renamed = k ∧ hasCustom t = true) ∧
    (∀ t, Ev.reset t ∈ eventsOf cfg steps →
      ∃ r, (Step.ty r ∈ steps ∨ ∃ f tf, Step.field f tf ∈ steps ∧ f.ty = r ∧ typeOverride f .typescript = none) ∧
        t ∈ resetsOf cfg r) := by
  refine ⟨fun t k => ⟨add_mem_eventsOf, ?_⟩, fun t => reset_mem_eventsOf⟩
  rintro ⟨f, tf, hm, rfl, rfl, hc⟩
  exact add_of_field hm hc

/-- a reset of the top-level type itself needs a type mapping from the display of a special type to
a custom-translated type -/
theorem reset_needs_mapping {cfg : Cfg} {t : RustType} {inner : List Str} {m : Str} (h : m ∈ spResets cfg t inner) :
    (mapGet cfg.typeMappings t.display = some m ∧ hasCustom m = true) ∨ m ∈ inner := mem_spResets h

/-- "no type of the file is reset": decidable on the steps -/
def NoResets (cfg : Cfg) (steps : List Step) : Prop :=
  ∀ e ∈ eventsOf cfg steps, (match e with | .reset _ => false | .add _ _ => true) = true

instance (cfg : Cfg) (steps : List Step) : Decidable (NoResets cfg steps) := by unfold NoResets; infer_instance

theorem NoResets.not_mem {cfg : Cfg} {steps : List Step} (h : NoResets cfg steps) (t : Str) :
    Ev.reset t ∉ eventsOf cfg steps := fun hm => by simpa using h _ hm

/-- **completeness without resets**: every field of the file printed with a custom-translated type
has its wire name recorded (for `Date`: listed by the reviver), and what was recorded before stays -/
theorem C01_Reviver_complete (U : UnicodeOps) (cfg : Cfg) (d : ParsedData) (imports : Option Pipeline.ScopedCrateTypes)
    (st0 : CustomMap) (text : Str) (st : CustomMap) (h : generate U cfg d imports st0 = .ok (text, st)) :
    ∃ steps, FileSteps cfg d st0 steps st ∧ (NoResets cfg steps →
      (∀ f tf, Step.field f tf ∈ steps → hasCustom tf.ty = true → f.id.renamed ∈ keysOf st tf.ty) ∧
      ∀ t k, k ∈ keysOf st0 t → k ∈ keysOf st t) := by
  obtain ⟨steps, hfs, _, _, hst, _⟩ := generate_steps U cfg d imports st0 text st h
  refine ⟨steps, hfs, fun hn => ⟨?_, ?_⟩⟩
  · intro f tf hm hc
    rw [hst]
    exact mem_run_complete _ _ _ _ (hn.not_mem _) (Or.inr (add_of_field hm hc))
  · intro t k hk
    rw [hst]
    exact mem_run_complete _ _ _ _ (hn.not_mem _) (Or.inl hk)

/-- a configuration-level sufficient condition: no type mapping targets `Date` / `Uint8Array` -/
theorem noResets_of_cfg {cfg : Cfg} (H : NoCustomTarget cfg) (steps : List Step) : NoResets cfg steps := by
  intro e he
  cases e with
  | reset t => exact absurd he (eventsOf_noReset H steps t)
  | add t k => rfl

/-! ## the run -/

/-- the modules of a run: per crate the text, the steps and the state the module ends in -/
inductive RunSteps (U : UnicodeOps) (cfg : Cfg) :
    List (Str × ParsedData × Option Pipeline.ScopedCrateTypes) → CustomMap →
    List (Str × Str × List Step × CustomMap) → Prop
  | nil (st : CustomMap) : RunSteps U cfg [] st []
  | cons {c d imps rest st text steps st1 r} :
      generate U cfg d imps st = .ok (text, st1) → FileSteps cfg d st steps st1 →
      RunSteps U cfg rest st1 r → RunSteps U cfg ((c, d, imps) :: rest) st ((c, text, steps, st1) :: r)

theorem generateFrom_runSteps (U : UnicodeOps) (cfg : Cfg) :
    ∀ (jobs : List (Str × ParsedData × Option Pipeline.ScopedCrateTypes)) (st : CustomMap) (outs : List (Str × Str)),
      generateFrom U cfg jobs st = .ok outs →
      ∃ r, RunSteps U cfg jobs st r ∧ outs = r.map fun x => (x.1, x.2.1)
  | [], st, outs, h => by
    simp only [generateFrom, Outcome.ok.injEq] at h
    subst h
    exact ⟨[], .nil st, rfl⟩
  | (c, d, imps) :: rest, st, outs, h => by
    simp only [generateFrom] at h
    obtain ⟨text, st1, h1, h⟩ := bindPair h
    obtain ⟨os, h2, h⟩ := bindOk h
    simp only [Outcome.ok.injEq] at h
    subst h
    obtain ⟨steps, hfs, _⟩ := generate_steps U cfg d imps st text st1 h1
    obtain ⟨r, hr, rfl⟩ := generateFrom_runSteps U cfg rest st1 os h2
    exact ⟨(c, text, steps, st1) :: r, .cons h1 hfs hr, rfl⟩

/-- **the run**: the keys recorded at the end of a module were recorded before the run or are
declared — by a property of that printed type — in this module or in a module generated before it -/
theorem C01_Reviver_run (U : UnicodeOps) (cfg : Cfg)
    {jobs : List (Str × ParsedData × Option Pipeline.ScopedCrateTypes)} {st0 : CustomMap}
    {r : List (Str × Str × List Step × CustomMap)} (h : RunSteps U cfg jobs st0 r) :
    ∀ pre x post, r = pre ++ x :: post → ∀ t k, k ∈ keysOf x.2.2.2 t →
      k ∈ keysOf st0 t ∨ ∃ y ∈ pre ++ [x], DeclaredIn y.2.2.1 y.2.1 t k := by
  induction h with
  | nil st => intro pre x post he; simp at he
  | @cons c d imps rest st text steps st1 r hg hfs _ ih =>
    intro pre x post he t k hk
    obtain ⟨steps', hfs', hs⟩ := C01_Reviver U cfg d imps st text st1 hg
    obtain ⟨rfl, _⟩ := fileSteps_unique hfs hfs'
    cases pre with
    | nil =>
      simp only [List.nil_append, List.cons.injEq] at he
      obtain ⟨rfl, _⟩ := he
      rcases hs t k hk with h0 | h0
      · exact Or.inl h0
      · exact Or.inr ⟨(c, text, steps, st1), by simp, h0⟩
    | cons y pre' =>
      simp only [List.cons_append, List.cons.injEq] at he
      obtain ⟨rfl, he⟩ := he
      rcases ih pre' x post he t k hk with h1 | ⟨z, hz, hd⟩
      · rcases hs t k h1 with h0 | h0
        · exact Or.inl h0
        · exact Or.inr ⟨(c, text, steps, st1), by simp, h0⟩
      · exact Or.inr ⟨z, by simp only [List.cons_append, List.mem_cons]; exact Or.inr hz, hd⟩

/-- the whole run as `generateAll` performs it (initial state empty) -/
theorem C01_Reviver_generateAll (E : Ext) (cfg : Cfg) (mf : Bool)
    (jobs : List (Str × ParsedData × Option Pipeline.ScopedCrateTypes)) (outs : List (Str × Str))
    (h : generateAll E cfg mf jobs = .ok outs) :
    ∃ r, RunSteps E.U cfg jobs [] r ∧ outs = (r.map fun x => (x.1, x.2.1)) ∧
      ∀ pre x post, r = pre ++ x :: post → ∀ k ∈ reviverKeys x.2.2.2,
        ∃ y ∈ pre ++ [x], DeclaredIn y.2.2.1 y.2.1 s%"Date" k := by
  obtain ⟨r, hr, ho⟩ := generateFrom_runSteps E.U cfg jobs [] outs h
  refine ⟨r, hr, ho, ?_⟩
  intro pre x post he k hk
  rcases C01_Reviver_run E.U cfg hr pre x post he _ k hk with h0 | h0
  · simp [keysOf, cmGet] at h0
  · exact h0

/-! ## non-vacuity and the negative results, kernel-checked

`generate_types` orders the items with `topsort`, whose DFS is defined by well-founded recursion and
is not evaluated by the kernel; the example files hold one item, for which `C12L.topsort_single`
gives the order, and the rest of `generate` (`genWith`) is evaluated by the kernel. -/

def mkField (name : Str) (ty : RustType) : RustField :=
  { id := ⟨name, name, false⟩, ty, comments := [], hasDefault := false, decorators := [] }

def mkStruct (name : Str) (fields : List RustField) : RustStruct :=
  { id := ⟨name, name, false⟩, genericTypes := [], fields, comments := [], decorators := {}, isRedacted := false }

/-- `generate` after the ordering pass -/
def genWith (cfg : Cfg) (items : List RustItem) (imports : Option Pipeline.ScopedCrateTypes) (st0 : CustomMap) :
    Outcome (Str × CustomMap) :=
  (writeItems .ascii cfg items st0).bind fun (body, st) =>
    .ok (beginFile cfg ++ (match imports with | some i => writeImports i | none => []) ++ body ++ endFile st, st)

def stOf (o : Outcome (Str × CustomMap)) : Option CustomMap :=
  match o with
  | .ok (_, st) => some st
  | _ => none

theorem stOf_eq {o : Outcome (Str × CustomMap)} {text : Str} {st x : CustomMap} (h : o = .ok (text, st))
    (h2 : stOf o = some x) : st = x := by
  subst h
  simpa [stOf] using h2

/-- a file with one item: the order, and `generate` is `genWith` -/
theorem generate_single (cfg : Cfg) (d : ParsedData) (it : RustItem) (imports : Option Pipeline.ScopedCrateTypes)
    (st0 : CustomMap) (hi : C12L.itemsOf d = [it]) (hg : Deps.graph [it] = some [[]])
    (hok : (genWith cfg [it] imports st0).isOk = true) :
    ∃ text st, Pipeline.generateOrder d = some [it] ∧ generate .ascii cfg d imports st0 = .ok (text, st) ∧
      genWith cfg [it] imports st0 = .ok (text, st) := by
  have ho : Pipeline.generateOrder d = some [it] := by
    have : Pipeline.generateOrder d = Deps.topsort (C12L.itemsOf d) := rfl
    rw [this, hi]
    exact C12L.topsort_single it hg
  have he : generate .ascii cfg d imports st0 = genWith cfg [it] imports st0 := by
    simp only [generate, ho, genWith]
    rfl
  cases hw : genWith cfg [it] imports st0 with
  | ok p => exact ⟨p.1, p.2, ho, by rw [he, hw], rfl⟩
  | err e => rw [hw] at hok; simp [Outcome.isOk] at hok
  | panic e => rw [hw] at hok; simp [Outcome.isOk] at hok

/-- what a step list declares: (wire name, printed type) per property line -/
def declared (steps : List Step) : List (Str × Str) :=
  steps.filterMap fun s => match s with
    | .field f tf => some (f.id.renamed, tf.ty)
    | .ty _ => none

theorem mem_declared {steps : List Step} {k t : Str} (h : (k, t) ∈ declared steps) :
    ∃ f tf, Step.field f tf ∈ steps ∧ f.id.renamed = k ∧ tf.ty = t := by
  obtain ⟨s, hs, he⟩ := List.mem_filterMap.1 h
  cases s with
  | ty r => simp at he
  | field f tf =>
    simp only [Option.some.injEq, Prod.mk.injEq] at he
    exact ⟨f, tf, hs, he.1, he.2⟩

theorem declared_mem {steps : List Step} {f : RustField} {tf : TsField} (h : Step.field f tf ∈ steps) :
    (f.id.renamed, tf.ty) ∈ declared steps :=
  List.mem_filterMap.2 ⟨_, h, rfl⟩

def stepsOf (cfg : Cfg) (items : List RustItem) (st0 : CustomMap) : Option (List (Str × Str)) :=
  match itemsSteps cfg items st0 with
  | .ok (steps, _) => some (declared steps)
  | _ => none

theorem stepsOf_eq {cfg : Cfg} {items : List RustItem} {st0 st : CustomMap} {steps : List Step} {l : List (Str × Str)}
    (hs : itemsSteps cfg items st0 = .ok (steps, st)) (h : stepsOf cfg items st0 = some l) : declared steps = l := by
  simp only [stepsOf, hs, Option.some.injEq] at h
  exact h

/-- `struct Ev { created_at: OffsetDateTime, #[serde(rename = "due-by")] due: Option<OffsetDateTime>, n: u8 }` -/
def exStruct : RustStruct :=
  mkStruct s%"Ev" [mkField s%"created_at" (.prim .dateTime),
    { mkField s%"due" (.option (.prim .dateTime)) with id := ⟨s%"due", s%"due-by", true⟩ },
    mkField s%"n" (.prim .u8)]
def exData : ParsedData := { structs := [exStruct] }

/-- the hypothesis of `C01_Reviver` is met; the reviver lists both keys, the dashed one as serde spells
it, each declared by a `Date` property; nothing is reset -/
theorem ex_generate : ∃ text st, generate .ascii {} exData none [] = .ok (text, st) ∧
    reviverKeys st = [s%"created_at", s%"due-by"] := by
  obtain ⟨text, st, _, hg, hw⟩ := generate_single {} exData (.struct exStruct) none [] rfl (by decide +kernel)
    (by decide +kernel)
  have hst := stOf_eq hw (x := [(s%"Date", [s%"created_at", s%"due-by"])]) (by decide +kernel)
  subst hst
  exact ⟨text, _, hg, by decide⟩

example : stepsOf {} [.struct exStruct] [] =
    some [(s%"created_at", s%"Date"), (s%"due-by", s%"Date"), (s%"n", s%"number")] := by decide +kernel
example : NoCustomTarget ({} : Cfg) := by decide
example : Revives [s%"created_at", s%"due-by"] s%"due-by" ∧ ¬ Revives [s%"created_at", s%"due-by"] s%"n" := by decide
example : KeyStr s%"due-by" := by decide

/-- the configuration `"Vec<u8>" ↦ "Date"` (a special type mapped to a custom-translated type) -/
def cfgVec : Cfg := { typeMappings := [(s%"Vec<u8>", s%"Date")] }

/-- `struct Ev { created_at: OffsetDateTime, blob: Vec<u8> }` -/
def lossyStruct : RustStruct :=
  mkStruct s%"Ev" [mkField s%"created_at" (.prim .dateTime), mkField s%"blob" (.vec (.prim .u8))]
def lossy : ParsedData := { structs := [lossyStruct] }

example : resetsOf cfgVec (.vec (.prim .u8)) = [s%"Date"] := by decide +kernel
example : ¬ NoCustomTarget cfgVec := by decide

/-- completeness at full strength: every field printed with a custom-translated type is recorded -/
def C01_Reviver_complete_full : Prop :=
  ∀ (U : UnicodeOps) (cfg : Cfg) (d : ParsedData) (imports : Option Pipeline.ScopedCrateTypes)
    (st0 : CustomMap) (text : Str) (st : CustomMap),
    generate U cfg d imports st0 = .ok (text, st) →
    ∀ steps, FileSteps cfg d st0 steps st →
      ∀ f tf, Step.field f tf ∈ steps → hasCustom tf.ty = true → f.id.renamed ∈ keysOf st tf.ty

/-- **the list can be incomplete**: with `"Vec<u8>" ↦ "Date"` and
`struct Ev { created_at: OffsetDateTime, blob: Vec<u8> }` both properties are printed as `Date`, only
`blob` is listed: `created_at` is never revived (`¬ Revives ["blob"] "created_at"`) -/
theorem C01_Reviver_not_complete : ¬ C01_Reviver_complete_full := by
  intro H
  obtain ⟨text, st, ho, hg, hw⟩ := generate_single cfgVec lossy (.struct lossyStruct) none [] rfl (by decide +kernel)
    (by decide +kernel)
  have hst := stOf_eq hw (x := [(s%"Date", [s%"blob"])]) (by decide +kernel)
  subst hst
  obtain ⟨steps, hfs, _⟩ := generate_steps .ascii cfgVec lossy none [] _ _ hg
  obtain ⟨items, ho', hs⟩ := hfs
  rw [ho] at ho'
  cases ho'
  have hd := stepsOf_eq hs (l := [(s%"created_at", s%"Date"), (s%"blob", s%"Date")]) (by decide +kernel)
  obtain ⟨f, tf, hm, hren, hty⟩ := mem_declared (steps := steps) (k := s%"created_at") (t := s%"Date")
    (by rw [hd]; simp)
  have := H .ascii cfgVec lossy none [] _ _ hg steps ⟨_, ho, hs⟩ f tf hm (by rw [hty]; decide)
  rw [hty, hren] at this
  revert this
  decide

example : ¬ Revives [s%"blob"] s%"created_at" := by decide

/-- two crates: `a` has a `Date` field, `b` has no field that prints `Date` -/
def structA : RustStruct := mkStruct s%"A" [mkField s%"when" (.prim .dateTime)]
def structB : RustStruct := mkStruct s%"B" [mkField s%"n" (.prim .u8)]
def crateA : ParsedData := { structs := [structA], crateName := s%"a" }
def crateB : ParsedData := { structs := [structB], crateName := s%"b" }

/-- **the list is not local to the module**: in the run over the crates `a`, `b` the module of crate
`b` ends with a `ReviverFunc` whose `Date` clause lists `when`, the key of a `Date` field of crate `a`;
`b` itself declares no `Date` property -/
theorem C01_Reviver_not_file_local : ∃ text1 text2 st2 steps2,
    generateFrom .ascii {} [(s%"a", crateA, some []), (s%"b", crateB, some [])] [] =
      .ok [(s%"a", text1), (s%"b", text2)] ∧
    (∃ st1, FileSteps {} crateB st1 steps2 st2) ∧
    reviverKeys st2 = [s%"when"] ∧
    (∃ pre, text2 = pre ++ endFile st2) ∧
    (reviverDate [s%"when"], replacerDate) ∈ C12L.TypeScript.clauses st2 ∧
    ∀ f tf, Step.field f tf ∈ steps2 → tf.ty ≠ s%"Date" := by
  obtain ⟨text1, st1, _, hgA, hwA⟩ := generate_single {} crateA (.struct structA) (some []) [] rfl (by decide +kernel)
    (by decide +kernel)
  have hst1 := stOf_eq hwA (x := [(s%"Date", [s%"when"])]) (by decide +kernel)
  subst hst1
  obtain ⟨text2, st2, hoB, hgB, hwB⟩ := generate_single {} crateB (.struct structB) (some []) [(s%"Date", [s%"when"])] rfl
    (by decide +kernel) (by decide +kernel)
  have hst2 := stOf_eq hwB (x := [(s%"Date", [s%"when"])]) (by decide +kernel)
  subst hst2
  obtain ⟨steps, hfs, _, _, _, hend⟩ := generate_steps .ascii {} crateB (some []) _ _ _ hgB
  refine ⟨text1, text2, _, steps, ?_, ⟨_, hfs⟩, by decide, hend, by decide +kernel, ?_⟩
  · simp only [generateFrom, hgA, hgB, Outcome.bind]
  · obtain ⟨items, ho', hs⟩ := hfs
    rw [hoB] at ho'
    cases ho'
    have hd := stepsOf_eq hs (l := [(s%"n", s%"number")]) (by decide +kernel)
    intro f tf hm hty
    have := declared_mem hm
    rw [hd, hty] at this
    simp only [List.mem_singleton, Prod.mk.injEq] at this
    exact absurd this.2 (by decide)

end TsV.C01_Reviver
