import TsV.Model.Topsort
namespace TsV.Topsort

/-- value-level transposition -/
def tr (a b v : Nat) : Nat := if v = a then b else if v = b then a else v

theorem swap_getElem? {α} (l l' : List α) (a b : Nat) (h : swap l a b = some l') (k : Nat) :
    l'[k]? = l[tr a b k]? := by
  unfold swap at h
  split at h
  · rename_i x y hx hy
    simp only [Option.some.injEq] at h; subst h
    obtain ⟨ha, hxa⟩ := List.getElem?_eq_some_iff.1 hx
    obtain ⟨hb, hyb⟩ := List.getElem?_eq_some_iff.1 hy
    subst hxa hyb
    unfold tr
    rw [List.getElem?_set, List.getElem?_set]
    by_cases hkb : b = k
    · subst hkb
      by_cases hka : b = a
      · subst hka; simp [hb]
      · have : ¬ a = b := fun e => hka e.symm
        simp [hka, this, hb, ha, List.length_set]
    · by_cases hka : a = k
      · subst hka
        have : ¬ a = b := fun e => hkb e.symm
        simp [hkb, this, ha, hb]
      · have h1 : ¬ k = a := fun e => hka e.symm
        have h2 : ¬ k = b := fun e => hkb e.symm
        simp [hka, hkb, h1, h2]
  · simp at h

theorem swap_length {α} (l l' : List α) (a b : Nat) (h : swap l a b = some l') : l'.length = l.length := by
  unfold swap at h
  split at h
  · simp only [Option.some.injEq] at h; subst h; simp
  · simp at h

theorem swap_isSome {α} (l : List α) (a b : Nat) (ha : a < l.length) (hb : b < l.length) :
    ∃ l', swap l a b = some l' := by
  unfold swap
  rw [List.getElem?_eq_getElem ha, List.getElem?_eq_getElem hb]
  exact ⟨_, rfl⟩


theorem tr_self_left (a b : Nat) : tr a b a = b := by simp [tr]
theorem tr_self_right (a b : Nat) : tr a b b = a := by unfold tr; split <;> simp_all
theorem tr_other (a b v : Nat) (h1 : v ≠ a) (h2 : v ≠ b) : tr a b v = v := by simp [tr, h1, h2]

/-- the element the (ghost) index vector `hat` selects for position `i` -/
def E {α} (data : List α) (hat : List Nat) (i : Nat) : Option α := (hat[i]?).bind fun v => data[v]?

/-- number of positions that are not fixed points -/
def nonfixed (l : List Nat) : Nat := ((List.range l.length).map fun i => if l[i]? = some i then 0 else 1).sum

theorem sum_map_le {l : List Nat} {f g : Nat → Nat} (h : ∀ i ∈ l, f i ≤ g i) : (l.map f).sum ≤ (l.map g).sum := by
  induction l with
  | nil => simp
  | cons a t ih =>
    simp only [List.map_cons, List.sum_cons]
    have := h a (by simp)
    have := ih (fun i hi => h i (by simp [hi]))
    omega

theorem sum_map_lt {l : List Nat} {f g : Nat → Nat} (h : ∀ i ∈ l, f i ≤ g i) (c : Nat) (hc : c ∈ l)
    (hlt : f c < g c) : (l.map f).sum < (l.map g).sum := by
  induction l with
  | nil => simp at hc
  | cons a t ih =>
    simp only [List.map_cons, List.sum_cons]
    simp only [List.mem_cons] at hc
    rcases hc with rfl | hc
    · have := sum_map_le (fun i hi => h i (List.mem_cons_of_mem _ hi))
      omega
    · have := h a (by simp)
      have := ih (fun i hi => h i (by simp [hi])) hc
      omega

theorem nonfixed_le (l : List Nat) : nonfixed l ≤ l.length := by
  unfold nonfixed
  have : ((List.range l.length).map fun i => if l[i]? = some i then 0 else 1).sum ≤
      ((List.range l.length).map fun _ => 1).sum := sum_map_le (fun i _ => by split <;> omega)
  have h1 : ∀ k : Nat, ((List.range k).map fun _ => 1).sum = k := by
    intro k; induction k with
    | zero => rfl
    | succ k ih => simp [List.range_succ, ih]
  rw [h1] at this; exact this

/-- exchanging the entries at `cur` (holding `t`) and `p` (holding `cur`) fixes `cur` and unfixes nothing -/
theorem nonfixed_step (hat : List Nat) (cur p t : Nat) (hcur : cur < hat.length) (hp : p < hat.length)
    (hpc : p ≠ cur) (h1 : hat[cur]? = some t) (h2 : hat[p]? = some cur) (htc : t ≠ cur) :
    nonfixed ((hat.set cur cur).set p t) < nonfixed hat := by
  unfold nonfixed
  simp only [List.length_set]
  apply sum_map_lt (c := cur)
  · intro i hi
    by_cases hic : i = cur
    · subst hic
      rw [List.getElem?_set_ne hpc, List.getElem?_set_self hcur]; simp
    · by_cases hip : i = p
      · subst hip
        rw [List.getElem?_set_self (by simpa using hp), h2]
        have : ¬ (some cur = some i) := by simpa using fun e => hic e.symm
        simp [this]; split <;> omega
      · rw [List.getElem?_set_ne (Ne.symm hip), List.getElem?_set_ne (Ne.symm hic)]
        exact Nat.le_refl _
  · simpa using hcur
  · rw [List.getElem?_set_ne hpc, List.getElem?_set_self hcur, h1]
    have : ¬ (some t = some cur) := by simpa using htc
    simp [this]

theorem E_step {α} (data data' : List α) (hat : List Nat) (cur p t : Nat)
    (hnd : hat.Nodup) (hcur : cur < hat.length) (hp : p < hat.length) (hpc : p ≠ cur)
    (h1 : hat[cur]? = some t) (h2 : hat[p]? = some cur) (hsw : swap data cur t = some data') (i : Nat) :
    E data' ((hat.set cur cur).set p t) i = E data hat i := by
  unfold E
  by_cases hip : i = p
  · subst hip
    rw [List.getElem?_set_self (by simpa using hp), h2]
    simp only [Option.bind_some, swap_getElem? _ _ _ _ hsw, tr_self_right]
  · by_cases hic : i = cur
    · subst hic
      rw [List.getElem?_set_ne (Ne.symm hip), List.getElem?_set_self hcur, h1]
      simp only [Option.bind_some, swap_getElem? _ _ _ _ hsw, tr_self_left]
    · rw [List.getElem?_set_ne (Ne.symm hip), List.getElem?_set_ne (Ne.symm hic)]
      cases hv : hat[i]? with
      | none => rfl
      | some v =>
        simp only [Option.bind_some, swap_getElem? _ _ _ _ hsw]
        have hil : i < hat.length := (List.getElem?_eq_some_iff.1 hv).1
        have hvc : v ≠ cur := by
          intro e; subst e
          exact hip ((List.getElem?_inj hil hnd).1 (by rw [hv, h2]))
        have hvt : v ≠ t := by
          intro e; subst e
          exact hic ((List.getElem?_inj hil hnd).1 (by rw [hv, h1]))
        rw [tr_other _ _ _ hvc hvt]

/-- **the cycle-following loop is correct**: `hat` is the ghost permutation the stored vector `ind`
stands for (they differ only at the position `p` that still has to receive the start element) -/
theorem cycle_correct {α} (n : Nat) (F : Nat → Option α) :
    ∀ (fuel : Nat) (data : List α) (ind hat : List Nat) (s cur p : Nat),
      data.length = n → hat.length = n → hat.Nodup → (∀ v ∈ hat, v < n) →
      (∀ i, E data hat i = F i) → s < n → cur < n → (cur ≠ s → hat[s]? = some s) →
      p < n → hat[p]? = some cur → ind = hat.set p s → nonfixed hat < fuel →
      ∃ data' ind', cycleLoop fuel data ind cur = some (data', ind') ∧ data'.length = n ∧
        ind'.length = n ∧ ind'.Nodup ∧ (∀ v ∈ ind', v < n) ∧ (∀ i, E data' ind' i = F i) ∧
        ind'[s]? = some s ∧ (∀ i : Nat, hat[i]? = some i → ind'[i]? = some i) ∧ ind'.Perm hat := by
  intro fuel
  induction fuel with
  | zero => intro data ind hat s cur p _ _ _ _ _ _ _ _ _ _ _ hf; omega
  | succ fuel ih =>
    intro data ind hat s cur p hdl hhl hnd hlt hE hs hcur hfix hp hpv hind hf
    have hcurl : cur < hat.length := by omega
    have hpl : p < hat.length := by omega
    by_cases hpc : p = cur
    · -- the cycle closes: the stored vector becomes the ghost permutation
      subst hpc
      have hsfix : hat[s]? = some s := by
        by_cases hcs : p = s
        · subst hcs; exact hpv
        · exact hfix hcs
      have hit : ind[p]? = some s := by rw [hind, List.getElem?_set_self hpl]
      have hind' : ind.set p p = hat := by
        rw [hind, List.set_set]
        apply List.ext_getElem?
        intro i
        by_cases hi : i = p
        · subst hi; rw [List.getElem?_set_self hpl, hpv]
        · rw [List.getElem?_set_ne (Ne.symm hi)]
      refine ⟨data, hat, ?_, hdl, hhl, hnd, hlt, hE, hsfix, fun i h => h, List.Perm.refl _⟩
      simp only [cycleLoop, hit, hind', hsfix, beq_self_eq_true, if_true]
    · -- one more element of the cycle is put in place
      obtain ⟨t, ht⟩ : ∃ t, hat[cur]? = some t := ⟨hat[cur], List.getElem?_eq_getElem hcurl⟩
      have htn : t < n := hlt t (List.mem_of_getElem? ht)
      have htc : t ≠ cur := by
        intro e; subst e
        exact hpc ((List.getElem?_inj hpl hnd).1 (by rw [hpv, ht]))
      have hts : t ≠ s := by
        intro e; subst e
        by_cases hcs : cur = t
        · exact htc hcs.symm
        · have := hfix hcs
          exact hcs ((List.getElem?_inj hcurl hnd).1 (by rw [ht, this]))
      have hps : p ≠ s := by
        intro e; subst e
        by_cases hcs : cur = p
        · exact hpc hcs.symm
        · have := hfix hcs; rw [hpv] at this; exact hcs (by simpa using this)
      have hit : ind[cur]? = some t := by
        rw [hind, List.getElem?_set_ne hpc]; exact ht
      -- the stored vector after `indices[current_idx] = current_idx`
      have hind1 : ind.set cur cur = (hat.set cur cur).set p s := by
        rw [hind, List.set_comm _ _ hpc]
      have hnb : ((ind.set cur cur)[t]? == some t) = false := by
        rw [hind1]
        by_cases htp : t = p
        · subst htp
          rw [List.getElem?_set_self (by simpa using hpl)]
          simpa using fun e => hps e.symm
        · rw [List.getElem?_set_ne (Ne.symm htp), List.getElem?_set_ne (Ne.symm htc)]
          cases hv : hat[t]? with
          | none => simp
          | some v =>
            have : v ≠ t := by
              intro e; subst e
              have htl : v < hat.length := (List.getElem?_eq_some_iff.1 hv).1
              exact htc ((List.getElem?_inj htl hnd).1 (by rw [hv, ht]))
            simpa using this
      obtain ⟨data', hsw⟩ := swap_isSome data cur t (by omega) (by omega)
      have hstep : cycleLoop (fuel + 1) data ind cur = cycleLoop fuel data' (ind.set cur cur) t := by
        have hget : ∃ t2, (ind.set cur cur)[t]? = some t2 := by
          refine ⟨(ind.set cur cur)[t]'(by rw [List.length_set, hind, List.length_set]; omega), ?_⟩
          exact List.getElem?_eq_getElem _
        obtain ⟨t2, ht2⟩ := hget
        have hne : (t2 == t) = false := by
          rw [ht2] at hnb; simpa using hnb
        simp only [cycleLoop, hit, ht2, hne, hsw]
        rfl
      let hat' := (hat.set cur cur).set p t
      have hperm : hat'.Perm hat := by
        have h1 : hat[p]'hpl = cur := by
          have := List.getElem?_eq_some_iff.1 hpv; exact this.2
        have h2 : hat[cur]'hcurl = t := by
          have := List.getElem?_eq_some_iff.1 ht; exact this.2
        have := List.set_set_perm (as := hat) hcurl hpl
        rw [h1, h2] at this
        exact this
      have hnd' : hat'.Nodup := hperm.nodup_iff.2 hnd
      have hlt' : ∀ v ∈ hat', v < n := fun v hv => hlt v (hperm.subset hv)
      have hhl' : hat'.length = n := by simp [hat', hhl]
      have hE' : ∀ i, E data' hat' i = F i := fun i => by
        rw [E_step data data' hat cur p t hnd hcurl hpl hpc ht hpv hsw i]; exact hE i
      have hsfix' : t ≠ s → hat'[s]? = some s := by
        intro _
        by_cases hcs : cur = s
        · subst hcs
          show ((hat.set cur cur).set p t)[cur]? = some cur
          rw [List.getElem?_set_ne hpc, List.getElem?_set_self hcurl]
        · show ((hat.set cur cur).set p t)[s]? = some s
          rw [List.getElem?_set_ne hps, List.getElem?_set_ne hcs]; exact hfix hcs
      have hpv' : hat'[p]? = some t := by
        show ((hat.set cur cur).set p t)[p]? = some t
        rw [List.getElem?_set_self (by simpa using hpl)]
      have hind2 : ind.set cur cur = hat'.set p s := by
        rw [hind1]; show _ = ((hat.set cur cur).set p t).set p s
        rw [List.set_set]
      have hmeasure : nonfixed hat' < fuel := by
        have := nonfixed_step hat cur p t hcurl hpl hpc ht hpv htc
        show nonfixed ((hat.set cur cur).set p t) < fuel
        omega
      obtain ⟨d2, i2, hrun, h1, h2, h3, h4, h5, h6, h7, h8⟩ :=
        ih data' (ind.set cur cur) hat' s t p (by rw [swap_length _ _ _ _ hsw]; exact hdl) hhl' hnd' hlt'
          hE' hs htn hsfix' hp hpv' hind2 hmeasure
      refine ⟨d2, i2, by rw [hstep]; exact hrun, h1, h2, h3, h4, h5, h6, ?_, h8.trans hperm⟩
      intro i hi
      apply h7
      -- a fixed point of `hat` is neither `cur` nor `p`
      have hic : i ≠ cur := by intro e; subst e; rw [ht] at hi; exact htc (by simpa using hi)
      have hip : i ≠ p := by intro e; subst e; rw [hpv] at hi; exact hpc (by simpa using hi.symm)
      show ((hat.set cur cur).set p t)[i]? = some i
      rw [List.getElem?_set_ne (Ne.symm hip), List.getElem?_set_ne (Ne.symm hic)]; exact hi

/-- the invariant of the outer `for idx in 0..data.len()` -/
theorem outer_correct {α} (n : Nat) (F : Nat → Option α) :
    ∀ (idxs : List Nat) (k : Nat) (data : List α) (ind : List Nat),
      idxs = List.range' k (n - k) → k ≤ n →
      data.length = n → ind.Perm (List.range n) → (∀ i, E data ind i = F i) →
      (∀ i, i < k → ind[i]? = some i) →
      ∃ data' ind', outerLoop idxs data ind = some (data', ind') ∧ data'.length = n ∧
        (∀ i, i < n → ind'[i]? = some i) ∧ (∀ i, E data' ind' i = F i) ∧ ind'.length = n := by
  intro idxs
  induction idxs with
  | nil =>
    intro k data ind hi hk hdl hperm hE hfix
    have hkn : k = n := by
      have : (List.range' k (n - k)).length = 0 := by rw [← hi]; rfl
      simp at this; omega
    subst hkn
    exact ⟨data, ind, rfl, hdl, hfix, hE, by simpa using hperm.length_eq⟩
  | cons idx rest ih =>
    intro k data ind hi hk hdl hperm hE hfix
    have hlen : ind.length = n := by simpa using hperm.length_eq
    have hkn : k < n := by
      have : (List.range' k (n - k)).length = (idx :: rest).length := by rw [hi]
      simp at this; omega
    have hidx : idx = k ∧ rest = List.range' (k + 1) (n - (k + 1)) := by
      have h1 : n - k = (n - (k + 1)) + 1 := by omega
      rw [h1, List.range'_succ] at hi
      simpa using hi
    obtain ⟨rfl, hrest⟩ := hidx
    have hnd : ind.Nodup := hperm.nodup_iff.2 List.nodup_range
    have hlt : ∀ v ∈ ind, v < n := fun v hv => by simpa using hperm.subset hv
    obtain ⟨v, hv⟩ : ∃ v, ind[idx]? = some v := ⟨ind[idx], List.getElem?_eq_getElem (by omega)⟩
    simp only [outerLoop, hv]
    by_cases hvi : v = idx
    · subst hvi
      simp only [bne_self_eq_false, Bool.false_eq_true, if_false]
      apply ih (v + 1) data ind hrest (by omega) hdl hperm hE
      intro i hi'
      by_cases hiv : i = v
      · subst hiv; exact hv
      · exact hfix i (by omega)
    · have hne : (v != idx) = true := by simpa using hvi
      simp only [hne, if_true]
      -- the position that holds `idx`
      have hmem : idx ∈ ind := hperm.symm.subset (by simpa using hkn)
      obtain ⟨p, hp⟩ := List.mem_iff_getElem?.1 hmem
      have hpl : p < ind.length := (List.getElem?_eq_some_iff.1 hp).1
      have hset : ind = ind.set p idx := by
        apply List.ext_getElem?
        intro i
        by_cases hip : i = p
        · subst hip; rw [List.getElem?_set_self hpl, hp]
        · rw [List.getElem?_set_ne (Ne.symm hip)]
      obtain ⟨d2, i2, hrun, h1, h2, h3, h4, h5, h6, h7, h8⟩ :=
        cycle_correct n F (data.length + 1) data ind ind idx idx p hdl hlen hnd hlt hE hkn hkn
          (fun h => absurd rfl h) (by omega) hp hset (by have := nonfixed_le ind; omega)
      rw [hrun]
      apply ih (idx + 1) d2 i2 hrest (by omega) h1 (h8.trans hperm) h5
      intro i hi'
      by_cases hiv : i = idx
      · subst hiv; exact h6
      · exact h7 i (hfix i (by omega))

/-- **`sort_by_indices` gathers**: for an index vector that is a permutation of the positions, the
loop terminates without an index panic and position `i` of the result holds `data[indices[i]]` -/
theorem sortByIndices_gather {α} (data : List α) (idx : List Nat) (hperm : idx.Perm (List.range data.length)) :
    ∃ r, sortByIndices data idx = some r ∧ r.length = data.length ∧
      ∀ i : Nat, r[i]? = (idx[i]?).bind fun v => data[v]? := by
  obtain ⟨d', i', hrun, hl, hfix, hE, hil⟩ :=
    outer_correct data.length (E data idx) (List.range data.length) 0 data idx
      (by simp [List.range_eq_range']) (by omega) rfl hperm (fun _ => rfl) (by intro i hi; omega)
  refine ⟨d', by simp [sortByIndices, hrun], hl, ?_⟩
  intro i
  have := hE i
  unfold E at this
  by_cases hi : i < data.length
  · rw [hfix i hi] at this
    simpa using this
  · have h1 : d'[i]? = none := by rw [List.getElem?_eq_none_iff]; omega
    have h2 : idx[i]? = none := by
      rw [List.getElem?_eq_none_iff]; have := hperm.length_eq; simp at this; omega
    rw [h1, h2]; rfl

end TsV.Topsort
