#![cfg(target_os = "ios")]
#![allow(dead_code)]
//! inner doc
#[cfg(target_os = "android")]
pub mod a {
    #[typeshare]
    pub struct InA { pub x: u8 }
    pub mod b {
        #![cfg(not(target_os = "ios"))]
        #[typeshare]
        #[cfg(any(target_os = "ios", target_os = "android"))]
        pub struct InB { #[cfg(not(any(target_os = "macos")))] pub y: u8, #[cfg(all(unix, target_os = "macos"))] pub z: u8,
            #[cfg(version("1.0"))] #[cfg(target_os = "android")] pub w: u8 }
    }
    mod decl;
}
#[typeshare]
#[cfg(target_os = 5)]
#[cfg(feature = "x")]
#[cfg(not(target_os = "macos", target_os = "wasm"))]
pub enum Os { #[cfg(target_os = "android")] A, #[cfg(not(target_os = "android"))] B, C }
