import TsV.Lemmas.C12_Common
/-!
# C12, Python: every `typing` / `pydantic` / `enum` / `datetime` name, every `TypeVar` and every
custom (de)serialiser function the body uses is in the printer state that is written before the body
-/
namespace TsV.C12L.Python
open TsV TsV.Lang TsV.Lang.Python TsV.C12L

/-- a name the generated body relies on -/
inductive Need where
  /-- `from <module> import <ident>` -/
  | imp (module ident : Str)
  /-- `<name> = TypeVar("<name>")` -/
  | typeVar (name : Str)
  /-- the two helper functions `json_translation_for_type(<pyType>)` defines -/
  | fns (pyType : Str)
deriving DecidableEq, Repr

def hasImp (l : List (Str × List Str)) (m i : Str) : Prop := ∃ ids, (m, ids) ∈ l ∧ i ∈ ids

instance (l : List (Str × List Str)) (m i : Str) : Decidable (hasImp l m i) :=
  decidable_of_iff (∃ p ∈ l, p.1 = m ∧ i ∈ p.2) (by
    constructor
    · rintro ⟨⟨k, ids⟩, hp, rfl, hi⟩; exact ⟨ids, hp, hi⟩
    · rintro ⟨ids, hp, hi⟩; exact ⟨(m, ids), hp, rfl, hi⟩)

/-- **helpersProvided (Python)**: what `write_all_imports` and the custom-function loop of
`generate_types` write for the state `st` -/
def Provides (st : St) : Need → Prop
  | .imp m i => hasImp st.imports m i
  | .typeVar n => n ∈ st.typeVars
  | .fns t => t ∈ st.customJson

instance (st : St) (n : Need) : Decidable (Provides st n) := by
  cases n <;> unfold Provides <;> infer_instance

theorem hasImp_insert_self (m i : Str) : ∀ l : List (Str × List Str), hasImp (impInsert l m i) m i
  | [] => ⟨[i], by simp [impInsert], by simp⟩
  | (k, v) :: rest => by
    simp only [impInsert]
    split
    · rename_i h
      have : k = m := by simpa using h
      subst this
      exact ⟨setInsert i v, by simp, mem_insertSorted_self i v⟩
    · split
      · exact ⟨[i], by simp, by simp⟩
      · obtain ⟨ids, h1, h2⟩ := hasImp_insert_self m i rest
        exact ⟨ids, List.mem_cons_of_mem _ h1, h2⟩

theorem hasImp_insert_of {m i m' i' : Str} : ∀ {l : List (Str × List Str)}, hasImp l m' i' →
    hasImp (impInsert l m i) m' i'
  | [], h => by obtain ⟨ids, h1, _⟩ := h; simp at h1
  | (k, v) :: rest, h => by
    obtain ⟨ids, h1, h2⟩ := h
    simp only [impInsert]
    split
    · rcases List.mem_cons.1 h1 with h1 | h1
      · simp only [Prod.mk.injEq] at h1
        obtain ⟨h1a, h1b⟩ := h1
        subst h1a h1b
        exact ⟨setInsert i ids, by simp, mem_insertSorted_of_mem h2⟩
      · exact ⟨ids, List.mem_cons_of_mem _ h1, h2⟩
    · split
      · exact ⟨ids, List.mem_cons_of_mem _ h1, h2⟩
      · rcases List.mem_cons.1 h1 with h1 | h1
        · exact ⟨ids, by rw [h1]; simp, h2⟩
        · obtain ⟨ids', h3, h4⟩ := hasImp_insert_of (m := m) (i := i) ⟨ids, h1, h2⟩
          exact ⟨ids', List.mem_cons_of_mem _ h3, h4⟩

/-- the state only grows -/
def Mono (st st' : St) : Prop := ∀ n, Provides st n → Provides st' n

theorem Mono.refl (st : St) : Mono st st := fun _ h => h
theorem Mono.trans {a b c : St} (h1 : Mono a b) (h2 : Mono b c) : Mono a c := fun n h => h2 n (h1 n h)

theorem mono_addImport (st : St) (m i : Str) : Mono st (addImport st m i) := by
  intro n h
  cases n with
  | imp m' i' => exact hasImp_insert_of h
  | typeVar n => exact h
  | fns t => exact h

theorem provides_addImport (st : St) (m i : Str) : Provides (addImport st m i) (.imp m i) :=
  hasImp_insert_self m i st.imports

theorem mono_addCustom (st : St) (t : Str) : Mono st (addCustom st t) := by
  intro n h
  cases n with
  | imp m' i' => exact h
  | typeVar n => exact h
  | fns t' => exact mem_insertSorted_of_mem h

theorem provides_addCustom (st : St) (t : Str) : Provides (addCustom st t) (.fns t) :=
  mem_insertSorted_self t st.customJson

theorem mono_addTypeVar (st : St) (g : Str) : Mono st (addTypeVar st g) := by
  intro n h
  have h' := mono_addImport st kTyping s%"TypeVar" n h
  cases n with
  | imp m' i' => exact h'
  | typeVar n => exact mem_insertSorted_of_mem h'
  | fns t' => exact h'

theorem provides_addTypeVar (st : St) (g : Str) :
    Provides (addTypeVar st g) (.typeVar g) ∧ Provides (addTypeVar st g) (.imp kTyping s%"TypeVar") :=
  ⟨mem_insertSorted_self g _, provides_addImport st kTyping s%"TypeVar"⟩

theorem mono_foldl_addTypeVar : ∀ (gs : List Str) (st : St), Mono st (gs.foldl addTypeVar st)
  | [], st => Mono.refl st
  | g :: gs, st => (mono_addTypeVar st g).trans (mono_foldl_addTypeVar gs _)

theorem provides_foldl_addTypeVar : ∀ (gs : List Str) (st : St), ∀ g ∈ gs,
    Provides (gs.foldl addTypeVar st) (.typeVar g) ∧ Provides (gs.foldl addTypeVar st) (.imp kTyping s%"TypeVar")
  | [], st, g, hg => by simp at hg
  | x :: gs, st, g, hg => by
    simp only [List.foldl_cons]
    rcases List.mem_cons.1 hg with rfl | hg
    · have := provides_addTypeVar st g
      exact ⟨mono_foldl_addTypeVar gs _ _ this.1, mono_foldl_addTypeVar gs _ _ this.2⟩
    · exact provides_foldl_addTypeVar gs _ g hg

theorem mono_addImports (st : St) (tp : Str) : Mono st (addImports st tp) := by
  unfold addImports
  split
  · exact mono_addImport _ _ _
  · split
    · exact mono_addImport _ _ _
    · exact Mono.refl st


/-! ## types -/

def impList : Need := .imp kTyping s%"List"
def impOptional : Need := .imp kTyping s%"Optional"
def impDict : Need := .imp kTyping s%"Dict"
def impDatetime : Need := .imp s%"datetime" s%"datetime"

mutual
  /-- the names formatting `t` prints on typeshare's account.  Follows `formatType` arm by arm: a
  mapped simple / generic / special type is replaced wholesale by the user's string; an unmapped
  simple type that is a generic parameter of the enclosing item is a use of that `TypeVar`;
  `Vec`/slice/array print `List[`, `Option` prints `Optional[`, `HashMap` prints `Dict[`,
  `OffsetDateTime` prints `datetime`. -/
  def typeNeeds (cfg : Cfg) (gens : List Str) : RustType → List Need
    | .simple id => if (mapGet cfg.typeMappings id).isNone && gens.contains id then [.typeVar id] else []
    | .generic id ps => if (mapGet cfg.typeMappings id).isSome then [] else typeNeedsList cfg gens ps
    | t@(.vec r) => if (mapGet cfg.typeMappings t.display).isSome then [] else impList :: typeNeeds cfg gens r
    | t@(.slice r) => if (mapGet cfg.typeMappings t.display).isSome then [] else impList :: typeNeeds cfg gens r
    | t@(.array r _) => if (mapGet cfg.typeMappings t.display).isSome then [] else impList :: typeNeeds cfg gens r
    | t@(.option r) => if (mapGet cfg.typeMappings t.display).isSome then [] else impOptional :: typeNeeds cfg gens r
    | t@(.hashMap k v) =>
      if (mapGet cfg.typeMappings t.display).isSome then [] else impDict :: (typeNeeds cfg gens k ++ typeNeeds cfg gens v)
    | t@(.prim p) =>
      if (mapGet cfg.typeMappings t.display).isSome then [] else if p == .dateTime then [impDatetime] else []
  def typeNeedsList (cfg : Cfg) (gens : List Str) : List RustType → List Need
    | [] => []
    | t :: ts => typeNeeds cfg gens t ++ typeNeedsList cfg gens ts
end

/-- what a printer step guarantees for a list of needs: each is provided afterwards, except that a
use of a generic parameter is only as good as the enclosing item's `TypeVar` declarations -/
def Covered (gens : List Str) (st' : St) (needs : List Need) : Prop :=
  ∀ n ∈ needs, Provides st' n ∨ ∃ g ∈ gens, n = .typeVar g

theorem Covered.mono {gens : List Str} {st st' : St} {needs : List Need} (h : Covered gens st needs)
    (hm : Mono st st') : Covered gens st' needs := fun n hn => (h n hn).imp (hm n) id

theorem Covered.append {gens : List Str} {st : St} {a b : List Need} (ha : Covered gens st a)
    (hb : Covered gens st b) : Covered gens st (a ++ b) := fun n hn => by
  rcases List.mem_append.1 hn with h | h
  · exact ha n h
  · exact hb n h

theorem Covered.nil (gens : List Str) (st : St) : Covered gens st [] := fun n hn => by simp at hn

theorem Covered.cons {gens : List Str} {st : St} {a : Need} {b : List Need} (ha : Provides st a)
    (hb : Covered gens st b) : Covered gens st (a :: b) := fun n hn => by
  rcases List.mem_cons.1 hn with rfl | h
  · exact Or.inl ha
  · exact hb n h

theorem special_cases (cfg : Cfg) (t : RustType) (st : St) (k : St → Outcome (Str × St)) (s : Str) (st' : St)
    (h : special cfg t st k = .ok (s, st')) :
    ((mapGet cfg.typeMappings t.display).isSome = true ∧ Mono st st') ∨
    ((mapGet cfg.typeMappings t.display).isSome = false ∧ k st = .ok (s, st')) := by
  unfold special at h
  cases hm : mapGet cfg.typeMappings t.display with
  | some m =>
    rw [hm] at h
    simp only [Outcome.ok.injEq, Prod.mk.injEq] at h
    refine Or.inl ⟨rfl, ?_⟩
    rw [← h.2]
    split
    · exact mono_addCustom st m
    · exact Mono.refl st
  | none => rw [hm] at h; exact Or.inr ⟨rfl, h⟩

/-- the shape shared by the four one-argument containers -/
theorem wrap_spec (cfg : Cfg) (gens : List Str) (r : RustType) (st : St) (m i : Str) (pre post : Str) (s : Str) (st' : St)
    (ih : ∀ st s st', formatType cfg gens r st = .ok (s, st') → Mono st st' ∧ Covered gens st' (typeNeeds cfg gens r))
    (h : ((formatType cfg gens r (addImport st m i)).bind fun (x : Str × St) =>
      Outcome.ok (pre ++ x.1 ++ post, x.2)) = .ok (s, st')) :
    Mono st st' ∧ Covered gens st' (Need.imp m i :: typeNeeds cfg gens r) := by
  simp only [bind_ok_iff] at h
  obtain ⟨⟨s1, st1⟩, h1, h2⟩ := h
  simp only [Outcome.ok.injEq, Prod.mk.injEq] at h2
  obtain ⟨hm, hc⟩ := ih _ s1 st1 h1
  rw [← h2.2]
  exact ⟨(mono_addImport st m i).trans hm, Covered.cons (hm _ (provides_addImport st m i)) hc⟩

mutual
  theorem formatType_spec (cfg : Cfg) (gens : List Str) : ∀ (t : RustType) (st : St) (s : Str) (st' : St),
      formatType cfg gens t st = .ok (s, st') → Mono st st' ∧ Covered gens st' (typeNeeds cfg gens t)
    | .simple id, st, s, st', h => by
      simp only [formatType, formatSimple, Outcome.ok.injEq, Prod.mk.injEq] at h
      rw [← h.2]
      refine ⟨mono_addImports st id, ?_⟩
      intro n hn
      simp only [typeNeeds] at hn
      split at hn
      · rename_i hc
        simp only [List.mem_singleton] at hn
        simp only [Bool.and_eq_true, List.contains_eq_mem, decide_eq_true_eq] at hc
        exact Or.inr ⟨id, hc.2, hn⟩
      · simp at hn
    | .generic id ps, st, s, st', h => by
      simp only [formatType] at h
      cases hm : mapGet cfg.typeMappings id with
      | some m =>
        rw [hm] at h
        simp only [Outcome.ok.injEq, Prod.mk.injEq] at h
        rw [← h.2]
        exact ⟨mono_addImports st id, by simpa [typeNeeds, hm] using Covered.nil gens _⟩
      | none =>
        rw [hm] at h
        simp only at h
        cases hps : formatTypes cfg gens ps (addImports st id) with
        | ok r =>
          obtain ⟨strs, st1⟩ := r
          rw [hps] at h
          simp only [formatSimple, Outcome.ok.injEq, Prod.mk.injEq] at h
          obtain ⟨hm1, hc1⟩ := formatTypes_spec cfg gens ps _ strs st1 hps
          rw [← h.2]
          refine ⟨((mono_addImports st id).trans hm1).trans (mono_addImports st1 id), ?_⟩
          simpa [typeNeeds, hm] using hc1.mono (mono_addImports st1 id)
        | err e => rw [hps] at h; simp at h
        | panic e => rw [hps] at h; simp at h
    | .vec r, st, s, st', h => by
      simp only [formatType] at h
      simp only [typeNeeds]
      rcases special_cases cfg _ st _ s st' h with ⟨hm, hmono⟩ | ⟨hm, hk⟩
      · simp only [hm, if_true]; exact ⟨hmono, Covered.nil gens _⟩
      · simp only [hm, Bool.false_eq_true, if_false]
        exact wrap_spec cfg gens r st _ _ s%"List[" s%"]" s st' (formatType_spec cfg gens r) hk
    | .slice r, st, s, st', h => by
      simp only [formatType] at h
      simp only [typeNeeds]
      rcases special_cases cfg _ st _ s st' h with ⟨hm, hmono⟩ | ⟨hm, hk⟩
      · simp only [hm, if_true]; exact ⟨hmono, Covered.nil gens _⟩
      · simp only [hm, Bool.false_eq_true, if_false]
        exact wrap_spec cfg gens r st _ _ s%"List[" s%"]" s st' (formatType_spec cfg gens r) hk
    | .array r n, st, s, st', h => by
      simp only [formatType] at h
      simp only [typeNeeds]
      rcases special_cases cfg _ st _ s st' h with ⟨hm, hmono⟩ | ⟨hm, hk⟩
      · simp only [hm, if_true]; exact ⟨hmono, Covered.nil gens _⟩
      · simp only [hm, Bool.false_eq_true, if_false]
        exact wrap_spec cfg gens r st _ _ s%"List[" s%"]" s st' (formatType_spec cfg gens r) hk
    | .option r, st, s, st', h => by
      simp only [formatType] at h
      simp only [typeNeeds]
      rcases special_cases cfg _ st _ s st' h with ⟨hm, hmono⟩ | ⟨hm, hk⟩
      · simp only [hm, if_true]; exact ⟨hmono, Covered.nil gens _⟩
      · simp only [hm, Bool.false_eq_true, if_false]
        exact wrap_spec cfg gens r st _ _ s%"Optional[" s%"]" s st' (formatType_spec cfg gens r) hk
    | .hashMap k v, st, s, st', h => by
      simp only [formatType] at h
      simp only [typeNeeds]
      rcases special_cases cfg _ st _ s st' h with ⟨hm, hmono⟩ | ⟨hm, hk⟩
      · simp only [hm, if_true]; exact ⟨hmono, Covered.nil gens _⟩
      · simp only [hm, Bool.false_eq_true, if_false]
        have key : ((formatType cfg gens k (addImport st kTyping s%"Dict")).bind fun (ks, st) =>
              (formatType cfg gens v st).bind fun (vs, st) =>
                .ok (s%"Dict[" ++ ks ++ s%", " ++ vs ++ s%"]", st)) = .ok (s, st') →
            Mono st st' ∧ Covered gens st' (impDict :: (typeNeeds cfg gens k ++ typeNeeds cfg gens v)) := by
          intro hxo
          simp only [bind_ok_iff] at hxo
          obtain ⟨⟨s1, st1⟩, h1, ⟨s2, st2⟩, h2, h3⟩ := hxo
          simp only [Outcome.ok.injEq, Prod.mk.injEq] at h3
          obtain ⟨hm1, hc1⟩ := formatType_spec cfg gens k _ s1 st1 h1
          obtain ⟨hm2, hc2⟩ := formatType_spec cfg gens v _ s2 st2 h2
          rw [← h3.2]
          exact ⟨((mono_addImport st _ _).trans hm1).trans hm2,
            Covered.cons (hm2 _ (hm1 _ (provides_addImport st _ _))) ((hc1.mono hm2).append hc2)⟩
        split at hk
        · split at hk
          · simp at hk
          · exact key hk
        · exact key hk
    | .prim p, st, s, st', h => by
      simp only [formatType] at h
      simp only [typeNeeds]
      rcases special_cases cfg _ st _ s st' h with ⟨hm, hmono⟩ | ⟨hm, hk⟩
      · simp only [hm, if_true]; exact ⟨hmono, Covered.nil gens _⟩
      · simp only [hm, Bool.false_eq_true, if_false]
        cases p <;> simp only [Outcome.ok.injEq, Prod.mk.injEq] at hk <;> rw [← hk.2] <;>
          first
            | exact ⟨Mono.refl st, by simpa using Covered.nil gens st⟩
            | exact ⟨mono_addImport st _ _, by
                simpa [impDatetime] using
                  Covered.cons (provides_addImport st s%"datetime" s%"datetime") (Covered.nil gens _)⟩
  theorem formatTypes_spec (cfg : Cfg) (gens : List Str) : ∀ (ts : List RustType) (st : St) (ss : List Str) (st' : St),
      formatTypes cfg gens ts st = .ok (ss, st') → Mono st st' ∧ Covered gens st' (typeNeedsList cfg gens ts)
    | [], st, ss, st', h => by
      simp only [formatTypes, Outcome.ok.injEq, Prod.mk.injEq] at h
      rw [← h.2]; exact ⟨Mono.refl st, Covered.nil gens _⟩
    | t :: ts, st, ss, st', h => by
      simp only [formatTypes, bind_ok_iff] at h
      obtain ⟨⟨s1, st1⟩, h1, ⟨s2, st2⟩, h2, h3⟩ := h
      simp only [Outcome.ok.injEq, Prod.mk.injEq] at h3
      obtain ⟨hm1, hc1⟩ := formatType_spec cfg gens t st s1 st1 h1
      obtain ⟨hm2, hc2⟩ := formatTypes_spec cfg gens ts st1 s2 st2 h2
      rw [← h3.2]
      exact ⟨hm1.trans hm2, (hc1.mono hm2).append hc2⟩
end


/-! ### the printed type string does not depend on the printer state -/

theorem special_indep (cfg : Cfg) (t : RustType) (st : St) (k : St → Outcome (Str × St)) (s : Str) (st' : St)
    (hk : ∀ s st', k st = .ok (s, st') → ∀ st2, ∃ st2', k st2 = .ok (s, st2'))
    (h : special cfg t st k = .ok (s, st')) : ∀ st2, ∃ st2', special cfg t st2 k = .ok (s, st2') := by
  intro st2
  unfold special at h ⊢
  cases hm : mapGet cfg.typeMappings t.display with
  | some m =>
    rw [hm] at h
    simp only [Outcome.ok.injEq, Prod.mk.injEq] at h
    exact ⟨_, by rw [h.1]⟩
  | none => rw [hm] at h; exact hk s st' h st2

theorem wrap_indep (cfg : Cfg) (gens : List Str) (r : RustType) (m i : Str) (pre post : Str)
    (ih : ∀ st s st', formatType cfg gens r st = .ok (s, st') → ∀ st2, ∃ st2', formatType cfg gens r st2 = .ok (s, st2'))
    (st : St) (s : Str) (st' : St)
    (h : ((formatType cfg gens r (addImport st m i)).bind fun (x : Str × St) =>
      Outcome.ok (pre ++ x.1 ++ post, x.2)) = .ok (s, st')) :
    ∀ st2, ∃ st2', ((formatType cfg gens r (addImport st2 m i)).bind fun (x : Str × St) =>
      Outcome.ok (pre ++ x.1 ++ post, x.2)) = .ok (s, st2') := by
  intro st2
  simp only [bind_ok_iff] at h ⊢
  obtain ⟨⟨s1, st1⟩, h1, h2⟩ := h
  simp only [Outcome.ok.injEq, Prod.mk.injEq] at h2
  obtain ⟨st4, h4⟩ := ih _ s1 st1 h1 (addImport st2 m i)
  exact ⟨st4, (s1, st4), h4, by simp [← h2.1]⟩

mutual
  theorem formatType_indep (cfg : Cfg) (gens : List Str) : ∀ (t : RustType) (st : St) (s : Str) (st' : St),
      formatType cfg gens t st = .ok (s, st') → ∀ st2, ∃ st2', formatType cfg gens t st2 = .ok (s, st2')
    | .simple id, st, s, st', h => by
      intro st2
      simp only [formatType, formatSimple, Outcome.ok.injEq, Prod.mk.injEq] at h ⊢
      exact ⟨_, h.1, rfl⟩
    | .generic id ps, st, s, st', h => by
      intro st2
      simp only [formatType] at h ⊢
      cases hm : mapGet cfg.typeMappings id with
      | some m =>
        rw [hm] at h
        simp only [Outcome.ok.injEq, Prod.mk.injEq] at h ⊢
        exact ⟨_, h.1, rfl⟩
      | none =>
        rw [hm] at h
        simp only at h ⊢
        cases hps : formatTypes cfg gens ps (addImports st id) with
        | ok r =>
          obtain ⟨strs, st1⟩ := r
          rw [hps] at h
          simp only [formatSimple, Outcome.ok.injEq, Prod.mk.injEq] at h
          obtain ⟨st3, h3⟩ := formatTypes_indep cfg gens ps _ strs st1 hps (addImports st2 id)
          rw [h3]
          exact ⟨_, by simp only [formatSimple]; rw [← h.1]⟩
        | err e => rw [hps] at h; simp at h
        | panic e => rw [hps] at h; simp at h
    | .vec r, st, s, st', h => by
      simp only [formatType] at h ⊢
      refine special_indep cfg _ st _ s st' ?_ h
      intro s2 st2 hk
      exact wrap_indep cfg gens r _ _ s%"List[" s%"]" (formatType_indep cfg gens r) st s2 st2 hk
    | .slice r, st, s, st', h => by
      simp only [formatType] at h ⊢
      refine special_indep cfg _ st _ s st' ?_ h
      intro s2 st2 hk
      exact wrap_indep cfg gens r _ _ s%"List[" s%"]" (formatType_indep cfg gens r) st s2 st2 hk
    | .array r n, st, s, st', h => by
      simp only [formatType] at h ⊢
      refine special_indep cfg _ st _ s st' ?_ h
      intro s2 st2 hk
      exact wrap_indep cfg gens r _ _ s%"List[" s%"]" (formatType_indep cfg gens r) st s2 st2 hk
    | .option r, st, s, st', h => by
      simp only [formatType] at h ⊢
      refine special_indep cfg _ st _ s st' ?_ h
      intro s2 st2 hk
      exact wrap_indep cfg gens r _ _ s%"Optional[" s%"]" (formatType_indep cfg gens r) st s2 st2 hk
    | .hashMap k v, st, s, st', h => by
      simp only [formatType] at h ⊢
      refine special_indep cfg _ st _ s st' ?_ h
      intro s3 st3 hk st4
      have key : ((formatType cfg gens k (addImport st kTyping s%"Dict")).bind fun (ks, st) =>
            (formatType cfg gens v st).bind fun (vs, st) =>
              .ok (s%"Dict[" ++ ks ++ s%", " ++ vs ++ s%"]", st)) = .ok (s3, st3) →
          ∃ st5, ((formatType cfg gens k (addImport st4 kTyping s%"Dict")).bind fun (ks, st) =>
            (formatType cfg gens v st).bind fun (vs, st) =>
              .ok (s%"Dict[" ++ ks ++ s%", " ++ vs ++ s%"]", st)) = .ok (s3, st5) := by
        intro hxo
        simp only [bind_ok_iff] at hxo ⊢
        obtain ⟨⟨s1, st1⟩, h1, ⟨s2, st2⟩, h2, h3⟩ := hxo
        simp only [Outcome.ok.injEq, Prod.mk.injEq] at h3
        obtain ⟨st6, h6⟩ := formatType_indep cfg gens k _ s1 st1 h1 (addImport st4 kTyping s%"Dict")
        obtain ⟨st7, h7⟩ := formatType_indep cfg gens v st1 s2 st2 h2 st6
        exact ⟨st7, (s1, st6), h6, (s2, st7), h7, by simp [← h3.1]⟩
      split at hk
      · split at hk
        · simp at hk
        · rename_i hc
          simp only [hc, Bool.false_eq_true, if_false]
          exact key hk
      · exact key hk
    | .prim p, st, s, st', h => by
      simp only [formatType] at h ⊢
      refine special_indep cfg _ st _ s st' ?_ h
      intro s2 st2 hk st3
      cases p <;> simp only [Outcome.ok.injEq, Prod.mk.injEq] at hk ⊢ <;> exact ⟨_, hk.1, rfl⟩
  theorem formatTypes_indep (cfg : Cfg) (gens : List Str) : ∀ (ts : List RustType) (st : St) (ss : List Str)
      (st' : St), formatTypes cfg gens ts st = .ok (ss, st') →
      ∀ st2, ∃ st2', formatTypes cfg gens ts st2 = .ok (ss, st2')
    | [], st, ss, st', h => by
      intro st2
      simp only [formatTypes, Outcome.ok.injEq, Prod.mk.injEq] at h ⊢
      exact ⟨st2, h.1, rfl⟩
    | t :: ts, st, ss, st', h => by
      intro st2
      simp only [formatTypes, bind_ok_iff] at h ⊢
      obtain ⟨⟨s1, st1⟩, h1, ⟨s2, st3⟩, h2, h3⟩ := h
      simp only [Outcome.ok.injEq, Prod.mk.injEq] at h3
      obtain ⟨st4, h4⟩ := formatType_indep cfg gens t st s1 st1 h1 st2
      obtain ⟨st5, h5⟩ := formatTypes_indep cfg gens ts st1 s2 st3 h2 st4
      exact ⟨st5, (s1, st4), h4, (s2, st5), h5, by simp [← h3.1]⟩
end

/-- the Python type string `format_type` prints for `t` (state-independent by `formatType_indep`) -/
def pyTy (cfg : Cfg) (gens : List Str) (t : RustType) : Option Str :=
  match formatType cfg gens t {} with
  | .ok (s, _) => some s
  | _ => none

theorem pyTy_eq (cfg : Cfg) (gens : List Str) (t : RustType) (st : St) (s : Str) (st' : St)
    (h : formatType cfg gens t st = .ok (s, st')) : pyTy cfg gens t = some s := by
  obtain ⟨st2, h2⟩ := formatType_indep cfg gens t st s st' h {}
  simp [pyTy, h2]


/-! ## fields -/

def impField : Need := .imp kPydantic s%"Field"
def impAnnotated : Need := .imp kTyping s%"Annotated"
def impBefore : Need := .imp kPydantic s%"BeforeValidator"
def impPlain : Need := .imp kPydantic s%"PlainSerializer"
def impBaseModel : Need := .imp kPydantic s%"BaseModel"
def impConfigDict : Need := .imp kPydantic s%"ConfigDict"
def impGeneric : Need := .imp kTyping s%"Generic"
def impTypeVar : Need := .imp kTyping s%"TypeVar"
def impEnum : Need := .imp s%"enum" s%"Enum"
def impLiteral : Need := .imp kTyping s%"Literal"
def impUnion : Need := .imp kTyping s%"Union"

/-- the python type of the field when it has a custom JSON translation (`bytes`, `datetime`) -/
def customTy (cfg : Cfg) (gens : List Str) (f : RustField) : Option Str :=
  match pyTy cfg gens f.ty with
  | some t => if (jsonTranslation t).isSome then some t else none
  | none => none

/-- `not_optional_but_default` -/
def nod (f : RustField) : Bool := !f.ty.isOptional && f.hasDefault

/-- the names one field line uses: its type's names, the `Optional[` wrapped around a defaulted
non-`Option`, `Field(` when there is an alias or a default, and for a custom-translated type
`Annotated[.., BeforeValidator(..), PlainSerializer(..)]` and the two translation functions named
there.  (Since the `fix:` commit 0d6268d `write_field` registers the unwrapped type for function
generation whether or not the field is defaulted; before it the functions of a defaulted
non-`Option` field were a separate list `fieldRisky` the printer did not account for.) -/
def fieldSafe (E : Ext) (cfg : Cfg) (gens : List Str) (f : RustField) : List Need :=
  typeNeeds cfg gens f.ty ++
  (if nod f then [impOptional] else []) ++
  (if propertyAwareRename E f.id.original != f.id.renamed || (f.ty.isOptional || f.hasDefault) then [impField] else []) ++
  (match customTy cfg gens f with
   | some t => [impAnnotated, impBefore, impPlain, .fns t]
   | none => [])

theorem Covered.ite {gens : List Str} {st : St} {c : Bool} {x : Need} (h : c = true → Provides st x) :
    Covered gens st (if c = true then [x] else []) := by
  cases c with
  | true => exact Covered.cons (h rfl) (Covered.nil _ _)
  | false => exact Covered.nil _ _

theorem addCommonImports_spec (st : St) (a b c : Bool) :
    Mono st (addCommonImports st a b c) ∧
    (a = true → Provides (addCommonImports st a b c) impOptional) ∧
    (b = true → Provides (addCommonImports st a b c) impAnnotated ∧ Provides (addCommonImports st a b c) impBefore ∧
      Provides (addCommonImports st a b c) impPlain) ∧
    ((c || a) = true → Provides (addCommonImports st a b c) impField) := by
  unfold addCommonImports
  dsimp only
  -- name the three stages
  generalize hs1 : (if a = true then addImport st kTyping s%"Optional" else st) = s1
  generalize hs2 : (if b = true then
      addImport (addImport (addImport s1 kPydantic s%"BeforeValidator") kPydantic s%"PlainSerializer") kTyping s%"Annotated"
    else s1) = s2
  have m1 : Mono st s1 := by rw [← hs1]; split; exact mono_addImport _ _ _; exact Mono.refl _
  have m2 : Mono s1 s2 := by
    rw [← hs2]; split
    · exact ((mono_addImport _ _ _).trans (mono_addImport _ _ _)).trans (mono_addImport _ _ _)
    · exact Mono.refl _
  have m3 : Mono s2 (if (c || a) = true then addImport s2 kPydantic s%"Field" else s2) := by
    split; exact mono_addImport _ _ _; exact Mono.refl _
  refine ⟨(m1.trans m2).trans m3, ?_, ?_, ?_⟩
  · intro ha
    apply m3; apply m2
    rw [← hs1]; simp only [ha, if_true]; exact provides_addImport _ _ _
  · intro hb
    have : Provides s2 impAnnotated ∧ Provides s2 impBefore ∧ Provides s2 impPlain := by
      rw [← hs2]; simp only [hb, if_true]
      refine ⟨provides_addImport _ _ _, ?_, ?_⟩
      · exact mono_addImport _ _ _ _ (mono_addImport _ _ _ _ (provides_addImport _ _ _))
      · exact mono_addImport _ _ _ _ (provides_addImport _ _ _)
    exact ⟨m3 _ this.1, m3 _ this.2.1, m3 _ this.2.2⟩
  · intro hc
    simp only [hc, if_true]; exact provides_addImport _ _ _

theorem fieldFacts_spec (E : Ext) (cfg : Cfg) (gens : List Str) (f : RustField) (st : St) (pf : PyField) (st' : St)
    (h : fieldFacts E cfg gens f st = .ok (pf, st')) :
    Mono st st' ∧ Covered gens st' (fieldSafe E cfg gens f) := by
  simp only [fieldFacts, bind_ok_iff] at h
  obtain ⟨⟨pt, st1⟩, h1, h2⟩ := h
  obtain ⟨hm1, hc1⟩ := formatType_spec cfg gens f.ty st pt st1 h1
  have hpt := pyTy_eq cfg gens f.ty st pt st1 h1
  simp only at h2
  obtain ⟨hmA, hA1, hA2, hA3⟩ := addCommonImports_spec st1 (f.ty.isOptional || f.hasDefault)
    (jsonTranslation pt).isSome (propertyAwareRename E f.id.original != f.id.renamed)
  generalize hst2 : addCommonImports st1 (f.ty.isOptional || f.hasDefault) (jsonTranslation pt).isSome
    (propertyAwareRename E f.id.original != f.id.renamed) = st2 at h2 hmA hA1 hA2 hA3
  have hOpt : nod f = true → Provides st2 impOptional := by
    intro hn
    apply hA1
    simp only [nod, Bool.and_eq_true, Bool.not_eq_true'] at hn
    simp [hn.2]
  -- the state after the optional registration of the custom type, and what it still provides
  have common : ∀ st3, Mono st2 st3 →
      Covered gens st3 (typeNeeds cfg gens f.ty ++ (if nod f = true then [impOptional] else []) ++
        (if (propertyAwareRename E f.id.original != f.id.renamed || (f.ty.isOptional || f.hasDefault)) = true
          then [impField] else [])) := by
    intro st3 m23
    exact (((hc1.mono hmA).mono m23).append (Covered.ite fun hn => m23 _ (hOpt hn))).append
      (Covered.ite fun hn => m23 _ (hA3 hn))
  cases hj : jsonTranslation pt with
  | none =>
    rw [hj] at h2
    simp only [Outcome.ok.injEq, Prod.mk.injEq] at h2
    rw [← h2.2]
    refine ⟨hm1.trans hmA, ?_⟩
    have hct : customTy cfg gens f = none := by simp [customTy, hpt, hj]
    simp only [fieldSafe, hct, List.append_nil]
    exact common st2 (Mono.refl _)
  | some c =>
    rw [hj] at h2 hA2
    simp only [Outcome.ok.injEq, Prod.mk.injEq] at h2
    rw [← h2.2]
    have mC := mono_addCustom st2 pt
    refine ⟨(hm1.trans hmA).trans mC, ?_⟩
    have hct : customTy cfg gens f = some pt := by simp [customTy, hpt, hj]
    simp only [fieldSafe, hct]
    refine (common _ mC).append ?_
    have hA := hA2 rfl
    exact Covered.cons (mC _ hA.1) (Covered.cons (mC _ hA.2.1) (Covered.cons (mC _ hA.2.2)
      (Covered.cons (provides_addCustom st2 pt) (Covered.nil _ _))))

theorem fieldsFacts_spec (E : Ext) (cfg : Cfg) (gens : List Str) : ∀ (fs : List RustField) (st : St) r (st' : St),
    fieldsFacts E cfg gens fs st = .ok (r, st') →
    Mono st st' ∧ Covered gens st' (fs.flatMap (fieldSafe E cfg gens))
  | [], st, r, st', h => by
    simp only [fieldsFacts, Outcome.ok.injEq, Prod.mk.injEq] at h
    rw [← h.2]; exact ⟨Mono.refl st, Covered.nil _ _⟩
  | f :: fs, st, r, st', h => by
    simp only [fieldsFacts, bind_ok_iff] at h
    obtain ⟨⟨pf, st1⟩, h1, ⟨rest, st2⟩, h2, h3⟩ := h
    simp only [Outcome.ok.injEq, Prod.mk.injEq] at h3
    obtain ⟨hm1, hc1⟩ := fieldFacts_spec E cfg gens f st pf st1 h1
    obtain ⟨hm2, hc2⟩ := fieldsFacts_spec E cfg gens fs st1 rest st2 h2
    rw [← h3.2]
    exact ⟨hm1.trans hm2, by simpa using (hc1.mono hm2).append hc2⟩


/-! ## structs -/

def visiblyRenamed (E : Ext) (rs : RustStruct) : Bool :=
  rs.fields.any fun f => propertyAwareRename E f.id.original != f.id.renamed

/-- the names a pydantic model class uses: `BaseModel`; `Generic[..]`, the `TypeVar`s and the name
`TypeVar` of their declarations; `ConfigDict`; and what its field lines use -/
def structSafe (E : Ext) (cfg : Cfg) (rs : RustStruct) : List Need :=
  impBaseModel :: (rs.genericTypes.map Need.typeVar ++
  (if rs.genericTypes.isEmpty then [] else [impGeneric, impTypeVar]) ++
  (if visiblyRenamed E rs then [impConfigDict] else []) ++
  rs.fields.flatMap (fieldSafe E cfg rs.genericTypes))

theorem structFacts_spec (E : Ext) (cfg : Cfg) (rs : RustStruct) (st : St) (c : PyClass) (st' : St)
    (h : structFacts E cfg rs st = .ok (c, st')) :
    Mono st st' ∧ ∀ n ∈ structSafe E cfg rs, Provides st' n := by
  simp only [structFacts, bind_ok_iff] at h
  obtain ⟨⟨fields, st4⟩, h1, h2⟩ := h
  simp only [Outcome.ok.injEq, Prod.mk.injEq] at h2
  rw [← h2.2]
  generalize hs1 : addImport st kPydantic s%"BaseModel" = s1 at h1
  generalize hs2 : rs.genericTypes.foldl addTypeVar s1 = s2 at h1
  generalize hs3 : (if rs.genericTypes.isEmpty = true then s2 else addImport s2 kTyping s%"Generic") = s3 at h1
  have hvr : (rs.fields.any fun f => propertyAwareRename E f.id.original != f.id.renamed) = visiblyRenamed E rs := rfl
  rw [hvr] at h1
  generalize hs4 : (if visiblyRenamed E rs = true then addImport s3 kPydantic s%"ConfigDict" else s3) = s4 at h1
  have m01 : Mono st s1 := by rw [← hs1]; exact mono_addImport _ _ _
  have m12 : Mono s1 s2 := by rw [← hs2]; exact mono_foldl_addTypeVar _ _
  have m23 : Mono s2 s3 := by rw [← hs3]; split; exact Mono.refl _; exact mono_addImport _ _ _
  have m34 : Mono s3 s4 := by rw [← hs4]; split; exact mono_addImport _ _ _; exact Mono.refl _
  obtain ⟨m45, hc⟩ := fieldsFacts_spec E cfg rs.genericTypes rs.fields s4 fields st4 h1
  have hgens : ∀ g ∈ rs.genericTypes, Provides st4 (.typeVar g) ∧ Provides st4 impTypeVar := by
    intro g hg
    have := provides_foldl_addTypeVar rs.genericTypes s1 g hg
    rw [hs2] at this
    exact ⟨m45 _ (m34 _ (m23 _ this.1)), m45 _ (m34 _ (m23 _ this.2))⟩
  refine ⟨(((m01.trans m12).trans m23).trans m34).trans m45, ?_⟩
  intro n hn
  simp only [structSafe, List.mem_cons, List.mem_append, List.mem_map] at hn
  rcases hn with rfl | ((⟨g, hg, rfl⟩ | hn) | hn) | hn
  · apply m45; apply m34; apply m23; apply m12; rw [← hs1]; exact provides_addImport _ _ _
  · exact (hgens g hg).1
  · split at hn
    · simp at hn
    · rename_i hne
      simp only [List.mem_cons, List.mem_nil_iff, or_false] at hn
      rcases hn with rfl | rfl
      · apply m45; apply m34; rw [← hs3]; simp only [hne, if_false, Bool.false_eq_true]; exact provides_addImport _ _ _
      · cases hgt : rs.genericTypes with
        | nil => simp [hgt] at hne
        | cons g gs => exact (hgens g (by simp [hgt])).2
  · split at hn
    · rename_i hv
      simp only [List.mem_singleton] at hn
      subst hn
      apply m45; rw [← hs4]; simp only [hv, if_true]; exact provides_addImport _ _ _
    · simp at hn
  · rcases hc n hn with h | ⟨g, hg, rfl⟩
    · exact h
    · exact (hgens g hg).1

/-! ## enums -/

/-- the classes generated for the struct variants -/
def innerSafe (E : Ext) (cfg : Cfg) (e : RustEnum) (l : List (Id × List RustField)) : List Need :=
  l.flatMap fun p => structSafe E cfg (anonymousStruct e (innerName e p.1.original) p.1.original p.2)

theorem innerFacts_spec (E : Ext) (cfg : Cfg) (e : RustEnum) : ∀ (l : List (Id × List RustField)) (st : St) r (st' : St),
    innerFacts E cfg e l st = .ok (r, st') → Mono st st' ∧ ∀ n ∈ innerSafe E cfg e l, Provides st' n
  | [], st, r, st', h => by
    simp only [innerFacts, Outcome.ok.injEq, Prod.mk.injEq] at h
    rw [← h.2]; exact ⟨Mono.refl st, by simp [innerSafe]⟩
  | (id, fs) :: rest, st, r, st', h => by
    simp only [innerFacts, bind_ok_iff] at h
    obtain ⟨⟨c, st1⟩, h1, ⟨cs, st2⟩, h2, h3⟩ := h
    simp only [Outcome.ok.injEq, Prod.mk.injEq] at h3
    obtain ⟨hm1, hp1⟩ := structFacts_spec E cfg _ st c st1 h1
    obtain ⟨hm2, hp2⟩ := innerFacts_spec E cfg e rest st1 cs st2 h2
    rw [← h3.2]
    refine ⟨hm1.trans hm2, ?_⟩
    intro n hn
    simp only [innerSafe, List.flatMap_cons, List.mem_append] at hn
    rcases hn with hn | hn
    · exact hm2 _ (hp1 n hn)
    · exact hp2 n hn

/-- one variant class: `Literal[..]`, and the names of a tuple payload's type -/
def variantSafe (cfg : Cfg) (e : RustEnum) (v : RustEnumVariant) : List Need :=
  impLiteral :: (match v with
    | .tuple _ _ ty => typeNeeds cfg e.genericTypes ty
    | _ => [])

theorem variantsFacts_spec (E : Ext) (cfg : Cfg) (e : RustEnum) (tag content : Str) :
    ∀ (vs : List RustEnumVariant) (st : St) r (st' : St),
    variantsFacts E cfg e tag content vs st = .ok (r, st') →
    Mono st st' ∧ Covered e.genericTypes st' (vs.flatMap (variantSafe cfg e)) ∧ r.length = vs.length
  | [], st, r, st', h => by
    simp only [variantsFacts, Outcome.ok.injEq, Prod.mk.injEq] at h
    rw [← h.2, ← h.1]; exact ⟨Mono.refl st, Covered.nil _ _, rfl⟩
  | v :: vs, st, r, st', h => by
    simp only [variantsFacts, bind_ok_iff] at h
    obtain ⟨⟨pv, st1⟩, h1, ⟨rest, st2⟩, h2, h3⟩ := h
    simp only [Outcome.ok.injEq, Prod.mk.injEq] at h3
    have hv : Mono st st1 ∧ Covered e.genericTypes st1 (variantSafe cfg e v) := by
      cases v with
      | unit i c =>
        simp only [variantFacts, Outcome.ok.injEq, Prod.mk.injEq] at h1
        rw [← h1.2]
        exact ⟨mono_addImport _ _ _, Covered.cons (provides_addImport _ _ _) (Covered.nil _ _)⟩
      | tuple i c ty =>
        simp only [variantFacts, bind_ok_iff] at h1
        obtain ⟨⟨t, st3⟩, h4, h5⟩ := h1
        simp only [Outcome.ok.injEq, Prod.mk.injEq] at h5
        obtain ⟨hm, hc⟩ := formatType_spec cfg e.genericTypes ty st t st3 h4
        rw [← h5.2]
        exact ⟨hm.trans (mono_addImport _ _ _),
          Covered.cons (provides_addImport _ _ _) (hc.mono (mono_addImport _ _ _))⟩
      | anonymousStruct i c fs =>
        simp only [variantFacts, Outcome.ok.injEq, Prod.mk.injEq] at h1
        rw [← h1.2]
        exact ⟨mono_addImport _ _ _, Covered.cons (provides_addImport _ _ _) (Covered.nil _ _)⟩
    obtain ⟨hm2, hc2, hl⟩ := variantsFacts_spec E cfg e tag content vs st1 rest st2 h2
    rw [← h3.2, ← h3.1]
    exact ⟨hv.1.trans hm2, by simpa using (hv.2.mono hm2).append hc2, by simp [hl]⟩

/-- the names the text generated for an enum uses -/
def enumSafe (E : Ext) (cfg : Cfg) (e : RustEnum) : List Need :=
  innerSafe E cfg e (structVariants e) ++
  (match e.keys with
   | none => [impEnum]
   | some _ =>
     impBaseModel :: impEnum :: ((if e.genericTypes.isEmpty then [] else [impTypeVar]) ++
     e.variants.flatMap (variantSafe cfg e) ++
     (if e.variants.length == 1 then [] else [impUnion])))

theorem writeEnum_spec (E : Ext) (cfg : Cfg) (e : RustEnum) (st : St) (text : Str) (st' : St)
    (h : writeEnum E cfg e st = .ok (text, st')) : Mono st st' ∧ ∀ n ∈ enumSafe E cfg e, Provides st' n := by
  unfold writeEnum at h
  unfold enumSafe
  cases hk : e.keys with
  | none =>
    rw [hk] at h
    simp only [bind_ok_iff] at h
    obtain ⟨⟨inner, st1⟩, h1, ms, _, h3⟩ := h
    simp only [Outcome.ok.injEq, Prod.mk.injEq] at h3
    obtain ⟨hm1, hp1⟩ := innerFacts_spec E cfg e _ st inner st1 h1
    rw [← h3.2]
    refine ⟨hm1.trans (mono_addImport _ _ _), ?_⟩
    intro n hn
    simp only [List.mem_append, List.mem_singleton] at hn
    rcases hn with hn | rfl
    · exact mono_addImport _ _ _ _ (hp1 n hn)
    · exact provides_addImport _ _ _
  | some k =>
    rw [hk] at h
    simp only [bind_ok_iff, unionFacts] at h
    obtain ⟨⟨u, st5⟩, ⟨⟨inner, st1⟩, h1, ⟨vs, st4⟩, h2, h3⟩, h4⟩ := h
    simp only [Outcome.ok.injEq, Prod.mk.injEq] at h3 h4
    obtain ⟨hm1, hp1⟩ := innerFacts_spec E cfg e _ st inner st1 h1
    generalize hs2 : e.genericTypes.foldl addTypeVar st1 = s2 at h2
    generalize hs3 : addImport (addImport s2 kPydantic s%"BaseModel") s%"enum" s%"Enum" = s3 at h2
    obtain ⟨hm4, hc4, hlen⟩ := variantsFacts_spec E cfg e _ _ e.variants s3 vs st4 h2
    have m12 : Mono st1 s2 := by rw [← hs2]; exact mono_foldl_addTypeVar _ _
    have m23 : Mono s2 s3 := by rw [← hs3]; exact (mono_addImport _ _ _).trans (mono_addImport _ _ _)
    have m45 : Mono st4 st5 := by
      rw [← h3.2]; split; exact Mono.refl _; exact mono_addImport _ _ _
    have hgens : ∀ g ∈ e.genericTypes, Provides st4 (.typeVar g) ∧ Provides st4 impTypeVar := by
      intro g hg
      have := provides_foldl_addTypeVar e.genericTypes st1 g hg
      rw [hs2] at this
      exact ⟨hm4 _ (m23 _ this.1), hm4 _ (m23 _ this.2)⟩
    rw [← h4.2]
    refine ⟨(((hm1.trans m12).trans m23).trans hm4).trans m45, ?_⟩
    intro n hn
    simp only [List.mem_append, List.mem_cons] at hn
    rcases hn with hn | rfl | rfl | (hn | hn) | hn
    · exact m45 _ (hm4 _ (m23 _ (m12 _ (hp1 n hn))))
    · apply m45; apply hm4; rw [← hs3]; exact mono_addImport _ _ _ _ (provides_addImport _ _ _)
    · apply m45; apply hm4; rw [← hs3]; exact provides_addImport _ _ _
    · split at hn
      · simp at hn
      · rename_i hne
        simp only [List.mem_singleton] at hn
        subst hn
        cases hgt : e.genericTypes with
        | nil => simp [hgt] at hne
        | cons g gs => exact m45 _ (hgens g (by simp [hgt])).2
    · rcases hc4 n hn with h | ⟨g, hg, rfl⟩
      · exact m45 _ h
      · exact m45 _ (hgens g hg).1
    · split at hn
      · simp at hn
      · rename_i hne
        simp only [List.mem_singleton] at hn
        subst hn
        rw [← h3.2]
        rw [hlen]
        simp only [hne, if_false, Bool.false_eq_true]
        exact provides_addImport _ _ _


/-! ## items and the file -/

/-- the names an item's text uses and the printer accounts for.  A type alias (since the `fix:`
commit f8d1040: `G = List[T]`, every generic parameter registered with `add_type_var`): the
`TypeVar`s of its parameters and the name `TypeVar` of their declarations, and what its type uses —
uses of a generic parameter included -/
def itemSafe (E : Ext) (cfg : Cfg) : RustItem → List Need
  | .struct s => structSafe E cfg s
  | .enum e => enumSafe E cfg e
  | .alias a => a.genericTypes.map Need.typeVar ++ (if a.genericTypes.isEmpty then [] else [impTypeVar]) ++
      typeNeeds cfg a.genericTypes a.ty
  | .const c => typeNeeds cfg [] c.ty

theorem writeItem_spec (E : Ext) (cfg : Cfg) (it : RustItem) (st : St) (text : Str) (st' : St)
    (h : writeItem E cfg it st = .ok (text, st')) : Mono st st' ∧ ∀ n ∈ itemSafe E cfg it, Provides st' n := by
  cases it with
  | struct rs =>
    simp only [writeItem, writeStruct, bind_ok_iff] at h
    obtain ⟨⟨c, st1⟩, h1, h2⟩ := h
    simp only [Outcome.ok.injEq, Prod.mk.injEq] at h2
    rw [← h2.2]; exact structFacts_spec E cfg rs st c st1 h1
  | «enum» e => exact writeEnum_spec E cfg e st text st' h
  | alias a =>
    simp only [writeItem, aliasFacts, bind_ok_iff] at h
    obtain ⟨⟨pa, st1⟩, ⟨⟨ty, st2⟩, h1, h2⟩, h3⟩ := h
    simp only [Outcome.ok.injEq, Prod.mk.injEq] at h2 h3
    obtain ⟨hm, hc⟩ := formatType_spec cfg a.genericTypes a.ty st ty st2 h1
    rw [← h3.2, ← h2.2]
    have hm2 := mono_foldl_addTypeVar a.genericTypes st2
    refine ⟨hm.trans hm2, ?_⟩
    intro n hn
    simp only [itemSafe, List.mem_append, List.mem_map] at hn
    rcases hn with (⟨g, hg, rfl⟩ | hn) | hn
    · exact (provides_foldl_addTypeVar a.genericTypes st2 g hg).1
    · split at hn
      · simp at hn
      · rename_i hne
        simp only [List.mem_singleton] at hn
        subst hn
        cases hgt : a.genericTypes with
        | nil => simp [hgt] at hne
        | cons g gs =>
          have := (provides_foldl_addTypeVar a.genericTypes st2 g (by simp [hgt])).2
          rw [hgt] at this
          exact this
    · rcases hc n hn with h | ⟨g, hg, rfl⟩
      · exact hm2 _ h
      · exact (provides_foldl_addTypeVar a.genericTypes st2 g hg).1
  | const c =>
    simp only [writeItem, constFacts, bind_ok_iff] at h
    obtain ⟨⟨pc, st1⟩, ⟨⟨ty, st2⟩, h1, h2⟩, h3⟩ := h
    simp only [Outcome.ok.injEq, Prod.mk.injEq] at h2 h3
    obtain ⟨hm, hc⟩ := formatType_spec cfg [] c.ty st ty st2 h1
    rw [← h3.2, ← h2.2]
    refine ⟨hm, ?_⟩
    intro n hn
    rcases hc n hn with h | ⟨g, hg, _⟩
    · exact h
    · simp at hg

theorem writeItems_spec (E : Ext) (cfg : Cfg) : ∀ (its : List RustItem) (st : St) (text : Str) (st' : St),
    writeItems E cfg its st = .ok (text, st') →
    Mono st st' ∧ ∀ n ∈ its.flatMap (itemSafe E cfg), Provides st' n
  | [], st, text, st', h => by
    simp only [writeItems, Outcome.ok.injEq, Prod.mk.injEq] at h
    rw [← h.2]; exact ⟨Mono.refl st, by simp⟩
  | it :: its, st, text, st', h => by
    simp only [writeItems, bind_ok_iff] at h
    obtain ⟨⟨a, st1⟩, h1, ⟨b, st2⟩, h2, h3⟩ := h
    simp only [Outcome.ok.injEq, Prod.mk.injEq] at h3
    obtain ⟨hm1, hp1⟩ := writeItem_spec E cfg it st a st1 h1
    obtain ⟨hm2, hp2⟩ := writeItems_spec E cfg its st1 b st2 h2
    rw [← h3.2]
    refine ⟨hm1.trans hm2, ?_⟩
    intro n hn
    simp only [List.flatMap_cons, List.mem_append] at hn
    rcases hn with hn | hn
    · exact hm2 _ (hp1 n hn)
    · exact hp2 n hn

/-- **helpersUsed (Python)**, the names the item texts use -/
def safe (E : Ext) (cfg : Cfg) (d : ParsedData) : List Need := (itemsOf d).flatMap (itemSafe E cfg)

/-- **helpersUsed (Python)**, the name `datetime` inside the text of `serialize_datetime_data` /
`parse_rfc3339`, which are written whenever `datetime` is registered for custom translation
(whatever Rust type was mapped to it) -/
def fnsNeeds (st : St) : List Need := if s%"datetime" ∈ st.customJson then [impDatetime] else []

/-- everything the generated text uses on typeshare's account -/
def used (E : Ext) (cfg : Cfg) (d : ParsedData) (st : St) : List Need := safe E cfg d ++ fnsNeeds st

theorem mono_addDatetimeImport (st : St) : Mono st (addDatetimeImport st) := by
  unfold addDatetimeImport
  split
  · exact mono_addImport _ _ _
  · exact Mono.refl st

theorem addDatetimeImport_customJson (st : St) : (addDatetimeImport st).customJson = st.customJson := by
  unfold addDatetimeImport
  split <;> rfl

/-- the import `generate_types` adds before the header is written (`fix:` commit bfc37c3) provides
the `datetime` the translation functions mention -/
theorem addDatetimeImport_provides (st : St) : ∀ n ∈ fnsNeeds (addDatetimeImport st), Provides (addDatetimeImport st) n := by
  intro n hn
  unfold fnsNeeds at hn
  rw [addDatetimeImport_customJson] at hn
  split at hn
  · rename_i hd
    simp only [List.mem_singleton] at hn
    subst hn
    have hc : st.customJson.contains s%"datetime" = true := List.contains_iff_mem.2 hd
    simp only [addDatetimeImport, hc, if_true]
    exact provides_addImport _ _ _
  · simp at hn

theorem generate_spec (E : Ext) (cfg : Cfg) (d : ParsedData) (st0 : St) (text : Str) (st : St)
    (h : generate E cfg d st0 = .ok (text, st)) :
    Mono st0 st ∧ (∀ n ∈ used E cfg d st, Provides st n) ∧
    ∃ body, text = beginFile cfg ++ writeAllImports st ++ writeCustomFns st ++ body := by
  unfold generate at h
  cases ho : Pipeline.generateOrder d with
  | none => rw [ho] at h; simp at h
  | some items =>
    rw [ho] at h
    simp only [bind_ok_iff] at h
    obtain ⟨⟨body, st1⟩, h1, h2⟩ := h
    simp only [Outcome.ok.injEq, Prod.mk.injEq] at h2
    obtain ⟨hm, hp⟩ := writeItems_spec E cfg items st0 body st1 h1
    rw [← h2.2]
    refine ⟨hm.trans (mono_addDatetimeImport st1), ?_, body, h2.1.symm⟩
    intro n hn
    rcases List.mem_append.1 hn with hn | hn
    · apply mono_addDatetimeImport
      apply hp
      simp only [safe, List.mem_flatMap] at hn ⊢
      obtain ⟨it, hit, h⟩ := hn
      exact ⟨it, (generateOrder_perm d items ho).symm.subset hit, h⟩
    · exact addDatetimeImport_provides st1 n hn

/-- the functions for a registered type are in the text written before the body -/
theorem writeCustomFns_defines (st : St) (t : Str) (c : CustomFns) (ht : t ∈ st.customJson)
    (hc : jsonTranslation t = some c) :
    c.serializationContent <:+: writeCustomFns st ∧ c.deserializationContent <:+: writeCustomFns st := by
  unfold writeCustomFns
  have hm : c ∈ st.customJson.filterMap jsonTranslation := List.mem_filterMap.2 ⟨t, ht, hc⟩
  obtain ⟨l1, l2, hl⟩ := List.append_of_mem hm
  rw [hl]
  simp only [List.flatMap_append, List.flatMap_cons]
  generalize (l1.flatMap fun c => c.serializationContent ++ s%"\n\n" ++ c.deserializationContent ++ nl ++ nl) = pre
  generalize (l2.flatMap fun c => c.serializationContent ++ s%"\n\n" ++ c.deserializationContent ++ nl ++ nl) = post
  constructor
  · exact ⟨pre, s%"\n\n" ++ c.deserializationContent ++ nl ++ nl ++ post, by simp only [List.append_assoc]⟩
  · exact ⟨pre ++ (c.serializationContent ++ s%"\n\n"), nl ++ nl ++ post, by simp only [List.append_assoc]⟩


/-! ### what `write_all_imports` writes for the state -/

theorem mem_infix_intercalate (sep : Str) (l : List Str) (x : Str) (hx : x ∈ l) : x <:+: Str.intercalate sep l :=
  infix_intercalate sep l ⟨x, hx, List.infix_refl x⟩

/-- an import of the state is a `from <module> import …<ident>…` line of the header -/
theorem writeAllImports_import (st : St) (m i : Str) (h : Provides st (.imp m i)) :
    ∃ ids, i ∈ ids ∧ (s%"from " ++ m ++ s%" import " ++ Str.intercalate s%", " ids) <:+: writeAllImports st := by
  obtain ⟨ids, hmem, hi⟩ := h
  refine ⟨ids, hi, ?_⟩
  unfold writeAllImports
  have hline : (s%"from " ++ m ++ s%" import " ++ Str.intercalate s%", " ids) ∈
      ((st.imports.map fun (m, ids) => s%"from " ++ m ++ s%" import " ++ Str.intercalate s%", " ids).mergeSort
        fun a b => Str.le a b) :=
    (List.mergeSort_perm _ _).symm.subset (List.mem_map.2 ⟨(m, ids), hmem, rfl⟩)
  have := mem_infix_intercalate nl _ _ hline
  exact infix_mid s%"from __future__ import annotations\n\n" _ this |>.trans ⟨[], _, by simp only [List.nil_append, List.append_assoc]; rfl⟩

/-- a type variable of the state is declared in the header -/
theorem writeAllImports_typeVar (st : St) (n : Str) (h : Provides st (.typeVar n)) :
    (n ++ s%" = TypeVar(\"" ++ n ++ s%"\")") <:+: writeAllImports st := by
  have h' : n ∈ st.typeVars := h
  unfold writeAllImports
  have hne : (st.typeVars.map fun n => n ++ s%" = TypeVar(\"" ++ n ++ s%"\")").isEmpty = false := by
    cases hl : st.typeVars with
    | nil => rw [hl] at h'; cases h'
    | cons a b => rfl
  simp only [hne, Bool.false_eq_true, if_false]
  have hline : (n ++ s%" = TypeVar(\"" ++ n ++ s%"\")") ∈ st.typeVars.map fun n => n ++ s%" = TypeVar(\"" ++ n ++ s%"\")" :=
    List.mem_map.2 ⟨n, h', rfl⟩
  have := mem_infix_intercalate nl _ _ hline
  exact this.trans (List.infix_append' _ _ _)

end TsV.C12L.Python
