import TsV.Lemmas.C07_SortOrder
/-!
# C07_SortOrder — the comparison `reconcile_aliases` sorts by is a total order on the keys, whatever the items carry

C07: "the tool always terminates with output or a diagnostic; it never panics".  Since Rust 1.81 `slice::sort` /
`sort_by` may **panic** ("user-provided comparison function does not correctly implement a total order") when the
comparison handed to it breaks the contract of `Ord`; for slices longer than 20 elements the algorithm really
does check.  `reconcile_aliases` sorts the structs, enums and aliases of every crate with their `Ord` impls and the
consts with a `sort_by` closure; all four compare `id.original` of the two items (`Pipeline.sortBy (·.id.original)` in
the model).  A comparison that read the *renamed* name on one side and the Rust name on the other would be
inconsistent on programs with `serde(rename)` — and panic only on inputs with many items.

* `cmpStr` / `itemCmp key` (Lemmas): the `Ordering`-valued comparison; `le_is_cmp`: the Boolean `Str.le (key a) (key b)`
  of the model's `sortBy` is `itemCmp key a b ≠ .gt`.
* `SortContract cmp` — the contract `sort_by` states: `cmp a a = Equal`, `cmp b a = (cmp a b).reverse()`, and
  transitivity of `<`, `==`, `>`, with `==` a congruence for `cmp`.  `itemCmp_contract`: it holds for **every** key
  function on **every** type of items — in particular for the four the pipeline uses (`struct_contract`, …): the
  comparison is a function of the two `id.original`s alone (`ignores_rename`: changing `renamed`, fields, comments,
  decorators of either item changes nothing).
* `le_preorder`: the Boolean form is reflexive, total and transitive (a total preorder on items: two different items
  with the same Rust name compare equal).
* `sortBy_sorted`: for a list of **any length**, `sortBy key l` is a permutation of `l`, pairwise ordered by the key, and
  stable (`sortBy_stable`: two items that are in order in the input keep their relative position);
  `reconcile_sorted`: the four lists of `reconcileOne` are sorted by `id.original` and are permutations of the (type-checked)
  input lists; `long_list`: the instance for a list of more than 20 structs carrying arbitrary renames.

Nothing is false on the model.  `tools/c07.py: renamed_many_part` checks the implementation (no panic, sorted output, on
programs with > 20 renamed items).
-/
namespace TsV.C07_SortOrder
open TsV TsV.Pipeline

/-- the contract of a comparison handed to `slice::sort_by` (std: "total order") -/
structure SortContract {α} (cmp : α → α → Ordering) : Prop where
  refl : ∀ a, cmp a a = .eq
  swap : ∀ a b, cmp b a = (cmp a b).swap
  trans_lt : ∀ a b c, cmp a b = .lt → cmp b c = .lt → cmp a c = .lt
  trans_eq : ∀ a b c, cmp a b = .eq → cmp b c = .eq → cmp a c = .eq
  trans_gt : ∀ a b c, cmp a b = .gt → cmp b c = .gt → cmp a c = .gt
  congr_left : ∀ a b c, cmp a b = .eq → cmp a c = cmp b c
  congr_right : ∀ a b c, cmp a b = .eq → cmp c a = cmp c b

/-- **the comparison by a key satisfies the contract, for every key function and every item type** -/
theorem itemCmp_contract {α} (key : α → Str) : SortContract (itemCmp key) where
  refl a := cmpStr_refl _
  swap a b := cmpStr_swap _ _
  trans_lt _ _ _ := cmpStr_trans_lt
  trans_eq _ _ _ := cmpStr_trans_eq
  trans_gt _ _ _ := cmpStr_trans_gt
  congr_left _ _ c h := cmpStr_congr_left h (key c)
  congr_right _ _ c h := cmpStr_congr_right h (key c)

/-- `Ord for RustStruct`, `Ord for RustEnum`, `Ord for RustTypeAlias`, the closure of `consts.sort_by` -/
theorem struct_contract : SortContract (itemCmp fun s : RustStruct => s.id.original) := itemCmp_contract _
theorem enum_contract : SortContract (itemCmp fun e : RustEnum => e.id.original) := itemCmp_contract _
theorem alias_contract : SortContract (itemCmp fun a : RustTypeAlias => a.id.original) := itemCmp_contract _
theorem const_contract : SortContract (itemCmp fun c : RustConst => c.id.original) := itemCmp_contract _

/-- the comparison looks at the Rust names only: any `serde(rename)` (and anything else) on either side is ignored -/
theorem ignores_rename (s t s' t' : RustStruct) (hs : s'.id.original = s.id.original) (ht : t'.id.original = t.id.original) :
    itemCmp (fun s : RustStruct => s.id.original) s' t' = itemCmp (fun s : RustStruct => s.id.original) s t := by
  simp only [itemCmp, hs, ht]

example (s t : RustStruct) (r r' : Str) :
    itemCmp (fun s : RustStruct => s.id.original) { s with id := { s.id with renamed := r } } { t with id := { t.id with renamed := r' } } =
    itemCmp (fun s : RustStruct => s.id.original) s t := ignores_rename _ _ _ _ rfl rfl

/-- the model's Boolean comparison is the three-way one read as `≤` -/
theorem le_is_cmp {α} (key : α → Str) (a b : α) : Str.le (key a) (key b) = true ↔ itemCmp key a b ≠ .gt :=
  le_iff_cmp _ _

/-- **total preorder**: reflexive, total, transitive — for every key function -/
theorem le_preorder {α} (key : α → Str) :
    (∀ a : α, Str.le (key a) (key a) = true) ∧
    (∀ a b : α, (Str.le (key a) (key b) || Str.le (key b) (key a)) = true) ∧
    (∀ a b c : α, Str.le (key a) (key b) = true → Str.le (key b) (key c) = true → Str.le (key a) (key c) = true) :=
  ⟨fun a => by simp [Str.le, Order.lt_irrefl], fun a b => Order.le_total _ _, fun a b c => Order.le_trans _ _ _⟩

/-- **the sorted list, for a list of any length**: a permutation of the input, pairwise ordered by the key -/
theorem sortBy_sorted {α} (key : α → Str) (l : List α) :
    (sortBy key l).Perm l ∧ (sortBy key l).Pairwise fun a b => Str.le (key a) (key b) = true :=
  ⟨List.mergeSort_perm _ _,
   List.pairwise_mergeSort (le := fun a b => Str.le (key a) (key b))
     (fun a b c => Order.le_trans (key a) (key b) (key c)) (fun a b => Order.le_total (key a) (key b)) l⟩

/-- … and stable: an ordered pair of the input is found in the same order in the output -/
theorem sortBy_stable {α} (key : α → Str) (l : List α) (a b : α) (hab : Str.le (key a) (key b) = true)
    (h : [a, b].Sublist l) : [a, b].Sublist (sortBy key l) :=
  List.pair_sublist_mergeSort (le := fun a b => Str.le (key a) (key b))
    (fun a b c => Order.le_trans (key a) (key b) (key c)) (fun a b => Order.le_total (key a) (key b)) hab h

/-- what `reconcile_aliases` leaves in a crate: four lists sorted by the Rust name, same items as before (types reconciled) -/
theorem reconcile_sorted (r : Renames) (crate : Str) (d : ParsedData) :
    let d' := reconcileOne r crate d
    d'.structs.Pairwise (fun a b => Str.le a.id.original b.id.original = true) ∧
    d'.enums.Pairwise (fun a b => Str.le a.id.original b.id.original = true) ∧
    d'.aliases.Pairwise (fun a b => Str.le a.id.original b.id.original = true) ∧
    d'.consts.Pairwise (fun a b => Str.le a.id.original b.id.original = true) ∧
    d'.consts.Perm d.consts ∧
    d'.structs.length = d.structs.length ∧ d'.enums.length = d.enums.length ∧ d'.aliases.length = d.aliases.length ∧
    (d'.structs.map (·.id)).Perm (d.structs.map (·.id)) ∧
    (d'.enums.map (·.id)).Perm (d.enums.map (·.id)) ∧
    (d'.aliases.map (·.id)).Perm (d.aliases.map (·.id)) := by
  refine ⟨(sortBy_sorted _ _).2, (sortBy_sorted _ _).2, (sortBy_sorted _ _).2, (sortBy_sorted _ _).2,
    (sortBy_sorted _ _).1, ?_, ?_, ?_, ?_, ?_, ?_⟩
  · exact (sortBy_sorted (fun s : RustStruct => s.id.original) _).1.length_eq.trans (List.length_map _)
  · exact (sortBy_sorted (fun s : RustEnum => s.id.original) _).1.length_eq.trans (List.length_map _)
  · exact (sortBy_sorted (fun s : RustTypeAlias => s.id.original) _).1.length_eq.trans (List.length_map _)
  · exact ((sortBy_sorted (fun s : RustStruct => s.id.original) _).1.map _).trans (by simp [List.map_map, Function.comp_def])
  · exact ((sortBy_sorted (fun s : RustEnum => s.id.original) _).1.map _).trans (by simp [List.map_map, Function.comp_def])
  · exact ((sortBy_sorted (fun s : RustTypeAlias => s.id.original) _).1.map _).trans (by simp [List.map_map, Function.comp_def])

/-- the instance std's large-slice algorithm meets: more than 20 structs, each with whatever `serde(rename)` -/
theorem long_list (l : List RustStruct) (_h : 20 < l.length) :
    (sortBy (·.id.original) l).length = l.length ∧ (sortBy (·.id.original) l).Perm l ∧
    (sortBy (·.id.original) l).Pairwise fun a b => itemCmp (fun s : RustStruct => s.id.original) a b ≠ .gt := by
  obtain ⟨hp, hs⟩ := sortBy_sorted (fun s : RustStruct => s.id.original) l
  exact ⟨hp.length_eq, hp, hs.imp fun {a b} h => (le_is_cmp _ a b).1 h⟩

/-! non-vacuity: the comparison on concrete renamed items (`struct B` renamed to `"A"`, `struct A` renamed to `"Z"`):
the Rust names decide, both ways round -/
def exS (o r : Str) : RustStruct :=
  { id := ⟨o, r, true⟩, genericTypes := [], fields := [], comments := [], decorators := {}, isRedacted := false }

example : itemCmp (fun s : RustStruct => s.id.original) (exS s%"B" s%"A") (exS s%"A" s%"Z") = .gt ∧
    itemCmp (fun s : RustStruct => s.id.original) (exS s%"A" s%"Z") (exS s%"B" s%"A") = .lt ∧
    itemCmp (fun s : RustStruct => s.id.original) (exS s%"A" s%"Z") (exS s%"A" s%"Q") = .eq := by decide +kernel

example : ∃ l : List RustStruct, 20 < l.length := ⟨List.replicate 21 (exS s%"A" s%"Z"), by decide⟩

end TsV.C07_SortOrder
