import TsV.Lemmas.CollectMulti
/-!
# General list lemmas for C06 (multi-file mode)

* `Rel₂`: a pointwise relation between two lists of the same length (core has no `Forall₂`);
* strictly sorted lists (`SSorted`) are determined by their members (`ssorted_ext`);
* `find?` / `findSome?` do not depend on the order of the list when all hits agree.
-/
namespace TsV.C06M
open TsV

/-! ### pointwise relation between two lists -/

/-- `Rel₂ R l l'`: the lists have the same length and `R` holds position by position -/
def Rel₂ {α β} (R : α → β → Prop) : List α → List β → Prop
  | [], [] => True
  | x :: xs, y :: ys => R x y ∧ Rel₂ R xs ys
  | [], _ :: _ => False
  | _ :: _, [] => False

theorem Rel₂.map_eq {α β γ} {R : α → β → Prop} {f : α → γ} {g : β → γ} :
    ∀ {l : List α} {l' : List β}, Rel₂ R l l' → (∀ x y, x ∈ l → y ∈ l' → R x y → f x = g y) →
      l.map f = l'.map g
  | [], [], _, _ => rfl
  | x :: xs, y :: ys, h, hf => by
    simp only [List.map_cons]
    rw [hf x y (by simp) (by simp) h.1,
      Rel₂.map_eq h.2 (fun a b ha hb => hf a b (by simp [ha]) (by simp [hb]))]
  | [], _ :: _, h, _ => h.elim
  | _ :: _, [], h, _ => h.elim

theorem Rel₂.flatMap_perm {α β γ} {R : α → β → Prop} {f : α → List γ} {g : β → List γ} :
    ∀ {l : List α} {l' : List β}, Rel₂ R l l' → (∀ x y, x ∈ l → y ∈ l' → R x y → (f x).Perm (g y)) →
      (l.flatMap f).Perm (l'.flatMap g)
  | [], [], _, _ => by simp
  | x :: xs, y :: ys, h, hf => by
    simp only [List.flatMap_cons]
    exact (hf x y (by simp) (by simp) h.1).append
      (Rel₂.flatMap_perm h.2 (fun a b ha hb => hf a b (by simp [ha]) (by simp [hb])))
  | [], _ :: _, h, _ => h.elim
  | _ :: _, [], h, _ => h.elim

theorem Rel₂.imp {α β} {R S : α → β → Prop} :
    ∀ {l : List α} {l' : List β}, Rel₂ R l l' → (∀ x y, x ∈ l → y ∈ l' → R x y → S x y) → Rel₂ S l l'
  | [], [], _, _ => trivial
  | x :: xs, y :: ys, h, hf =>
    ⟨hf x y (by simp) (by simp) h.1, Rel₂.imp h.2 (fun a b ha hb => hf a b (by simp [ha]) (by simp [hb]))⟩
  | [], _ :: _, h, _ => h.elim
  | _ :: _, [], h, _ => h.elim

theorem Rel₂.map {α β α' β'} {R : α' → β' → Prop} (f : α → α') (g : β → β') :
    ∀ {l : List α} {l' : List β}, Rel₂ (fun x y => R (f x) (g y)) l l' → Rel₂ R (l.map f) (l'.map g)
  | [], [], _ => trivial
  | _ :: _, _ :: _, h => ⟨h.1, Rel₂.map f g h.2⟩
  | [], _ :: _, h => h.elim
  | _ :: _, [], h => h.elim

theorem Rel₂.of_map {κ α β} {R : α → β → Prop} (f : κ → α) (g : κ → β) :
    ∀ (ks : List κ), (∀ k ∈ ks, R (f k) (g k)) → Rel₂ R (ks.map f) (ks.map g)
  | [], _ => trivial
  | k :: ks, h => ⟨h k (by simp), Rel₂.of_map f g ks (fun k' hk' => h k' (by simp [hk']))⟩

theorem Rel₂.refl {α} {R : α → α → Prop} : ∀ (l : List α), (∀ x ∈ l, R x x) → Rel₂ R l l
  | [], _ => trivial
  | x :: xs, h => ⟨h x (by simp), Rel₂.refl xs (fun y hy => h y (by simp [hy]))⟩

theorem Rel₂.trans {α β γ} {R : α → β → Prop} {S : β → γ → Prop} {T : α → γ → Prop}
    (hT : ∀ x y z, R x y → S y z → T x z) :
    ∀ {l₁ : List α} {l₂ : List β} {l₃ : List γ}, Rel₂ R l₁ l₂ → Rel₂ S l₂ l₃ → Rel₂ T l₁ l₃
  | [], [], [], _, _ => trivial
  | x :: _, y :: _, z :: _, h1, h2 => ⟨hT x y z h1.1 h2.1, Rel₂.trans hT h1.2 h2.2⟩
  | [], _ :: _, _, h, _ => h.elim
  | _ :: _, [], _, h, _ => h.elim
  | [], [], _ :: _, _, h => h.elim
  | _ :: _, _ :: _, [], _, h => h.elim

theorem Rel₂.symm {α β} {R : α → β → Prop} {S : β → α → Prop} (hS : ∀ x y, R x y → S y x) :
    ∀ {l₁ : List α} {l₂ : List β}, Rel₂ R l₁ l₂ → Rel₂ S l₂ l₁
  | [], [], _ => trivial
  | x :: _, y :: _, h => ⟨hS x y h.1, Rel₂.symm hS h.2⟩
  | [], _ :: _, h => h.elim
  | _ :: _, [], h => h.elim

/-- every element of the right list has a partner on the left -/
theorem Rel₂.exists_left {α β} {R : α → β → Prop} :
    ∀ {l : List α} {l' : List β}, Rel₂ R l l' → ∀ y ∈ l', ∃ x ∈ l, R x y
  | [], [], _, y, hy => by simp at hy
  | x :: xs, y' :: ys, h, y, hy => by
    simp only [List.mem_cons] at hy
    rcases hy with rfl | hy
    · exact ⟨x, by simp, h.1⟩
    · obtain ⟨x', hx', hr⟩ := Rel₂.exists_left h.2 y hy
      exact ⟨x', by simp [hx'], hr⟩
  | [], _ :: _, h, _, _ => h.elim
  | _ :: _, [], h, _, _ => h.elim

theorem Rel₂.exists_right {α β} {R : α → β → Prop} :
    ∀ {l : List α} {l' : List β}, Rel₂ R l l' → ∀ x ∈ l, ∃ y ∈ l', R x y
  | [], [], _, x, hx => by simp at hx
  | x' :: xs, y :: ys, h, x, hx => by
    simp only [List.mem_cons] at hx
    rcases hx with rfl | hx
    · exact ⟨y, by simp, h.1⟩
    · obtain ⟨y', hy', hr⟩ := Rel₂.exists_right h.2 x hx
      exact ⟨y', by simp [hy'], hr⟩
  | [], _ :: _, h, _, _ => h.elim
  | _ :: _, [], h, _, _ => h.elim

/-! ### strictly sorted lists of strings -/

/-- strictly increasing for `Str.lt` (the order of `BTreeMap` / `BTreeSet` keys) -/
def SSorted (l : List Str) : Prop := l.Pairwise fun a b => Str.lt a b = true

theorem SSorted.nodup {l : List Str} (h : SSorted l) : l.Nodup := by
  unfold SSorted at h
  exact h.imp (fun {a b} hab heq => by subst heq; rw [Order.lt_irrefl] at hab; exact absurd hab (by simp))

/-- a strictly sorted list is determined by its set of members -/
theorem ssorted_ext {l₁ l₂ : List Str} (h₁ : SSorted l₁) (h₂ : SSorted l₂)
    (h : ∀ x, x ∈ l₁ ↔ x ∈ l₂) : l₁ = l₂ := by
  apply List.Perm.eq_of_pairwise (le := fun a b => Str.lt a b = true) _ h₁ h₂
  · exact (List.perm_ext_iff_of_nodup h₁.nodup h₂.nodup).2 h
  · intro a b _ _ hab hba
    rw [Order.lt_asymm a b hab] at hba
    exact absurd hba (by simp)

/-- neither equal nor smaller: larger -/
theorem lt_of_ne_of_not_lt {a b : Str} (h1 : (a == b) = false) (h2 : Str.lt b a = false) : Str.lt a b = true := by
  cases h3 : Str.lt a b with
  | true => rfl
  | false =>
    have : a = b := Order.eq_of_not_lt _ _ h3 h2
    simp [this] at h1

/-! ### order-insensitive searches -/

/-- `findSome?` over two lists with the same members, when all hits agree -/
theorem findSome?_congr_mem {α β} (f : α → Option β) (l₁ l₂ : List α) (h : ∀ x, x ∈ l₁ ↔ x ∈ l₂)
    (agree : ∀ x ∈ l₁, ∀ y ∈ l₁, ∀ n m, f x = some n → f y = some m → n = m) :
    l₁.findSome? f = l₂.findSome? f := by
  cases h1 : l₁.findSome? f with
  | none =>
    cases h2 : l₂.findSome? f with
    | none => rfl
    | some m =>
      obtain ⟨y, hy, hfy⟩ := List.exists_of_findSome?_eq_some h2
      have := List.findSome?_eq_none_iff.1 h1 y ((h y).2 hy)
      rw [this] at hfy; exact absurd hfy (by simp)
  | some n =>
    obtain ⟨x, hx, hfx⟩ := List.exists_of_findSome?_eq_some h1
    cases h2 : l₂.findSome? f with
    | none =>
      have := List.findSome?_eq_none_iff.1 h2 x ((h x).1 hx)
      rw [this] at hfx; exact absurd hfx (by simp)
    | some m =>
      obtain ⟨y, hy, hfy⟩ := List.exists_of_findSome?_eq_some h2
      rw [agree x hx y ((h y).2 hy) n m hfx hfy]

/-- `find?` followed by a projection, over two lists with the same members, when all hits project alike -/
theorem find?_map_congr_mem {α β} (p : α → Bool) (g : α → β) (l₁ l₂ : List α) (h : ∀ x, x ∈ l₁ ↔ x ∈ l₂)
    (agree : ∀ x ∈ l₁, ∀ y ∈ l₁, p x = true → p y = true → g x = g y) :
    (l₁.find? p).map g = (l₂.find? p).map g := by
  cases h1 : l₁.find? p with
  | none =>
    cases h2 : l₂.find? p with
    | none => rfl
    | some y =>
      have := List.find?_eq_none.1 h1 y ((h y).2 (List.mem_of_find?_eq_some h2))
      exact absurd (List.find?_some h2) this
  | some x =>
    cases h2 : l₂.find? p with
    | none =>
      have := List.find?_eq_none.1 h2 x ((h x).1 (List.mem_of_find?_eq_some h1))
      exact absurd (List.find?_some h1) this
    | some y =>
      simp only [Option.map_some]
      rw [agree x (List.mem_of_find?_eq_some h1) y ((h y).2 (List.mem_of_find?_eq_some h2))
        (List.find?_some h1) (List.find?_some h2)]

/-- membership in a fold of `insertSet` -/
theorem mem_foldl_insertSet {α} [BEq α] [LawfulBEq α] (x : α) :
    ∀ (l acc : List α), x ∈ l.foldl (fun acc i => Visitor.insertSet i acc) acc ↔ x ∈ acc ∨ x ∈ l
  | [], acc => by simp
  | y :: t, acc => by
    simp only [List.foldl_cons]
    rw [mem_foldl_insertSet x t]
    unfold Visitor.insertSet
    by_cases hy : acc.contains y = true
    · simp only [hy, if_true, List.mem_cons]
      constructor
      · rintro (h | h)
        · exact Or.inl h
        · exact Or.inr (Or.inr h)
      · rintro (h | rfl | h)
        · exact Or.inl h
        · exact Or.inl (by simpa using hy)
        · exact Or.inr h
    · simp only [hy, Bool.false_eq_true, if_false, List.mem_append, List.mem_cons, List.not_mem_nil, or_false]
      constructor
      · rintro ((h | h) | h)
        · exact Or.inl h
        · exact Or.inr (Or.inl h)
        · exact Or.inr (Or.inr h)
      · rintro (h | h | h)
        · exact Or.inl (Or.inl h)
        · exact Or.inl (Or.inr h)
        · exact Or.inr h

end TsV.C06M
