#[typeshare]
pub struct r#struct { pub r#type: u8, pub r#fn: r#struct, pub class: u8, pub r#async: Vec<r#struct> }
#[typeshare]
pub enum r#enum { r#match, r#Self_ }
#[typeshare]
pub type r#type = r#struct;
#[typeshare]
pub const r#CONST: u8 = 1;
