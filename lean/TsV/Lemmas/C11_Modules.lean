import TsV.Lemmas.C06_Multi_Jobs
import TsV.Lemmas.C12_Common
/-!
# C11, folder output — lemmas

* `Mods`: the crate files of a run, job by job; `*_mods`: the `generateFrom` of each back end produces
  one module per job, the module being that back end's `generate` of the job's data alone (with the
  printer state left by the earlier jobs where the back end has one).
* the items of a job: `reconcileOne` keeps the items of the collected data (`job_items_perm`), the
  collected data of a crate holds the items of the arrivals of that crate (`merged_items_perm`), and
  kinds / identifiers / pre-sort order do not depend on the rename table, i.e. on the other crates
  (`reconcile_keys_indep`).
-/
namespace TsV.C11M
open TsV TsV.Lang TsV.Pipeline TsV.Collect TsV.C06M TsV.C12L TsV.Outcome

theorem bindPair {α β γ} {x : Outcome (α × β)} {f : α × β → Outcome γ} {r}
    (h : x.bind f = .ok r) : ∃ a b, x = .ok (a, b) ∧ f (a, b) = .ok r := by
  cases x with
  | ok p => exact ⟨p.1, p.2, rfl, h⟩
  | err e => cases h
  | panic s => cases h

theorem bindOk {α β} {x : Outcome α} {f : α → Outcome β} {b : β} (h : x.bind f = .ok b) :
    ∃ a, x = .ok a ∧ f a = .ok b := (bind_eq_ok x f b).1 h

/-! ## one module per job -/

/-- the crate files of a run: one per job, under the job's crate name, related to the job by `R` -/
inductive Mods (R : Job → Str → Prop) : List Job → List (Str × Str) → Prop
  | nil : Mods R [] []
  | cons {j : Job} {text : Str} {js : List Job} {outs : List (Str × Str)} :
      R j text → Mods R js outs → Mods R (j :: js) ((j.1, text) :: outs)

theorem Mods.names {R : Job → Str → Prop} {jobs : List Job} {outs : List (Str × Str)} (h : Mods R jobs outs) :
    outs.map (·.1) = jobs.map (·.1) := by
  induction h with
  | nil => rfl
  | cons _ _ ih => simp [ih]

theorem Mods.length {R : Job → Str → Prop} {jobs : List Job} {outs : List (Str × Str)} (h : Mods R jobs outs) :
    outs.length = jobs.length := by
  induction h with
  | nil => rfl
  | cons _ _ ih => simp [ih]

/-- index form -/
theorem Mods.get {R : Job → Str → Prop} {jobs : List Job} {outs : List (Str × Str)} (h : Mods R jobs outs) :
    ∀ (k : Nat) (j : Job), jobs[k]? = some j → ∃ text, outs[k]? = some (j.1, text) ∧ R j text := by
  induction h with
  | nil => intro k j hk; simp at hk
  | @cons j0 text js outs hr _ ih =>
    intro k j hk
    cases k with
    | zero => simp only [List.getElem?_cons_zero, Option.some.injEq] at hk; subst hk; exact ⟨text, rfl, hr⟩
    | succ k => simpa using ih k j (by simpa using hk)

/-- every module belongs to a job, every job has its module -/
theorem Mods.mem_out {R : Job → Str → Prop} {jobs : List Job} {outs : List (Str × Str)} (h : Mods R jobs outs) :
    ∀ p ∈ outs, ∃ j ∈ jobs, j.1 = p.1 ∧ R j p.2 := by
  induction h with
  | nil => intro p hp; simp at hp
  | @cons j0 text js outs hr _ ih =>
    intro p hp
    rcases List.mem_cons.1 hp with rfl | hp
    · exact ⟨j0, by simp, rfl, hr⟩
    · obtain ⟨j, hj, h1, h2⟩ := ih p hp
      exact ⟨j, by simp [hj], h1, h2⟩

theorem Mods.mem_job {R : Job → Str → Prop} {jobs : List Job} {outs : List (Str × Str)} (h : Mods R jobs outs) :
    ∀ j ∈ jobs, ∃ text, (j.1, text) ∈ outs ∧ R j text := by
  induction h with
  | nil => intro j hj; simp at hj
  | @cons j0 text js outs hr _ ih =>
    intro j hj
    rcases List.mem_cons.1 hj with rfl | hj
    · exact ⟨text, by simp, hr⟩
    · obtain ⟨t, ht, h2⟩ := ih j hj
      exact ⟨t, by simp [ht], h2⟩

theorem Mods.imp {R S : Job → Str → Prop} (hrs : ∀ j t, R j t → S j t) {jobs : List Job} {outs : List (Str × Str)}
    (h : Mods R jobs outs) : Mods S jobs outs := by
  induction h with
  | nil => exact .nil
  | cons hr _ ih => exact .cons (hrs _ _ hr) ih

/-- the module of a job is the back end's `generate_types` of that job's data (and scoped imports)
alone; a back end with printer state runs in the state the earlier crates left -/
def ModuleOf (E : Ext) : Generate.LangCfg → Job → Str → Prop
  | .typescript cfg, j, t => ∃ st st', TypeScript.generate E.U cfg j.2.1 j.2.2 st = .ok (t, st')
  | .kotlin cfg, j, t => Kotlin.generate cfg j.2.1 j.2.2 = .ok t
  | .swift cfg, j, t => ∃ st st', Swift.generate E.U cfg true j.2.1 st = .ok (t, st')
  | .scala cfg, j, t => Scala.generate cfg j.2.1 = .ok t
  | .go cfg, j, t => ∃ st st', Go.generate E.U cfg j.2.1 st = .ok (t, st')
  | .python cfg, j, t => ∃ st st', Python.generate E cfg j.2.1 st = .ok (t, st')

theorem typescript_mods (E : Ext) (cfg : TypeScript.Cfg) : ∀ (jobs : List Job) (st : TypeScript.CustomMap)
    (outs : List (Str × Str)), TypeScript.generateFrom E.U cfg jobs st = .ok outs →
    Mods (ModuleOf E (.typescript cfg)) jobs outs
  | [], st, outs, h => by
    simp only [TypeScript.generateFrom, Outcome.ok.injEq] at h; subst h; exact .nil
  | (c, d, imps) :: rest, st, outs, h => by
    simp only [TypeScript.generateFrom] at h
    obtain ⟨text, st1, h1, h⟩ := bindPair h
    obtain ⟨os, h2, h⟩ := bindOk h
    simp only [Outcome.ok.injEq] at h; subst h
    exact .cons (j := (c, d, imps)) ⟨st, st1, h1⟩ (typescript_mods E cfg rest st1 os h2)

theorem kotlin_mods (E : Ext) (cfg : Kotlin.Cfg) : ∀ (jobs : List Job) (outs : List (Str × Str)),
    Kotlin.generateFrom cfg jobs = .ok outs → Mods (ModuleOf E (.kotlin cfg)) jobs outs
  | [], outs, h => by
    simp only [Kotlin.generateFrom, Outcome.ok.injEq] at h; subst h; exact .nil
  | (c, d, imps) :: rest, outs, h => by
    simp only [Kotlin.generateFrom] at h
    obtain ⟨text, h1, h⟩ := bindOk h
    obtain ⟨os, h2, h⟩ := bindOk h
    simp only [Outcome.ok.injEq] at h; subst h
    exact .cons (j := (c, d, imps)) h1 (kotlin_mods E cfg rest os h2)

theorem scala_mods (E : Ext) (cfg : Scala.Cfg) : ∀ (jobs : List Job) (outs : List (Str × Str)),
    Scala.generateFrom cfg jobs = .ok outs → Mods (ModuleOf E (.scala cfg)) jobs outs
  | [], outs, h => by
    simp only [Scala.generateFrom, Outcome.ok.injEq] at h; subst h; exact .nil
  | (c, d, imps) :: rest, outs, h => by
    simp only [Scala.generateFrom] at h
    obtain ⟨text, h1, h⟩ := bindOk h
    obtain ⟨os, h2, h⟩ := bindOk h
    simp only [Outcome.ok.injEq] at h; subst h
    exact .cons (j := (c, d, imps)) h1 (scala_mods E cfg rest os h2)

theorem swift_mods (E : Ext) (cfg : Swift.Cfg) : ∀ (jobs : List Job) (st : Swift.St)
    (outs : List (Str × Str)) (st' : Swift.St), Swift.generateFrom E.U cfg true jobs st = .ok (outs, st') →
    Mods (ModuleOf E (.swift cfg)) jobs outs
  | [], st, outs, st', h => by
    simp only [Swift.generateFrom, Outcome.ok.injEq, Prod.mk.injEq] at h; obtain ⟨rfl, _⟩ := h; exact .nil
  | (c, d, imps) :: rest, st, outs, st', h => by
    simp only [Swift.generateFrom] at h
    obtain ⟨text, st1, h1, h⟩ := bindPair h
    obtain ⟨os, st2, h2, h⟩ := bindPair h
    simp only [Outcome.ok.injEq, Prod.mk.injEq] at h; obtain ⟨rfl, _⟩ := h
    exact .cons (j := (c, d, imps)) ⟨st, st1, h1⟩ (swift_mods E cfg rest st1 os st2 h2)

theorem go_mods (E : Ext) (cfg : Go.Cfg) : ∀ (jobs : List Job) (st : Go.Imports)
    (outs : List (Str × Str)), Go.generateFrom E.U cfg jobs st = .ok outs →
    Mods (ModuleOf E (.go cfg)) jobs outs
  | [], st, outs, h => by
    simp only [Go.generateFrom, Outcome.ok.injEq] at h; subst h; exact .nil
  | (c, d, imps) :: rest, st, outs, h => by
    simp only [Go.generateFrom] at h
    obtain ⟨text, st1, h1, h⟩ := bindPair h
    obtain ⟨os, h2, h⟩ := bindOk h
    simp only [Outcome.ok.injEq] at h; subst h
    exact .cons (j := (c, d, imps)) ⟨st, st1, h1⟩ (go_mods E cfg rest st1 os h2)

theorem python_mods (E : Ext) (cfg : Python.Cfg) : ∀ (jobs : List Job) (st : Python.St)
    (outs : List (Str × Str)), Python.generateFrom E cfg jobs st = .ok outs →
    Mods (ModuleOf E (.python cfg)) jobs outs
  | [], st, outs, h => by
    simp only [Python.generateFrom, Outcome.ok.injEq] at h; subst h; exact .nil
  | (c, d, imps) :: rest, st, outs, h => by
    simp only [Python.generateFrom] at h
    obtain ⟨text, st1, h1, h⟩ := bindPair h
    obtain ⟨os, h2, h⟩ := bindOk h
    simp only [Outcome.ok.injEq] at h; subst h
    exact .cons (j := (c, d, imps)) ⟨st, st1, h1⟩ (python_mods E cfg rest st1 os h2)

/-- what a back end adds after the crate modules (Swift's `post_generation` only) -/
def postOf (lang : Generate.LangCfg) (jobs : List Job) (post : List (Str × Str)) : Prop :=
  match lang with
  | .swift cfg => ∃ st, post = Swift.postGeneration cfg true st
  | _ => post = []

/-- `generateAll` of every back end: one module per job, then the post-generation files -/
theorem generateAll_mods (E : Ext) (lang : Generate.LangCfg) (jobs : List Job) (outs : List (Str × Str))
    (h : (match lang with
      | .typescript cfg => TypeScript.generateAll E cfg true jobs
      | .kotlin cfg => Kotlin.generateAll E cfg true jobs
      | .swift cfg => Swift.generateAll E cfg true jobs
      | .scala cfg => Scala.generateAll E cfg true jobs
      | .go cfg => Go.generateAll E cfg true jobs
      | .python cfg => Python.generateAll E cfg true jobs) = .ok outs) :
    ∃ mods post, outs = mods ++ post ∧ Mods (ModuleOf E lang) jobs mods ∧ postOf lang jobs post := by
  cases lang with
  | typescript cfg => exact ⟨outs, [], by simp, typescript_mods E cfg jobs [] outs h, rfl⟩
  | kotlin cfg => exact ⟨outs, [], by simp, kotlin_mods E cfg jobs outs h, rfl⟩
  | scala cfg => exact ⟨outs, [], by simp, scala_mods E cfg jobs outs h, rfl⟩
  | go cfg => exact ⟨outs, [], by simp, go_mods E cfg jobs [] outs h, rfl⟩
  | python cfg => exact ⟨outs, [], by simp, python_mods E cfg jobs {} outs h, rfl⟩
  | swift cfg =>
    simp only [Swift.generateAll] at h
    obtain ⟨mods, st, h1, h⟩ := bindPair h
    simp only [Outcome.ok.injEq] at h
    exact ⟨mods, _, h.symm, swift_mods E cfg jobs false mods st h1, ⟨st, rfl⟩⟩

/-! ## the jobs and their items -/

theorem jobsWith_names (m : List (Str × ParsedData)) : (jobsWith id m).map (·.1) = m.map (·.1) := by
  unfold jobsWith
  simp [reconcile_eq, List.map_map, Function.comp_def]

/-- job by job: the data is `reconcileOne` of the collected entry -/
theorem jobsWith_data (m : List (Str × ParsedData)) :
    (jobsWith id m).map (fun j => (j.1, j.2.1)) =
      m.map fun p => (p.1, reconcileOne (collectSerdeRenames m) p.1 p.2) := by
  unfold jobsWith
  simp [reconcile_eq, List.map_map, Function.comp_def]

theorem job_entry (m : List (Str × ParsedData)) (j : Job) (h : j ∈ jobsWith id m) :
    ∃ v, (j.1, v) ∈ m ∧ j.2.1 = reconcileOne (collectSerdeRenames m) j.1 v := by
  have : (j.1, j.2.1) ∈ (jobsWith id m).map (fun j => (j.1, j.2.1)) := List.mem_map_of_mem h
  rw [jobsWith_data] at this
  obtain ⟨p, hp, he⟩ := List.mem_map.1 this
  simp only [Prod.mk.injEq] at he
  exact ⟨p.2, by rw [← he.1]; exact hp, by rw [← he.2, he.1]⟩

/-- `reconcile_aliases` on one item, with the crate's import set -/
def recItemI (crate : Str) (r : Renames) (imps : List ImportedType) : RustItem → RustItem
  | .struct s => .struct { s with fields := s.fields.map (checkField crate r imps) }
  | .enum e => .enum { e with variants := e.variants.map (checkVariant crate r imps) }
  | .alias a => .alias { a with ty := checkType crate r imps a.ty }
  | .const c => .const c

/-- kind and identifier of an item -/
inductive Kind where
  | struct | enum | alias | const
deriving DecidableEq, Repr

def itemKey : RustItem → Kind × Id
  | .struct s => (.struct, s.id)
  | .enum e => (.enum, e.id)
  | .alias a => (.alias, a.id)
  | .const c => (.const, c.id)

theorem itemKey_rec (crate : Str) (r : Renames) (imps : List ImportedType) (it : RustItem) :
    itemKey (recItemI crate r imps it) = itemKey it := by
  cases it <;> rfl

/-- **`reconcile` neither drops nor duplicates an item**: the items of the reconciled data are the
reconciled items of the data, up to the (stable) sort by name -/
theorem reconcileOne_items_perm (r : Renames) (c : Str) (d : ParsedData) :
    (itemsOf (reconcileOne r c d)).Perm ((itemsOf d).map (recItemI c r d.importTypes)) := by
  unfold itemsOf reconcileOne sortBy
  simp only [List.map_append, List.map_map]
  refine List.Perm.append (List.Perm.append (List.Perm.append ?_ ?_) ?_) ?_
  · exact ((List.mergeSort_perm _ _).map _).trans (by simp [List.map_map, Function.comp_def, recItemI])
  · exact ((List.mergeSort_perm _ _).map _).trans (by simp [List.map_map, Function.comp_def, recItemI])
  · exact ((List.mergeSort_perm _ _).map _).trans (by simp [List.map_map, Function.comp_def, recItemI])
  · exact ((List.mergeSort_perm _ _).map _).trans (by simp [List.map_map, Function.comp_def, recItemI])

/-- the data collected for a crate holds the items of the crate's arrivals, each once -/
theorem merged_items_perm (l : List ParsedData) : (itemsOf (merged {} l)).Perm (l.flatMap itemsOf) := by
  unfold itemsOf
  rw [merged_structs, merged_enums, merged_aliases, merged_consts]
  simp only [List.nil_append]
  induction l with
  | nil => simp
  | cons d t ih =>
    simp only [List.flatMap_cons, List.map_append]
    -- (A d ++ A t) ++ (S d ++ S t) ++ (E d ++ E t) ++ (C d ++ C t)  ~  (A d ++ S d ++ E d ++ C d) ++ rest
    have key : ∀ (a1 a2 s1 s2 e1 e2 c1 c2 : List RustItem),
        (a1 ++ a2 ++ (s1 ++ s2) ++ (e1 ++ e2) ++ (c1 ++ c2)).Perm
          ((a1 ++ s1 ++ e1 ++ c1) ++ (a2 ++ s2 ++ e2 ++ c2)) := by
      intro a1 a2 s1 s2 e1 e2 c1 c2
      simp only [List.append_assoc]
      refine List.Perm.append_left a1 ?_
      -- a2 ++ s1 ++ s2 ++ e1 ++ e2 ++ c1 ++ c2 ~ s1 ++ e1 ++ c1 ++ a2 ++ s2 ++ e2 ++ c2
      have h1 : (a2 ++ (s1 ++ (s2 ++ (e1 ++ (e2 ++ (c1 ++ c2)))))).Perm
          (s1 ++ (a2 ++ (s2 ++ (e1 ++ (e2 ++ (c1 ++ c2)))))) := by
        rw [← List.append_assoc, ← List.append_assoc s1]
        exact List.Perm.append_right _ List.perm_append_comm
      refine h1.trans (List.Perm.append_left s1 ?_)
      have h2 : (a2 ++ (s2 ++ (e1 ++ (e2 ++ (c1 ++ c2))))).Perm (e1 ++ (a2 ++ (s2 ++ (e2 ++ (c1 ++ c2))))) := by
        rw [← List.append_assoc a2, ← List.append_assoc (a2 ++ s2), ← List.append_assoc a2 s2,
          ← List.append_assoc e1 (a2 ++ s2)]
        exact List.Perm.append_right _ List.perm_append_comm
      refine h2.trans (List.Perm.append_left e1 ?_)
      have h3 : (a2 ++ (s2 ++ (e2 ++ (c1 ++ c2)))).Perm (c1 ++ (a2 ++ (s2 ++ (e2 ++ c2)))) := by
        rw [← List.append_assoc e2, ← List.append_assoc s2, ← List.append_assoc a2,
          ← List.append_assoc s2 e2 c2, ← List.append_assoc a2 (s2 ++ e2) c2, ← List.append_assoc c1]
        rw [← List.append_assoc a2 s2 e2]
        exact List.Perm.append_right _ (by
          rw [List.append_assoc a2 s2 e2, ← List.append_assoc s2, ← List.append_assoc a2]
          exact List.perm_append_comm)
      exact h3
    refine (key _ _ _ _ _ _ _ _).trans (List.Perm.append_left _ ?_)
    simpa [List.map_flatMap] using ih

/-- the collected entry of crate `c` holds exactly the items of the arrivals of crate `c` -/
theorem entry_items_perm (a : List ParsedData) {c : Str} {v : ParsedData} (h : (c, v) ∈ collect a) :
    (itemsOf v).Perm ((arr a c).flatMap itemsOf) := by
  rw [(collect_entry a h).1]
  exact merged_items_perm _

/-! ## what does not depend on the other crates -/

theorem sortBy_map_key {α} (key : α → Str) (f : α → α) (hf : ∀ x, key (f x) = key x) (l : List α) :
    sortBy key (l.map f) = (sortBy key l).map f := by
  unfold sortBy
  exact (List.map_mergeSort (r := fun a b => Str.le (key a) (key b)) (s := fun a b => Str.le (key a) (key b))
    (f := f) (l := l) (fun a _ b _ => by simp only [hf])).symm

/-- kinds, identifiers and their order before `topsort` are those of the sorted collected data: the
rename table (the only thing through which other crates reach this crate's items) is immaterial -/
theorem reconcileOne_keys (r : Renames) (c : Str) (d : ParsedData) :
    (itemsOf (reconcileOne r c d)).map itemKey =
      (sortBy (·.id.original) d.aliases).map (fun a => (Kind.alias, a.id)) ++
      (sortBy (·.id.original) d.structs).map (fun s => (Kind.struct, s.id)) ++
      (sortBy (·.id.original) d.enums).map (fun e => (Kind.enum, e.id)) ++
      (sortBy (·.id.original) d.consts).map (fun k => (Kind.const, k.id)) := by
  unfold itemsOf reconcileOne
  simp only [List.map_append, List.map_map]
  rw [sortBy_map_key (·.id.original) (fun s : RustStruct => { s with fields := s.fields.map (checkField c r d.importTypes) })
        (fun _ => rfl),
      sortBy_map_key (·.id.original) (fun e : RustEnum => { e with variants := e.variants.map (checkVariant c r d.importTypes) })
        (fun _ => rfl),
      sortBy_map_key (·.id.original) (fun a : RustTypeAlias => { a with ty := checkType c r d.importTypes a.ty })
        (fun _ => rfl)]
  simp only [List.map_map]
  rfl

theorem reconcile_keys_indep (r r' : Renames) (c : Str) (d : ParsedData) :
    (itemsOf (reconcileOne r c d)).map itemKey = (itemsOf (reconcileOne r' c d)).map itemKey := by
  rw [reconcileOne_keys, reconcileOne_keys]

end TsV.C11M
