"""C01 — field wire names in generated types equal serde's JSON keys (parser.rs get_ident + the six back ends)."""
import itertools, re, unicodedata
from common import *
from syn_gen import *
from gen import Gen, FIELD_WORDS, RENAME_WORDS, RULES, TYPE_WORDS, VARIANT_WORDS, rust_ident
import l2

NEEDS = ("runner",)
TRUSTED = [
    "TsV/Lemmas/C01_Spec.lean: Serde-side fieldKey (from the case.rs port TsV.Serde, tied to the vendored case.rs by C16 and re-tied here "
    "for every identifier used) and the per-language binding semantics boundKey over the fact records "
    "(TypeScript: property name, un-quoted; Kotlin: @SerialName else name; Swift: CodingKeys raw value of the case named like the "
    "property, else the name without back-ticks; Go: json tag up to the first comma; Python: alias else name; Scala: parameter name)",
    "tools/c01.py: the python extractors over the implementation's text (same binding semantics, written independently over text) "
    "and the python port of serde's key computation",
]

CONV = re.compile(r"^[a-z_][a-z0-9_]*$")
# word shapes beyond the plain ones: a segment that starts with a digit, digit-only segments, doubled / trailing / leading
# underscores, one-letter segments, digits inside segments
SHAPES = ["is_3d_secure", "oauth_2fa_token", "ipv_4addr", "line_1", "a__b", "trailing_", "x_1y", "a1b2_c3", "_9lives", "v_2_0",
          "k_", "__init", "n_1st_2nd"]
WORDS = [w for w in FIELD_WORDS if CONV.match(w) and rust_ident(w)] + SHAPES
# the 40-identifier dictionary of the exhaustive tier: shapes (digits, leading / inner / multiple underscores, one letter)
# and keywords of every target language (as raw identifiers where Rust needs it); no two collide under any rule
DICT = ["id", "user_id", "created_at", "address_line1", "x", "b1", "is_ok", "very_long_field_name", "n2", "_private", "a_b_c",
          "type", "class", "default", "object", "func", "var", "val", "in", "is", "as", "fun", "package", "import", "interface",
          "enum", "struct", "protocol", "extension", "public", "static", "switch", "case", "return", "throw", "nil", "true",
          "let", "where", "from"] + SHAPES
KEYWORD_RENAMES = ["class", "type", "in", "default", "func", "var", "val", "is", "as", "fun", "package", "import", "interface",
                   "enum", "struct", "protocol", "extension", "private", "public", "internal", "static", "switch", "case",
                   "break", "continue", "return", "throw", "try", "catch", "self", "super", "nil", "true", "false", "let",
                   "where", "while", "for", "if", "else", "None", "from", "global", "lambda", "pass", "Self", "Type", "Any"]

MAPS = {"typescript": [{}, {}, {"Url": "string"}, {"Foo": "FooMapped"}, {"Option<String>": "Maybe"}, {"String": "Date"}, {"u32": "Date", "Foo": "Date"},
                       {"bool": "Uint8Array", "String": "Date"}],
        "kotlin": [{}, {}, {"Url": "String"}, {"Foo": "FooMapped", "Bar": "kotlin.Any"}, {"T": "Mapped"}],
        "python": [{}, {}, {"Url": "AnyUrl"}, {"Vec<u8>": "bytes"}, {"Foo": "bytes", "Bar": "datetime"}, {"String": "bytes", "u8": "bytes"}],
        "scala": [{}, {}, {"Url": "String"}, {"Foo": "FooMapped"}, {"u8": "Short", "Option<String>": "Maybe"}],
        "go": [{}, {}, {"Url": "string"}, {"Foo": "FooMapped", "Id": "uuid.UUID"}, {"Option<String>": "*Str", "char": "string"}],
        "swift": [{}, {}, {"Url": "URL"}, {"Foo": "FooMapped"}, {"T": "Mapped", "Wrapper": "Box"}]}
GO_ACRONYMS = [[], [], ["id", "url"], ["ID", "Url", "line"], ["type", "kind", "id"], ["foo", "foo_bar", "bar"], ["inner", "variant", "s"]]


def config(rng, lang):
    cfg = {"type_mappings": rng.choice(MAPS[lang]), "version_header": rng.random() < 0.3, "package": "com.example.pkg",
           "module_name": rng.choice(["mod", "", "Other"]), "prefix": rng.choice(["", "", "OP", "Core_"])}
    if lang == "kotlin":
        cfg["package"] = rng.choice(["com.example.pkg", "com.example.pkg", "", "x"])
    if lang == "go":
        cfg["package"] = rng.choice(["proto", "com.example.pkg", "my_pkg"])
        cfg["uppercase_acronyms"] = rng.choice(GO_ACRONYMS)
        cfg["no_pointer_slice"] = rng.random() < 0.4
    if lang == "swift":
        cfg["prefix"] = rng.choice(["", "", "OP", "Core_", "Ty", "Sel"])
        cfg["default_decorators"] = rng.choice([[], [], ["Equatable"], ["Sendable", "Hashable"]])
        cfg["default_generic_constraints"] = rng.choice([[], [], ["Equatable"], ["Sendable & Identifiable"]])
        cfg["codablevoid_constraints"] = rng.choice([[], ["Equatable"]])
    if lang == "scala":
        cfg["package"] = rng.choice(["com.example.pkg"] * 4 + ["pkg", "a.b"])
    return cfg


# ----------------------------------------------------------------------------- the specification, in python
# (independent of the Lean model: attribute readers and serde_derive's RenameRule::apply_to_field on [a-z0-9_]*)

def ascii_upper(s):
    """str::to_ascii_uppercase - python's str.upper() is the full Unicode mapping (`ß` -> `SS`, `é` -> `É`), which serde never uses"""
    return "".join(chr(ord(c) - 32) if "a" <= c <= "z" else c for c in s)


def ascii_lower(s):
    return "".join(chr(ord(c) + 32) if "A" <= c <= "Z" else c for c in s)


def serde_rule(rule, s):
    """RenameRule::apply_to_field; None where serde_derive itself panics (under camelCase `pascal[..1]` is a *byte* slice: an empty
    Pascal form, or one that starts with a non-ASCII letter, is a panic of the derive macro).  Letters are mapped with the ASCII
    case functions only, as in case.rs."""
    if rule in ("lowercase", "snake_case"):
        return s
    if rule in ("UPPERCASE", "SCREAMING_SNAKE_CASE"):
        return ascii_upper(s)
    if rule in ("PascalCase", "camelCase"):
        out, cap = [], True
        for ch in s:
            if ch == "_":
                cap = True
            elif cap:
                out.append(ascii_upper(ch))
                cap = False
            else:
                out.append(ch)
        p = "".join(out)
        if rule == "PascalCase":
            return p
        return None if not p or ord(p[0]) > 127 else ascii_lower(p[0]) + p[1:]
    if rule == "kebab-case":
        return s.replace("_", "-")
    if rule == "SCREAMING-KEBAB-CASE":
        return ascii_upper(s).replace("_", "-")
    return s        # not a rule name: serde rejects the program, typeshare keeps the identifier


def serde_args(attrs):
    for a in attrs:
        if a[0] == "l" and a[1] == ["serde"] and a[2]:
            for x in a[3]:
                yield x


def serde_nv(attrs, name):
    for x in serde_args(attrs):
        if x[0] == "nv" and x[1] == [name] and x[2] and x[2][0] == "s":
            return x[2][1]
    return None


def skip_marked(attrs):
    for a in attrs:
        if a[0] == "l" and a[1] in (["serde"], ["typeshare"]) and a[2]:
            if any(x[0] == "p" and x[1] == ["skip"] for x in a[3]):
                return True
    return False


def unraw(ident):
    return ident[2:] if ident.startswith("r#") else ident


def serde_key(f, ra):
    r = serde_nv(f["attrs"], "rename")
    if r is not None:
        return r
    return serde_rule(ra, unraw(f["ident"])) if ra is not None else unraw(f["ident"])


def mangle(key):
    return key.replace("-", "_")


def expected(file):
    """the property's reading of the source: [(kind, names, [serde key per kept field])] — kind 'struct' with (S,),
    kind 'variant' with (E, V, ordinal among the kept struct variants of E)"""
    out = []
    for it in flat_items(file["items"]):
        if it["kind"] == "struct" and it["fields"][0] == "named":
            ra = serde_nv(it["attrs"], "rename_all")
            out.append(("struct", (it["ident"],), [serde_key(f, ra) for f in it["fields"][1] if not skip_marked(f["attrs"])]))
        elif it["kind"] == "enum":
            k = 0
            for v in it["variants"]:
                if skip_marked(v["attrs"]) or v["fields"][0] != "named":
                    continue
                ra = serde_nv(v["attrs"], "rename_all")       # the variant's rule, never the enum's
                out.append(("variant", (it["ident"], v["ident"], k),
                            [serde_key(f, ra) for f in v["fields"][1] if not skip_marked(f["attrs"])]))
                k += 1
    return out


def flat_items(items):
    for it in items:
        if it["kind"] in ("mod", "other"):
            yield from flat_items(it["items"])
        else:
            yield it


# ----------------------------------------------------------------------------- extractors (binding semantics over text)

DEBUG_U = re.compile(r"\\u\{([0-9a-fA-F]{1,6})\}")


def debug_unescape(s):
    """value of a `{:?}` / JS / Go string body (without the quotes); `\\u{h..}` is how Rust's Debug writes a combining mark
    (Grapheme_Extend) or an unprintable character - also the spelling of JavaScript and Swift, not of Go or Kotlin (see
    `foreign_escape_problems`)"""
    out, i = [], 0
    while i < len(s):
        m = DEBUG_U.match(s, i)
        if m:
            out.append(chr(int(m.group(1), 16)))
            i = m.end()
        elif s[i] == "\\" and i + 1 < len(s):
            c = s[i + 1]
            out.append({"n": "\n", "r": "\r", "t": "\t", "0": "\0"}.get(c, c))
            i += 2
        else:
            out.append(s[i])
            i += 1
    return "".join(out)


TS_FIELD = re.compile(r'^\t(?:readonly )?("(?:[^"\\]|\\.)*"|[^\s/*"][^\s:?]*)(\??): (.*);$')


def ts_key(name):
    if name.startswith('"'):
        return debug_unescape(name[1:-1])
    # the token as written is the key the declaration carries (the same reading as the Lean `TypeScript.boundKey`); that a
    # token such as `9lives` (from `_9lives` under camelCase) is not a well-formed property name is C10's subject
    # (beyond ASCII a property name is an ECMAScript IdentifierName: letters, digits, combining marks, connector punctuation)
    return name if all(js_name_char(ch) for ch in name) else "<not a property name: %s>" % name


def js_name_char(ch):
    return ch in "_$" or (ch.isalnum() if ord(ch) < 128 else unicodedata.category(ch) in JS_NAME_CATEGORIES)


JS_NAME_CATEGORIES = {"Lu", "Ll", "Lt", "Lm", "Lo", "Nl", "Mn", "Mc", "Nd", "Pc"}


def ext_typescript(text):
    out, cur, enum, k = {}, None, None, 0
    for line in text.split("\n"):
        m = re.match(r"^export interface ([^\s<]+)(?:<.*>)? \{$", line)
        if m:
            cur = m.group(1)
            out[cur] = []
            continue
        m = re.match(r"^export type ([^\s<]+)(?:<.*>)? = $", line)
        if m:
            enum, k, cur = m.group(1), 0, None
            continue
        if enum is not None and re.match(r"^\t\| \{ .*: \{$", line):
            cur = "%s#%d" % (enum, k)
            out[cur] = []
            k += 1
            continue
        if line.startswith("}"):
            cur = None
            if line.startswith("}\n") or line == "}":
                enum = None
            continue
        if cur is not None:
            m = TS_FIELD.match(line)
            if m:
                out[cur].append(ts_key(m.group(1)))
    return out


def ts_reviver_problems(text):
    """TypeScript binds a JSON key to a field a second time: the generated reviver turns the value found under `key === "<k>"` into a
    Date.  Every key listed there must be the key of a property printed with that type (soundness of the second binding; that the list
    can be incomplete when a *special* type is mapped to Date - format_special_type re-inserts an empty set - is outside C01)."""
    probs, n = [], 0
    declared = {"Date": set(), "Uint8Array": set()}
    for line in text.split("\n"):
        m = TS_FIELD.match(line)
        ty = re.sub(r"( \| (null|undefined))+$", "", m.group(3)) if m else None
        if m and ty in declared:
            declared[ty].add(ts_key(m.group(1)))
    for m in re.finditer(r"^    if \((.*)\) \{\n        return new (Date|Uint8Array)", text, re.M):
        for k in re.finditer(r'key === "((?:[^"\\]|\\.)*)"', m.group(1)):
            key = k.group(1)
            if "\\" in key:
                continue
            n += 1
            if key not in declared[m.group(2)]:
                probs.append("typescript: the reviver turns the value under JSON key %r into a %s, but no %s property carries that key "
                             "(declared: %s)" % (key, m.group(2), m.group(2), sorted(declared[m.group(2)])))
    return probs, n


def ext_kotlin(text):
    out, cur, pending = {}, None, None
    for line in text.split("\n"):
        m = re.match(r"^data class ([^\s<(]+)(?:<.*>)? \($", line)
        if m:
            cur, pending = m.group(1), None
            out[cur] = []
            continue
        m = re.match(r"^object (\S+)$", line)
        if m:
            out[m.group(1)] = []
            continue
        if cur is None:
            continue
        if line.startswith(")"):
            cur = None
            continue
        m = re.match(r'^\t@SerialName\("((?:[^"\\]|\\.)*)"\)$', line)
        if m:
            pending = debug_unescape(m.group(1))
            continue
        m = re.match(r"^\t(?:private )?val ([^\s:]+): ", line)
        if m:
            out[cur].append(pending if pending is not None else m.group(1))
            pending = None
    return out


def ext_swift(text):
    out = {}
    lines = text.split("\n")
    i = 0
    while i < len(lines):
        m = re.match(r"^public struct ([^\s<:]+)(?:<.*>)?: .*\{$", lines[i])
        if not m:
            i += 1
            continue
        name = m.group(1).replace("`", "")
        props, cases, has_keys = [], {}, False
        i += 1
        while i < len(lines) and lines[i] != "}":
            pm = re.match(r"^\tpublic let ([^\s:]+): ", lines[i])
            if pm:
                props.append(pm.group(1))
            if lines[i] == "\tenum CodingKeys: String, CodingKey, Codable {":
                has_keys = True
                body = []
                i += 1
                while lines[i] != "\t}":
                    body.append(lines[i])
                    i += 1
                joined = "\n".join(body)
                assert joined.startswith("\t\tcase ")
                for item in joined[len("\t\tcase "):].split(",\n\t\t\t"):
                    cm = re.match(r'^(\S+) = "(.*)"$', item, re.S)
                    if cm:
                        cases.setdefault(cm.group(1), cm.group(2))
                    else:
                        cases.setdefault(item, item.replace("`", ""))
            i += 1
        keys = []
        for p in props:
            if has_keys:
                keys.append(cases.get(p, "<no CodingKeys case for %s>" % p))
            else:
                keys.append(p.replace("`", ""))
        out[name] = keys
    return out


def ext_scala(text):
    out, cur = {}, None
    for line in text.split("\n"):
        m = re.match(r"^case class ([^\s\[(]+)(?:\[.*\])? \($", line)
        if m:
            cur = m.group(1)
            out[cur] = []
            continue
        m = re.match(r"^class (\S+) extends Serializable$", line)
        if m:
            out[m.group(1)] = []
            continue
        if cur is None:
            continue
        if line.startswith(")"):
            cur = None
            continue
        m = re.match(r"^\t([^\s/:][^\s:]*): ", line)
        if m:
            out[cur].append(m.group(1))
    return out


def ext_go(text):
    out, cur = {}, None
    for line in text.split("\n"):
        m = re.match(r"^type ([^\s\[]+)(?:\[.*\])? struct \{$", line)
        if m:
            cur = m.group(1).lower()       # acronym upper-casing only changes the case of type names
            out[cur] = []
            continue
        if cur is None:
            continue
        if line.startswith("}"):
            cur = None
            continue
        m = re.match(r'^\t(\S+) (.*) `json:"((?:[^"\\]|\\.)*)"`$', line)
        if m:
            out[cur].append(debug_unescape(m.group(3)).split(",")[0])
    return out


def ext_python(text):
    out, cur, doc = {}, None, False
    for line in text.split("\n"):
        m = re.match(r"^class (\w+)\(BaseModel(?:, Generic\[.*\])?\):$", line)
        if m:
            cur, doc = m.group(1), False
            out[cur] = []
            continue
        if cur is None:
            continue
        if line and not line.startswith("    "):
            cur = None
            continue
        if line == '    """':
            doc = not doc
            continue
        if doc:
            continue
        # `\w+`, not an identifier pattern: Python's snake-casing can produce attribute names such as `9_lives` (from
        # `_9lives`), which is not valid Python - a well-formedness matter (C10); the key binding is still the alias
        # (a combining mark U+0300..U+036F is part of an identifier, but not of python's `\w`)
        m = re.match(r"^    ([^\s:]+): (.*)$", line)       # (not `\w+`: a name may carry combining marks of any block, which `\w` does not match)
        if m:
            am = re.search(r' = Field\(alias="(.*?)"(?:, default=[^()]*)?\)$', m.group(2))
            out[cur].append(am.group(1) if am else m.group(1))
    return out


EXTRACT = {"typescript": ext_typescript, "kotlin": ext_kotlin, "swift": ext_swift, "scala": ext_scala, "go": ext_go,
           "python": ext_python}


def decl_name(lang, cfg, kind, names):
    pfx = cfg.get("prefix", "") if lang in ("kotlin", "swift") else ""
    if kind == "struct":
        n = pfx + names[0]
    elif lang == "typescript":
        return "%s#%d" % (names[0], names[2])
    else:
        n = pfx + names[0] + names[1] + "Inner"
    return n.lower() if lang == "go" else n


def oracle(lang, cfg, file, ans):
    """C01 evaluated on the implementation's output: list of problems (empty = holds); counts triples checked"""
    if "ok" not in ans:
        return [], 0
    got = EXTRACT[lang]("\n".join(ans["ok"][k] for k in sorted(ans["ok"])))
    probs, n = ts_reviver_problems("\n".join(ans["ok"][k] for k in sorted(ans["ok"]))) if lang == "typescript" else ([], 0)
    for kind, names, keys in expected(file):
        d = decl_name(lang, cfg, kind, names)
        if d not in got:
            probs.append("no %s declaration %s for %s %s" % (lang, d, kind, "::".join(map(str, names[:2]))))
            continue
        if len(got[d]) != len(keys):
            probs.append("%s %s binds %d fields %s, serde has %d keys %s" % (lang, d, len(got[d]), got[d], len(keys), keys))
            continue
        for i, (g, k) in enumerate(zip(got[d], keys)):
            if k is None or (lang == "scala" and "-" in k):
                continue            # serde itself fails / outside the property's scope
            n += 1
            if g != k:
                probs.append("%s %s field %d is bound to JSON key %r, serde uses %r" % (lang, d, i, g, k))
    return probs, n


# ----------------------------------------------------------------------------- generators

class G1(Gen):
    """Gen restricted to the property's quantifier: conventional field names, types every back end can print"""

    def type(self, scope, depth=None, budget=2):
        r = self.rng.random()
        if depth is None:
            depth = self.rng.randint(0, 2)
        if depth > 0 and r < 0.5:
            inner = self.type(scope, depth - 1)
            w = self.rng.random()
            if w < 0.4:
                return t_path("Option", [inner])
            if w < 0.75:
                return t_path("Vec", [inner])
            return t_path("HashMap", [t_path("String"), inner])
        if scope["generics"] and r < 0.6:
            return t_path(self.rng.choice(scope["generics"]))
        if scope["types"] and r < 0.75:
            name = self.rng.choice(scope["types"])
            if not scope.get("generic_types", {}).get(name):
                return t_path(name)
        return t_path(self.rng.choice(["String", "u8", "u32", "bool", "i32", "f64", "char", "u16"]))

    def field_name(self, used):
        for _ in range(50):
            ident = rust_ident(self.rng.choice(WORDS))
            if ident and ident not in used:
                used.add(ident)
                return ident
        w = "f%d" % len(used)
        used.add(w)
        return w


def drop_rename(f):
    new = []
    for a in f["attrs"]:
        if a[0] == "l" and a[1] == ["serde"] and a[2]:
            args = [x for x in a[3] if not (x[0] == "nv" and x[1] == ["rename"])]
            if args:
                new.append((a[0], a[1], a[2], args, a[4]))
        else:
            new.append(a)
    f["attrs"] = new


def dedupe(fields, ra):
    """keep the mangled keys of one declaration distinct (collisions are C10's business, not C01's)"""
    seen, out = set(), []
    for f in fields:
        k = serde_key(f, ra)
        if k is None or mangle(k) in seen:
            drop_rename(f)
            k = serde_key(f, ra)
        if k is None or mangle(k) in seen:
            continue
        seen.add(mangle(k))
        out.append(f)
    return out


def item_attrs(g, kind, sc):
    save = g.o["p_rename"]
    g.o["p_rename"] = 0.0          # no item-level rename: declarations are looked up by name
    try:
        return g.item_attrs(kind, sc)
    finally:
        g.o["p_rename"] = save


def mk_struct(g, name, scope):
    gs = g.generics()
    sc = dict(scope, generics=[x[1] for x in gs if x[0] == "ty"])
    attrs = item_attrs(g, "struct", sc)
    kind, fs = g.named_fields(sc, 6)
    fs = dedupe(fs, serde_nv(attrs, "rename_all"))
    return {"kind": "struct", "attrs": attrs, "ident": name, "generics": gs, "fields": ("named", fs)}


def mk_enum(g, name, scope):
    rng = g.rng
    gs = g.generics() if rng.random() < 0.4 else []
    sc = dict(scope, generics=[x[1] for x in gs if x[0] == "ty"])
    variants, used = [], set()
    for _ in range(rng.choice([1, 2, 3, 3, 4, 5])):
        w = rng.choice(VARIANT_WORDS)
        if w in used:
            continue
        used.add(w)
        r = rng.random()
        if r < 0.2:
            variants.append({"attrs": g.member_attrs("variant", sc), "ident": w, "fields": ("unit",)})
        elif r < 0.35:
            variants.append({"attrs": g.member_attrs("variant", sc), "ident": w,
                             "fields": ("unnamed", [field(g.member_attrs("payload", sc), None, g.type(sc))])})
        else:
            attrs = g.member_attrs("variant-struct", sc)
            kind, fs = g.named_fields(sc, 4)
            variants.append({"attrs": attrs, "ident": w, "fields": ("named", dedupe(fs, serde_nv(attrs, "rename_all")))})
    if not any(v["fields"][0] == "named" for v in variants):
        attrs = g.member_attrs("variant-struct", sc)
        kind, fs = g.named_fields(sc, 4)
        variants.append({"attrs": attrs, "ident": "Extra", "fields": ("named", dedupe(fs, serde_nv(attrs, "rename_all")))})
    tag, content = rng.choice([("type", "content"), ("t", "c"), ("kind", "data"), ("tag", "value")])
    attrs = item_attrs(g, "enum", sc) + g.serde_pack([m_nv("tag", lit_s(tag)), m_nv("content", lit_s(content))])
    rng.shuffle(attrs)
    return {"kind": "enum", "attrs": attrs, "ident": name, "generics": gs, "variants": variants}


def random_file(rng):
    g = G1(rng, p_rename=0.45, p_rename_all=0.7, p_skip=0.1, p_default=0.2, p_doc=0.25, p_cfg=0.0, p_serialized_as=0.0,
           p_decorators=0.1, p_generic=0.2, p_redacted=0.05, p_type_decorators=0.05)
    names = rng.sample(TYPE_WORDS, rng.randint(1, 4))
    generic_types = {}
    scope = {"types": list(names), "generics": [], "generic_types": generic_types}
    items = []
    for n in names:
        it = mk_struct(g, n, scope) if rng.random() < 0.5 else mk_enum(g, n, scope)
        if [x for x in it["generics"] if x[0] == "ty"]:
            generic_types[n] = len([x for x in it["generics"] if x[0] == "ty"])
        if rng.random() < 0.15:
            it = {"kind": "mod", "attrs": [], "ident": "m%d" % len(items), "items": [it]}
        items.append(it)
    return {"attrs": [], "items": items}, g


def grid_file(rule, rkind, ckind, idents, spell, ftype="u8"):
    """one declaration holding every identifier of the dictionary under one (rule, rename kind, container kind)"""
    fs = []
    for j, w in enumerate(idents):
        serde = []
        if rkind == "plain" or (rkind == "some" and j % 4 == 3):      # "some": every fourth field carries its own key
            serde.append(m_nv("rename", lit_s(["renamed%d", "newName%d", "UPPER%d", "_x%d"][j % 4] % j)))
        elif rkind == "dashed":
            serde.append(m_nv("rename", lit_s(["with-dash%d", "a-b-%d", "kebab-case-name%d", "X-%d"][j % 4] % j)))
        elif rkind == "keyword":
            serde.append(m_nv("rename", lit_s(KEYWORD_RENAMES[j] if j < len(KEYWORD_RENAMES) else "%s%d" % (KEYWORD_RENAMES[j % len(KEYWORD_RENAMES)], j))))
        if (j + spell) % 3 == 0:
            serde.append(m_path("default"))
        if not serde:
            attrs = []
        elif (j + spell) % 2:
            attrs = [m_list("serde", list(reversed(serde)))]
        else:
            attrs = [m_list("serde", [a]) for a in serde]
        fs.append(field(attrs, rust_ident(w), t_path(ftype)))
    rule_attr = lambda r: [m_list("serde", [m_nv("rename_all", lit_s(r))])] if r else []
    if ckind == "struct":
        item = {"kind": "struct", "attrs": [m_path("typeshare")] + rule_attr(rule), "ident": "Holder", "generics": [],
                "fields": ("named", fs)}
    else:
        other = RULES[(RULES.index(rule) + 3) % 8] if rule else "SCREAMING-KEBAB-CASE"
        tagc = m_list("serde", [m_nv("tag", lit_s("type")), m_nv("content", lit_s("content"))])
        if ckind == "variant-enum-rule":      # the enum's rule must NOT reach the variant's fields
            eattrs, vattrs = [m_path("typeshare"), tagc] + rule_attr(rule), []
        else:                                   # the variant's own rule applies, under a different enum-level rule
            eattrs, vattrs = [m_path("typeshare")] + rule_attr(other) + [tagc], rule_attr(rule)
        item = {"kind": "enum", "attrs": eattrs, "ident": "Holder", "generics": [],
                "variants": [{"attrs": [], "ident": "First", "fields": ("unit",)},
                             {"attrs": vattrs, "ident": "Wide", "fields": ("named", fs)}]}
    return {"attrs": [], "items": [item]}


class NoExt:
    def ext_sx(self):
        return [S("ext"), []]


# ----------------------------------------------------------------------------- identifiers beyond ASCII

# Letters Rust admits in identifiers (XID_Start / XID_Continue, stable under NFC), grouped by what the Unicode case mappings do
# to them.  serde_derive maps ASCII letters only (to_ascii_uppercase / to_ascii_lowercase), so under every rule each of these
# letters must arrive in the key unchanged.
UNI_CLASSES = {
    # lower-case: str::to_uppercase changes every one (ß -> SS and ŉ -> ʼN change the length, ı -> ASCII I, ǆ -> Ǆ, ς and σ -> Σ)
    "lower": "éöäüßıǆαςσжŉ",
    # title-case digraphs: neither upper- nor lower-case for char::is_uppercase / is_lowercase (rustc's non_snake_case lint
    # accepts them), yet changed by to_uppercase *and* by to_lowercase (ᾈ -> ἈΙ / ᾀ)
    "title": "ǅǈᾈ",
    # letters and a digit without case
    "uncased": "名क٣",
    # combining marks (XID_Continue only); placed after an ASCII letter with which NFC composes nothing
    "mark": "\u0301\u0331",
    # upper-case letters: outside the naming convention (the lint fires); used only under the rules that do not segment words
    "upper": "ÉÖΣİЖ",
}
UNI_POSITIONS = ["initial", "segment-initial", "inner", "final"]
NON_SEGMENTING = [None, "lowercase", "UPPERCASE", "PascalCase", "camelCase"]
CKINDS = ("struct", "variant-enum-rule", "variant-own-rule")
ESCAPE_FINDING = "debug-escaped-key-in-go-kotlin"


def unicode_ident(rng, cls, pos):
    """a snake_case identifier of 1-3 segments over [a-z0-9] with a letter of class `cls` at `pos` (first letter of the identifier,
    first letter of a later segment, inside a segment, last letter) and sometimes a second non-ASCII letter elsewhere"""
    letters = "abcdefghijklmnopqrstuvwxyz"
    for _ in range(200):
        nseg = rng.randint(2 if pos == "segment-initial" else 1, 3)
        segs = [[rng.choice(letters * 3 + "0123456789") for _ in range(rng.randint(3 if pos == "inner" else 1, 4))] for _ in range(nseg)]
        if segs[0][0].isdigit():
            segs[0][0] = rng.choice(letters)
        ch = rng.choice(UNI_CLASSES[cls])
        if cls == "mark":
            ch = rng.choice("xqwz") + ch
        if pos == "initial":
            k, i = 0, 0
        elif pos == "segment-initial":
            k, i = rng.randint(1, nseg - 1), 0
        elif pos == "inner":
            k = rng.randrange(nseg)
            i = rng.randint(1, len(segs[k]) - 2)
        else:
            k, i = nseg - 1, -1
        segs[k][i] = ch
        if rng.random() < 0.4:
            k2 = rng.randrange(nseg)
            i2 = rng.randrange(len(segs[k2]))
            if (k2, i2 % len(segs[k2])) != (k, i % len(segs[k])):
                other = rng.choice(UNI_CLASSES[cls if cls != "mark" and rng.random() < 0.5 else "lower"])
                if not (k2 == 0 and i2 == 0 and not other.isidentifier()):
                    segs[k2][i2] = other
        w = "_".join("".join(sg) for sg in segs)
        if w.isidentifier() and unicodedata.normalize("NFC", w) == w and not w.isascii():
            return w
    raise InfraError("no identifier of class %s at %s" % (cls, pos))


def undo_mark_escapes(ans):
    r"""the implementation's text with Rust's Debug spelling of a combining mark (`\u{301}`) replaced by the mark (the model's
    debugFmt writes Grapheme_Extend characters as they are - a difference of spelling inside Debug-formatted keys, reported)"""
    if "ok" not in ans:
        return ans
    def back(m):
        ch = chr(int(m.group(1), 16))
        return ch if unicodedata.category(ch) == "Mn" else m.group(0)
    return {"ok": {k: DEBUG_U.sub(back, v) for k, v in ans["ok"].items()}}


def foreign_escape_problems(lang, ans):
    r"""Go reads a struct tag with strconv.Unquote and Kotlin has no `\u{..}` escape: a key written with Rust's Debug spelling of a
    combining mark is not that key in these two languages (TypeScript and Swift share Rust's spelling).  Returns (bindings whose
    escapes are all combining marks - what Debug does today, the recorded class -, bindings with any other character escaped)"""
    if lang not in ("go", "kotlin") or "ok" not in ans:
        return [], []
    pat = r'`json:"((?:[^"\\]|\\.)*)"`' if lang == "go" else r'@SerialName\("((?:[^"\\]|\\.)*)"\)'
    marks, others = [], []
    for text in ans["ok"].values():
        for m in re.finditer(pat, text):
            cats = [unicodedata.category(chr(int(h, 16))) for h in DEBUG_U.findall(m.group(1))]
            if cats:
                (marks if all(c in ("Mn", "Me") for c in cats) else others).append(m.group(0))
    return marks, others


def unicode_identifier_part(check):
    """Dimension: *field identifiers beyond ASCII*.  Struct fields and struct-variant fields named with snake_case identifiers
    that contain non-ASCII lower-case letters (é ö ß ı ǆ Greek Cyrillic ŉ), title-case digraphs (ǅ ǈ ᾈ), uncased letters and
    digits (名 क ٣) or combining marks - at the start of the identifier, at the start of a later segment, inside and at the end -
    plus identifiers with non-ASCII upper-case letters (É Ö Σ İ Ж; outside the convention, only under no rule / lowercase / UPPERCASE /
    PascalCase / camelCase, which do not segment words), every fourth field with its own serde(rename); under no rule and each of
    the eight rename_all rules, on a struct, on a struct variant under its own rule and on a struct variant under an enum-level
    rule (which must not reach the fields), through all six back ends with random configurations.
    Demanded: the key each generated declaration binds (C01's extractors on the implementation's text) is serde's key - computed by
    the python port of case.rs, which is first shown equal to the vendored serde_derive case.rs (runner op `serde`) and to the Lean
    port on every identifier used.  serde maps ASCII letters only, so every non-ASCII letter must arrive unchanged under every rule;
    where serde_derive itself panics (camelCase on a non-ASCII initial: a byte slice) nothing is demanded.  The model's text is
    compared as well."""
    rng = check.rng
    t0 = time.time()
    rounds = 60 if check.thorough else 6
    cases, idents = [], set()
    for r in range(rounds):
        conv = []
        for i, cls in enumerate(["lower", "lower", "lower", "title", "uncased", "mark"]):
            pos = UNI_POSITIONS[(i + r) % 4]
            w = unicode_ident(rng, cls, pos)
            if w not in conv:
                conv.append(w)
                check.count("unicode-ident:%s@%s" % (cls, pos))
        conv += [w for w in rng.sample(WORDS, 2) if w not in conv]
        rng.shuffle(conv)
        unconv = []
        for i in range(4):
            pos = UNI_POSITIONS[(i + r) % 4]
            w = unicode_ident(rng, "upper", pos)
            if w not in unconv:
                unconv.append(w)
                check.count("unicode-ident:upper@%s" % pos)
        unconv += [unicode_ident(rng, "lower", "inner"), rng.choice(WORDS)]
        unconv = list(dict.fromkeys(unconv))
        rng.shuffle(unconv)
        idents |= {unraw(rust_ident(w)) for w in conv + unconv}
        cell = r
        for conventional, words, rules in ((True, conv, [None] + RULES), (False, unconv, NON_SEGMENTING)):
            for rule in rules:
                for ckind in (CKINDS if conventional else [CKINDS[cell % 3]]):
                    f = grid_file(rule, "some", ckind, words, cell, ftype=["u8", "String", "u32"][cell % 3])
                    applies = rule is not None and ckind != "variant-enum-rule"
                    for lang in LANGS:
                        cases.append(dict(file=f, gen=NoExt(), lang=lang, cfg=config(rng, lang), rule=rule, ckind=ckind, words=words,
                                          conventional=conventional, applies=applies, key=("unicode", r, conventional, rule, ckind, lang),
                                          cell=("unicode", r, rule, ckind) if r < 4 else None))
                    cell += 1
    truth = spec_tie(check, None, idents=idents, label="unicode spec-tie identifiers x rules")
    if truth is None:
        return []           # the ground truth itself is in doubt (reported)
    check.count("unicode spec-tie: serde_derive itself panics (camelCase, non-ASCII initial)", sum(1 for a in truth.values() if "ok" not in a))
    names = set()
    for c in cases:
        c["m"], c["r"], texts = l2.requests(c["lang"], c["cfg"], [{"crate": "", "file_name": "out", "path": "src/lib.rs", "file": c["file"]}], c["gen"])
        c["text"] = texts[0]
        if c["lang"] == "python":
            names |= l2.names_of(c["file"])
    mans = [l2.norm(a) for a in model([c["m"] for c in cases], names=names)]
    rans = [l2.norm(a) for a in runner([c["r"] for c in cases])]
    fails, first_diff, escapes, triples, sampled = [], None, None, 0, False
    for c, ma, ra in zip(cases, mans, rans):
        ok = "ok" in ra
        check.saw(c["key"], nontrivial=ok and c["applies"])
        check.count("unicode:%s-%s" % (c["lang"], "generated" if ok else "rejected"))
        check.count("unicode:%s/%s/%s" % (c["rule"] or "none", c["ckind"], "conventional" if c["conventional"] else "with-upper-case"))
        probs, n = oracle(c["lang"], c["cfg"], c["file"], ra)
        triples += n
        if ma != undo_mark_escapes(ra) and first_diff is None:
            first_diff = (c, ma, ra)
        esc, bad = foreign_escape_problems(c["lang"], ra)
        probs += ["%s writes the key as %s: `\\u{..}` is not an escape sequence of that language, the declaration does not bind serde's key" % (c["lang"], b)
                  for b in bad]
        if probs:
            fails.append((c, probs, ma, ra))
        if esc and escapes is None:
            escapes = {"lang": c["lang"], "source": c["text"], "written": esc[:3], "request": c["r"]}
        if esc:
            check.count("unicode:%s key written with a \\u{..} escape the language does not have" % c["lang"], len(esc))
        if ok and c["applies"] and c["conventional"] and not sampled and c["lang"] == "go" and c["rule"] == "SCREAMING-KEBAB-CASE":
            sampled = True
            check.sample({"lang": c["lang"], "config": c["cfg"], "source": c["text"], "serde_keys": [[k, list(map(str, n_)), ks] for k, n_, ks in expected(c["file"])],
                          "bound_keys": EXTRACT[c["lang"]]("\n".join(ra["ok"].values()))}, limit=7)
    check.extra["unicode_triples_checked"] = triples
    check.extra["unicode_part_s"] = round(time.time() - t0, 2)
    if fails:
        fails.sort(key=lambda t: not t[0]["conventional"])        # a witness inside the naming convention first
        c, probs, ma, ra = fails[0]
        scope = "" if c["conventional"] else " (an identifier with an upper-case letter: outside the naming convention, under a rule that does not segment words)"
        check.violation("generated %s code binds a field whose identifier has non-ASCII letters to a JSON key that is not serde's%s, rename_all = %s on a %s: %s"
                        % (c["lang"], scope, c["rule"], c["ckind"], probs[0]),
                        case={"lang": c["lang"], "config": c["cfg"], "source": c["text"], "rename_all": c["rule"], "container": c["ckind"],
                              "identifiers": c["words"], "serde_keys": [[k, list(map(str, n_)), ks] for k, n_, ks in expected(c["file"])],
                              "problems": probs[:8], "request": c["r"],
                              "failing_cases": sorted({"%s/%s/%s" % (x[0]["lang"], x[0]["rule"], x[0]["ckind"]) for x in fails})[:60]},
                        impl=ra, model=ma, failing_input=True)
    elif first_diff:
        c, ma, ra = first_diff
        d = None
        if "ok" in ma and "ok" in ra:
            for k in ra["ok"]:
                d = d or l2.text_diff(ma["ok"].get(k, ""), undo_mark_escapes(ra)["ok"][k])
        check.violation("the %s generator differs from the model on field identifiers with non-ASCII letters: %s" % (c["lang"], d or (str(ma)[:200] + " vs " + str(ra)[:200])),
                        case={"lang": c["lang"], "config": c["cfg"], "source": c["text"], "request": c["r"]}, impl=ra, model=ma,
                        failing_input=False,
                        broken="correspondence L2 parse+generate_types on identifiers beyond ASCII (outside InScopeC01's [a-z][a-z0-9_]*; the theorems "
                               "TsV.C01.* do not speak about these inputs, the agreement is empirical)")
    if escapes and not check.known(ESCAPE_FINDING, escapes):
        check.notes.append("finding not listed in KNOWN_FINDINGS.txt (%s): a key with a combining mark is Debug-formatted as `\\u{301}` inside a Go "
                           "struct tag / a Kotlin @SerialName argument, where that is not an escape sequence; not judged here. First: %s"
                           % (ESCAPE_FINDING, escapes["written"][0]))
        check.extra["unlisted_finding_" + ESCAPE_FINDING] = escapes
    check.assumptions += [
        "identifiers beyond ASCII: a TypeScript property name may be any ECMAScript IdentifierName; `\\u{h}` inside a quoted TypeScript key or a "
        "Swift raw value denotes the character (both languages have that escape); Go's encoding/json ignoring *unexported* fields (a Go field "
        "name that starts with a letter outside Lu, as `é`, `名前`) is outside the binding semantics used here (the json tag)"]
    return cases


# ----------------------------------------------------------------------------- the check

def run(check):
    rng = check.rng
    nrandom = 5000 if check.thorough else 230
    check.rule = ("(a) random programs of 1-4 annotated structs / algebraic enums with struct variants; conventional field names "
                  "(%d words incl. the keywords of all six target languages, raw identifiers where Rust needs them), "
                  "serde(rename) on 45%% of the fields (plain, dashed, keyword values), rename_all (8 rules, 5%% unknown) on 70%% of the "
                  "containers and of the struct variants, skip / default / decorators, merged and split attribute spellings in "
                  "any order; each under all six languages with random prefix / package / type-mapping / acronym configuration; "
                  "(b) the grid {no rule, 8 rules} x {no rename, plain, dashed, keyword rename} x {struct, struct variant under an "
                  "enum-level rule, struct variant under its own rule} over a 40-identifier dictionary, x 6 languages "
                  "(thorough: exhaustive; quick: every cell under one language in rotation). Model text vs implementation text "
                  "byte-exact; the oracle extracts (declaration, field index, bound JSON key) from the implementation's text per "
                  "language and compares with serde's key computed in python from the source AST. non-trivial = some field of "
                  "the program is renamed or under a rename_all rule; "
                  "(c) field identifiers beyond ASCII (unicode_identifier_part): %d rounds of 8 + 6 random snake_case identifiers with "
                  "non-ASCII lower-case / title-case / uncased letters, combining marks (and, outside the convention, upper-case "
                  "letters) at the start, at a segment start, inside and at the end, x {no rule, 8 rules} x {struct, variant under "
                  "enum-level rule, variant under own rule} x 6 languages; same oracle, serde's key from the python port of case.rs "
                  "tied to the vendored case.rs on every identifier used; non-trivial there = a rule applies to the fields"
                  % (len(WORDS), 60 if check.thorough else 6))
    cases = []
    for i in range(nrandom):
        f, g = random_file(rng)
        nontrivial = any(serde_nv(a, "rename") is not None or serde_nv(a, "rename_all") is not None
                         for a in all_attr_lists(f))
        for lang in LANGS:
            cases.append(dict(file=f, gen=g, lang=lang, cfg=config(rng, lang), nontrivial=nontrivial,
                              key=("random", i, lang), cell=None))
    cell_no = 0
    for rule in [None] + RULES:
        for rkind in ("absent", "plain", "dashed", "keyword"):
            for ckind in ("struct", "variant-enum-rule", "variant-own-rule"):
                f = grid_file(rule, rkind, ckind, DICT, cell_no)
                langs = LANGS if check.thorough else [LANGS[cell_no % 6]]
                for lang in langs:
                    cases.append(dict(file=f, gen=NoExt(), lang=lang, cfg=config(rng, lang), nontrivial=bool(rule) or rkind != "absent",
                                      key=("grid", rule, rkind, ckind, lang), cell=(rule or "none", rkind, ckind)))
                cell_no += 1
    names = set()
    for c in cases:
        c["m"], c["r"], texts = l2.requests(c["lang"], c["cfg"], [{"crate": "", "file_name": "out", "path": "src/lib.rs", "file": c["file"]}], c["gen"])
        c["text"] = texts[0]
        if c["lang"] == "python":
            names |= l2.names_of(c["file"])
    spec_tie(check, cases)
    mans = [l2.norm(a) for a in model([c["m"] for c in cases], names=names)]
    rans = [l2.norm(a) for a in runner([c["r"] for c in cases])]
    first_diff = None
    oracle_fail = None
    triples = 0
    for c, ma, ra in zip(cases, mans, rans):
        ok = "ok" in ra
        check.saw(c["key"], nontrivial=c["nontrivial"] and ok)
        check.count("%s-%s" % (c["lang"], "generated" if ok else "rejected"))
        if c["cell"]:
            check.count("grid:%s/%s/%s" % c["cell"])
        probs, n = oracle(c["lang"], c["cfg"], c["file"], ra)
        triples += n
        if probs and oracle_fail is None:
            oracle_fail = (c, probs, ma, ra)
        if ma != ra and first_diff is None:
            first_diff = (c, ma, ra)
        if ok and c["nontrivial"] and len(check.samples) < 4 and c["lang"] == LANGS[len(check.samples) % 6]:
            got = EXTRACT[c["lang"]]("\n".join(ra["ok"].values()))
            check.sample({"lang": c["lang"], "config": c["cfg"], "source": c["text"], "serde_keys": [[k, list(map(str, n_)), ks] for k, n_, ks in expected(c["file"])],
                          "bound_keys": got})
    check.extra["triples_checked"] = triples
    if oracle_fail:
        c, probs, ma, ra = oracle_fail
        check.violation("generated %s code binds a field to a JSON key that is not serde's: %s" % (c["lang"], probs[0]),
                        case={"lang": c["lang"], "config": c["cfg"], "source": c["text"], "problems": probs[:5], "request": c["r"]},
                        impl=ra, model=ma, failing_input=True)
    elif first_diff:
        c, ma, ra = first_diff
        d = None
        if "ok" in ma and "ok" in ra:
            for k in ra["ok"]:
                d = d or l2.text_diff(ma["ok"].get(k, ""), ra["ok"][k])
        check.violation("the %s generator differs from the model on an in-scope program: %s" % (c["lang"], d or (str(ma)[:200] + " vs " + str(ra)[:200])),
                        case={"lang": c["lang"], "config": c["cfg"], "source": c["text"], "request": c["r"]}, impl=ra, model=ma,
                        failing_input=False,
                        broken="correspondence L2 parse+generate_types (theorems TsV.C01.C01, C01_backend_struct, C01_backend_enum, C01_parse_struct, C01_parse_variant)")
    beyond_ascii = unicode_identifier_part(check) if not check.has_failing() else []
    if check.thorough:
        check.exhaustive = True
        check.extra["exhaustive_scope"] = ("{none, 8 rules} x {rename absent, plain, dashed, keyword} x {struct, variant under enum-level "
                                           "rule, variant under own rule} x 6 languages x 40 identifiers")
        # (with the real derive macro on the identifiers beyond ASCII of the first rounds, too)
        serde_compiled(check, [c for c in cases if c["lang"] == "typescript"] + [c for c in beyond_ascii if c["lang"] == "typescript" and c["cell"]])
    check.assumptions += [
        "what a generated declaration means in its language (which JSON key a property / parameter / tag binds) is the binding "
        "semantics stated in TsV/Lemmas/C01_Spec.lean and, independently, in the extractors of tools/c01.py; the target compilers "
        "and JSON libraries themselves are not run",
        "collisions of two keys after '-' -> '_' within one declaration are excluded (hypothesis Distinct; a C10 matter)",
        "typeshare reads serde(rename) trimmed (literal_to_string); invisible on the key alphabet (theorem serdeRename_raw)"]


def all_attr_lists(file):
    for it in flat_items(file["items"]):
        yield it["attrs"]
        if it["kind"] == "struct" and it["fields"][0] != "unit":
            for f in it["fields"][1]:
                yield f["attrs"]
        if it["kind"] == "enum":
            for v in it["variants"]:
                yield v["attrs"]
                if v["fields"][0] != "unit":
                    for f in v["fields"][1]:
                        yield f["attrs"]


def spec_tie(check, cases, idents=None, label="spec-tie identifiers x rules"):
    """the python port of RenameRule::apply_to_field (the oracle's ground truth) against the vendored serde_derive case.rs
    (through the runner) and against the Lean port, on every identifier the cases use; returns the vendored answers
    {(identifier, rule): answer}"""
    idents = set(DICT) | set(WORDS) if idents is None else set(idents)
    reqs, mreqs, meta = [], [], []
    for w in sorted(idents):
        for rule in RULES:
            reqs.append({"op": "serde", "pos": "field", "rule": rule, "s": w})
            mreqs.append([S("serde"), S("field"), rule, w])
            meta.append((w, rule))
    rans = runner(reqs)
    mans = model(mreqs)
    for (w, rule), ra, ma in zip(meta, rans, mans):
        mine = serde_rule(rule, w)
        want = {"ok": mine} if mine is not None else None
        if (want is None and "ok" in ra) or (want is not None and ra != want):
            check.violation("the python port of serde's rename rule disagrees with the vendored case.rs on %r under %s" % (w, rule),
                            case={"ident": w, "rule": rule, "python": mine}, impl=ra, model=ma, failing_input=False,
                            broken="specification tie: tools/c01.py serde_rule vs serde_derive case.rs")
            return
        if ("ok" in ra) != ("ok" in ma) or ("ok" in ra and ra != ma):
            check.violation("Serde.applyField (Lean) disagrees with the vendored case.rs on %r under %s" % (w, rule),
                            case={"ident": w, "rule": rule}, impl=ra, model=ma, failing_input=False,
                            broken="specification tie: TsV.Serde.applyField vs serde_derive case.rs (theorem TsV.C01.C01_parse_field)")
            return
    check.count(label, len(meta))
    return {k: ra for k, ra in zip(meta, rans)}


# ----------------------------------------------------------------------------- thorough: the real serde_derive

SERDE_KEEP = {"rename", "rename_all", "tag", "content"}


def serde_only(attrs):
    out = []
    for a in attrs:
        if a[0] == "l" and a[1] == ["serde"] and a[2]:
            args = [x for x in a[3] if (x[0] == "nv" and x[1][0] in SERDE_KEEP and x[2] and x[2][0] == "s") or
                    (x[0] == "p" and x[1] == ["skip"])]
            if args:
                out.append((a[0], a[1], a[2], args, a[4]))
    return out


def serde_program(idx, file):
    """the program with every field type replaced by u8, only the serde attributes that matter kept, plus a function
    printing the serialised form of a default value of every struct / struct variant (a field on which serde_derive itself
    panics - camelCase on a non-ASCII initial - is left out: the crate would not compile)"""
    items, prints = [], []
    for it in flat_items(file["items"]):
        if it["kind"] == "struct" and it["fields"][0] == "named":
            ra = serde_nv(it["attrs"], "rename_all")
            if ra is not None and ra not in RULES:
                return None
            fs = [field(serde_only(f["attrs"]), f["ident"], t_path("u8")) for f in it["fields"][1] if serde_key(f, ra) is not None]
            items.append({"kind": "struct", "attrs": [m_list("derive", [m_path("serde", "Serialize"), m_path("Default")])] + serde_only(it["attrs"]),
                          "ident": it["ident"], "generics": [], "fields": ("named", fs)})
            prints.append(('S', it["ident"], None, "%s::default()" % it["ident"]))
        elif it["kind"] == "enum":
            ra = serde_nv(it["attrs"], "rename_all")
            if ra is not None and ra not in RULES:
                return None
            vs = []
            for v in it["variants"]:
                vra = serde_nv(v["attrs"], "rename_all")
                if vra is not None and vra not in RULES:
                    return None
                if v["fields"][0] == "named":
                    kept = [f for f in v["fields"][1] if serde_key(f, vra) is not None]
                    fs = [field(serde_only(f["attrs"]), f["ident"], t_path("u8")) for f in kept]
                    vs.append({"attrs": serde_only(v["attrs"]), "ident": v["ident"], "fields": ("named", fs)})
                    if not skip_marked(v["attrs"]):
                        init = ", ".join("%s: 0" % f["ident"] for f in kept)
                        prints.append(('V', it["ident"], v["ident"], "%s::%s { %s }" % (it["ident"], v["ident"], init)))
                elif v["fields"][0] == "unnamed":
                    vs.append({"attrs": serde_only(v["attrs"]), "ident": v["ident"], "fields": ("unnamed", [field([], None, t_path("u8"))])})
                else:
                    vs.append({"attrs": serde_only(v["attrs"]), "ident": v["ident"], "fields": ("unit",)})
            items.append({"kind": "enum", "attrs": [m_list("derive", [m_path("serde", "Serialize")])] + serde_only(it["attrs"]),
                          "ident": it["ident"], "generics": [], "variants": vs})
    body = "".join(plain_item(it) for it in items)
    body += "    pub fn show() {\n"
    for kind, a, b, expr in prints:
        body += '        println!("%d\\t%s\\t%s\\t{}", serde_json::to_string(&%s).unwrap());\n' % (idx, a, b or "", expr)
    body += "    }\n"
    return "#[allow(non_snake_case, non_camel_case_types, dead_code, uncommon_codepoints, mixed_script_confusables, confusable_idents)]\npub mod p%d {\n%s}\n" % (idx, body)


def plain_item(it):
    """rustc (unlike syn) rejects `pub` on the fields of a struct variant"""
    lines = render_item(it, "    ").split("\n")
    if it["kind"] == "enum":
        lines = lines[:1] + [l.replace(" pub ", " ") for l in lines[1:]]
    return "\n".join(lines)


def serde_compiled(check, cases):
    """spec tie of the thorough tier: compile programs with the real serde_derive / serde_json from the offline registry and
    compare the JSON keys of a serialised value with the python key computation (supports the specification)"""
    rng = check.rng
    picked = [c for c in cases if c["cell"]] + rng.sample([c for c in cases if not c["cell"]], 200)
    mods, used = [], []
    for i, c in enumerate(picked):
        src = serde_program(i, c["file"])
        if src:
            mods.append(src)
            used.append((i, c))
    crate = os.path.join(BUILD, "serde-tie")
    os.makedirs(os.path.join(crate, "src"), exist_ok=True)
    with open(os.path.join(crate, "Cargo.toml"), "w") as f:
        f.write('[package]\nname = "serde-tie"\nversion = "0.1.0"\nedition = "2021"\n\n[workspace]\n\n[dependencies]\n'
                'serde = { version = "1", features = ["derive"] }\nserde_json = "1"\n\n[profile.dev]\nopt-level = 0\ndebug = false\n')
    shutil.copyfile(os.path.join(RUNNER_DIR, "Cargo.lock"), os.path.join(crate, "Cargo.lock"))
    with open(os.path.join(crate, "src", "main.rs"), "w") as f:
        f.write("".join(mods) + "fn main() {\n" + "".join("    p%d::show();\n" % i for i, _ in used) + "}\n")
    rc, out = sh(["cargo", "run", "--offline", "-q", "--target-dir", os.path.join(BUILD, "target-serde")], cwd=crate, timeout=1800)
    if rc != 0:
        # Cargo.lock of the runner may carry more packages than this crate needs; let cargo prune it
        os.remove(os.path.join(crate, "Cargo.lock"))
        rc, out = sh(["cargo", "run", "--offline", "-q", "--target-dir", os.path.join(BUILD, "target-serde")], cwd=crate, timeout=1800)
    if rc != 0:
        raise InfraError("the serde tie crate does not compile:\n" + out[-3000:])
    got = {}
    for line in out.splitlines():
        parts = line.split("\t")
        if len(parts) == 4 and parts[0].isdigit():
            got[(int(parts[0]), parts[1], parts[2])] = json.loads(parts[3])
    n = 0
    for i, c in used:
        pairs = []      # (what, keys the specification computes, keys serde_json printed)
        for it in flat_items(c["file"]["items"]):
            if it["kind"] == "struct" and it["fields"][0] == "named":
                ra = serde_nv(it["attrs"], "rename_all")
                pairs.append((it["ident"], [serde_key(f, ra) for f in it["fields"][1] if not serde_skip(f["attrs"]) and serde_key(f, ra) is not None],
                              list(got.get((i, it["ident"], ""), {"<missing>": 0}).keys())))
            elif it["kind"] == "enum":
                content = serde_nv(it["attrs"], "content")
                for v in it["variants"]:
                    if v["fields"][0] != "named" or skip_marked(v["attrs"]):
                        continue
                    vra = serde_nv(v["attrs"], "rename_all")
                    obj = got.get((i, it["ident"], v["ident"]))
                    pairs.append((it["ident"] + "::" + v["ident"],
                                  [serde_key(f, vra) for f in v["fields"][1] if not serde_skip(f["attrs"]) and serde_key(f, vra) is not None],
                                  list(obj[content].keys()) if obj and content in obj else ["<missing>"]))
        for what, want, have in pairs:
            n += len(want)
            if want != have:
                check.violation("the real serde_derive serialises other keys than the specification computes: %s vs %s" % (have, want),
                                case={"source": c["text"], "item": what}, impl={"serde_json": have}, model={"spec": want},
                                failing_input=False, broken="specification tie: serde key computation vs serde_derive/serde_json")
                return
    check.count("serde-compiled keys", n)
    check.extra["serde_compiled_programs"] = len(used)


def serde_skip(attrs):
    return any(x[0] == "p" and x[1] == ["skip"] for x in serde_args(attrs))
