import TsV.Lemmas.Topsort
/-! the topological-order invariant of `toposort_impl::inner` on acyclic graphs -/
namespace TsV.Topsort

/-- `i` depends on `j` -/
def Edge (g : List (List Nat)) (i j : Nat) : Prop := ∃ deps, g[i]? = some deps ∧ j ∈ deps

/-- reachability by at least one edge -/
inductive Reach (g : List (List Nat)) : Nat → Nat → Prop
  | single {a b} : Edge g a b → Reach g a b
  | step {a b c} : Reach g a b → Edge g b c → Reach g a c

def Acyclic (g : List (List Nat)) : Prop := ∀ a, ¬ Reach g a a

/-- every emitted node has all its dependencies strictly before it -/
def Ord (g : List (List Nat)) (res : List Nat) : Prop :=
  ∀ pre i post, res = pre ++ i :: post → ∀ deps, g[i]? = some deps → ∀ j ∈ deps, j ∈ pre

/-- every node on the DFS stack reaches every node still to be visited at this level -/
def PathInv (g : List (List Nat)) (seen nodes : List Nat) : Prop :=
  ∀ s ∈ seen, ∀ x ∈ nodes, Reach g s x

theorem split_snoc {α} (pre : List α) (i : α) (post l : List α) (d : α)
    (h : pre ++ i :: post = l ++ [d]) :
    (post = [] ∧ pre = l ∧ i = d) ∨ (∃ post', post = post' ++ [d] ∧ l = pre ++ i :: post') := by
  rcases List.eq_nil_or_concat post with rfl | ⟨post', x, rfl⟩
  · left
    have : pre ++ [i] = l ++ [d] := by simpa using h
    have h1 := List.append_inj' this rfl
    exact ⟨rfl, h1.1, by simpa using h1.2⟩
  · right
    have : (pre ++ i :: post') ++ [x] = l ++ [d] := by simpa using h
    have h1 := List.append_inj' this rfl
    refine ⟨post', ?_, h1.1.symm⟩
    have : x = d := by simpa using h1.2
    subst this; simp

theorem ord_snoc (g : List (List Nat)) (res : List Nat) (d : Nat) (ho : Ord g res)
    (hd : ∀ deps, g[d]? = some deps → ∀ j ∈ deps, j ∈ res) : Ord g (res ++ [d]) := by
  intro pre i post h deps hdeps j hj
  rcases split_snoc pre i post res d h.symm with ⟨_, rfl, rfl⟩ | ⟨post', _, hres⟩
  · exact hd deps hdeps j hj
  · exact ho pre i post' hres deps hdeps j hj

theorem inner_ord (g : List (List Nat)) (hac : Acyclic g) :
    ∀ fuel nodes st st', inner g fuel nodes st = some st' → PathInv g st.seen nodes → Ord g st.res →
      Ord g st'.res ∧ ∀ d ∈ nodes, d ∈ st'.res := by
  intro fuel nodes st
  fun_induction inner g fuel nodes st with
  | case1 => intro st' h; simp at h
  | case2 => intro st' h _ ho; simp at h; subst h; exact ⟨ho, by simp⟩
  | case3 fuel d rest st hres ih =>
    intro st' h hp ho
    obtain ⟨ho', hc⟩ := ih st' h (fun s hs x hx => hp s hs x (by simp [hx])) ho
    refine ⟨ho', ?_⟩
    intro x hx
    simp only [List.mem_cons] at hx
    rcases hx with rfl | hx
    · obtain ⟨_, new, hr, _, _⟩ := inner_spec g _ _ _ _ h
      rw [hr]; simp at hres; simp [hres]
    · exact hc x hx
  | case4 fuel d rest st hres hseen =>
    intro st' h hp _
    have hd : d ∈ st.seen := by simpa using hseen
    exact absurd (hp d hd d (by simp)) (hac d)
  | case5 fuel d rest st hres hseen hnone => intro st' h; simp at h
  | case6 fuel d rest st hres hseen deps hdeps hnone ih1 => intro st' h; simp at h
  | case7 fuel d rest st hres hseen deps hdeps st1 hsome ih1 ih2 =>
    intro st' h hp ho
    have hdseen : d ∉ st.seen := by simpa using hseen
    -- the recursive call on the dependencies of `d`
    have hp1 : PathInv g (st.seen ++ [d]) deps := by
      intro s hs x hx
      simp only [List.mem_append, List.mem_singleton] at hs
      rcases hs with hs | rfl
      · exact Reach.step (hp s hs d (by simp)) ⟨deps, hdeps, hx⟩
      · exact Reach.single ⟨deps, hdeps, hx⟩
    obtain ⟨ho1, hc1⟩ := ih1 st1 hsome hp1 ho
    obtain ⟨hs1, _⟩ := inner_spec g _ _ _ _ hsome
    have hseen2 : st1.seen.erase d = st.seen := by
      simp at hs1; rw [hs1, erase_append_self hdseen]
    have ho2 : Ord g (st1.res ++ [d]) := by
      apply ord_snoc g _ _ ho1
      intro deps' hd' j hj
      rw [hdeps] at hd'; cases hd'
      exact hc1 j hj
    have hp2 : PathInv g (st1.seen.erase d) rest := by
      rw [hseen2]; exact fun s hs x hx => hp s hs x (by simp [hx])
    obtain ⟨ho', hc'⟩ := ih2 st' h hp2 ho2
    refine ⟨ho', ?_⟩
    intro x hx
    simp only [List.mem_cons] at hx
    rcases hx with rfl | hx
    · obtain ⟨_, new, hr, _, _⟩ := inner_spec g _ _ _ _ h
      rw [hr]; simp
    · exact hc' x hx

end TsV.Topsort
