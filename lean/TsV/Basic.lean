def hello := "world"
