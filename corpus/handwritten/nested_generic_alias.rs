#[typeshare]
pub struct Tuple1(pub Vec<Option<HashMap<String, [u8; 3]>>>);
#[typeshare]
pub struct Tuple0();
#[typeshare]
pub struct TupleNamedAttr(#[serde(rename = "x")] #[typeshare(serialized_as = "u8")] pub Foo);
#[typeshare]
pub struct Unit;
#[typeshare]
pub struct Empty {}
#[typeshare]
pub struct G<A, B, 'a, const C: usize> { a: A, b: HashMap<A, B>, c: G<B, A> }
#[typeshare]
pub type Al2<A> = G<A, A>;
#[typeshare]
pub type Self_ = Self_;
#[typeshare]
pub struct Dup { pub a: u8 }
#[typeshare]
pub struct Dup { pub b: u8 }
#[typeshare]
pub enum Dup { X }
